#!/usr/bin/env python3
"""Regenerates /verif/MANIFEST.json from the table below (kept next to the checks so the
manifest never drifts from what is registered). Run: python3 gen_manifest.py"""
import json, subprocess, sys

SETUP = ("cd /verif/tool && env GOFLAGS=-mod=mod GOPROXY=off GOSUMDB=off GOTOOLCHAIN=local GOWORK=off "
         "/opt/veriftools/go1.26.8/bin/go build -o /verif/bin/ledgerlint ./cmd/ledgerlint && /verif/bin/ledgerlint warm")

BASELINE_OFF = json.load(open("/root/.vp/BASELINE.json"))["cmd"] if __import__("os").path.exists("/root/.vp/BASELINE.json") else "for m in $(cat /w/out/gomods.txt); do MF=$(cd /repo/$m && . /w/out/goenv.sh && gomodflag); (cd /repo/$m && go test $MF -json -vet=off -count=1 -timeout 25m ./...); done"

# id -> (technique, level text, level note, design ref)
CLAIMED = {}

def claim(pid, technique, text, note, ref):
    CLAIMED[pid] = (technique, text, note, ref)

NOT_APPLICABLE = {}

def na(pid, reason):
    NOT_APPLICABLE[pid] = reason

exec(open('/verif/manifest_table.py').read())

props = [json.loads(l)["id"] for l in open('/verif/properties.jsonl')]
checks = []
for pid in props:
    if pid in CLAIMED:
        tech, text, note, ref = CLAIMED[pid]
        checks.append({
            "property_id": pid,
            "quick_cmd": f"/verif/bin/ledgerlint check --property {pid} --tier quick",
            "thorough_cmd": f"/verif/bin/ledgerlint check --property {pid} --tier thorough",
            "evidence_file": f"/verif/evidence/{pid}.json",
            "replay_cmd_template": "/verif/bin/ledgerlint replay {path}",
            "engine": "ledgerlint",
            "level_claimed": {"category": "other", "text": text, "design_ref": ref},
            "level_note": note,
            "technique": tech,
        })
missing = [p for p in props if p not in CLAIMED and p not in NOT_APPLICABLE]
if missing:
    sys.exit(f"properties neither claimed nor not_applicable: {missing}")
both = [p for p in props if p in CLAIMED and p in NOT_APPLICABLE]
if both:
    sys.exit(f"properties both claimed and not_applicable: {both}")

manifest = {
    "version": 1,
    "setup_cmd": SETUP,
    "hooks": {
        "guard": "verif",
        "enable": "no hooks: the analyser reads /repo's source as it is (default build tags); nothing in /repo is instrumented",
        "baseline_off_cmd": BASELINE_OFF,
        "source_commits": [],
        "add_only": True,
    },
    "engines": [{
        "name": "ledgerlint",
        "path": "/verif/tool",
        "serves_properties": sorted(CLAIMED),
        "kind_free_text": "repository-specific static analyser: typed Go AST + go/cfg + call index (golang.org/x/tools v0.50.0), own SQL front-end folding the bucket migrations into a final catalog, bun statement model, regular-language inclusion; no code of /repo is executed",
    }],
    "checks": checks,
    "not_applicable": [{"property_id": p, "reason": NOT_APPLICABLE[p]} for p in props if p in NOT_APPLICABLE],
    "notes": "All checks are static analyses at level 'other': each decides a structural necessary condition of its property on /repo's current source and says in its evidence what it does not decide. Known genuine defects are listed in /verif/known_findings.json and printed as KNOWN-FINDING lines.",
}
json.dump(manifest, open('/verif/MANIFEST.json', 'w'), indent=1)
print(f"claimed {len(checks)}, not applicable {len(NOT_APPLICABLE)}")
