package bunq

import (
	"go/ast"
	"go/token"
	"go/types"
	"regexp"
	"strings"

	"ledgerlint/internal/astx"
)

// Evaluator evaluates Go string expressions symbolically into a bounded set of alternative
// SQL texts. Unknown Go values are rendered as {{go:expr}} template actions (which the SQL
// lexer keeps as single tokens) and make the result "opaque".
type Evaluator struct {
	info *types.Info
	fd   *ast.FuncDecl
	// assignments to local string variables
	assigns map[types.Object][]ast.Expr
	bad     map[types.Object]bool
	depth   int
	// subst binds the parameters of an inlined single-return helper to the caller's values
	subst map[types.Object]substVal
}

type substVal struct {
	alts   []string
	opaque bool
}

// FuncDeclOf, when set, resolves a function of the analysed program to its declaration; the
// evaluator then reads through helpers whose body is a single `return <expr>`.
var FuncDeclOf func(*types.Func) *ast.FuncDecl

const maxAlts = 32

func NewEvaluator(info *types.Info, fd *ast.FuncDecl) *Evaluator {
	ev := &Evaluator{info: info, fd: fd, assigns: map[types.Object][]ast.Expr{}, bad: map[types.Object]bool{}}
	if fd.Body != nil {
		ast.Inspect(fd.Body, func(n ast.Node) bool {
			switch x := n.(type) {
			case *ast.AssignStmt:
				if len(x.Lhs) == len(x.Rhs) {
					for i, l := range x.Lhs {
						if id, ok := l.(*ast.Ident); ok {
							obj := info.Defs[id]
							if obj == nil {
								obj = info.Uses[id]
							}
							if obj == nil {
								continue
							}
							if x.Tok == token.ASSIGN || x.Tok == token.DEFINE {
								ev.assigns[obj] = append(ev.assigns[obj], x.Rhs[i])
							} else {
								ev.bad[obj] = true
							}
						}
					}
				} else {
					for _, l := range x.Lhs {
						if id, ok := l.(*ast.Ident); ok {
							if obj := info.ObjectOf(id); obj != nil {
								ev.bad[obj] = true
							}
						}
					}
				}
			case *ast.ValueSpec:
				if len(x.Names) == len(x.Values) {
					for i, id := range x.Names {
						if obj := info.Defs[id]; obj != nil {
							ev.assigns[obj] = append(ev.assigns[obj], x.Values[i])
						}
					}
				}
			case *ast.RangeStmt:
				for _, l := range []ast.Expr{x.Key, x.Value} {
					if id, ok := l.(*ast.Ident); ok {
						if obj := info.ObjectOf(id); obj != nil {
							ev.bad[obj] = true
						}
					}
				}
			case *ast.UnaryExpr:
				if x.Op == token.AND {
					if id, ok := x.X.(*ast.Ident); ok {
						if obj := info.ObjectOf(id); obj != nil {
							ev.bad[obj] = true
						}
					}
				}
			}
			return true
		})
	}
	return ev
}

func opaqueText(e ast.Expr) string {
	s := astx.ExprString(e)
	s = strings.NewReplacer("{", "(", "}", ")", "\n", " ").Replace(s)
	return "{{go:" + s + "}}"
}

var verbRe = regexp.MustCompile(`%[-+# 0]*[0-9]*(\.[0-9]+)?[a-zA-Z%]`)

// Eval returns the alternative values of e and whether any part is unknown.
func (ev *Evaluator) Eval(e ast.Expr) (alts []string, opaque bool) {
	ev.depth++
	defer func() { ev.depth-- }()
	if ev.depth > 12 {
		return []string{opaqueText(e)}, true
	}
	e = ast.Unparen(e)
	if s, ok := astx.ConstString(ev.info, e); ok {
		return []string{s}, false
	}
	if ev.ledgerField(e) != "" {
		return []string{ev.renderValue(e)}, false
	}
	switch x := e.(type) {
	case *ast.BinaryExpr:
		if x.Op == token.ADD {
			l, lo := ev.Eval(x.X)
			r, ro := ev.Eval(x.Y)
			return product(l, r), lo || ro
		}
	case *ast.Ident:
		obj := ev.info.Uses[x]
		if obj == nil {
			break
		}
		if sv, ok := ev.subst[obj]; ok {
			return sv.alts, sv.opaque
		}
		if v, ok := obj.(*types.Var); ok && !v.IsField() && obj.Pkg() != nil && obj.Parent() != obj.Pkg().Scope() {
			if ev.bad[obj] || len(ev.assigns[obj]) == 0 {
				break
			}
			var out []string
			op := false
			for _, rhs := range ev.assigns[obj] {
				// avoid self-recursion (x = x + ...)
				selfRef := false
				ast.Inspect(rhs, func(n ast.Node) bool {
					if id, ok := n.(*ast.Ident); ok && ev.info.Uses[id] == obj {
						selfRef = true
					}
					return true
				})
				if selfRef {
					return []string{opaqueText(e)}, true
				}
				a, o := ev.Eval(rhs)
				out = append(out, a...)
				op = op || o
			}
			return dedup(out), op
		}
	case *ast.CallExpr:
		f := astx.Callee(ev.info, x)
		if f == nil {
			break
		}
		if alts, op, ok := ev.inlineHelper(f, x); ok {
			return alts, op
		}
		switch {
		case f.Name() == "GetPrefixedRelationName" && len(x.Args) == 1:
			a, o := ev.Eval(x.Args[0])
			var out []string
			for _, s := range a {
				out = append(out, `"<bucket>".`+s)
			}
			return out, o
		case f.Pkg() != nil && f.Pkg().Path() == "fmt" && (f.Name() == "Sprintf") && len(x.Args) >= 1:
			fm, o := ev.Eval(x.Args[0])
			if o || len(fm) != 1 {
				break
			}
			format := fm[0]
			argi := 1
			res := []string{""}
			last := 0
			op := false
			for _, loc := range verbRe.FindAllStringIndex(format, -1) {
				lit := format[last:loc[0]]
				verb := format[loc[0]:loc[1]]
				last = loc[1]
				res = product(res, []string{lit})
				if verb == "%%" {
					res = product(res, []string{"%"})
					continue
				}
				if argi >= len(x.Args) {
					return []string{opaqueText(e)}, true
				}
				arg := x.Args[argi]
				argi++
				if bt, ok := ev.info.TypeOf(arg).Underlying().(*types.Basic); ok && bt.Info()&types.IsString != 0 {
					a, ao := ev.Eval(arg)
					res = product(res, a)
					op = op || ao
				} else if tv, ok := ev.info.Types[arg]; ok && tv.Value != nil {
					res = product(res, []string{tv.Value.ExactString()})
				} else {
					res = product(res, []string{ev.renderValue(arg)})
					if ev.ledgerField(arg) == "" {
						op = true
					}
				}
			}
			res = product(res, []string{format[last:]})
			return res, op
		case f.Name() == "ConvertOperatorToSQL":
			return []string{"{{op}}"}, false
		case f.Pkg() != nil && f.Pkg().Path() == "strings" && f.Name() == "Join" && len(x.Args) == 2:
			// strings.Join(conditions, sep): element alternatives joined once (shape only)
			sep, so := ev.Eval(x.Args[1])
			if so || len(sep) != 1 {
				break
			}
			el, ok := ev.sliceElems(x.Args[0])
			if !ok {
				break
			}
			var out []string
			for _, s := range el {
				out = append(out, s)
			}
			// one element, and two elements joined (to expose the separator)
			for _, s := range el {
				for _, t := range el {
					out = append(out, s+sep[0]+t)
					if len(out) > maxAlts {
						break
					}
				}
				if len(out) > maxAlts {
					break
				}
			}
			return dedup(out), false
		}
	}
	return []string{opaqueText(e)}, true
}

// ledgerField recognises x.ID / x.Name / x.Bucket where x is a ledger.Ledger value: these
// denote the ledger's id, name and bucket and are rendered as the markers the SQL
// front-end uses for per-ledger templates.
func (ev *Evaluator) ledgerField(e ast.Expr) string {
	se, ok := ast.Unparen(e).(*ast.SelectorExpr)
	if !ok {
		return ""
	}
	t := ev.info.TypeOf(se.X)
	if t == nil || !astx.IsNamed(t, "github.com/formancehq/ledger/internal", "Ledger") {
		return ""
	}
	switch se.Sel.Name {
	case "ID", "Name", "Bucket":
		return se.Sel.Name
	}
	return ""
}

func (ev *Evaluator) renderValue(e ast.Expr) string {
	switch ev.ledgerField(e) {
	case "ID":
		return "<id>"
	case "Name":
		return "<name>"
	case "Bucket":
		return "<bucket>"
	}
	return opaqueText(e)
}

// sliceElems collects the constant strings appended to a local []string variable.
func (ev *Evaluator) sliceElems(e ast.Expr) ([]string, bool) {
	id, ok := ast.Unparen(e).(*ast.Ident)
	if !ok {
		return nil, false
	}
	obj := ev.info.Uses[id]
	if obj == nil {
		return nil, false
	}
	var out []string
	okAll := true
	ast.Inspect(ev.fd.Body, func(n ast.Node) bool {
		call, ok := n.(*ast.CallExpr)
		if !ok {
			return true
		}
		if fid, ok := call.Fun.(*ast.Ident); ok && fid.Name == "append" && len(call.Args) >= 2 {
			if a0, ok := call.Args[0].(*ast.Ident); ok && ev.info.Uses[a0] == obj {
				for _, a := range call.Args[1:] {
					v, o := ev.Eval(a)
					if o {
						okAll = false
					}
					out = append(out, v...)
				}
			}
		}
		return true
	})
	if len(out) == 0 {
		return nil, false
	}
	return dedup(out), okAll
}

func product(a, b []string) []string {
	var out []string
	for _, x := range a {
		for _, y := range b {
			out = append(out, x+y)
			if len(out) >= maxAlts {
				return out
			}
		}
	}
	return out
}

func dedup(a []string) []string {
	seen := map[string]bool{}
	var out []string
	for _, s := range a {
		if !seen[s] {
			seen[s] = true
			out = append(out, s)
		}
	}
	return out
}

// inlineHelper evaluates a call to a same-package helper whose body is one `return <string expr>`.
func (ev *Evaluator) inlineHelper(f *types.Func, call *ast.CallExpr) ([]string, bool, bool) {
	if FuncDeclOf == nil || f.Name() == "GetPrefixedRelationName" || ev.depth > 8 {
		return nil, false, false
	}
	fd := FuncDeclOf(f)
	if fd == nil || fd.Body == nil {
		return nil, false, false
	}
	if ev.fd != nil && f.Pkg() != nil {
		// same package only: the callee's syntax must be covered by ev.info
		if _, ok := ev.info.Defs[fd.Name]; !ok {
			return nil, false, false
		}
	}
	// every return hands back one string expression (a single `return e`, or a selection between
	// constants: `if c { return a }; return b`)
	var rets []*ast.ReturnStmt
	plain := true
	ast.Inspect(fd.Body, func(n ast.Node) bool {
		switch x := n.(type) {
		case *ast.FuncLit:
			return false
		case *ast.ReturnStmt:
			rets = append(rets, x)
		case *ast.AssignStmt, *ast.ForStmt, *ast.RangeStmt, *ast.GoStmt, *ast.DeferStmt:
			if len(fd.Body.List) != 1 {
				plain = false
			}
		}
		return true
	})
	if len(rets) == 0 || (len(rets) > 1 && !plain) || (len(rets) == 1 && len(fd.Body.List) != 1) {
		return nil, false, false
	}
	for _, r := range rets {
		if len(r.Results) != 1 {
			return nil, false, false
		}
		if bt, ok := ev.info.TypeOf(r.Results[0]).Underlying().(*types.Basic); !ok || bt.Info()&types.IsString == 0 {
			return nil, false, false
		}
	}
	sub := &Evaluator{info: ev.info, fd: fd, assigns: map[types.Object][]ast.Expr{}, bad: map[types.Object]bool{}, depth: ev.depth, subst: map[types.Object]substVal{}}
	i := 0
	if fd.Type.Params != nil {
		for _, fl := range fd.Type.Params.List {
			for _, nm := range fl.Names {
				if i < len(call.Args) {
					if bt, ok := ev.info.TypeOf(call.Args[i]).Underlying().(*types.Basic); ok && bt.Info()&types.IsString != 0 {
						a, o := ev.Eval(call.Args[i])
						sub.subst[ev.info.Defs[nm]] = substVal{a, o}
					}
				}
				i++
			}
		}
	}
	var alts []string
	op := false
	for _, r := range rets {
		a, o := sub.Eval(r.Results[0])
		alts = append(alts, a...)
		op = op || o
	}
	return dedup(alts), op, true
}
