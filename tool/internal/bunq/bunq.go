// Package bunq recovers the SQL statements that the repository assembles through bun
// builders: for each builder chain it records the handle it started from, the clauses with
// their (symbolically evaluated) SQL text, the bound Go arguments, nested sub-queries and
// the conditions guarding each clause.
package bunq

import (
	"fmt"
	"go/ast"
	"go/token"
	"go/types"
	"sort"
	"strings"

	"golang.org/x/tools/go/packages"

	"ledgerlint/internal/astx"
	"ledgerlint/internal/sqlfe"
)

const bunPath = "github.com/uptrace/bun"

var queryTypes = map[string]string{
	"SelectQuery": "select", "InsertQuery": "insert", "UpdateQuery": "update", "DeleteQuery": "delete",
	"RawQuery": "raw", "ValuesQuery": "values", "MergeQuery": "merge",
}

var rootMethods = map[string]string{
	"NewSelect": "select", "NewInsert": "insert", "NewUpdate": "update", "NewDelete": "delete",
	"NewRaw": "raw", "NewValues": "values", "NewMerge": "merge",
}

// Clause is one builder method call.
type Clause struct {
	Method string
	Call   *ast.CallExpr
	// SQL holds the alternative texts of the first (string) argument when it could be
	// evaluated; Opaque is set when parts of it are unknown Go expressions (rendered {{go:…}}).
	SQL    []string
	HasSQL bool
	Opaque bool
	Args   []ast.Expr // arguments after the SQL text (or all arguments when there is none)
	Facts  []astx.Fact
	Subs   []*Statement // statements passed as arguments
}

// Statement is one builder object.
type Statement struct {
	Kind     string // select | insert | update | delete | raw | values
	RootKind string // new (db.NewX), scoped (newScopedSelect), derived (q.NewSelect()), param, call (result of another function), unknown
	Root     ast.Expr
	Handle   ast.Expr // receiver expression the root was created from (store.db, …)
	Pkg      *packages.Package
	Encl     *ast.FuncDecl
	Clauses  []*Clause
	Parent   *Statement
	// Terminal is the executing method (Exec, Scan, Count, …) if the chain is run in this function.
	Terminal string
	Returned bool
	// Merged is set on the param-rooted fragment of a helper once its clauses have been appended
	// to the statement of a caller (the fragment is then dropped from the model).
	Merged bool
	// RawSQL holds the parsed statement of NewRaw roots.
	Raw     *sqlfe.Stmt
	RawText string
	RawErr  error
	RawArgs []ast.Expr
}

func (s *Statement) Pos() token.Pos { return s.Root.Pos() }

// ClausesNamed returns the clauses with one of the given method names.
func (s *Statement) ClausesNamed(names ...string) []*Clause {
	var out []*Clause
	for _, c := range s.Clauses {
		for _, n := range names {
			if c.Method == n {
				out = append(out, c)
			}
		}
	}
	return out
}

// Tables returns the normalised table names the statement names through
// ModelTableExpr / TableExpr / Table / Join, with their aliases; sub-query items are "(sub)".
func (s *Statement) Tables() []string {
	var out []string
	add := func(t string) {
		for _, x := range out {
			if x == t {
				return
			}
		}
		out = append(out, t)
	}
	for _, c := range s.ClausesNamed("ModelTableExpr", "TableExpr", "Table") {
		for _, txt := range c.SQL {
			add(tableOfExpr(txt))
		}
	}
	if s.Raw != nil {
		for _, sub := range sqlfe.SubStmts(s.Raw) {
			if sub.Table != "" {
				add(sqlfe.NormName(sub.Table))
			}
			for _, f := range sub.From {
				if f.Table != "" {
					add(sqlfe.NormName(f.Table))
				}
			}
		}
	}
	sort.Strings(out)
	return out
}

// tableOfExpr extracts the table name from a table expression like `"<bucket>".accounts`,
// `(?) data`, `rows`.
func tableOfExpr(txt string) string {
	toks, err := sqlfe.Lex(txt)
	if err != nil || len(toks) == 0 {
		return "(opaque)"
	}
	if toks[0].IsOp("(") {
		return "(sub)"
	}
	var parts []string
	for i := 0; i < len(toks); i++ {
		t := toks[i]
		switch t.Kind {
		case sqlfe.Ident, sqlfe.QIdent:
			parts = append(parts, strings.ToLower(t.Text))
		case sqlfe.Tmpl:
			parts = append(parts, "{{"+t.Text+"}}")
		default:
			i = len(toks)
			continue
		}
		if i+1 < len(toks) && toks[i+1].IsOp(".") {
			i++
			continue
		}
		break
	}
	if len(parts) == 0 {
		return "(opaque)"
	}
	return sqlfe.NormName(strings.Join(parts, "."))
}

// Model is the set of statements recovered from a set of packages.
type Model struct {
	Stmts []*Statement
	// ExecCalls are direct SQL executions on a handle (ExecContext/QueryContext/QueryRowContext).
	ExecCalls []*ExecCall
}

type ExecCall struct {
	Pkg    *packages.Package
	Encl   *ast.FuncDecl
	Call   *ast.CallExpr
	Method string
	Handle ast.Expr
	SQL    []string
	HasSQL bool
	Facts  []astx.Fact
}

func isBunQueryType(t types.Type) (string, bool) {
	n := astx.Named(t)
	if n == nil || n.Obj().Pkg() == nil || n.Obj().Pkg().Path() != bunPath {
		return "", false
	}
	k, ok := queryTypes[n.Obj().Name()]
	return k, ok
}

type binding struct {
	pos    token.Pos
	blocks []ast.Node
	stmts  []*Statement
}

type builder struct {
	pk    *packages.Package
	info  *types.Info
	fd    *ast.FuncDecl
	model *Model
	// all builders of the package, for reading through helpers that continue a chain they are handed
	all        map[*ast.FuncDecl]*builder
	done       bool
	running    bool
	paramStmts map[int]*Statement
	// variable bindings
	binds map[types.Object][]*binding
	// statement of each builder call expression already processed
	byExpr map[ast.Expr][]*Statement
	blocks map[ast.Node][]ast.Node // node -> enclosing block path
	eval   *Evaluator
}

// Build extracts the statement model of the given packages.
func Build(pkgs []*packages.Package) *Model {
	m := &Model{}
	for _, pk := range pkgs {
		all := map[*ast.FuncDecl]*builder{}
		var order []*builder
		for _, f := range pk.Syntax {
			for _, d := range f.Decls {
				fd, ok := d.(*ast.FuncDecl)
				if !ok || fd.Body == nil {
					continue
				}
				b := &builder{pk: pk, info: pk.TypesInfo, fd: fd, model: m, binds: map[types.Object][]*binding{}, byExpr: map[ast.Expr][]*Statement{}, all: all, paramStmts: map[int]*Statement{}}
				b.eval = NewEvaluator(pk.TypesInfo, fd)
				all[fd] = b
				order = append(order, b)
			}
		}
		for _, b := range order {
			b.ensure()
		}
	}
	// fragments merged into their callers are not statements of their own
	kept := m.Stmts[:0]
	for _, st := range m.Stmts {
		if st.Merged && st.RootKind == "param" && st.Encl != nil && !ast.IsExported(st.Encl.Name.Name) {
			continue
		}
		kept = append(kept, st)
	}
	m.Stmts = kept
	sort.SliceStable(m.Stmts, func(i, j int) bool { return m.Stmts[i].Pos() < m.Stmts[j].Pos() })
	return m
}

// ensure runs the builder once (helpers are run on demand, before the caller that reads through them).
func (b *builder) ensure() {
	if b.done || b.running {
		return
	}
	b.running = true
	b.run()
	b.running = false
	b.done = true
}

func (b *builder) run() {
	// compute block paths for calls and assignments
	b.blocks = map[ast.Node][]ast.Node{}
	var stack []ast.Node
	var order []ast.Node
	ast.Inspect(b.fd.Body, func(n ast.Node) bool {
		if n == nil {
			stack = stack[:len(stack)-1]
			return true
		}
		switch n.(type) {
		case *ast.CallExpr, *ast.AssignStmt, *ast.ReturnStmt, *ast.ValueSpec:
			b.blocks[n] = blockPath(stack)
			order = append(order, n)
		}
		stack = append(stack, n)
		return true
	})
	// parameters of query type are param-rooted statements
	if b.fd.Type.Params != nil {
		pi := 0
		for _, fld := range b.fd.Type.Params.List {
			for _, nm := range fld.Names {
				obj := b.info.Defs[nm]
				if obj == nil {
					pi++
					continue
				}
				if kind, ok := isBunQueryType(obj.Type()); ok {
					st := &Statement{Kind: kind, RootKind: "param", Root: nm, Pkg: b.pk, Encl: b.fd}
					b.model.Stmts = append(b.model.Stmts, st)
					b.binds[obj] = append(b.binds[obj], &binding{pos: nm.Pos(), stmts: []*Statement{st}})
					b.paramStmts[pi] = st
				}
				pi++
			}
			if len(fld.Names) == 0 {
				pi++
			}
		}
	}
	// Process assignments in source order so that variable bindings are known; each maximal
	// chain is processed once, when first reached.
	for _, n := range order {
		switch x := n.(type) {
		case *ast.AssignStmt:
			if len(x.Lhs) == len(x.Rhs) {
				for i, rhs := range x.Rhs {
					b.assign(x.Lhs[i], rhs, n)
				}
			} else if len(x.Rhs) == 1 {
				// multi-value call: q, err := f(); first result may be a query
				if call, ok := ast.Unparen(x.Rhs[0]).(*ast.CallExpr); ok {
					if tup, ok := b.info.TypeOf(call).(*types.Tuple); ok && tup.Len() > 0 {
						if _, isQ := isBunQueryType(tup.At(0).Type()); isQ {
							sts := b.chain(call)
							b.bind(x.Lhs[0], sts, n)
						}
					}
				}
			}
		case *ast.ValueSpec:
			if len(x.Names) == len(x.Values) {
				for i, rhs := range x.Values {
					b.assign(x.Names[i], rhs, n)
				}
			}
		case *ast.ReturnStmt:
			for _, r := range x.Results {
				if _, ok := isBunQueryType(b.info.TypeOf(r)); ok {
					for _, st := range b.exprStatements(r) {
						st.Returned = true
					}
				}
			}
		case *ast.CallExpr:
			b.visitCall(x)
		}
	}
}

func blockPath(stack []ast.Node) []ast.Node {
	var out []ast.Node
	for _, n := range stack {
		switch n.(type) {
		case *ast.BlockStmt, *ast.CaseClause, *ast.CommClause, *ast.FuncLit:
			out = append(out, n)
		}
	}
	return out
}

func (b *builder) assign(lhs ast.Expr, rhs ast.Expr, at ast.Node) {
	if _, ok := isBunQueryType(b.info.TypeOf(rhs)); !ok {
		return
	}
	sts := b.exprStatements(rhs)
	b.bind(lhs, sts, at)
}

func (b *builder) bind(lhs ast.Expr, sts []*Statement, at ast.Node) {
	id, ok := ast.Unparen(lhs).(*ast.Ident)
	if !ok || len(sts) == 0 {
		return
	}
	obj := b.info.Defs[id]
	if obj == nil {
		obj = b.info.Uses[id]
	}
	if obj == nil {
		return
	}
	b.binds[obj] = append(b.binds[obj], &binding{pos: at.Pos(), blocks: b.blocks[at], stmts: sts})
}

// lookup resolves a variable use to the statements it may denote.
func (b *builder) lookup(id *ast.Ident, at ast.Node) []*Statement {
	obj := b.info.Uses[id]
	if obj == nil {
		obj = b.info.Defs[id]
	}
	bs := b.binds[obj]
	if len(bs) == 0 {
		return nil
	}
	usePath := b.blocks[at]
	// latest binding before the use whose block path is a prefix of the use's path
	for i := len(bs) - 1; i >= 0; i-- {
		bd := bs[i]
		if bd.pos > id.Pos() {
			continue
		}
		if isPrefix(bd.blocks, usePath) {
			// collect also later-in-scope rebinding of the same statements (self-assignments keep identity)
			return bd.stmts
		}
	}
	// fall back: all bindings before the use
	var out []*Statement
	seen := map[*Statement]bool{}
	for _, bd := range bs {
		if bd.pos <= id.Pos() {
			for _, s := range bd.stmts {
				if !seen[s] {
					seen[s] = true
					out = append(out, s)
				}
			}
		}
	}
	return out
}

func isPrefix(a, b []ast.Node) bool {
	if len(a) > len(b) {
		return false
	}
	for i := range a {
		if a[i] != b[i] {
			return false
		}
	}
	return true
}

// exprStatements returns the statements an expression of query type denotes, processing
// builder chains on the way.
func (b *builder) exprStatements(e ast.Expr) []*Statement {
	e = ast.Unparen(e)
	switch x := e.(type) {
	case *ast.CallExpr:
		return b.chain(x)
	case *ast.Ident:
		return b.lookup(x, b.nearest(x))
	}
	return nil
}

// nearest returns the registered node (call/assign/return) that contains e, for block-path lookup.
func (b *builder) nearest(e ast.Node) ast.Node {
	var best ast.Node
	for n := range b.blocks {
		if n.Pos() <= e.Pos() && e.End() <= n.End() {
			if best == nil || (n.Pos() >= best.Pos() && n.End() <= best.End()) {
				best = n
			}
		}
	}
	return best
}

func (b *builder) visitCall(call *ast.CallExpr) {
	if _, done := b.byExpr[call]; done {
		return
	}
	// direct execution on a handle
	if f := astx.Callee(b.info, call); f != nil {
		switch f.Name() {
		case "ExecContext", "QueryContext", "QueryRowContext", "Exec", "Query", "QueryRow":
			if se, ok := ast.Unparen(call.Fun).(*ast.SelectorExpr); ok && isDBHandle(b.info.TypeOf(se.X)) {
				ec := &ExecCall{Pkg: b.pk, Encl: b.fd, Call: call, Method: f.Name(), Handle: se.X, Facts: astx.FactsAt(b.info, b.fd.Body, call.Pos())}
				for _, a := range call.Args {
					if bt, ok := b.info.TypeOf(a).Underlying().(*types.Basic); ok && bt.Info()&types.IsString != 0 {
						alts, opaque := b.eval.Eval(a)
						if len(alts) > 0 && !opaque {
							ec.SQL, ec.HasSQL = alts, true
						}
						break
					}
				}
				b.model.ExecCalls = append(b.model.ExecCalls, ec)
			}
		}
	}
	if b.isBuilderCall(call) {
		b.chain(call)
	}
}

func isDBHandle(t types.Type) bool {
	if t == nil {
		return false
	}
	n := astx.Named(t)
	if n != nil && n.Obj().Pkg() != nil {
		p := n.Obj().Pkg().Path()
		if p == bunPath {
			switch n.Obj().Name() {
			case "DB", "Tx", "Conn", "IDB", "IConn":
				return true
			}
		}
		if p == "database/sql" {
			switch n.Obj().Name() {
			case "DB", "Tx", "Conn":
				return true
			}
		}
	}
	return false
}

// isBuilderCall: the call is a root or a method on a bun query value.
func (b *builder) isBuilderCall(call *ast.CallExpr) bool {
	f := astx.Callee(b.info, call)
	if f == nil {
		return false
	}
	if _, ok := rootMethods[f.Name()]; ok {
		if _, isQ := isBunQueryType(resultType(b.info.TypeOf(call))); isQ {
			return true
		}
	}
	if sig, ok := f.Type().(*types.Signature); ok && sig.Recv() != nil {
		if _, isQ := isBunQueryType(sig.Recv().Type()); isQ {
			return true
		}
	}
	if _, isQ := isBunQueryType(resultType(b.info.TypeOf(call))); isQ {
		return true
	}
	return false
}

func resultType(t types.Type) types.Type {
	if tup, ok := t.(*types.Tuple); ok {
		if tup.Len() == 0 {
			return nil
		}
		return tup.At(0).Type()
	}
	return t
}

// chain processes a builder chain expression ending at call and returns its statement(s).
func (b *builder) chain(call *ast.CallExpr) []*Statement {
	if sts, ok := b.byExpr[call]; ok {
		return sts
	}
	f := astx.Callee(b.info, call)
	se, _ := ast.Unparen(call.Fun).(*ast.SelectorExpr)
	var sts []*Statement
	recvIsQuery := false
	if se != nil {
		if _, ok := isBunQueryType(b.info.TypeOf(se.X)); ok {
			recvIsQuery = true
		}
	}
	switch {
	case f != nil && se != nil && recvIsQuery && rootMethods[f.Name()] != "":
		// q.NewSelect(): a new statement on the same handle as q
		base := b.exprStatements(se.X)
		st := &Statement{Kind: rootMethods[f.Name()], RootKind: "derived", Root: call, Pkg: b.pk, Encl: b.fd}
		if len(base) > 0 {
			st.Handle = base[0].Handle
			st.Parent = base[0]
		}
		b.model.Stmts = append(b.model.Stmts, st)
		sts = []*Statement{st}
	case f != nil && se != nil && recvIsQuery:
		// clause or terminal on an existing statement
		sts = b.exprStatements(se.X)
		if len(sts) == 0 {
			kind, _ := isBunQueryType(b.info.TypeOf(se.X))
			st := &Statement{Kind: kind, RootKind: "unknown", Root: se.X, Pkg: b.pk, Encl: b.fd}
			b.model.Stmts = append(b.model.Stmts, st)
			sts = []*Statement{st}
		}
		if _, isQ := isBunQueryType(resultType(b.info.TypeOf(call))); isQ {
			cl := b.clause(f.Name(), call)
			for _, st := range sts {
				st.Clauses = append(st.Clauses, cl)
			}
			for _, sub := range cl.Subs {
				if sub.Parent == nil && sub != sts[0] {
					sub.Parent = sts[0]
				}
			}
		} else {
			for _, st := range sts {
				st.Terminal = f.Name()
			}
			// terminal calls (Scan(ctx, &dst), Exec(ctx)) may still carry sub-queries: none in practice
		}
	case f != nil && se != nil && rootMethods[f.Name()] != "":
		st := &Statement{Kind: rootMethods[f.Name()], RootKind: "new", Root: call, Handle: se.X, Pkg: b.pk, Encl: b.fd}
		if st.Kind == "raw" && len(call.Args) > 0 {
			alts, opaque := b.eval.Eval(call.Args[0])
			if len(alts) == 1 && !opaque {
				st.RawText = alts[0]
				st.Raw, st.RawErr = sqlfe.ParseStmtString(alts[0])
			} else {
				st.RawErr = fmt.Errorf("raw SQL text not a single constant")
			}
			st.RawArgs = call.Args[1:]
			for _, a := range call.Args[1:] {
				if _, ok := isBunQueryType(b.info.TypeOf(a)); ok {
					for _, sub := range b.exprStatements(a) {
						sub.Parent = st
					}
				}
			}
		}
		if st.Kind == "values" {
			st.RawArgs = call.Args
		}
		b.model.Stmts = append(b.model.Stmts, st)
		sts = []*Statement{st}
	case f != nil && f.Name() == "newScopedSelect":
		st := &Statement{Kind: "select", RootKind: "scoped", Root: call, Pkg: b.pk, Encl: b.fd}
		if se != nil {
			st.Handle = se.X
		}
		b.model.Stmts = append(b.model.Stmts, st)
		sts = []*Statement{st}
	case b.passThrough(f, call) != nil:
		sts = b.passThrough(f, call)
	default:
		kind, _ := isBunQueryType(resultType(b.info.TypeOf(call)))
		st := &Statement{Kind: kind, RootKind: "call", Root: call, Pkg: b.pk, Encl: b.fd}
		b.model.Stmts = append(b.model.Stmts, st)
		sts = []*Statement{st}
		// arguments of query type flow into the callee
		for _, a := range call.Args {
			if _, ok := isBunQueryType(b.info.TypeOf(a)); ok {
				for _, sub := range b.exprStatements(a) {
					if sub.Parent == nil {
						sub.Parent = st
					}
				}
			}
		}
	}
	b.byExpr[call] = sts
	return sts
}

func (b *builder) clause(method string, call *ast.CallExpr) *Clause {
	cl := &Clause{Method: method, Call: call, Facts: astx.FactsAt(b.info, b.fd.Body, call.Pos())}
	args := call.Args
	if len(args) > 0 {
		if bt, ok := b.info.TypeOf(args[0]).Underlying().(*types.Basic); ok && bt.Info()&types.IsString != 0 {
			// methods taking (query string, args ...any) or (names ...string)
			switch method {
			case "Column", "Order", "Group", "ExcludeColumn":
				// variadic names: each is a separate item
				for _, a := range args {
					alts, opaque := b.eval.Eval(a)
					if opaque || len(alts) == 0 {
						cl.Opaque = true
						alts = []string{"{{go:" + astx.ExprString(a) + "}}"}
					}
					if len(cl.SQL) == 0 {
						cl.SQL = alts
					} else {
						var prod []string
						for _, p := range cl.SQL {
							for _, q := range alts {
								prod = append(prod, p+", "+q)
							}
						}
						cl.SQL = prod
					}
				}
				cl.HasSQL = true
				args = nil
			case "With", "WithRecursive":
				alts, opaque := b.eval.Eval(args[0])
				cl.SQL, cl.HasSQL, cl.Opaque = alts, len(alts) > 0, opaque
				args = args[1:]
			case "Value":
				// Value(column, expr, args...)
				col, _ := b.eval.Eval(args[0])
				if len(args) > 1 {
					ex, opaque := b.eval.Eval(args[1])
					for _, c := range col {
						for _, e := range ex {
							cl.SQL = append(cl.SQL, c+" = "+e)
						}
					}
					cl.Opaque = opaque
					cl.HasSQL = len(cl.SQL) > 0
					args = args[2:]
				}
			default:
				alts, opaque := b.eval.Eval(args[0])
				cl.SQL, cl.HasSQL, cl.Opaque = alts, len(alts) > 0, opaque
				args = args[1:]
			}
		}
	}
	cl.Args = args
	for _, a := range args {
		if _, ok := isBunQueryType(b.info.TypeOf(a)); ok {
			subs := b.exprStatements(a)
			cl.Subs = append(cl.Subs, subs...)
		}
	}
	// closures handed to WhereGroup / Apply
	for _, a := range call.Args {
		if fl, ok := ast.Unparen(a).(*ast.FuncLit); ok {
			_ = fl
		}
	}
	return cl
}

// Describe renders a short identification of the statement for keys and messages.
func (s *Statement) Describe() string {
	t := strings.Join(s.Tables(), "+")
	if t == "" {
		t = "-"
	}
	return fmt.Sprintf("%s[%s]", s.Kind, t)
}

// passThrough recognises a call to a helper of the same package that continues the builder chain
// it is handed and returns it (`q = restrict(q, opts)`): the call then denotes the caller's own
// statement, and the clauses the helper adds are appended to it, each under the facts of the
// helper plus those of the call site. nil when the call is not of that form.
func (b *builder) passThrough(f *types.Func, call *ast.CallExpr) []*Statement {
	if sts, ok := b.byExpr[call]; ok {
		return sts
	}
	if f == nil || FuncDeclOf == nil {
		return nil
	}
	fd := FuncDeclOf(f)
	if fd == nil {
		return nil
	}
	cb := b.all[fd]
	if cb == nil || cb == b || cb.running {
		return nil
	}
	cb.ensure()
	var out []*Statement
	nq := 0
	for i, a := range call.Args {
		p := cb.paramStmts[i]
		if p == nil {
			continue
		}
		nq++
		if !p.Returned {
			return nil
		}
		base := b.exprStatements(a)
		if len(base) == 0 {
			return nil
		}
		site := astx.FactsAt(b.info, b.fd.Body, call.Pos())
		for _, cl := range p.Clauses {
			cp := *cl
			cp.Facts = append(append([]astx.Fact{}, cl.Facts...), site...)
			for _, st := range base {
				st.Clauses = append(st.Clauses, &cp)
			}
		}
		p.Merged = true
		out = append(out, base...)
	}
	if nq != 1 {
		return nil
	}
	b.byExpr[call] = out
	return out
}
