// Package sqlfe is a small SQL front-end written for the dialect subset that
// formancehq/ledger uses: Postgres DDL/DML in migrations (including PL/pgSQL bodies),
// and the clause fragments handed to bun builders. Anything it cannot classify is
// kept as an opaque statement so that rules can report "undecided" instead of guessing.
package sqlfe

import (
	"fmt"
	"strings"
)

type Kind int

const (
	Ident  Kind = iota // bare identifier or keyword, Text lower-cased
	QIdent             // "quoted identifier", Text without quotes
	String             // 'string' / E'string', Text is the decoded value
	Dollar             // $tag$ body $tag$, Text is the body
	Number
	Op    // operator or punctuation
	Param // ? , ?0, $1
	Tmpl  // {{ ... }} template action, Text is the raw action
)

type Token struct {
	Kind Kind
	Text string
	Raw  string
	Off  int
	Line int
}

func (t Token) String() string { return t.Raw }

// Is reports whether the token is the bare keyword/identifier kw (lower-case).
func (t Token) Is(kw string) bool { return t.Kind == Ident && t.Text == kw }

// IsOp reports whether the token is the operator op.
func (t Token) IsOp(op string) bool { return t.Kind == Op && t.Text == op }

// Name returns the identifier text for Ident/QIdent tokens.
func (t Token) Name() (string, bool) {
	if t.Kind == Ident || t.Kind == QIdent {
		return t.Text, true
	}
	return "", false
}

var multiOps = []string{"#>>", "->>", "<->", "||", "::", "<=", ">=", "<>", "!=", "->", "#>", "@>", "<@", ":=", "?|", "?&", "@@", "=>", "!~", "~*"}

func isIdentStart(c byte) bool {
	return c == '_' || (c >= 'a' && c <= 'z') || (c >= 'A' && c <= 'Z') || c >= 0x80
}
func isIdentPart(c byte) bool {
	return isIdentStart(c) || (c >= '0' && c <= '9') || c == '$'
}

// Lex tokenises src. Comments are dropped. It never fails: an unterminated
// string/comment extends to the end of input and err reports it.
func Lex(src string) (toks []Token, err error) {
	line := 1
	i := 0
	n := len(src)
	emit := func(k Kind, text string, start int, startLine int) {
		toks = append(toks, Token{Kind: k, Text: text, Raw: src[start:i], Off: start, Line: startLine})
	}
	for i < n {
		c := src[i]
		switch {
		case c == '\n':
			line++
			i++
		case c == ' ' || c == '\t' || c == '\r':
			i++
		case c == '-' && i+1 < n && src[i+1] == '-':
			for i < n && src[i] != '\n' {
				i++
			}
		case c == '/' && i+1 < n && src[i+1] == '*':
			j := strings.Index(src[i+2:], "*/")
			if j < 0 {
				err = fmt.Errorf("line %d: unterminated comment", line)
				i = n
			} else {
				line += strings.Count(src[i:i+2+j+2], "\n")
				i = i + 2 + j + 2
			}
		case c == '{' && i+1 < n && src[i+1] == '{':
			start, sl := i, line
			j := strings.Index(src[i:], "}}")
			if j < 0 {
				err = fmt.Errorf("line %d: unterminated template action", line)
				i = n
			} else {
				i += j + 2
			}
			emit(Tmpl, strings.TrimSpace(src[start+2:i-2]), start, sl)
		case c == '\'' || ((c == 'E' || c == 'e') && i+1 < n && src[i+1] == '\''):
			start, sl := i, line
			esc := false
			if c != '\'' {
				esc = true
				i++
			}
			i++
			var sb strings.Builder
			closed := false
			for i < n {
				ch := src[i]
				if ch == '\n' {
					line++
				}
				if esc && ch == '\\' && i+1 < n {
					nx := src[i+1]
					switch nx {
					case 'n':
						sb.WriteByte('\n')
					case 't':
						sb.WriteByte('\t')
					case 'r':
						sb.WriteByte('\r')
					default:
						sb.WriteByte(nx)
					}
					i += 2
					continue
				}
				if ch == '\'' {
					if i+1 < n && src[i+1] == '\'' {
						sb.WriteByte('\'')
						i += 2
						continue
					}
					i++
					closed = true
					break
				}
				sb.WriteByte(ch)
				i++
			}
			if !closed {
				err = fmt.Errorf("line %d: unterminated string", sl)
			}
			emit(String, sb.String(), start, sl)
		case c == '"':
			start, sl := i, line
			i++
			var sb strings.Builder
			closed := false
			for i < n {
				ch := src[i]
				if ch == '\n' {
					line++
				}
				if ch == '"' {
					if i+1 < n && src[i+1] == '"' {
						sb.WriteByte('"')
						i += 2
						continue
					}
					i++
					closed = true
					break
				}
				sb.WriteByte(ch)
				i++
			}
			if !closed {
				err = fmt.Errorf("line %d: unterminated quoted identifier", sl)
			}
			emit(QIdent, sb.String(), start, sl)
		case c == '$':
			// dollar quoting $tag$ ... $tag$ or positional parameter $1
			start, sl := i, line
			j := i + 1
			for j < n && (isIdentPart(src[j]) && src[j] != '$') {
				j++
			}
			if j < n && src[j] == '$' && (j == i+1 || !(src[i+1] >= '0' && src[i+1] <= '9')) {
				tag := src[i : j+1]
				k := strings.Index(src[j+1:], tag)
				if k < 0 {
					err = fmt.Errorf("line %d: unterminated dollar-quoted string %s", line, tag)
					body := src[j+1:]
					i = n
					line += strings.Count(body, "\n")
					emit(Dollar, body, start, sl)
				} else {
					body := src[j+1 : j+1+k]
					i = j + 1 + k + len(tag)
					line += strings.Count(body, "\n")
					emit(Dollar, body, start, sl)
				}
			} else {
				i = j
				emit(Param, src[start:i], start, sl)
			}
		case c == '?':
			start, sl := i, line
			// bun placeholders: ?, ?0, ?1 ; jsonb operators ?| ?& must be written \?| in bun
			if i+1 < n && (src[i+1] == '|' || src[i+1] == '&') {
				i += 2
				emit(Op, src[start:i], start, sl)
				break
			}
			i++
			for i < n && src[i] >= '0' && src[i] <= '9' {
				i++
			}
			emit(Param, src[start:i], start, sl)
		case c == '\\' && i+1 < n && src[i+1] == '?':
			// bun escape of a literal question mark operator
			start, sl := i, line
			i += 2
			if i < n && (src[i] == '|' || src[i] == '&') {
				i++
			}
			toks = append(toks, Token{Kind: Op, Text: src[start+1 : i], Raw: src[start:i], Off: start, Line: sl})
		case c >= '0' && c <= '9':
			start, sl := i, line
			for i < n && ((src[i] >= '0' && src[i] <= '9') || src[i] == '.') {
				i++
			}
			emit(Number, src[start:i], start, sl)
		case isIdentStart(c):
			start, sl := i, line
			for i < n && isIdentPart(src[i]) {
				i++
			}
			emit(Ident, strings.ToLower(src[start:i]), start, sl)
		default:
			start, sl := i, line
			matched := false
			for _, op := range multiOps {
				if strings.HasPrefix(src[i:], op) {
					i += len(op)
					emit(Op, op, start, sl)
					matched = true
					break
				}
			}
			if !matched {
				i++
				emit(Op, src[start:i], start, sl)
			}
		}
	}
	return toks, err
}

// SplitStatements splits a token stream on ';' at parenthesis depth 0.
func SplitStatements(toks []Token) [][]Token {
	var out [][]Token
	depth := 0
	start := 0
	for i, t := range toks {
		if t.Kind == Op {
			switch t.Text {
			case "(", "[":
				depth++
			case ")", "]":
				if depth > 0 {
					depth--
				}
			case ";":
				if depth == 0 {
					if i > start {
						out = append(out, toks[start:i])
					}
					start = i + 1
				}
			}
		}
	}
	if start < len(toks) {
		out = append(out, toks[start:])
	}
	return out
}

// Join renders tokens back to a normalised single-line string (for messages).
func Join(toks []Token) string {
	var sb strings.Builder
	for i, t := range toks {
		if i > 0 {
			sb.WriteByte(' ')
		}
		switch t.Kind {
		case String:
			sb.WriteString("'" + strings.ReplaceAll(t.Text, "'", "''") + "'")
		case QIdent:
			sb.WriteString(`"` + t.Text + `"`)
		case Dollar:
			sb.WriteString("$$…$$")
		case Tmpl:
			sb.WriteString("{{" + t.Text + "}}")
		default:
			sb.WriteString(t.Text)
		}
	}
	return sb.String()
}
