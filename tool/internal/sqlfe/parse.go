package sqlfe

import (
	"fmt"
	"sort"
	"strings"
)

// Node is an expression tree node.
type Node struct {
	Op   string  // ident, str, num, param, tmpl, call, bin, un, case, row, sub, cast, field, star, index, exists, in, between, raw, over
	Text string  // identifier path / literal / operator / function name
	Args []*Node // operands
	Sub  *Stmt   // sub-select
	Toks []Token
}

type SelectItem struct {
	Expr  *Node
	Alias string
}

type FromItem struct {
	Table   string // qualified name (lower-case, quotes removed, template actions kept as {{x}})
	Alias   string
	Sub     *Stmt
	Func    *Node
	Join    string // "", "join", "left join", "cross join"...
	Lateral bool
	On      *Node
}

type OrderItem struct {
	Expr *Node
	Desc bool
}

type Assign struct {
	Col  string
	Expr *Node
}

type Conflict struct {
	Target    []string
	DoNothing bool
	Set       []Assign
	Where     *Node
}

type CTE struct {
	Name string
	Cols []string
	Stmt *Stmt
}

type Stmt struct {
	Kind string // select, insert, update, delete, values
	With []CTE

	Distinct   bool
	DistinctOn []*Node
	Cols       []SelectItem
	From       []FromItem
	Where      *Node
	GroupBy    []*Node
	Having     *Node
	OrderBy    []OrderItem
	Limit      *Node
	For        string
	Into       []string
	SetOp      string
	Next       *Stmt

	Table      string
	Alias      string
	Columns    []string
	Values     [][]*Node
	Source     *Stmt
	OnConflict *Conflict
	Returning  []SelectItem
	Set        []Assign
	Using      []FromItem

	Toks []Token
}

type parser struct {
	toks []Token
	pos  int
}

type parseErr struct{ msg string }

func (e parseErr) Error() string { return e.msg }

func (p *parser) fail(format string, a ...any) {
	ctx := ""
	if p.pos < len(p.toks) {
		end := p.pos + 6
		if end > len(p.toks) {
			end = len(p.toks)
		}
		ctx = " near `" + Join(p.toks[p.pos:end]) + "`"
	} else {
		ctx = " at end"
	}
	panic(parseErr{fmt.Sprintf(format, a...) + ctx})
}

func (p *parser) peek() Token {
	if p.pos < len(p.toks) {
		return p.toks[p.pos]
	}
	return Token{Kind: Op, Text: "<eof>"}
}
func (p *parser) peekN(n int) Token {
	if p.pos+n < len(p.toks) {
		return p.toks[p.pos+n]
	}
	return Token{Kind: Op, Text: "<eof>"}
}
func (p *parser) eof() bool { return p.pos >= len(p.toks) }
func (p *parser) next() Token {
	t := p.peek()
	p.pos++
	return t
}
func (p *parser) isKw(kw string) bool { return p.peek().Is(kw) }
func (p *parser) isKws(kws ...string) bool {
	for i, kw := range kws {
		if !p.peekN(i).Is(kw) {
			return false
		}
	}
	return true
}
func (p *parser) acceptKw(kw string) bool {
	if p.isKw(kw) {
		p.pos++
		return true
	}
	return false
}
func (p *parser) acceptKws(kws ...string) bool {
	if p.isKws(kws...) {
		p.pos += len(kws)
		return true
	}
	return false
}
func (p *parser) isOp(op string) bool { return p.peek().IsOp(op) }
func (p *parser) acceptOp(op string) bool {
	if p.isOp(op) {
		p.pos++
		return true
	}
	return false
}
func (p *parser) expectOp(op string) {
	if !p.acceptOp(op) {
		p.fail("expected %q", op)
	}
}
func (p *parser) expectKw(kw string) {
	if !p.acceptKw(kw) {
		p.fail("expected %q", kw)
	}
}

// qualified name: a.b.c with quoted parts and template actions; "?0".x is allowed (bun ident placeholder).
func (p *parser) qname() string {
	var parts []string
	for {
		t := p.peek()
		switch t.Kind {
		case Ident, QIdent:
			parts = append(parts, strings.ToLower(t.Text))
			p.pos++
		case Tmpl:
			parts = append(parts, "{{"+t.Text+"}}")
			p.pos++
		case Param:
			parts = append(parts, t.Text)
			p.pos++
		default:
			p.fail("expected name")
		}
		if p.isOp(".") && (p.peekN(1).Kind == Ident || p.peekN(1).Kind == QIdent || p.peekN(1).Kind == Tmpl) {
			p.pos++
			continue
		}
		break
	}
	return strings.Join(parts, ".")
}

var reservedAfterExpr = map[string]bool{
	"from": true, "where": true, "group": true, "order": true, "limit": true, "having": true, "union": true,
	"for": true, "into": true, "on": true, "join": true, "left": true, "right": true, "inner": true, "cross": true,
	"full": true, "returning": true, "when": true, "then": true, "else": true, "end": true, "and": true, "or": true,
	"as": true, "asc": true, "desc": true, "using": true, "set": true, "values": true, "do": true, "offset": true,
	"window": true, "loop": true, "not": true, "is": true, "in": true, "like": true, "ilike": true, "between": true,
	"over": true, "filter": true, "lateral": true, "natural": true, "except": true, "intersect": true, "conflict": true,
	"nulls": true, "collate": true, "at": true,
}

// ParseExpr parses a stand-alone expression (a bun clause fragment).
func ParseExpr(src string) (n *Node, err error) {
	toks, lerr := Lex(src)
	if lerr != nil {
		return nil, lerr
	}
	return ParseExprTokens(toks)
}

func ParseExprTokens(toks []Token) (n *Node, err error) {
	defer func() {
		if r := recover(); r != nil {
			if pe, ok := r.(parseErr); ok {
				err = pe
				return
			}
			panic(r)
		}
	}()
	p := &parser{toks: toks}
	n = p.expr()
	if !p.eof() {
		p.fail("trailing tokens")
	}
	return n, nil
}

// ParseSelectItem parses "expr [as alias]" (a bun ColumnExpr fragment, possibly a list).
func ParseSelectItems(src string) (items []SelectItem, err error) {
	toks, lerr := Lex(src)
	if lerr != nil {
		return nil, lerr
	}
	defer func() {
		if r := recover(); r != nil {
			if pe, ok := r.(parseErr); ok {
				err = pe
				return
			}
			panic(r)
		}
	}()
	p := &parser{toks: toks}
	items = p.selectList()
	if !p.eof() {
		p.fail("trailing tokens")
	}
	return items, nil
}

// ParseAssign parses "col = expr" (a bun Set fragment).
func ParseAssign(src string) (a Assign, err error) {
	toks, lerr := Lex(src)
	if lerr != nil {
		return a, lerr
	}
	defer func() {
		if r := recover(); r != nil {
			if pe, ok := r.(parseErr); ok {
				err = pe
				return
			}
			panic(r)
		}
	}()
	p := &parser{toks: toks}
	a = p.assign()
	if !p.eof() {
		p.fail("trailing tokens")
	}
	return a, nil
}

// ParseStmt parses one DML statement.
func ParseStmt(toks []Token) (s *Stmt, err error) {
	defer func() {
		if r := recover(); r != nil {
			if pe, ok := r.(parseErr); ok {
				err = pe
				return
			}
			panic(r)
		}
	}()
	p := &parser{toks: toks}
	s = p.stmt()
	if !p.eof() {
		p.fail("trailing tokens")
	}
	return s, nil
}

func ParseStmtString(src string) (*Stmt, error) {
	toks, err := Lex(src)
	if err != nil {
		return nil, err
	}
	// drop a trailing ';'
	for len(toks) > 0 && toks[len(toks)-1].IsOp(";") {
		toks = toks[:len(toks)-1]
	}
	return ParseStmt(toks)
}

func (p *parser) stmt() *Stmt {
	start := p.pos
	var with []CTE
	if p.acceptKw("with") {
		p.acceptKw("recursive")
		for {
			c := CTE{Name: p.qname()}
			if p.acceptOp("(") {
				for {
					c.Cols = append(c.Cols, p.qname())
					if !p.acceptOp(",") {
						break
					}
				}
				p.expectOp(")")
			}
			p.expectKw("as")
			p.expectOp("(")
			if p.peek().Kind == Param {
				// bun sub-query placeholder
				t := p.next()
				c.Stmt = &Stmt{Kind: "param", Table: t.Text}
			} else {
				c.Stmt = p.stmt()
			}
			p.expectOp(")")
			with = append(with, c)
			if !p.acceptOp(",") {
				break
			}
		}
	}
	var s *Stmt
	switch {
	case p.isKw("select"):
		s = p.selectStmt()
	case p.isKw("insert"):
		s = p.insertStmt()
	case p.isKw("update"):
		s = p.updateStmt()
	case p.isKw("delete"):
		s = p.deleteStmt()
	case p.isKw("values"):
		s = p.valuesStmt()
	case p.isOp("("):
		p.pos++
		s = p.stmt()
		p.expectOp(")")
		s = p.setOps(s)
	default:
		p.fail("unsupported statement")
	}
	s.With = with
	s.Toks = p.toks[start:p.pos]
	return s
}

func (p *parser) valuesStmt() *Stmt {
	p.expectKw("values")
	s := &Stmt{Kind: "values"}
	for {
		p.expectOp("(")
		var row []*Node
		for {
			row = append(row, p.expr())
			if !p.acceptOp(",") {
				break
			}
		}
		p.expectOp(")")
		s.Values = append(s.Values, row)
		if !p.acceptOp(",") {
			break
		}
	}
	return s
}

func (p *parser) selectList() []SelectItem {
	var items []SelectItem
	for {
		var it SelectItem
		if p.isOp("*") {
			p.pos++
			it.Expr = &Node{Op: "star", Text: "*"}
		} else {
			it.Expr = p.expr()
		}
		if p.acceptKw("as") {
			it.Alias = p.qname()
		} else if t := p.peek(); (t.Kind == Ident && !reservedAfterExpr[t.Text]) || t.Kind == QIdent {
			it.Alias = strings.ToLower(t.Text)
			p.pos++
		}
		items = append(items, it)
		if !p.acceptOp(",") {
			break
		}
	}
	return items
}

func (p *parser) selectStmt() *Stmt {
	p.expectKw("select")
	s := &Stmt{Kind: "select"}
	if p.acceptKw("distinct") {
		s.Distinct = true
		if p.acceptKw("on") {
			p.expectOp("(")
			for {
				s.DistinctOn = append(s.DistinctOn, p.expr())
				if !p.acceptOp(",") {
					break
				}
			}
			p.expectOp(")")
		}
	} else {
		p.acceptKw("all")
	}
	if !(p.isKw("from") || p.isKw("into") || p.eof()) {
		s.Cols = p.selectList()
	}
	p.intoClause(s)
	if p.acceptKw("from") {
		s.From = p.fromList()
	}
	p.intoClause(s)
	if p.acceptKw("where") {
		s.Where = p.expr()
	}
	p.intoClause(s)
	if p.acceptKws("group", "by") {
		for {
			s.GroupBy = append(s.GroupBy, p.expr())
			if !p.acceptOp(",") {
				break
			}
		}
	}
	if p.acceptKw("having") {
		s.Having = p.expr()
	}
	p.intoClause(s)
	s = p.setOps(s)
	if p.acceptKws("order", "by") {
		for {
			oi := OrderItem{Expr: p.expr()}
			if p.acceptKw("desc") {
				oi.Desc = true
			} else {
				p.acceptKw("asc")
			}
			if p.acceptKw("nulls") {
				p.next()
			}
			s.OrderBy = append(s.OrderBy, oi)
			if !p.acceptOp(",") {
				break
			}
		}
	}
	p.intoClause(s)
	if p.acceptKw("limit") {
		s.Limit = p.expr()
	}
	if p.acceptKw("offset") {
		p.expr()
	}
	if p.acceptKw("for") {
		var parts []string
		for p.peek().Kind == Ident && !p.isKw("into") {
			parts = append(parts, p.next().Text)
		}
		s.For = strings.Join(parts, " ")
	}
	p.intoClause(s)
	return s
}

func (p *parser) intoClause(s *Stmt) {
	if p.acceptKw("into") {
		p.acceptKw("strict")
		for {
			s.Into = append(s.Into, p.qname())
			if !p.acceptOp(",") {
				break
			}
		}
	}
}

func (p *parser) setOps(s *Stmt) *Stmt {
	for {
		var op string
		switch {
		case p.acceptKws("union", "all"):
			op = "union all"
		case p.acceptKw("union"):
			op = "union"
		case p.acceptKw("except"):
			op = "except"
		case p.acceptKw("intersect"):
			op = "intersect"
		default:
			return s
		}
		var rhs *Stmt
		if p.acceptOp("(") {
			rhs = p.stmt()
			p.expectOp(")")
		} else {
			rhs = p.selectStmt()
		}
		// attach at the tail
		tail := s
		for tail.Next != nil {
			tail = tail.Next
		}
		tail.SetOp = op
		tail.Next = rhs
	}
}

func (p *parser) fromItem() FromItem {
	var fi FromItem
	if p.acceptKw("lateral") {
		fi.Lateral = true
	}
	p.acceptKw("only")
	switch {
	case p.isOp("("):
		p.pos++
		if p.peek().Kind == Param {
			t := p.next()
			fi.Sub = &Stmt{Kind: "param", Table: t.Text}
		} else {
			fi.Sub = p.stmt()
		}
		p.expectOp(")")
	default:
		// table name or function call
		save := p.pos
		name := p.qname()
		if p.isOp("(") {
			p.pos = save
			fi.Func = p.primary()
		} else {
			fi.Table = name
		}
	}
	if p.acceptKw("as") {
		fi.Alias = p.qname()
	} else if t := p.peek(); (t.Kind == Ident && !reservedAfterExpr[t.Text]) || t.Kind == QIdent {
		fi.Alias = strings.ToLower(t.Text)
		p.pos++
	}
	if fi.Alias != "" && p.isOp("(") {
		// column alias list
		p.pos++
		for !p.isOp(")") && !p.eof() {
			p.pos++
		}
		p.expectOp(")")
	}
	return fi
}

func (p *parser) fromList() []FromItem {
	var items []FromItem
	items = append(items, p.fromItem())
	for {
		if p.acceptOp(",") {
			items = append(items, p.fromItem())
			continue
		}
		join := ""
		switch {
		case p.acceptKws("left", "outer", "join"), p.acceptKws("left", "join"):
			join = "left join"
		case p.acceptKws("right", "outer", "join"), p.acceptKws("right", "join"):
			join = "right join"
		case p.acceptKws("full", "outer", "join"), p.acceptKws("full", "join"):
			join = "full join"
		case p.acceptKws("inner", "join"), p.acceptKw("join"):
			join = "join"
		case p.acceptKws("cross", "join"):
			join = "cross join"
		default:
			return items
		}
		fi := p.fromItem()
		fi.Join = join
		if p.acceptKw("on") {
			fi.On = p.expr()
		} else if p.acceptKw("using") {
			p.expectOp("(")
			for !p.isOp(")") && !p.eof() {
				p.pos++
			}
			p.expectOp(")")
		}
		items = append(items, fi)
	}
}

func (p *parser) assign() Assign {
	var a Assign
	if p.isOp("(") {
		p.fail("multi-column assignment unsupported")
	}
	a.Col = p.qname()
	if !p.acceptOp("=") && !p.acceptOp(":=") {
		p.fail("expected '=' in assignment")
	}
	a.Expr = p.expr()
	return a
}

func (p *parser) returning() []SelectItem {
	if p.acceptKw("returning") {
		return p.selectList()
	}
	return nil
}

func (p *parser) insertStmt() *Stmt {
	p.expectKw("insert")
	p.expectKw("into")
	s := &Stmt{Kind: "insert"}
	s.Table = p.qname()
	if p.acceptKw("as") {
		s.Alias = p.qname()
	}
	if p.isOp("(") && !p.peekN(1).Is("select") && !p.peekN(1).Is("with") {
		p.pos++
		for {
			s.Columns = append(s.Columns, p.qname())
			if !p.acceptOp(",") {
				break
			}
		}
		p.expectOp(")")
	}
	switch {
	case p.isKw("values"):
		v := p.valuesStmt()
		s.Values = v.Values
	case p.isKw("select"), p.isKw("with"), p.isOp("("):
		s.Source = p.stmt()
	case p.acceptKws("default", "values"):
	default:
		p.fail("unsupported insert source")
	}
	if p.acceptKws("on", "conflict") {
		c := &Conflict{}
		if p.acceptOp("(") {
			for {
				c.Target = append(c.Target, p.qname())
				if !p.acceptOp(",") {
					break
				}
			}
			p.expectOp(")")
		} else if p.acceptKws("on", "constraint") {
			c.Target = append(c.Target, "constraint:"+p.qname())
		}
		p.expectKw("do")
		if p.acceptKw("nothing") {
			c.DoNothing = true
		} else {
			p.expectKw("update")
			p.expectKw("set")
			for {
				c.Set = append(c.Set, p.assign())
				if !p.acceptOp(",") {
					break
				}
			}
			if p.acceptKw("where") {
				c.Where = p.expr()
			}
		}
		s.OnConflict = c
	}
	s.Returning = p.returning()
	p.intoClause(s)
	return s
}

func (p *parser) updateStmt() *Stmt {
	p.expectKw("update")
	s := &Stmt{Kind: "update"}
	p.acceptKw("only")
	s.Table = p.qname()
	if p.acceptKw("as") {
		s.Alias = p.qname()
	} else if t := p.peek(); t.Kind == Ident && !t.Is("set") {
		s.Alias = t.Text
		p.pos++
	}
	p.expectKw("set")
	for {
		s.Set = append(s.Set, p.assign())
		if !p.acceptOp(",") {
			break
		}
	}
	if p.acceptKw("from") {
		s.From = p.fromList()
	}
	if p.acceptKw("where") {
		s.Where = p.expr()
	}
	s.Returning = p.returning()
	p.intoClause(s)
	return s
}

func (p *parser) deleteStmt() *Stmt {
	p.expectKw("delete")
	p.expectKw("from")
	s := &Stmt{Kind: "delete"}
	p.acceptKw("only")
	s.Table = p.qname()
	if p.acceptKw("as") {
		s.Alias = p.qname()
	} else if t := p.peek(); t.Kind == Ident && !reservedAfterExpr[t.Text] {
		s.Alias = t.Text
		p.pos++
	}
	if p.acceptKw("using") {
		s.Using = p.fromList()
	}
	if p.acceptKw("where") {
		s.Where = p.expr()
	}
	s.Returning = p.returning()
	return s
}

// ---- expressions (precedence climbing) ----

func (p *parser) expr() *Node { return p.orExpr() }

func (p *parser) orExpr() *Node {
	l := p.andExpr()
	for p.acceptKw("or") {
		r := p.andExpr()
		l = &Node{Op: "bin", Text: "or", Args: []*Node{l, r}}
	}
	return l
}

func (p *parser) andExpr() *Node {
	l := p.notExpr()
	for p.acceptKw("and") {
		r := p.notExpr()
		l = &Node{Op: "bin", Text: "and", Args: []*Node{l, r}}
	}
	return l
}

func (p *parser) notExpr() *Node {
	if p.acceptKw("not") {
		return &Node{Op: "un", Text: "not", Args: []*Node{p.notExpr()}}
	}
	return p.cmpExpr()
}

var cmpOps = map[string]bool{"=": true, "<": true, ">": true, "<=": true, ">=": true, "<>": true, "!=": true, "@>": true, "<@": true, "?|": true, "?&": true, "@@": true, "~": true, "!~": true, "~*": true, "?": true}

func (p *parser) cmpExpr() *Node {
	l := p.addExpr()
	for {
		t := p.peek()
		switch {
		case t.Kind == Tmpl && t.Text == "op":
			// operator chosen at run time (ConvertOperatorToSQL)
			p.pos++
			r := p.addExpr()
			l = &Node{Op: "bin", Text: "{{op}}", Args: []*Node{l, r}}
		case t.Kind == Op && cmpOps[t.Text]:
			p.pos++
			// any/all
			r := p.addExpr()
			l = &Node{Op: "bin", Text: t.Text, Args: []*Node{l, r}}
		case t.Is("is"):
			p.pos++
			neg := p.acceptKw("not")
			switch {
			case p.acceptKw("null"):
				op := "is null"
				if neg {
					op = "is not null"
				}
				l = &Node{Op: "un", Text: op, Args: []*Node{l}}
			case p.acceptKws("distinct", "from"):
				r := p.addExpr()
				op := "is distinct from"
				if neg {
					op = "is not distinct from"
				}
				l = &Node{Op: "bin", Text: op, Args: []*Node{l, r}}
			case p.isKw("true") || p.isKw("false"):
				v := p.next().Text
				op := "is " + v
				if neg {
					op = "is not " + v
				}
				l = &Node{Op: "un", Text: op, Args: []*Node{l}}
			default:
				p.fail("unsupported IS form")
			}
		case t.Is("not") && (p.peekN(1).Is("in") || p.peekN(1).Is("like") || p.peekN(1).Is("ilike") || p.peekN(1).Is("between")):
			p.pos++
			inner := p.cmpTail(l)
			l = &Node{Op: "un", Text: "not", Args: []*Node{inner}}
		case t.Is("in") || t.Is("like") || t.Is("ilike") || t.Is("between"):
			l = p.cmpTail(l)
		default:
			return l
		}
	}
}

func (p *parser) cmpTail(l *Node) *Node {
	t := p.next()
	switch t.Text {
	case "in":
		p.expectOp("(")
		n := &Node{Op: "in", Text: "in", Args: []*Node{l}}
		if p.isKw("select") || p.isKw("with") {
			n.Args = append(n.Args, &Node{Op: "sub", Sub: p.stmt()})
		} else {
			for {
				n.Args = append(n.Args, p.expr())
				if !p.acceptOp(",") {
					break
				}
			}
		}
		p.expectOp(")")
		return n
	case "like", "ilike":
		r := p.addExpr()
		return &Node{Op: "bin", Text: t.Text, Args: []*Node{l, r}}
	case "between":
		lo := p.addExpr()
		p.expectKw("and")
		hi := p.addExpr()
		return &Node{Op: "between", Text: "between", Args: []*Node{l, lo, hi}}
	}
	p.fail("unsupported comparison tail")
	return nil
}

func (p *parser) addExpr() *Node {
	l := p.mulExpr()
	for {
		t := p.peek()
		if t.Kind == Op && (t.Text == "+" || t.Text == "-" || t.Text == "||" || t.Text == "->" || t.Text == "->>" || t.Text == "#>" || t.Text == "#>>") {
			p.pos++
			r := p.mulExpr()
			l = &Node{Op: "bin", Text: t.Text, Args: []*Node{l, r}}
			continue
		}
		if t.Is("at") && p.peekN(1).Is("time") && p.peekN(2).Is("zone") {
			p.pos += 3
			r := p.mulExpr()
			l = &Node{Op: "bin", Text: "at time zone", Args: []*Node{l, r}}
			continue
		}
		return l
	}
}

func (p *parser) mulExpr() *Node {
	l := p.unary()
	for {
		t := p.peek()
		if t.Kind == Op && (t.Text == "*" || t.Text == "/" || t.Text == "%") {
			p.pos++
			r := p.unary()
			l = &Node{Op: "bin", Text: t.Text, Args: []*Node{l, r}}
			continue
		}
		return l
	}
}

func (p *parser) unary() *Node {
	if p.isOp("-") || p.isOp("+") {
		t := p.next()
		return &Node{Op: "un", Text: t.Text, Args: []*Node{p.unary()}}
	}
	return p.postfix(p.primary())
}

func (p *parser) typeName() string {
	var parts []string
	parts = append(parts, p.qname())
	// multi-word types
	for {
		t := p.peek()
		if t.Kind == Ident && (t.Text == "varying" || t.Text == "precision" || t.Text == "without" || t.Text == "with" || t.Text == "time" || t.Text == "zone") {
			parts = append(parts, t.Text)
			p.pos++
			continue
		}
		break
	}
	if p.isOp("(") {
		p.pos++
		for !p.isOp(")") && !p.eof() {
			p.pos++
		}
		p.expectOp(")")
	}
	for p.isOp("[") && p.peekN(1).IsOp("]") {
		p.pos += 2
		parts = append(parts, "[]")
	}
	return strings.Join(parts, " ")
}

func (p *parser) postfix(n *Node) *Node {
	for {
		switch {
		case p.isOp("::"):
			p.pos++
			n = &Node{Op: "cast", Text: p.typeName(), Args: []*Node{n}}
		case p.isOp("["):
			p.pos++
			idx := &Node{Op: "index", Args: []*Node{n}}
			for !p.isOp("]") && !p.eof() {
				if p.acceptOp(":") {
					continue
				}
				idx.Args = append(idx.Args, p.expr())
			}
			p.expectOp("]")
			n = idx
		case p.isOp(".") && (n.Op == "row" || n.Op == "field" || n.Op == "index" || n.Op == "call") && (p.peekN(1).Kind == Ident || p.peekN(1).Kind == QIdent || p.peekN(1).IsOp("*")):
			p.pos++
			t := p.next()
			n = &Node{Op: "field", Text: strings.ToLower(t.Text), Args: []*Node{n}}
		default:
			return n
		}
	}
}

func (p *parser) primary() *Node {
	t := p.peek()
	switch t.Kind {
	case Number:
		p.pos++
		return &Node{Op: "num", Text: t.Text}
	case String:
		p.pos++
		return &Node{Op: "str", Text: t.Text}
	case Dollar:
		p.pos++
		return &Node{Op: "str", Text: t.Text}
	case Param:
		p.pos++
		n := &Node{Op: "param", Text: t.Text}
		// "?0".name style: ?1.accounts
		if p.isOp(".") && (p.peekN(1).Kind == Ident || p.peekN(1).Kind == QIdent) {
			name := t.Text
			for p.isOp(".") && (p.peekN(1).Kind == Ident || p.peekN(1).Kind == QIdent) {
				p.pos++
				nm := p.next()
				name += "." + strings.ToLower(nm.Text)
			}
			id := &Node{Op: "ident", Text: name}
			if p.isOp("(") {
				return p.callArgs(id.Text)
			}
			return id
		}
		return n
	case Tmpl:
		name := p.qname()
		if p.isOp("(") {
			return p.callArgs(name)
		}
		return &Node{Op: "ident", Text: name}
	case Op:
		switch t.Text {
		case "(":
			p.pos++
			if p.isKw("select") || p.isKw("with") || p.isKw("values") {
				s := p.stmt()
				p.expectOp(")")
				return &Node{Op: "sub", Sub: s}
			}
			if p.peek().Kind == Param && p.peekN(1).IsOp(")") {
				// (?) : may be a sub-query or a value; keep as paren'd param
				t := p.next()
				p.expectOp(")")
				return &Node{Op: "row", Args: []*Node{{Op: "param", Text: t.Text}}}
			}
			first := p.expr()
			if p.acceptOp(",") {
				row := &Node{Op: "row", Args: []*Node{first}}
				for {
					row.Args = append(row.Args, p.expr())
					if !p.acceptOp(",") {
						break
					}
				}
				p.expectOp(")")
				return row
			}
			p.expectOp(")")
			return &Node{Op: "row", Args: []*Node{first}}
		case "*":
			p.pos++
			return &Node{Op: "star", Text: "*"}
		}
	case Ident, QIdent:
		if t.Kind == Ident {
			switch t.Text {
			case "case":
				return p.caseExpr()
			case "exists":
				if p.peekN(1).IsOp("(") {
					p.pos += 2
					s := p.stmt()
					p.expectOp(")")
					return &Node{Op: "exists", Sub: s}
				}
			case "null", "true", "false", "current_schema", "current_timestamp", "current_date":
				if !p.peekN(1).IsOp("(") {
					p.pos++
					return &Node{Op: "ident", Text: t.Text}
				}
			case "array":
				if p.peekN(1).IsOp("[") {
					p.pos += 2
					n := &Node{Op: "call", Text: "array"}
					for !p.isOp("]") && !p.eof() {
						n.Args = append(n.Args, p.expr())
						if !p.acceptOp(",") {
							break
						}
					}
					p.expectOp("]")
					return n
				}
				if p.peekN(1).IsOp("(") {
					p.pos += 2
					s := p.stmt()
					p.expectOp(")")
					return &Node{Op: "call", Text: "array", Args: []*Node{{Op: "sub", Sub: s}}}
				}
			case "cast":
				if p.peekN(1).IsOp("(") {
					p.pos += 2
					e := p.expr()
					p.expectKw("as")
					ty := p.typeName()
					p.expectOp(")")
					return &Node{Op: "cast", Text: ty, Args: []*Node{e}}
				}
			case "interval", "timestamp", "date":
				if p.peekN(1).Kind == String {
					p.pos++
					s := p.next()
					return &Node{Op: "cast", Text: t.Text, Args: []*Node{{Op: "str", Text: s.Text}}}
				}
			case "select", "from", "where":
				p.fail("unexpected keyword in expression")
			}
		}
		name := p.qname()
		if p.isOp(".") && p.peekN(1).IsOp("*") {
			p.pos += 2
			return &Node{Op: "star", Text: name + ".*"}
		}
		if p.isOp("(") {
			return p.callArgs(name)
		}
		return &Node{Op: "ident", Text: name}
	}
	p.fail("unexpected token in expression")
	return nil
}

func (p *parser) callArgs(name string) *Node {
	p.expectOp("(")
	n := &Node{Op: "call", Text: name}
	if p.acceptOp("*") {
		n.Args = append(n.Args, &Node{Op: "star", Text: "*"})
	} else if !p.isOp(")") {
		p.acceptKw("distinct")
		for {
			// named argument: name := expr / name => expr
			if (p.peek().Kind == Ident) && (p.peekN(1).IsOp(":=") || p.peekN(1).IsOp("=>")) {
				p.pos += 2
			}
			n.Args = append(n.Args, p.expr())
			if !p.acceptOp(",") {
				break
			}
		}
		if p.acceptKws("order", "by") {
			for {
				p.expr()
				if !p.acceptKw("desc") {
					p.acceptKw("asc")
				}
				if !p.acceptOp(",") {
					break
				}
			}
		}
	}
	p.expectOp(")")
	if p.acceptKw("filter") {
		p.expectOp("(")
		p.expectKw("where")
		f := p.expr()
		p.expectOp(")")
		n = &Node{Op: "call", Text: "filter", Args: []*Node{n, f}}
	}
	if p.acceptKw("over") {
		ov := &Node{Op: "over", Args: []*Node{n}}
		if p.acceptOp("(") {
			if p.acceptKws("partition", "by") {
				part := &Node{Op: "row", Text: "partition"}
				for {
					part.Args = append(part.Args, p.expr())
					if !p.acceptOp(",") {
						break
					}
				}
				ov.Args = append(ov.Args, part)
			}
			if p.acceptKws("order", "by") {
				ord := &Node{Op: "row", Text: "order"}
				for {
					e := p.expr()
					if p.acceptKw("desc") {
						e = &Node{Op: "un", Text: "desc", Args: []*Node{e}}
					} else {
						p.acceptKw("asc")
					}
					ord.Args = append(ord.Args, e)
					if !p.acceptOp(",") {
						break
					}
				}
				ov.Args = append(ov.Args, ord)
			}
			// frame clauses
			for !p.isOp(")") && !p.eof() {
				p.pos++
			}
			p.expectOp(")")
		} else {
			p.qname()
		}
		return ov
	}
	return n
}

func (p *parser) caseExpr() *Node {
	p.expectKw("case")
	n := &Node{Op: "case"}
	if !p.isKw("when") {
		n.Text = "simple"
		n.Args = append(n.Args, p.expr())
	}
	for p.acceptKw("when") {
		c := p.expr()
		p.expectKw("then")
		v := p.expr()
		n.Args = append(n.Args, c, v)
	}
	if p.acceptKw("else") {
		n.Args = append(n.Args, &Node{Op: "else", Args: []*Node{p.expr()}})
	}
	p.expectKw("end")
	return n
}

// ---- utilities over trees ----

// Conjuncts splits an expression on top-level AND (looking through single-element parentheses).
func Conjuncts(n *Node) []*Node {
	if n == nil {
		return nil
	}
	n = Unparen(n)
	if n.Op == "bin" && n.Text == "and" {
		return append(Conjuncts(n.Args[0]), Conjuncts(n.Args[1])...)
	}
	return []*Node{n}
}

// Disjuncts splits on top-level OR.
func Disjuncts(n *Node) []*Node {
	if n == nil {
		return nil
	}
	n = Unparen(n)
	if n.Op == "bin" && n.Text == "or" {
		return append(Disjuncts(n.Args[0]), Disjuncts(n.Args[1])...)
	}
	return []*Node{n}
}

// Unparen strips single-element row constructors (plain parentheses).
func Unparen(n *Node) *Node {
	for n != nil && n.Op == "row" && n.Text == "" && len(n.Args) == 1 {
		n = n.Args[0]
	}
	return n
}

var commutative = map[string]bool{"+": true, "*": true, "and": true, "or": true, "=": true, "<>": true, "!=": true}

// Canon renders a canonical string: lower-case, parentheses normalised, operands of
// commutative operators sorted.
func Canon(n *Node) string {
	if n == nil {
		return ""
	}
	switch n.Op {
	case "ident", "num", "param", "star":
		return n.Text
	case "str":
		return "'" + n.Text + "'"
	case "tmpl":
		return "{{" + n.Text + "}}"
	case "bin":
		if commutative[n.Text] {
			var ops []string
			assoc := n.Text == "+" || n.Text == "*" || n.Text == "and" || n.Text == "or"
			var collect func(x *Node)
			collect = func(x *Node) {
				x = Unparen(x)
				if assoc && x.Op == "bin" && x.Text == n.Text {
					collect(x.Args[0])
					collect(x.Args[1])
					return
				}
				ops = append(ops, Canon(x))
			}
			collect(n.Args[0])
			collect(n.Args[1])
			sort.Strings(ops)
			return "(" + strings.Join(ops, " "+n.Text+" ") + ")"
		}
		return "(" + Canon(n.Args[0]) + " " + n.Text + " " + Canon(n.Args[1]) + ")"
	case "un":
		if strings.HasPrefix(n.Text, "is ") || n.Text == "desc" {
			return "(" + Canon(n.Args[0]) + " " + n.Text + ")"
		}
		return "(" + n.Text + " " + Canon(n.Args[0]) + ")"
	case "row":
		if n.Text == "" && len(n.Args) == 1 {
			return Canon(n.Args[0])
		}
		var a []string
		for _, x := range n.Args {
			a = append(a, Canon(x))
		}
		return n.Text + "(" + strings.Join(a, ", ") + ")"
	case "call", "in", "between", "index", "over":
		var a []string
		for _, x := range n.Args {
			a = append(a, Canon(x))
		}
		name := n.Text
		if name == "" {
			name = n.Op
		}
		return name + "(" + strings.Join(a, ", ") + ")"
	case "cast":
		return Canon(n.Args[0]) + "::" + n.Text
	case "field":
		return "(" + Canon(n.Args[0]) + ")." + n.Text
	case "case":
		var a []string
		for _, x := range n.Args {
			a = append(a, Canon(x))
		}
		return "case[" + strings.Join(a, "; ") + "]"
	case "else":
		return "else " + Canon(n.Args[0])
	case "sub":
		return "(subquery)"
	case "exists":
		return "exists(subquery)"
	}
	return n.Op + ":" + n.Text
}

// Walk visits n and all sub-expressions (not descending into sub-selects).
func Walk(n *Node, f func(*Node) bool) {
	if n == nil {
		return
	}
	if !f(n) {
		return
	}
	for _, a := range n.Args {
		Walk(a, f)
	}
}

// Idents returns all identifier paths mentioned in n (without sub-selects).
func Idents(n *Node) []string {
	var out []string
	Walk(n, func(x *Node) bool {
		if x.Op == "ident" {
			out = append(out, x.Text)
		}
		return true
	})
	return out
}

// LastPart returns the last component of a dotted name.
func LastPart(name string) string {
	if i := strings.LastIndexByte(name, '.'); i >= 0 {
		return name[i+1:]
	}
	return name
}

// SubStmts returns all statements nested in s (CTEs, sub-selects in FROM, in expressions,
// set operations), s itself included.
func SubStmts(s *Stmt) []*Stmt {
	var out []*Stmt
	var visitNode func(n *Node)
	var visit func(s *Stmt)
	visitNode = func(n *Node) {
		if n == nil {
			return
		}
		if n.Sub != nil {
			visit(n.Sub)
		}
		for _, a := range n.Args {
			visitNode(a)
		}
	}
	visit = func(s *Stmt) {
		if s == nil {
			return
		}
		out = append(out, s)
		for _, c := range s.With {
			visit(c.Stmt)
		}
		for _, it := range s.Cols {
			visitNode(it.Expr)
		}
		for _, f := range s.From {
			visit(f.Sub)
			visitNode(f.Func)
			visitNode(f.On)
		}
		for _, f := range s.Using {
			visit(f.Sub)
		}
		visitNode(s.Where)
		visitNode(s.Having)
		for _, a := range s.Set {
			visitNode(a.Expr)
		}
		for _, row := range s.Values {
			for _, v := range row {
				visitNode(v)
			}
		}
		visit(s.Source)
		if s.OnConflict != nil {
			for _, a := range s.OnConflict.Set {
				visitNode(a.Expr)
			}
			visitNode(s.OnConflict.Where)
		}
		for _, it := range s.Returning {
			visitNode(it.Expr)
		}
		for _, o := range s.OrderBy {
			visitNode(o.Expr)
		}
		visitNode(s.Limit)
		visit(s.Next)
	}
	visit(s)
	return out
}
