package sqlfe

import (
	"fmt"
	"os"
	"path/filepath"
	"regexp"
	"sort"
	"strconv"
	"strings"
)

type Column struct {
	Name    string
	Type    string
	NotNull bool
	Default string
	Origin  string
}

type Table struct {
	Name   string
	Cols   []*Column
	PK     []string
	Origin string
}

func (t *Table) Col(name string) *Column {
	for _, c := range t.Cols {
		if c.Name == name {
			return c
		}
	}
	return nil
}

type Index struct {
	Name    string
	Table   string
	Cols    []string // canonical expressions
	Unique  bool
	Primary bool
	Where   *Node
	Origin  string
}

type Function struct {
	Name     string
	Kind     string // function | procedure
	Args     string
	Returns  string
	Lang     string
	Body     string
	BodyToks []Token
	Origin   string
	// DML statements found in the body (parsed when possible)
	Stmts  []*Stmt
	Opaque []string // body statements that look like DML but did not parse
}

type Trigger struct {
	Name       string // normalised: per-ledger names end with _<id>
	Table      string
	Timing     string // before | after
	Events     []string
	When       *Node
	WhenSrc    string
	Func       string
	PerLedger  bool
	Constraint bool
	// Cond is the feature condition under which a per-ledger trigger is created:
	// "" (always) or "FEATURE=VALUE".
	Cond   string
	Origin string
}

type Sequence struct {
	Name      string
	PerLedger bool
	OwnedBy   string
	Origin    string
}

type Enum struct {
	Name   string
	Values []string
}

type OpaqueStmt struct {
	Origin string
	Head   string
	Names  map[string]bool
	Reason string
}

// PerLedgerObj is a per-ledger object (sequence / trigger / setval statement) created either
// by a migration DO block for pre-existing ledgers or by the Go ledgerSetups templates.
type PerLedgerObj struct {
	Kind   string // sequence | trigger | setval
	Name   string
	Cond   string
	Origin string
	Text   string // normalised statement text
	Stmt   *Stmt  // for setval: the select statement
}

type Catalog struct {
	Tables    map[string]*Table
	Indexes   map[string]*Index
	Functions map[string]*Function
	Triggers  map[string]*Trigger
	Sequences map[string]*Sequence
	Enums     map[string]*Enum
	Types     map[string]string
	Opaque    []OpaqueStmt
	// MigrationLedgerObjs: per-ledger objects created (and not dropped) by migrations.
	MigrationLedgerObjs map[string]*PerLedgerObj
	// History of function definitions (name -> origins in order), for diagnostics.
	FuncHistory map[string][]string
	// UniqueSnapshots holds, after each migration file in order, the set of unique constraints
	// present (keyed by table, column list and predicate — not by name, so renames and
	// drop+recreate inside one file are invisible): a constraint that disappears after file F and
	// reappears after a later file leaves a window during which the upgrade runs unprotected.
	UniqueSnapshots []UniqueSnapshot

	// Transactional selects the value of the .Transactional template variable.
	Transactional bool
	Temp          map[string]bool

	Files      int
	Statements int
	DataStmts  int
	Errors     []string

	// DataWrites are the one-shot INSERT/UPDATE/DELETE statements of the migrations (top level
	// and DO blocks), with the file they come from. Rules apply the who-may-write invariants to
	// those of migrations added after the tree they were confirmed on.
	DataWrites []DataWrite
}

// DataWrite is a data-changing statement executed once by a migration.
type DataWrite struct {
	Origin string // file:line
	File   string
	Toks   []Token
	Stmt   *Stmt // nil when it could not be parsed
	Err    error
}

func (c *Catalog) dataWrite(st []Token, origin string) {
	if len(st) == 0 {
		return
	}
	dw := DataWrite{Origin: fmt.Sprintf("%s:%d", origin, st[0].Line), File: origin, Toks: st}
	dw.Stmt, dw.Err = ParseStmt(st)
	c.DataWrites = append(c.DataWrites, dw)
}

func NewCatalog() *Catalog {
	return &Catalog{
		Tables: map[string]*Table{}, Indexes: map[string]*Index{}, Functions: map[string]*Function{},
		Triggers: map[string]*Trigger{}, Sequences: map[string]*Sequence{}, Enums: map[string]*Enum{}, Types: map[string]string{},
		MigrationLedgerObjs: map[string]*PerLedgerObj{}, FuncHistory: map[string][]string{}, Temp: map[string]bool{},
	}
}

var tmplID = regexp.MustCompile(`(?i)\{\{\s*(_?ledger\.id|_?l\.id|\.ID)\s*\}\}`)
var tmplName = regexp.MustCompile(`(?i)\{\{\s*(_?ledger\.name|_?l\.name|\.Name)\s*\}\}`)
var tmplBucket = regexp.MustCompile(`(?i)\{\{\s*(\.Bucket|\.Schema|current_schema)\s*\}\}`)

// NormText replaces the template actions of both template dialects (Go text/template in
// ledgerSetups, string concatenation in migration DO blocks) by neutral markers.
func NormText(s string) string {
	s = tmplID.ReplaceAllString(s, "<id>")
	s = tmplName.ReplaceAllString(s, "<name>")
	s = tmplBucket.ReplaceAllString(s, "<bucket>")
	return s
}

// NormName strips schema qualifiers that denote the bucket schema (template actions, public)
// and normalises template actions inside the name.
func NormName(name string) string {
	name = NormText(name)
	parts := splitDots(name)
	if len(parts) > 1 {
		pre := parts[len(parts)-2]
		last := parts[len(parts)-1]
		if pre == "_system" {
			return "_system." + last
		}
		return last
	}
	return name
}

func splitDots(name string) []string {
	var parts []string
	depth := 0
	start := 0
	for i := 0; i < len(name); i++ {
		switch name[i] {
		case '{', '<':
			depth++
		case '}', '>':
			if depth > 0 {
				depth--
			}
		case '.':
			if depth == 0 {
				parts = append(parts, name[start:i])
				start = i + 1
			}
		}
	}
	return append(parts, name[start:])
}

var tmplIf = regexp.MustCompile(`(?s)\{\{\s*if\s+(not\s+)?\.Transactional\s*\}\}(.*?)(\{\{\s*else\s*\}\}(.*?))?\{\{\s*end\s*\}\}`)

// ResolveTemplateIfs resolves {{if [not] .Transactional}}A{{else}}B{{end}} for one value of the
// only template variable the migrations branch on.
func ResolveTemplateIfs(src string, transactional bool) string {
	return tmplIf.ReplaceAllStringFunc(src, func(m string) string {
		g := tmplIf.FindStringSubmatch(m)
		cond := transactional
		if g[1] != "" {
			cond = !cond
		}
		if cond {
			return g[2]
		}
		return g[4]
	})
}

// LoadMigrations folds all bucket migrations found under dir (NN-name/up.sql) in numeric order.
// read allows overlaying file contents (nil = os.ReadFile).
func (c *Catalog) LoadMigrations(dir string, read func(string) ([]byte, error)) error {
	if read == nil {
		read = os.ReadFile
	}
	entries, err := os.ReadDir(dir)
	if err != nil {
		return err
	}
	type mig struct {
		n    int
		name string
	}
	var migs []mig
	for _, e := range entries {
		if !e.IsDir() {
			continue
		}
		i := strings.IndexByte(e.Name(), '-')
		if i < 0 {
			continue
		}
		n, err := strconv.Atoi(e.Name()[:i])
		if err != nil {
			continue
		}
		migs = append(migs, mig{n, e.Name()})
	}
	sort.Slice(migs, func(i, j int) bool { return migs[i].n < migs[j].n })
	for _, m := range migs {
		path := filepath.Join(dir, m.name, "up.sql")
		b, err := read(path)
		if err != nil {
			if os.IsNotExist(err) {
				continue
			}
			return err
		}
		c.Files++
		c.ApplyScript(ResolveTemplateIfs(string(b), c.Transactional), fmt.Sprintf("migrations/%s/up.sql", m.name), false, "")
		snap := UniqueSnapshot{File: fmt.Sprintf("migrations/%s/up.sql", m.name), Keys: map[string]bool{}}
		for _, ix := range c.Indexes {
			if ix.Unique {
				snap.Keys[UniqueKey(ix)] = true
			}
		}
		c.UniqueSnapshots = append(c.UniqueSnapshots, snap)
	}
	return nil
}

// UniqueSnapshot is the set of unique constraints present after one migration file.
type UniqueSnapshot struct {
	File string
	Keys map[string]bool
}

// UniqueKey identifies a unique index by what it constrains.
func UniqueKey(ix *Index) string {
	w := ""
	if ix.Where != nil {
		w = " where " + Canon(ix.Where)
	}
	return ix.Table + "(" + strings.Join(ix.Cols, ",") + ")" + w
}

// ApplyScript folds one SQL script into the catalog.
func (c *Catalog) ApplyScript(src, origin string, perLedger bool, cond string) {
	toks, err := Lex(src)
	if err != nil {
		c.Errors = append(c.Errors, origin+": "+err.Error())
	}
	for _, st := range SplitStatements(toks) {
		c.applyStmt(st, origin, perLedger, cond)
	}
}

func head(st []Token, n int) string {
	if len(st) < n {
		n = len(st)
	}
	return Join(st[:n])
}

func names(st []Token) map[string]bool {
	m := map[string]bool{}
	for _, t := range st {
		switch t.Kind {
		case Ident, QIdent:
			m[NormName(strings.ToLower(t.Text))] = true
		case Dollar, String:
			sub, _ := Lex(t.Text)
			for _, s := range sub {
				if s.Kind == Ident || s.Kind == QIdent {
					m[NormName(strings.ToLower(s.Text))] = true
				}
			}
		}
	}
	return m
}

func (c *Catalog) opaque(st []Token, origin, reason string) {
	c.Opaque = append(c.Opaque, OpaqueStmt{Origin: fmt.Sprintf("%s:%d", origin, st[0].Line), Head: head(st, 6), Names: names(st), Reason: reason})
}

// OpaqueMentioning returns the opaque statements that mention any of the given object names.
func (c *Catalog) OpaqueMentioning(objs ...string) []OpaqueStmt {
	var out []OpaqueStmt
	for _, o := range c.Opaque {
		for _, n := range objs {
			if o.Names[n] {
				out = append(out, o)
				break
			}
		}
	}
	return out
}

type tokcur struct {
	t []Token
	i int
}

func (k *tokcur) peek() Token {
	if k.i < len(k.t) {
		return k.t[k.i]
	}
	return Token{Kind: Op, Text: "<eof>"}
}
func (k *tokcur) next() Token { t := k.peek(); k.i++; return t }
func (k *tokcur) kw(s string) bool {
	if k.peek().Is(s) {
		k.i++
		return true
	}
	return false
}
func (k *tokcur) kws(ss ...string) bool {
	for j, s := range ss {
		if k.i+j >= len(k.t) || !k.t[k.i+j].Is(s) {
			return false
		}
	}
	k.i += len(ss)
	return true
}
func (k *tokcur) op(s string) bool {
	if k.peek().IsOp(s) {
		k.i++
		return true
	}
	return false
}
func (k *tokcur) eof() bool { return k.i >= len(k.t) }

// name reads a possibly qualified name and returns it normalised.
func (k *tokcur) name() (string, bool) {
	var parts []string
	for {
		t := k.peek()
		switch t.Kind {
		case Ident, QIdent:
			parts = append(parts, strings.ToLower(t.Text))
		case Tmpl:
			parts = append(parts, "{{"+t.Text+"}}")
		default:
			if len(parts) == 0 {
				return "", false
			}
			return NormName(strings.Join(parts, ".")), true
		}
		k.i++
		if k.peek().IsOp(".") {
			k.i++
			continue
		}
		return NormName(strings.Join(parts, ".")), true
	}
}

// parenGroup returns the tokens inside a balanced parenthesis group starting at the cursor.
func (k *tokcur) parenGroup() ([]Token, bool) {
	if !k.peek().IsOp("(") {
		return nil, false
	}
	depth := 0
	start := k.i + 1
	for k.i < len(k.t) {
		t := k.t[k.i]
		if t.IsOp("(") {
			depth++
		} else if t.IsOp(")") {
			depth--
			if depth == 0 {
				g := k.t[start:k.i]
				k.i++
				return g, true
			}
		}
		k.i++
	}
	return nil, false
}

func splitTop(toks []Token, sep string) [][]Token {
	var out [][]Token
	depth := 0
	start := 0
	for i, t := range toks {
		if t.Kind == Op {
			switch t.Text {
			case "(", "[":
				depth++
			case ")", "]":
				depth--
			default:
				if t.Text == sep && depth == 0 {
					out = append(out, toks[start:i])
					start = i + 1
				}
			}
		}
	}
	out = append(out, toks[start:])
	return out
}

func (c *Catalog) applyStmt(st []Token, origin string, perLedger bool, cond string) {
	if len(st) == 0 {
		return
	}
	c.Statements++
	at := fmt.Sprintf("%s:%d", origin, st[0].Line)
	k := &tokcur{t: st}
	switch {
	case k.kw("set"):
		return // set search_path / set local ...
	case k.kw("do"):
		for _, t := range st {
			if t.Kind == Dollar {
				c.applyBody(t.Text, origin, t.Line)
				return
			}
		}
		c.opaque(st, origin, "do block without body")
	case k.kw("create"):
		c.applyCreate(k, st, origin, at, perLedger, cond)
	case k.kw("drop"):
		c.applyDrop(k, st, origin, at)
	case k.kw("alter"):
		c.applyAlter(k, st, origin, at)
	case k.kw("select"):
		// select setval('"transaction_id_<id>"', ...) in per-ledger scripts
		if perLedger {
			text := NormText(Join(st))
			if strings.Contains(text, "setval") {
				s, err := ParseStmt(st)
				obj := &PerLedgerObj{Kind: "setval", Cond: cond, Origin: at, Text: text}
				if err == nil {
					obj.Stmt = s
				}
				// name = first string argument normalised
				for _, t := range st {
					if t.Kind == String {
						obj.Name = strings.Trim(NormName(strings.ReplaceAll(NormText(t.Text), `"`, "")), `"`)
						break
					}
				}
				c.ledgerObj(obj)
				return
			}
		}
		c.DataStmts++
	case k.kw("insert"), k.kw("update"), k.kw("delete"), k.kw("with"):
		c.DataStmts++
		c.dataWrite(st, origin)
	case k.kw("vacuum"), k.kw("analyze"), k.kw("lock"), k.kw("call"), k.kw("comment"), k.kw("grant"), k.kw("reindex"), k.kw("truncate"):
		c.DataStmts++
	default:
		c.opaque(st, origin, "unrecognised statement")
	}
}

func (c *Catalog) ledgerObj(o *PerLedgerObj) {
	c.MigrationLedgerObjs[o.Kind+":"+o.Name] = o
}

var stmtStart = map[string]bool{"create": true, "alter": true, "drop": true, "insert": true, "update": true, "delete": true, "execute": true, "for": true, "end": true, "set": true, "with": true, "select": true, "perform": true}

// applyBody scans a DO block body: static DDL is folded; dynamic DDL of the form
// `v = 'text' || expr || ...; execute v;` is evaluated symbolically inside its enclosing
// `for ledger in select * from _system.ledgers where <cond> loop`.
func (c *Catalog) applyBody(body, origin string, baseLine int) {
	toks, err := Lex(body)
	if err != nil {
		c.Errors = append(c.Errors, origin+": "+err.Error())
	}
	for i := range toks {
		toks[i].Line += baseLine - 1
	}
	frags := SplitStatements(toks)
	vars := map[string]string{}
	var condStack []string
	inDeclare := false
	for _, f := range frags {
		// strip leading block keywords
		if inDeclare {
			if len(f) > 0 && f[0].Is("begin") {
				inDeclare = false
			} else {
				continue
			}
		}
		for len(f) > 0 && (f[0].Is("begin") || f[0].Is("declare") || f[0].Is("then") || f[0].Is("else") || f[0].Is("loop")) {
			if f[0].Is("declare") {
				// declarations run until 'begin'
				j := 0
				for j < len(f) && !f[j].Is("begin") {
					j++
				}
				if j >= len(f) {
					f = nil
					inDeclare = true
					break
				}
				f = f[j:]
				continue
			}
			f = f[1:]
		}
		if len(f) == 0 {
			continue
		}
		switch {
		case f[0].Is("for"):
			// for X in select ... where ... loop <first statement>
			j := 0
			for j < len(f) && !f[j].Is("loop") {
				j++
			}
			hdr := f[:j]
			cond := ""
			for x := 0; x+4 < len(hdr); x++ {
				if hdr[x].Is("features") && hdr[x+1].IsOp("->>") && hdr[x+2].Kind == String && hdr[x+3].IsOp("=") && hdr[x+4].Kind == String {
					cond = hdr[x+2].Text + "=" + hdr[x+4].Text
				}
			}
			condStack = append(condStack, cond)
			if j+1 < len(f) {
				c.applyBodyStmt(f[j+1:], origin, vars, condStack)
			}
		case f[0].Is("end"):
			if len(f) > 1 && f[1].Is("loop") && len(condStack) > 0 {
				condStack = condStack[:len(condStack)-1]
			}
		default:
			c.applyBodyStmt(f, origin, vars, condStack)
		}
	}
}

func (c *Catalog) applyBodyStmt(f []Token, origin string, vars map[string]string, condStack []string) {
	if len(f) == 0 {
		return
	}
	cond := ""
	inLoop := len(condStack) > 0
	if inLoop {
		cond = condStack[len(condStack)-1]
	}
	// assignment of dynamic SQL text: v = 'x' || expr || 'y'  /  v := ...
	if len(f) >= 3 && f[0].Kind == Ident && (f[1].IsOp("=") || f[1].IsOp(":=")) {
		if text, ok := evalConcat(f[2:]); ok {
			vars[f[0].Text] = text
		} else {
			delete(vars, f[0].Text)
		}
		return
	}
	if f[0].Is("execute") {
		if len(f) == 2 && f[1].Kind == Ident {
			if text, ok := vars[f[1].Text]; ok {
				c.ApplyScript(text, fmt.Sprintf("%s(dynamic)", origin), inLoop, cond)
				return
			}
		}
		if text, ok := evalConcat(f[1:]); ok {
			c.ApplyScript(text, fmt.Sprintf("%s(dynamic)", origin), inLoop, cond)
			return
		}
		c.opaque(f, origin, "dynamic SQL not resolvable")
		return
	}
	switch f[0].Text {
	case "create", "alter", "drop", "set":
		c.applyStmt(f, origin, false, "")
	case "insert", "update", "delete", "with":
		c.DataStmts++
		c.dataWrite(f, origin)
	case "select", "perform", "raise", "return", "if", "elsif", "assert", "lock", "vacuum", "analyze", "call", "exit", "continue", "null", "while", "get", "commit":
		c.DataStmts++
	default:
		c.opaque(f, origin, "unrecognised statement in DO block")
	}
}

// evalConcat evaluates 'a' || expr || 'b' into a template string; non-literal operands
// become {{expr}} actions.
func evalConcat(toks []Token) (string, bool) {
	parts := splitTop(toks, "||")
	var sb strings.Builder
	sawString := false
	for _, p := range parts {
		if len(p) == 1 && p[0].Kind == String {
			sb.WriteString(p[0].Text)
			sawString = true
			continue
		}
		if len(p) == 0 {
			return "", false
		}
		sb.WriteString("{{" + strings.ReplaceAll(Join(p), " ", "") + "}}")
	}
	return sb.String(), sawString
}

func (c *Catalog) applyCreate(k *tokcur, st []Token, origin, at string, perLedger bool, cond string) {
	if k.kws("or", "replace") {
	}
	switch {
	case k.kw("function"), k.kw("procedure"):
		kind := st[k.i-1].Text
		name, ok := k.name()
		if !ok {
			c.opaque(st, origin, "function without name")
			return
		}
		fn := &Function{Name: name, Kind: kind, Origin: at}
		if g, ok := k.parenGroup(); ok {
			fn.Args = Join(g)
		}
		for !k.eof() {
			t := k.next()
			switch {
			case t.Is("returns"):
				var r []string
				for !k.eof() && !k.peek().Is("language") && !k.peek().Is("as") && !k.peek().Is("stable") && !k.peek().Is("immutable") && !k.peek().Is("security") && !k.peek().Is("volatile") && !k.peek().Is("parallel") && !k.peek().Is("strict") && !k.peek().Is("set") && k.peek().Kind != Dollar {
					r = append(r, k.next().Text)
				}
				fn.Returns = strings.Join(r, " ")
			case t.Is("language"):
				fn.Lang = k.next().Text
			case t.Kind == Dollar:
				fn.Body = t.Text
				bt, err := Lex(t.Text)
				if err != nil {
					c.Errors = append(c.Errors, at+": "+err.Error())
				}
				for i := range bt {
					bt[i].Line += t.Line - 1
				}
				fn.BodyToks = bt
			case t.Kind == String && fn.Body == "" && k.i >= 2 && st[k.i-2].Is("as"):
				fn.Body = t.Text
				fn.BodyToks, _ = Lex(t.Text)
			}
		}
		fn.extractDML()
		c.Functions[name] = fn
		c.FuncHistory[name] = append(c.FuncHistory[name], at)
	case k.kw("aggregate"), k.kw("extension"), k.kw("schema"), k.kw("view"), k.kw("materialized"), k.kw("domain"), k.kw("operator"), k.kw("cast"), k.kw("rule"), k.kw("collation"):
		// no rule depends on these object kinds; recorded as opaque so that a rule asking
		// about a name they mention is told.
		c.opaque(st, origin, "object kind not modelled")
	case k.kw("type"):
		name, _ := k.name()
		if k.kws("as", "enum") {
			g, _ := k.parenGroup()
			e := &Enum{Name: name}
			for _, t := range g {
				if t.Kind == String {
					e.Values = append(e.Values, t.Text)
				}
			}
			c.Enums[name] = e
		} else {
			c.Types[name] = Join(st)
		}
	case k.kw("sequence"):
		k.kws("if", "not", "exists")
		name, _ := k.name()
		sq := &Sequence{Name: name, PerLedger: perLedger, Origin: at}
		for !k.eof() {
			if k.kws("owned", "by") {
				var parts []string
				for !k.eof() {
					parts = append(parts, k.next().Text)
				}
				sq.OwnedBy = NormName(strings.Join(parts, ""))
			} else {
				k.next()
			}
		}
		if perLedger {
			c.ledgerObj(&PerLedgerObj{Kind: "sequence", Name: name, Cond: cond, Origin: at, Text: NormText(Join(st))})
		} else {
			c.Sequences[name] = sq
		}
	case k.kw("temporary"), k.kw("temp"), k.kw("unlogged"):
		if k.kw("table") {
			k.kws("if", "not", "exists")
			if n, ok := k.name(); ok {
				c.Temp[n] = true
			}
		}
		c.DataStmts++
	case k.kw("table"):
		k.kws("if", "not", "exists")
		name, _ := k.name()
		if k.peek().Is("as") {
			// create table X as select ...: scratch tables of data-fix migrations
			c.Temp[name] = true
			c.DataStmts++
			return
		}
		g, ok := k.parenGroup()
		if !ok {
			c.opaque(st, origin, "create table without column list")
			return
		}
		t := &Table{Name: name, Origin: at}
		for _, def := range splitTop(g, ",") {
			if len(def) == 0 {
				continue
			}
			dk := &tokcur{t: def}
			switch {
			case dk.kws("primary", "key"):
				cols, _ := dk.parenGroup()
				t.PK = identList(cols)
				c.Indexes[name+"_pkey"] = &Index{Name: name + "_pkey", Table: name, Cols: t.PK, Unique: true, Primary: true, Origin: at}
			case dk.kw("constraint"), dk.kw("unique"), dk.kw("foreign"), dk.kw("check"), dk.kw("exclude"):
				// table constraints: unique constraints create an index
				txt := Join(def)
				if strings.Contains(txt, "unique") {
					for j, x := range def {
						if x.Is("unique") {
							sub := &tokcur{t: def, i: j + 1}
							cols, _ := sub.parenGroup()
							nm := name + "_" + strings.Join(identList(cols), "_") + "_key"
							if def[0].Is("constraint") && len(def) > 1 {
								nm = strings.ToLower(def[1].Text)
							}
							c.Indexes[nm] = &Index{Name: nm, Table: name, Cols: identList(cols), Unique: true, Origin: at}
						}
					}
				}
			default:
				col := parseColumnDef(def, at)
				if col == nil {
					c.opaque(def, origin, "column definition not understood")
					continue
				}
				t.Cols = append(t.Cols, col)
				if hasKws(def, "primary", "key") {
					t.PK = []string{col.Name}
					c.Indexes[name+"_pkey"] = &Index{Name: name + "_pkey", Table: name, Cols: t.PK, Unique: true, Primary: true, Origin: at}
				}
				if hasKws(def, "unique") {
					nm := name + "_" + col.Name + "_key"
					c.Indexes[nm] = &Index{Name: nm, Table: name, Cols: []string{col.Name}, Unique: true, Origin: at}
				}
			}
		}
		c.Tables[name] = t
	case k.kw("unique"):
		if !k.kw("index") {
			c.opaque(st, origin, "create unique ?")
			return
		}
		c.createIndex(k, st, origin, at, true)
	case k.kw("index"):
		c.createIndex(k, st, origin, at, false)
	case k.kw("constraint"):
		if !k.kw("trigger") {
			c.opaque(st, origin, "create constraint ?")
			return
		}
		c.createTrigger(k, st, origin, at, perLedger, cond, true)
	case k.kw("trigger"):
		c.createTrigger(k, st, origin, at, perLedger, cond, false)
	default:
		c.opaque(st, origin, "unrecognised CREATE")
	}
}

func hasKws(toks []Token, kws ...string) bool {
	for i := 0; i+len(kws) <= len(toks); i++ {
		ok := true
		for j, kw := range kws {
			if !toks[i+j].Is(kw) {
				ok = false
				break
			}
		}
		if ok {
			return true
		}
	}
	return false
}

func identList(toks []Token) []string {
	var out []string
	for _, p := range splitTop(toks, ",") {
		if len(p) == 0 {
			continue
		}
		if n, err := ParseExprTokens(stripOrder(p)); err == nil {
			out = append(out, Canon(n))
		} else {
			out = append(out, Join(p))
		}
	}
	return out
}

func stripOrder(p []Token) []Token {
	for len(p) > 1 {
		l := p[len(p)-1]
		if l.Is("asc") || l.Is("desc") || l.Is("first") || l.Is("last") || l.Is("nulls") || l.Is("jsonb_path_ops") || l.Is("jsonb_ops") || l.Is("varchar_pattern_ops") || l.Is("text_pattern_ops") {
			p = p[:len(p)-1]
			continue
		}
		break
	}
	return p
}

func parseColumnDef(def []Token, at string) *Column {
	if len(def) < 2 {
		return nil
	}
	nm, ok := def[0].Name()
	if !ok {
		return nil
	}
	col := &Column{Name: strings.ToLower(nm), Origin: at}
	var ty []string
	i := 1
	for i < len(def) {
		t := def[i]
		if t.Is("not") || t.Is("null") || t.Is("default") || t.Is("primary") || t.Is("unique") || t.Is("references") || t.Is("check") || t.Is("constraint") || t.Is("generated") || t.Is("collate") {
			break
		}
		ty = append(ty, t.Text)
		i++
	}
	col.Type = strings.Join(ty, " ")
	for i < len(def) {
		switch {
		case def[i].Is("not") && i+1 < len(def) && def[i+1].Is("null"):
			col.NotNull = true
			i += 2
		case def[i].Is("default"):
			j := i + 1
			depth := 0
			for j < len(def) {
				if def[j].IsOp("(") {
					depth++
				} else if def[j].IsOp(")") {
					depth--
				}
				if depth == 0 && j > i+1 && (def[j].Is("not") || def[j].Is("primary") || def[j].Is("unique") || def[j].Is("references") || def[j].Is("check") || def[j].Is("constraint")) {
					break
				}
				j++
			}
			col.Default = Join(def[i+1 : j])
			i = j
		default:
			i++
		}
	}
	return col
}

func (c *Catalog) createIndex(k *tokcur, st []Token, origin, at string, unique bool) {
	k.kw("concurrently")
	k.kws("if", "not", "exists")
	var name string
	var ok bool
	if k.peek().Is("on") {
		name = fmt.Sprintf("<unnamed@%s>", at)
	} else if name, ok = k.name(); !ok {
		c.opaque(st, origin, "index without name")
		return
	}
	if !k.kw("on") {
		c.opaque(st, origin, "index without ON")
		return
	}
	k.kw("only")
	table, _ := k.name()
	if c.Temp[table] {
		c.DataStmts++
		return
	}
	if k.kw("using") {
		k.next()
	}
	g, ok := k.parenGroup()
	if !ok {
		c.opaque(st, origin, "index without column list")
		return
	}
	ix := &Index{Name: name, Table: table, Cols: identList(g), Unique: unique, Origin: at}
	for !k.eof() {
		if k.kw("where") {
			n, err := ParseExprTokens(k.t[k.i:])
			if err != nil {
				c.opaque(st, origin, "index predicate not parsed: "+err.Error())
				return
			}
			ix.Where = n
			break
		}
		if k.kw("include") || k.kw("with") {
			k.parenGroup()
			continue
		}
		k.next()
	}
	c.Indexes[name] = ix
}

func (c *Catalog) createTrigger(k *tokcur, st []Token, origin, at string, perLedger bool, cond string, constraint bool) {
	raw := ""
	if t := k.peek(); t.Kind == QIdent || t.Kind == Ident {
		raw = t.Text
	}
	name, ok := k.name()
	if !ok {
		c.opaque(st, origin, "trigger without name")
		return
	}
	_ = raw
	tr := &Trigger{Name: name, PerLedger: perLedger || strings.Contains(name, "<id>"), Cond: cond, Origin: at, Constraint: constraint}
	switch {
	case k.kw("before"):
		tr.Timing = "before"
	case k.kw("after"):
		tr.Timing = "after"
	case k.kws("instead", "of"):
		tr.Timing = "instead of"
	default:
		c.opaque(st, origin, "trigger timing")
		return
	}
	for {
		t := k.next()
		if t.Is("insert") || t.Is("update") || t.Is("delete") || t.Is("truncate") {
			tr.Events = append(tr.Events, t.Text)
			if k.peek().Is("of") {
				k.next()
				for !k.peek().Is("on") && !k.peek().Is("or") && !k.eof() {
					k.next()
				}
			}
		}
		if !k.kw("or") {
			break
		}
	}
	if !k.kw("on") {
		c.opaque(st, origin, "trigger without ON")
		return
	}
	tr.Table, _ = k.name()
	for !k.eof() {
		switch {
		case k.kw("when"):
			g, ok := k.parenGroup()
			if !ok {
				c.opaque(st, origin, "trigger WHEN")
				return
			}
			tr.WhenSrc = NormText(Join(g))
			if n, err := ParseExprTokens(g); err == nil {
				tr.When = n
			}
		case k.kw("execute"):
			k.next() // procedure | function
			tr.Func, _ = k.name()
		default:
			k.next()
		}
	}
	if tr.PerLedger {
		c.ledgerObj(&PerLedgerObj{Kind: "trigger", Name: name, Cond: cond, Origin: at, Text: NormText(Join(st))})
	}
	c.Triggers[tr.Table+"/"+name] = tr
}

func (c *Catalog) applyDrop(k *tokcur, st []Token, origin, at string) {
	switch {
	case k.kw("function"), k.kw("procedure"):
		k.kws("if", "exists")
		name, _ := k.name()
		delete(c.Functions, name)
		c.FuncHistory[name] = append(c.FuncHistory[name], at+"(drop)")
	case k.kw("trigger"):
		k.kws("if", "exists")
		name, _ := k.name()
		table := ""
		if k.kw("on") {
			table, _ = k.name()
		}
		delete(c.Triggers, table+"/"+name)
		delete(c.MigrationLedgerObjs, "trigger:"+name)
	case k.kw("index"):
		k.kw("concurrently")
		k.kws("if", "exists")
		for {
			name, ok := k.name()
			if !ok {
				break
			}
			delete(c.Indexes, name)
			if !k.op(",") {
				break
			}
		}
	case k.kw("table"):
		k.kws("if", "exists")
		name, _ := k.name()
		delete(c.Temp, name)
		if _, ok := c.Tables[name]; ok {
			delete(c.Tables, name)
			for in, ix := range c.Indexes {
				if ix.Table == name {
					delete(c.Indexes, in)
				}
			}
		}
	case k.kw("sequence"):
		k.kws("if", "exists")
		name, _ := k.name()
		delete(c.Sequences, name)
		delete(c.MigrationLedgerObjs, "sequence:"+name)
	case k.kw("type"):
		k.kws("if", "exists")
		name, _ := k.name()
		delete(c.Types, name)
		delete(c.Enums, name)
	case k.kw("aggregate"), k.kw("extension"), k.kw("view"), k.kw("schema"), k.kw("domain"), k.kw("cast"), k.kw("operator"):
	default:
		c.opaque(st, origin, "unrecognised DROP")
	}
}

func (c *Catalog) dropColumn(table, col string) {
	t := c.Tables[table]
	if t == nil {
		return
	}
	for i, cc := range t.Cols {
		if cc.Name == col {
			t.Cols = append(t.Cols[:i], t.Cols[i+1:]...)
			break
		}
	}
	// Postgres drops indexes (and constraints) that depend on the column.
	re := regexp.MustCompile(`(^|[^a-z0-9_])` + regexp.QuoteMeta(col) + `($|[^a-z0-9_])`)
	for name, ix := range c.Indexes {
		if ix.Table != table {
			continue
		}
		hit := false
		for _, e := range ix.Cols {
			if re.MatchString(e) {
				hit = true
			}
		}
		if ix.Where != nil && re.MatchString(Canon(ix.Where)) {
			hit = true
		}
		if hit {
			delete(c.Indexes, name)
			if ix.Primary {
				t.PK = nil
			}
		}
	}
}

func (c *Catalog) applyAlter(k *tokcur, st []Token, origin, at string) {
	switch {
	case k.kw("index"):
		k.kws("if", "exists")
		name, _ := k.name()
		if k.kws("rename", "to") {
			nn, _ := k.name()
			if ix, ok := c.Indexes[name]; ok {
				delete(c.Indexes, name)
				ix.Name = nn
				c.Indexes[nn] = ix
			}
			return
		}
		c.DataStmts++
	case k.kw("type"):
		name, _ := k.name()
		if k.kws("add", "value") {
			k.kws("if", "not", "exists")
			if t := k.next(); t.Kind == String {
				if e, ok := c.Enums[name]; ok {
					e.Values = append(e.Values, t.Text)
				} else {
					c.opaque(st, origin, "alter type on unknown enum")
				}
				return
			}
		}
		c.opaque(st, origin, "unrecognised ALTER TYPE")
	case k.kw("sequence"):
		c.DataStmts++
	case k.kw("function"), k.kw("procedure"):
		c.DataStmts++
	case k.kw("table"):
		k.kws("if", "exists")
		k.kw("only")
		table, _ := k.name()
		t := c.Tables[table]
		if t == nil && c.Temp[table] {
			c.DataStmts++
			return
		}
		if t == nil {
			// tables of other schemas (_system) are not folded here
			c.opaque(st, origin, "alter table on unknown table "+table)
			return
		}
		for _, act := range splitTop(k.t[k.i:], ",") {
			if len(act) == 0 {
				continue
			}
			a := &tokcur{t: act}
			switch {
			case a.kws("add", "column"), a.kw("add") && !(a.peek().Is("primary") || a.peek().Is("constraint") || a.peek().Is("unique") || a.peek().Is("foreign") || a.peek().Is("check")):
				a.kws("if", "not", "exists")
				col := parseColumnDef(a.t[a.i:], at)
				if col == nil {
					c.opaque(act, origin, "add column not understood")
					continue
				}
				if t.Col(col.Name) == nil {
					t.Cols = append(t.Cols, col)
				}
			case a.i == 1 && a.kws("primary", "key"):
				// (after 'add')
				if a.kws("using", "index") {
					in, _ := a.name()
					if ix, ok := c.Indexes[in]; ok {
						ix.Primary = true
						t.PK = ix.Cols
					} else {
						c.opaque(act, origin, "primary key using unknown index "+in)
					}
				} else if g, ok := a.parenGroup(); ok {
					t.PK = identList(g)
					c.Indexes[table+"_pkey"] = &Index{Name: table + "_pkey", Table: table, Cols: t.PK, Unique: true, Primary: true, Origin: at}
				}
			case a.i == 1 && a.kw("constraint"):
				cn, _ := a.name()
				switch {
				case a.kws("primary", "key"):
					if a.kws("using", "index") {
						in, _ := a.name()
						if ix, ok := c.Indexes[in]; ok {
							delete(c.Indexes, in)
							ix.Name = cn
							ix.Primary = true
							c.Indexes[cn] = ix
							t.PK = ix.Cols
						}
					} else if g, ok := a.parenGroup(); ok {
						t.PK = identList(g)
						c.Indexes[cn] = &Index{Name: cn, Table: table, Cols: t.PK, Unique: true, Primary: true, Origin: at}
					}
				case a.kw("unique"):
					if a.kws("using", "index") {
						in, _ := a.name()
						if ix, ok := c.Indexes[in]; ok {
							delete(c.Indexes, in)
							ix.Name = cn
							c.Indexes[cn] = ix
						}
					} else if g, ok := a.parenGroup(); ok {
						c.Indexes[cn] = &Index{Name: cn, Table: table, Cols: identList(g), Unique: true, Origin: at}
					}
				default:
					// check / foreign key constraints: not modelled
				}
			case a.i == 1:
				// add unique(...) / add foreign key / add check
				if a.kw("unique") {
					if g, ok := a.parenGroup(); ok {
						nm := table + "_" + strings.Join(identList(g), "_") + "_key"
						c.Indexes[nm] = &Index{Name: nm, Table: table, Cols: identList(g), Unique: true, Origin: at}
					}
				}
			case a.kws("drop", "column"):
				a.kws("if", "exists")
				cn, _ := a.name()
				c.dropColumn(table, cn)
			case a.kws("drop", "constraint"):
				a.kws("if", "exists")
				cn, _ := a.name()
				if ix, ok := c.Indexes[cn]; ok {
					if ix.Primary {
						t.PK = nil
					}
					delete(c.Indexes, cn)
				}
			case a.kws("alter", "column"), a.kw("alter"):
				cn, _ := a.name()
				col := t.Col(cn)
				if col == nil {
					c.opaque(act, origin, "alter unknown column "+cn)
					continue
				}
				switch {
				case a.kws("set", "default"):
					col.Default = Join(a.t[a.i:])
				case a.kws("drop", "default"):
					col.Default = ""
				case a.kws("drop", "not", "null"):
					col.NotNull = false
				case a.kws("set", "not", "null"):
					col.NotNull = true
				case a.kw("type"), a.kws("set", "data", "type"):
					var ty []string
					for !a.eof() && !a.peek().Is("using") {
						ty = append(ty, a.next().Text)
					}
					col.Type = strings.Join(ty, " ")
				default:
					// storage / statistics options
				}
			case a.kws("rename", "column"):
				from, _ := a.name()
				a.kw("to")
				to, _ := a.name()
				if col := t.Col(from); col != nil {
					col.Name = to
				}
				re := regexp.MustCompile(`(^|[^a-z0-9_])` + regexp.QuoteMeta(from) + `($|[^a-z0-9_])`)
				for _, ix := range c.Indexes {
					if ix.Table == table {
						for i, e := range ix.Cols {
							ix.Cols[i] = re.ReplaceAllString(e, "${1}"+to+"${2}")
						}
					}
				}
			case a.kws("rename", "to"):
				nn, _ := a.name()
				delete(c.Tables, table)
				t.Name = nn
				c.Tables[nn] = t
			case a.kw("set"), a.kw("reset"), a.kw("enable"), a.kw("disable"), a.kw("owner"), a.kw("validate"), a.kw("cluster"), a.kw("replica"):
				// storage parameters etc.
			default:
				c.opaque(act, origin, "unrecognised ALTER TABLE action")
			}
		}
	default:
		c.opaque(st, origin, "unrecognised ALTER")
	}
}

// extractDML finds the DML statements of a function body.
func (f *Function) extractDML() {
	toks := f.BodyToks
	if len(toks) == 0 {
		return
	}
	if f.Lang == "sql" {
		for _, st := range SplitStatements(toks) {
			if s, err := ParseStmt(st); err == nil {
				f.Stmts = append(f.Stmts, s)
			} else {
				f.Opaque = append(f.Opaque, fmt.Sprintf("line %d: %v", st[0].Line, err))
			}
		}
		return
	}
	for _, frag := range SplitStatements(toks) {
		// find the first DML keyword at depth 0 preceded by a block keyword or at the start
		for len(frag) > 0 {
			t := frag[0]
			if t.Is("declare") {
				j := 0
				for j < len(frag) && !frag[j].Is("begin") {
					j++
				}
				frag = frag[j:]
				continue
			}
			if t.Is("begin") || t.Is("then") || t.Is("else") || t.Is("loop") {
				frag = frag[1:]
				continue
			}
			break
		}
		if len(frag) == 0 {
			continue
		}
		switch {
		case frag[0].Is("if") || frag[0].Is("elsif"):
			// if <cond> then <stmt>
			for j, t := range frag {
				if t.Is("then") && j+1 < len(frag) {
					f.tryStmt(frag[j+1:])
					break
				}
			}
		case frag[0].Is("for") || frag[0].Is("while"):
			for j, t := range frag {
				if t.Is("loop") && j+1 < len(frag) {
					f.tryStmt(frag[j+1:])
					break
				}
			}
		default:
			f.tryStmt(frag)
		}
	}
}

func (f *Function) tryStmt(frag []Token) {
	if len(frag) == 0 {
		return
	}
	switch frag[0].Text {
	case "select", "insert", "update", "delete", "with":
		if frag[0].Kind != Ident {
			return
		}
		s, err := ParseStmt(frag)
		if err != nil {
			f.Opaque = append(f.Opaque, fmt.Sprintf("line %d: %v", frag[0].Line, err))
			return
		}
		f.Stmts = append(f.Stmts, s)
	case "return":
		// return (select ...) / return query select ...
		rest := frag[1:]
		if len(rest) > 0 && rest[0].Is("query") {
			rest = rest[1:]
		}
		if len(rest) > 0 && (rest[0].Is("select") || rest[0].Is("with")) {
			if s, err := ParseStmt(rest); err == nil {
				f.Stmts = append(f.Stmts, s)
			}
			return
		}
		if n, err := ParseExprTokens(rest); err == nil {
			for _, s := range nodeSubs(n) {
				f.Stmts = append(f.Stmts, s)
			}
		}
	case "perform":
		cp := append([]Token{{Kind: Ident, Text: "select", Raw: "select", Line: frag[0].Line}}, frag[1:]...)
		if s, err := ParseStmt(cp); err == nil {
			f.Stmts = append(f.Stmts, s)
		}
	default:
		// assignment: x = expr / new.col = (select ...)
		for j, t := range frag {
			if (t.IsOp("=") || t.IsOp(":=")) && j > 0 {
				if n, err := ParseExprTokens(frag[j+1:]); err == nil {
					tgt := strings.ToLower(Join(frag[:j]))
					tgt = strings.ReplaceAll(tgt, " ", "")
					st := &Stmt{Kind: "assign", Table: tgt, Set: []Assign{{Col: tgt, Expr: n}}, Toks: frag}
					f.Stmts = append(f.Stmts, st)
				} else {
					f.Opaque = append(f.Opaque, fmt.Sprintf("line %d: %v", frag[0].Line, err))
				}
				break
			}
			if t.Kind == Op && !t.IsOp(".") {
				break
			}
		}
	}
}

func nodeSubs(n *Node) []*Stmt {
	var out []*Stmt
	var v func(*Node)
	v = func(x *Node) {
		if x == nil {
			return
		}
		if x.Sub != nil {
			out = append(out, x.Sub)
		}
		for _, a := range x.Args {
			v(a)
		}
	}
	v(n)
	return out
}

// AllStmts returns the function's statements with every nested statement flattened.
func (f *Function) AllStmts() []*Stmt {
	var out []*Stmt
	for _, s := range f.Stmts {
		if s.Kind == "assign" {
			out = append(out, s)
			for _, a := range s.Set {
				for _, sub := range nodeSubs(a.Expr) {
					out = append(out, SubStmts(sub)...)
				}
			}
			continue
		}
		out = append(out, SubStmts(s)...)
	}
	return out
}

// Calls returns the names of functions called anywhere in the body (token-level: ident followed by '(').
func (f *Function) Calls() []string {
	seen := map[string]bool{}
	var out []string
	for i := 0; i+1 < len(f.BodyToks); i++ {
		t := f.BodyToks[i]
		if (t.Kind == Ident || t.Kind == QIdent) && f.BodyToks[i+1].IsOp("(") {
			n := strings.ToLower(t.Text)
			if !seen[n] {
				seen[n] = true
				out = append(out, n)
			}
		}
	}
	sort.Strings(out)
	return out
}

// SortedKeys is a helper for deterministic iteration.
func SortedKeys[V any](m map[string]V) []string {
	ks := make([]string, 0, len(m))
	for k := range m {
		ks = append(ks, k)
	}
	sort.Strings(ks)
	return ks
}
