package rules

import (
	"fmt"
	"go/ast"
	"go/token"
	"go/types"
	"sort"
	"strings"

	"ledgerlint/internal/astx"
	"ledgerlint/internal/core"
)

func init() {
	register("C37", checkC37)
	addBreakers("C37",
		Breaker{Name: "logs-template-on-transactions-store", File: "internal/controller/ledger/controller_default.go",
			Old: "\t\t\t\tr, err := ctrl.store.Logs().Paginate(ctx, resourceQuery)\n\t\t\t\tif err != nil {\n\t\t\t\t\treturn nil, nil, err\n\t\t\t\t}\n\t\t\t\tresult = paginate.MapCursor(r, func(x ledger.Log) any { return x })", New: "\t\t\t\tr, err := ctrl.store.Transactions().Paginate(ctx, resourceQuery)\n\t\t\t\tif err != nil {\n\t\t\t\t\treturn nil, nil, err\n\t\t\t\t}\n\t\t\t\tresult = paginate.MapCursor(r, func(x ledger.Transaction) any { return x })", Expect: "EXH/query-resources"},
		Breaker{Name: "cursor-arm-missing", File: "internal/controller/ledger/controller_default.go",
			Old: "\tcase queries.ResourceKindLog:\n\t\tresourceQuery, err := storagecommon.UnmarshalCursor[any](*q.Cursor)\n\t\tif err != nil {\n\t\t\treturn nil, nil, newErrQueryValidation(err)\n\t\t}\n\t\tr, err := ctrl.store.Logs().Paginate(ctx, resourceQuery)\n\t\tif err != nil {\n\t\t\treturn nil, nil, err\n\t\t}\n\t\tresult = paginate.MapCursor(r, func(x ledger.Log) any { return x })\n", New: "", Expect: "EXH/query-resources"},
		Breaker{Name: "accounts-template-default-order-desc", File: "internal/controller/ledger/controller_default.go",
			Old: "\t\t\t\t\tSortColumn: \"address\",\n\t\t\t\t\tSortOrder:  pointer.For(paginate.Order(paginate.OrderAsc)),", New: "\t\t\t\t\tSortColumn: \"address\",\n\t\t\t\t\tSortOrder:  pointer.For(paginate.Order(paginate.OrderDesc)),", Expect: "AGREE/query-defaults"},
		Breaker{Name: "transactions-template-default-column", File: "internal/controller/ledger/controller_default.go",
			Old: "\t\t\tcase queries.ResourceKindTransaction:\n\t\t\t\tparams, err := ledger.QueryTemplateParams[any]{\n\t\t\t\t\tPageSize:   uint(paginationConfig.DefaultPageSize),\n\t\t\t\t\tSortColumn: \"id\",", New: "\t\t\tcase queries.ResourceKindTransaction:\n\t\t\t\tparams, err := ledger.QueryTemplateParams[any]{\n\t\t\t\t\tPageSize:   uint(paginationConfig.DefaultPageSize),\n\t\t\t\t\tSortColumn: \"timestamp\",", Expect: "AGREE/query-defaults"},
		Breaker{Name: "request-params-overridden-by-template", File: "internal/controller/ledger/controller_default.go",
			Old: "\t\t\t\t\tSortColumn: \"account\",\n\t\t\t\t\tSortOrder:  pointer.For(paginate.Order(paginate.OrderAsc)),\n\t\t\t\t\tOpts: ledger.GetVolumesOptions{\n\t\t\t\t\t\tUseInsertionDate: false,\n\t\t\t\t\t\tGroupLvl:         0,\n\t\t\t\t\t},\n\t\t\t\t}.Overwrite(template.Params, q.Params)", New: "\t\t\t\t\tSortColumn: \"account\",\n\t\t\t\t\tSortOrder:  pointer.For(paginate.Order(paginate.OrderAsc)),\n\t\t\t\t\tOpts: ledger.GetVolumesOptions{\n\t\t\t\t\t\tUseInsertionDate: false,\n\t\t\t\t\t\tGroupLvl:         0,\n\t\t\t\t\t},\n\t\t\t\t}.Overwrite(q.Params, template.Params)", Expect: "DOM/query-params"},
		Breaker{Name: "page-size-uncapped", File: "internal/controller/ledger/controller_default.go",
			Old: "\tif uint64(params.PageSize) > paginationConfig.MaxPageSize {\n\t\tparams.PageSize = uint(paginationConfig.MaxPageSize)\n\t}\n", New: "", Expect: "DOM/query-params"},
		Breaker{Name: "expand-dropped", File: "internal/controller/ledger/controller_default.go",
			Old: "\t\t\tExpand:  params.Expand,\n\t\t\tOpts:    params.Opts,", New: "\t\t\tOpts:    params.Opts,", Expect: "DOM/query-params"},
		Breaker{Name: "filter-not-applied", File: "internal/controller/ledger/controller_default.go",
			Old: "\t\t\t\tresourceQuery := templateParamsToQuery(*params, builder, paginationConfig)\n\t\t\t\tr, err := ctrl.store.Accounts().Paginate(ctx, resourceQuery)", New: "\t\t\t\tresourceQuery := templateParamsToQuery(*params, nil, paginationConfig)\n\t\t\t\tr, err := ctrl.store.Accounts().Paginate(ctx, resourceQuery)", Expect: "DOM/query-params"},
		Breaker{Name: "request-vars-ignored", File: "internal/controller/ledger/controller_default.go",
			Old: "queries.ResolveFilterTemplate(template.Resource, template.Body, template.Vars, q.Vars)", New: "queries.ResolveFilterTemplate(template.Resource, template.Body, template.Vars, nil)", Expect: "DOM/query-params"},
		Breaker{Name: "cursor-decoded-with-wrong-options", File: "internal/controller/ledger/controller_default.go",
			Old: "storagecommon.UnmarshalCursor[ledger.GetVolumesOptions](*q.Cursor)", New: "storagecommon.UnmarshalCursor[any](*q.Cursor)", Expect: "EXH/query-resources"},
		Breaker{Name: "overwrite-first-wins", File: "internal/query_template.go",
			Old: "\tfor _, other := range others {\n\t\tif len(other) != 0", New: "\tfor i := len(others) - 1; i >= 0; i-- {\n\t\tother := others[i]\n\t\tif len(other) != 0", Expect: "DOM/query-params"},
		Breaker{Name: "sort-param-ignored", File: "internal/query_template.go",
			Old: "\tp.PIT = x.PIT\n\tp.OOT = x.OOT\n", New: "\tp.PIT = x.PIT\n", Expect: "KEYS/query-params"},
	)
}

func checkC37(c *core.Ctx) {
	c.Decide("the resource kinds agree across the constant list, queries.Resources, GetResourceSchema, the arms of RunQuery and the arms of runQueryFromCursor; each arm paginates the store resource of its own kind, and the cursor arm decodes the cursor with the option type the first-page arm uses; per resource the default sort column and order of RunQuery equal those the v2 list handler passes to getPaginatedQuery, the default page size is the pagination config's default and the page size is capped by its maximum; the template's params are overwritten by the request's params (argument order, and Overwrite applies its arguments in order onto the defaults); every field of the params reaches the paginated query (PIT, OOT, expand, options, sort column, order, page size) together with the filter resolved from template body, declared variables and request variables; a request carrying a cursor is served from that cursor on the same resource; the params codec assigns every wire key it reads and the extra-field check allows exactly those keys (plus the volume options' JSON names)")
	c.NotDecided("that the two queries return the same rows (execution); variable substitution results (C36 covers numeric exactness)")
	ruleQueryResources(c)
	ruleQueryDefaults(c)
	ruleQueryParamsFlow(c)
	ruleQueryParamsKeys(c)
	ruleSortOrderOnlyWhenGiven(c)
	ruleTemplateResolutionStateless(c)
	ruleCallerBindingWins(c)
}

type queryArm struct {
	kind     string
	clause   *ast.CaseClause
	resource string // store accessor: Transactions, Accounts, …
	optsType string
	column   string
	order    string
}

func queryArms(c *core.Ctx, d *astx.DeclInfo) (map[string]*queryArm, *ast.CaseClause) {
	info := d.Pkg.TypesInfo
	out := map[string]*queryArm{}
	var def *ast.CaseClause
	ast.Inspect(d.Decl.Body, func(n ast.Node) bool {
		sw, ok := n.(*ast.SwitchStmt)
		if !ok || sw.Tag == nil || !strings.HasSuffix(types.ExprString(sw.Tag), ".Resource") {
			return true
		}
		for _, cl := range sw.Body.List {
			cc := cl.(*ast.CaseClause)
			if cc.List == nil {
				def = cc
				continue
			}
			for _, e := range cc.List {
				o := constObj(info, e)
				if o == nil {
					continue
				}
				a := &queryArm{kind: o.Name(), clause: cc}
				for _, p := range callsTo(info, cc, named("Paginate")) {
					if inner, ok := recvExpr(p).(*ast.CallExpr); ok {
						if f := astx.Callee(info, inner); f != nil {
							a.resource = f.Name()
						}
					}
				}
				ast.Inspect(cc, func(x ast.Node) bool {
					switch y := x.(type) {
					case *ast.IndexExpr:
						// UnmarshalCursor[T] / QueryTemplateParams[T]
						name := types.ExprString(y.X)
						if strings.HasSuffix(name, "UnmarshalCursor") || strings.HasSuffix(name, "QueryTemplateParams") {
							a.optsType = types.ExprString(y.Index)
						}
					case *ast.CompositeLit:
						if v := fieldOfCompositeLit(y, "SortColumn"); v != nil {
							a.column, _ = astx.ConstString(info, v)
						}
						if v := fieldOfCompositeLit(y, "SortOrder"); v != nil {
							s := types.ExprString(v)
							switch {
							case strings.Contains(s, "OrderAsc"):
								a.order = "asc"
							case strings.Contains(s, "OrderDesc"):
								a.order = "desc"
							}
						}
					}
					return true
				})
				out[o.Name()] = a
			}
		}
		return false
	})
	return out, def
}

var kindToAccessor = map[string]string{"ResourceKindTransaction": "Transactions", "ResourceKindAccount": "Accounts", "ResourceKindLog": "Logs", "ResourceKindVolume": "Volumes"}

func ruleQueryResources(c *core.Ctx) {
	pk := c.Prog().Pkg(pkgQueries)
	if pk == nil {
		return
	}
	kinds := map[string]bool{}
	sc := pk.Types.Scope()
	for _, n := range sc.Names() {
		if k, ok := sc.Lookup(n).(*types.Const); ok && astx.IsNamed(k.Type(), pk.PkgPath, "ResourceKind") {
			kinds[n] = true
		}
	}
	c.Floor("EXH/query-resources", "resource kinds", len(kinds), 4)
	// queries.Resources
	listed := map[string]bool{}
	for _, f := range pk.Syntax {
		ast.Inspect(f, func(n ast.Node) bool {
			vs, ok := n.(*ast.ValueSpec)
			if !ok || len(vs.Names) != 1 || vs.Names[0].Name != "Resources" || len(vs.Values) != 1 {
				return true
			}
			if cl, ok := vs.Values[0].(*ast.CompositeLit); ok {
				for _, e := range cl.Elts {
					if o := constObj(pk.TypesInfo, e); o != nil {
						listed[o.Name()] = true
					}
				}
			}
			return true
		})
	}
	schemaArms := map[string]bool{}
	if d := fn(c, pkgQueries, "", "GetResourceSchema"); d != nil {
		kindObjs := map[types.Object]bool{}
		for n := range kinds {
			kindObjs[sc.Lookup(n)] = true
		}
		got, _, _ := switchCases(d.Pkg.TypesInfo, d.Decl.Body, kindObjs)
		for o := range got {
			schemaArms[o.Name()] = true
		}
	}
	run := fn(c, pkgCtrl, "DefaultController", "RunQuery")
	cur := fn(c, pkgCtrl, "DefaultController", "runQueryFromCursor")
	if run == nil || cur == nil {
		return
	}
	runArms, runDef := queryArms(c, run)
	curArms, curDef := queryArms(c, cur)
	var names []string
	for k := range kinds {
		names = append(names, k)
	}
	sort.Strings(names)
	for _, k := range names {
		c.Check(listed[k], "EXH/query-resources", k+":listed", "", "in queries.Resources", k+" is missing from queries.Resources")
		c.Check(schemaArms[k], "EXH/query-resources", k+":schema", "", "arm in GetResourceSchema", k+" has no schema in GetResourceSchema")
		ra, ca := runArms[k], curArms[k]
		c.Check(ra != nil, "EXH/query-resources", k+":run-arm", pos(c, run.Decl), "arm in RunQuery", "RunQuery has no arm for "+k+": a stored template of that kind cannot run")
		c.Check(ca != nil, "EXH/query-resources", k+":cursor-arm", pos(c, cur.Decl), "arm in runQueryFromCursor", "runQueryFromCursor has no arm for "+k+": the cursor returned by the first page cannot be followed")
		want := kindToAccessor[k]
		if want == "" {
			c.Unknown("EXH/query-resources", k+":accessor", "", "no store accessor known for this resource kind; extend kindToAccessor")
			continue
		}
		if ra != nil {
			c.Check(ra.resource == want, "EXH/query-resources", k+":run-store", pos(c, ra.clause), "store."+want+"().Paginate", fmt.Sprintf("the RunQuery arm of %s paginates store.%s(): the template returns another resource than the one it describes", k, ra.resource))
		}
		if ca != nil {
			c.Check(ca.resource == want, "EXH/query-resources", k+":cursor-store", pos(c, ca.clause), "store."+want+"().Paginate", fmt.Sprintf("the cursor arm of %s paginates store.%s()", k, ca.resource))
		}
		if ra != nil && ca != nil {
			c.Check(ra.optsType == ca.optsType && ra.optsType != "", "EXH/query-resources", k+":options-type", pos(c, ca.clause), "cursor decoded with "+ra.optsType, fmt.Sprintf("the first page of %s is built with options %s but its cursor is decoded with %s: the options (group level, date mode) are lost when following the cursor", k, ra.optsType, ca.optsType))
		}
	}
	for _, d := range []struct {
		def *ast.CaseClause
		di  *astx.DeclInfo
	}{{runDef, run}, {curDef, cur}} {
		ok := false
		if d.def != nil && len(d.def.Body) > 0 {
			if r, isR := d.def.Body[len(d.def.Body)-1].(*ast.ReturnStmt); isR && isErrorReturn(d.di.Pkg.TypesInfo, d.di.Decl.Body, r) == 1 {
				ok = true
			}
		}
		c.Check(ok, "EXH/query-resources", declKey(d.di)+":default", pos(c, d.di.Decl), "unknown kind → error", "an unknown resource kind is not answered with an error")
	}
	// cursor path selected exactly when the request carries a cursor, same template
	info := run.Pkg.TypesInfo
	calls := callsTo(info, run.Decl.Body, named("runQueryFromCursor"))
	okCur := false
	if len(calls) == 1 && len(calls[0].Args) == 3 {
		fs := factStrings(info, run.Decl.Body, calls[0].Pos())
		okCur = hasFact(fs, "q.Cursor != nil", true) && types.ExprString(calls[0].Args[1]) == "template" && types.ExprString(calls[0].Args[2]) == "q"
		for _, a := range runArms {
			if !hasFact(factStrings(info, run.Decl.Body, a.clause.Pos()), "q.Cursor != nil", false) {
				okCur = false
			}
		}
	}
	c.Check(okCur, "EXH/query-resources", declKey(run)+":cursor-dispatch", pos(c, run.Decl), "cursor ⇒ runQueryFromCursor(template, q); no cursor ⇒ first page", "a request with a cursor is not served from that cursor on the same template (or a request without one is)")
}

// handlerDefaults resolves the (column, order) arguments a v2 list handler passes to getPaginatedQuery.
func handlerDefaults(c *core.Ctx, file string) (string, string, bool) {
	pk := c.Prog().Pkg(pkgAPIv2)
	if pk == nil {
		return "", "", false
	}
	info := pk.TypesInfo
	for _, f := range pk.Syntax {
		if !strings.HasSuffix(c.Prog().Rel(f.Pos()), file+":1") && !strings.Contains(c.Prog().Rel(f.Pos()), "/"+file) {
			continue
		}
		var col, ord string
		found := false
		ast.Inspect(f, func(n ast.Node) bool {
			call, ok := n.(*ast.CallExpr)
			if !ok {
				return true
			}
			fo := astx.Callee(info, call)
			if fo == nil || fo.Name() != "getPaginatedQuery" || len(call.Args) < 4 {
				return true
			}
			found = true
			resolve := func(e ast.Expr) string {
				if s, ok := astx.ConstString(info, e); ok {
					return s
				}
				txt := types.ExprString(e)
				if id, ok := ast.Unparen(e).(*ast.Ident); ok {
					// first definition of the local
					obj := info.ObjectOf(id)
					first := ""
					ast.Inspect(f, func(m ast.Node) bool {
						as, ok := m.(*ast.AssignStmt)
						if !ok || as.Tok != token.DEFINE {
							return true
						}
						for i, l := range as.Lhs {
							if lid, ok := l.(*ast.Ident); ok && info.ObjectOf(lid) == obj && i < len(as.Rhs) && first == "" {
								if s, ok := astx.ConstString(info, as.Rhs[i]); ok {
									first = s
								} else {
									first = types.ExprString(as.Rhs[i])
								}
							}
						}
						return true
					})
					txt = first
				}
				switch {
				case strings.Contains(txt, "OrderAsc"):
					return "asc"
				case strings.Contains(txt, "OrderDesc"):
					return "desc"
				}
				return txt
			}
			col, ord = resolve(call.Args[2]), resolve(call.Args[3])
			return true
		})
		if found {
			return col, ord, true
		}
	}
	return "", "", false
}

func ruleQueryDefaults(c *core.Ctx) {
	run := fn(c, pkgCtrl, "DefaultController", "RunQuery")
	if run == nil {
		return
	}
	info := run.Pkg.TypesInfo
	arms, _ := queryArms(c, run)
	files := map[string]string{"ResourceKindTransaction": "controllers_transactions_list.go", "ResourceKindAccount": "controllers_accounts_list.go", "ResourceKindLog": "controllers_logs_list.go", "ResourceKindVolume": "controllers_volumes.go"}
	var ks []string
	for k := range arms {
		ks = append(ks, k)
	}
	sort.Strings(ks)
	n := 0
	for _, k := range ks {
		a := arms[k]
		file := files[k]
		col, ord, ok := handlerDefaults(c, file)
		if !ok {
			c.Unknown("AGREE/query-defaults", k+":handler", "", "v2 list handler "+file+" with a getPaginatedQuery call not found")
			continue
		}
		n++
		c.Check(a.column == col && a.order == ord, "AGREE/query-defaults", k+":sort", pos(c, a.clause), fmt.Sprintf("default sort %s %s as in the list handler", col, ord), fmt.Sprintf("a %s template defaults to sort %q %s while the direct list request defaults to %q %s: same query, different order and pages", k, a.column, a.order, col, ord))
		// default page size from the pagination config handed in
		okPS := false
		ast.Inspect(a.clause, func(x ast.Node) bool {
			if cl, isCL := x.(*ast.CompositeLit); isCL {
				if v := fieldOfCompositeLit(cl, "PageSize"); v != nil && strings.Contains(types.ExprString(v), "paginationConfig.DefaultPageSize") {
					okPS = true
				}
			}
			return true
		})
		c.Check(okPS, "AGREE/query-defaults", k+":page-size", pos(c, a.clause), "default page size = paginationConfig.DefaultPageSize", "a "+k+" template does not default its page size to the configured default page size the list handlers use")
	}
	c.Floor("AGREE/query-defaults", "resources compared with their list handler", n, 4)
	_ = info
}

func ruleQueryParamsFlow(c *core.Ctx) {
	run := fn(c, pkgCtrl, "DefaultController", "RunQuery")
	tq := fn(c, pkgCtrl, "", "templateParamsToQuery")
	ow := fn(c, pkgCore, "QueryTemplateParams", "Overwrite")
	if run == nil || tq == nil || ow == nil {
		return
	}
	info := run.Pkg.TypesInfo
	// Overwrite(template.Params, q.Params) at every site
	n := 0
	for _, call := range callsTo(info, run.Decl.Body, named("Overwrite")) {
		n++
		ok := len(call.Args) == 2 && types.ExprString(call.Args[0]) == "template.Params" && types.ExprString(call.Args[1]) == "q.Params"
		c.Check(ok, "DOM/query-params", fmt.Sprintf("%s:overwrite#%d", declKey(run), n), pos(c, call), "Overwrite(template.Params, q.Params)", "the request's params do not override the template's params (argument order of Overwrite)")
	}
	c.Floor("DOM/query-params", "Overwrite call sites", n, 4)
	// Overwrite applies its arguments in order
	oi := ow.Pkg.TypesInfo
	okOrder := false
	ast.Inspect(ow.Decl.Body, func(x ast.Node) bool {
		r, ok := x.(*ast.RangeStmt)
		if !ok || r.Value == nil || types.ExprString(r.X) != "others" {
			return true
		}
		v := types.ExprString(r.Value)
		tgt := 0
		for _, call := range callsTo(oi, r.Body, named("unmarshalWithNumber")) {
			if len(call.Args) == 2 && types.ExprString(call.Args[0]) == v {
				t := types.ExprString(call.Args[1])
				if t == "&q" || t == "&q.Opts" {
					tgt++
				}
			}
		}
		okOrder = tgt == 2
		return true
	})
	hasIndexLoop := false
	ast.Inspect(ow.Decl.Body, func(x ast.Node) bool {
		if _, ok := x.(*ast.ForStmt); ok {
			hasIndexLoop = true
		}
		return true
	})
	c.Check(okOrder && !hasIndexLoop, "DOM/query-params", declKey(ow)+":in-order", pos(c, ow.Decl), "for _, other := range others: decode onto q and q.Opts", "QueryTemplateParams.Overwrite does not apply its arguments in order onto the receiver (params and options): a later argument must win")
	// every arm: templateParamsToQuery(*params, builder, paginationConfig), builder from ResolveFilterTemplate(template.Resource, template.Body, template.Vars, q.Vars)
	rf := callsTo(info, run.Decl.Body, named("ResolveFilterTemplate"))
	okRF := len(rf) == 1 && len(rf[0].Args) == 4 && types.ExprString(rf[0].Args[0]) == "template.Resource" && types.ExprString(rf[0].Args[1]) == "template.Body" && types.ExprString(rf[0].Args[2]) == "template.Vars" && types.ExprString(rf[0].Args[3]) == "q.Vars"
	c.Check(okRF && (assignedErrChecked(info, run.Decl.Body, rf[0]) || errLeaves(info, run.Decl.Body, rf[0])), "DOM/query-params", declKey(run)+":filter", pos(c, run.Decl), "filter = ResolveFilterTemplate(resource, body, declared vars, request vars)", "the filter is not resolved from the template's body and declarations with the request's variables")
	m := 0
	for _, call := range callsTo(info, run.Decl.Body, named("templateParamsToQuery")) {
		m++
		ok := len(call.Args) == 3 && types.ExprString(call.Args[0]) == "*params" && types.ExprString(call.Args[1]) == "builder" && types.ExprString(call.Args[2]) == "paginationConfig"
		c.Check(ok, "DOM/query-params", fmt.Sprintf("%s:to-query#%d", declKey(run), m), pos(c, call), "templateParamsToQuery(*params, builder, paginationConfig)", "an arm of RunQuery does not build its query from the merged params, the resolved filter and the pagination config")
	}
	c.Floor("DOM/query-params", "templateParamsToQuery call sites", m, 4)
	// templateParamsToQuery: every field of the params used, cap by MaxPageSize
	ti := tq.Pkg.TypesInfo
	used := map[string]bool{}
	ast.Inspect(tq.Decl.Body, func(x ast.Node) bool {
		if se, ok := x.(*ast.SelectorExpr); ok && types.ExprString(se.X) == "params" {
			used[se.Sel.Name] = true
		}
		return true
	})
	if nt := namedType(c, pkgCore, "QueryTemplateParams"); nt != nil {
		if st, ok := nt.Underlying().(*types.Struct); ok {
			for i := 0; i < st.NumFields(); i++ {
				f := st.Field(i).Name()
				c.Check(used[f], "DOM/query-params", declKey(tq)+":field:"+f, pos(c, tq.Decl), "params."+f+" reaches the query", "QueryTemplateParams."+f+" is not carried into the paginated query: the template (or the request override) silently loses it")
			}
		}
	}
	var lit *ast.CompositeLit
	ast.Inspect(tq.Decl.Body, func(x ast.Node) bool {
		if r, ok := x.(*ast.ReturnStmt); ok && len(r.Results) == 1 {
			lit, _ = r.Results[0].(*ast.CompositeLit)
		}
		return true
	})
	okMap := false
	if lit != nil {
		want := map[string]string{"Column": "params.SortColumn", "Order": "params.SortOrder", "PageSize": "uint64(params.PageSize)"}
		okMap = true
		for k, v := range want {
			if e := fieldOfCompositeLit(lit, k); e == nil || types.ExprString(e) != v {
				okMap = false
			}
		}
		if o := fieldOfCompositeLit(lit, "Options"); o != nil {
			if ol, ok := o.(*ast.CompositeLit); ok {
				for k, v := range map[string]string{"PIT": "params.PIT", "OOT": "params.OOT", "Builder": "builder", "Expand": "params.Expand", "Opts": "params.Opts"} {
					if e := fieldOfCompositeLit(ol, k); e == nil || types.ExprString(e) != v {
						okMap = false
					}
				}
			} else {
				okMap = false
			}
		} else {
			okMap = false
		}
	}
	c.Check(okMap, "DOM/query-params", declKey(tq)+":mapping", pos(c, tq.Decl), "each param lands in its own slot of the query", "templateParamsToQuery does not map each parameter (PIT, OOT, filter, expand, options, sort column, order, page size) onto its own slot of the paginated query")
	okCap := false
	ast.Inspect(tq.Decl.Body, func(x ast.Node) bool {
		is, ok := x.(*ast.IfStmt)
		if !ok {
			return true
		}
		s := strings.ReplaceAll(types.ExprString(is.Cond), " ", "")
		if s == "uint64(params.PageSize)>paginationConfig.MaxPageSize" && len(is.Body.List) == 1 {
			if as, ok := is.Body.List[0].(*ast.AssignStmt); ok && types.ExprString(as.Lhs[0]) == "params.PageSize" && strings.Contains(types.ExprString(as.Rhs[0]), "paginationConfig.MaxPageSize") {
				okCap = lit != nil && is.End() < lit.Pos()
			}
		}
		return true
	})
	c.Check(okCap, "DOM/query-params", declKey(tq)+":page-size-cap", pos(c, tq.Decl), "page size capped by MaxPageSize", "the page size of a template query is not capped by the configured maximum page size as the list handlers' is")
	_ = ti
}

func ruleQueryParamsKeys(c *core.Ctx) {
	d := fn(c, pkgCore, "QueryTemplateParams", "UnmarshalJSON")
	chk := fn(c, pkgCore, "", "checkForExtraFields")
	if d == nil || chk == nil {
		return
	}
	info := d.Pkg.TypesInfo
	// wire struct fields and their assignment to the receiver
	wire := map[string]string{} // field -> json key
	ast.Inspect(d.Decl.Body, func(x ast.Node) bool {
		st, ok := x.(*ast.StructType)
		if !ok {
			return true
		}
		for _, f := range st.Fields.List {
			if f.Tag == nil || len(f.Names) != 1 {
				continue
			}
			wire[f.Names[0].Name] = strings.Split(reflectTag(strings.Trim(f.Tag.Value, "`"), "json"), ",")[0]
		}
		return false
	})
	c.Floor("KEYS/query-params", "wire keys of QueryTemplateParams", len(wire), 5)
	used := map[string]bool{}
	ast.Inspect(d.Decl.Body, func(x ast.Node) bool {
		if se, ok := x.(*ast.SelectorExpr); ok && types.ExprString(se.X) == "x" {
			used[se.Sel.Name] = true
		}
		return true
	})
	var fs []string
	for f := range wire {
		fs = append(fs, f)
	}
	sort.Strings(fs)
	for _, f := range fs {
		c.Check(used[f], "KEYS/query-params", declKey(d)+":wire:"+wire[f], pos(c, d.Decl), "decoded key is used", "QueryTemplateParams.UnmarshalJSON decodes `"+wire[f]+"` but never uses it: that parameter of a template (or of a run request) is silently ignored")
	}
	// allowed fields ⊇ wire keys; volume-specific = json names of GetVolumesOptions
	allowed := map[string]bool{}
	ast.Inspect(chk.Decl.Body, func(x ast.Node) bool {
		if cl, ok := x.(*ast.CompositeLit); ok {
			for _, e := range cl.Elts {
				if s, ok := astx.ConstString(info, e); ok {
					allowed[s] = true
				}
			}
		}
		return true
	})
	for _, f := range fs {
		c.Check(allowed[wire[f]], "KEYS/query-params", declKey(chk)+":allows:"+wire[f], pos(c, chk.Decl), "allowed", "checkForExtraFields rejects `"+wire[f]+"`, a key the params codec reads")
	}
	if nt := namedType(c, pkgCore, "GetVolumesOptions"); nt != nil {
		if st, ok := nt.Underlying().(*types.Struct); ok {
			// the list passed for volumes
			vol := map[string]bool{}
			if v := fn(c, pkgCore, "QueryTemplate", "Validate"); v != nil {
				for _, call := range callsTo(v.Pkg.TypesInfo, v.Decl.Body, named("checkForExtraFields")) {
					if len(call.Args) == 2 {
						if cl, ok := call.Args[1].(*ast.CompositeLit); ok {
							for _, e := range cl.Elts {
								if s, ok := astx.ConstString(v.Pkg.TypesInfo, e); ok {
									vol[s] = true
								}
							}
						}
					}
				}
			}
			for i := 0; i < st.NumFields(); i++ {
				name := strings.Split(reflectTag(st.Tag(i), "json"), ",")[0]
				c.Check(vol[name], "KEYS/query-params", "volumes-option:"+name, "", "allowed for volume templates", "volume option `"+name+"` (GetVolumesOptions."+st.Field(i).Name()+") is not accepted in a volume template's params")
			}
		}
	}
}
