package rules

import (
	"fmt"
	"go/ast"
	"go/constant"
	"go/types"
	"sort"
	"strings"

	"ledgerlint/internal/astx"
	"ledgerlint/internal/core"
)

// Outcome of one arm of an error switch in the API layer.
type Outcome struct {
	Status   int    // HTTP status (0 when the arm returns an error code string only)
	Code     string // API error code constant name (ErrValidation, ...), "" if unknown
	Delegate string // function key the arm hands the error to
}

// ErrSwitch is one `switch { case errors.Is(err, X): ... }` statement.
type ErrSwitch struct {
	Func    *astx.DeclInfo
	Stmt    *ast.SwitchStmt
	Arms    map[string]Outcome // error name ("ledgerstore.ErrTransactionReferenceConflict") -> outcome
	Default *Outcome
	// Call is the controller/store call whose error the switch examines (nearest preceding call assigning err), if found.
	Source string
}

func errName(info *types.Info, e ast.Expr) string {
	e = ast.Unparen(e)
	if ue, ok := e.(*ast.UnaryExpr); ok {
		e = ue.X
	}
	if cl, ok := e.(*ast.CompositeLit); ok {
		if n := astx.Named(info.TypeOf(cl)); n != nil && n.Obj().Pkg() != nil {
			return relPkg(n.Obj().Pkg().Path()) + "." + n.Obj().Name()
		}
	}
	// package-level error variables
	switch x := e.(type) {
	case *ast.SelectorExpr:
		if o := info.Uses[x.Sel]; o != nil && o.Pkg() != nil {
			return relPkg(o.Pkg().Path()) + "." + o.Name()
		}
	case *ast.Ident:
		if o := info.Uses[x]; o != nil && o.Pkg() != nil {
			return relPkg(o.Pkg().Path()) + "." + o.Name()
		}
	}
	return types.ExprString(e)
}

// errNamesOfCase collects the X of every errors.Is(err, X) in a case expression (joined by ||).
func errNamesOfCase(info *types.Info, e ast.Expr) []string {
	var out []string
	ast.Inspect(e, func(n ast.Node) bool {
		call, ok := n.(*ast.CallExpr)
		if !ok {
			return true
		}
		f := astx.Callee(info, call)
		if f != nil && f.Pkg() != nil && f.Pkg().Path() == "errors" && (f.Name() == "Is" || f.Name() == "As") && len(call.Args) == 2 {
			out = append(out, errName(info, call.Args[1]))
			return false
		}
		if f != nil && f.Name() == "IsNotFoundError" {
			out = append(out, "postgres.ErrNotFound(IsNotFoundError)")
		}
		return true
	})
	return out
}

// outcomeOfBody classifies what an arm does with the error.
func outcomeOfBody(info *types.Info, body []ast.Stmt) *Outcome {
	var out *Outcome
	for _, st := range body {
		ast.Inspect(st, func(n ast.Node) bool {
			if out != nil {
				return false
			}
			switch x := n.(type) {
			case *ast.ReturnStmt:
				if len(x.Results) == 1 {
					if p := astx.SelectorPath(x.Results[0]); p != "" {
						out = &Outcome{Code: lastSeg(p)}
						return false
					}
				}
			case *ast.CallExpr:
				f := astx.Callee(info, x)
				if f == nil {
					return true
				}
				switch f.Name() {
				case "BadRequest", "BadRequestWithDetails":
					out = &Outcome{Status: 400}
					if len(x.Args) >= 2 {
						out.Code = lastSeg(astx.SelectorPath(x.Args[1]))
					}
				case "NotFound":
					out = &Outcome{Status: 404}
				case "Forbidden":
					out = &Outcome{Status: 403}
				case "InternalServerError":
					out = &Outcome{Status: 500}
				case "NoContent":
					out = &Outcome{Status: 204}
				case "WriteErrorResponse":
					out = &Outcome{}
					if len(x.Args) >= 2 {
						if tv, ok := info.Types[x.Args[1]]; ok && tv.Value != nil && tv.Value.Kind() == constant.Int {
							v, _ := constant.Int64Val(tv.Value)
							out.Status = int(v)
						}
					}
					if len(x.Args) >= 3 {
						out.Code = lastSeg(astx.SelectorPath(x.Args[2]))
					}
				default:
					if strings.HasPrefix(f.Name(), "HandleCommon") {
						out = &Outcome{Delegate: f.Name()}
					}
				}
			}
			return out == nil
		})
		if out != nil {
			break
		}
	}
	return out
}

func lastSeg(p string) string {
	if i := strings.LastIndexByte(p, '.'); i >= 0 {
		return p[i+1:]
	}
	return p
}

// errSwitches finds all error switches of the API packages.
func errSwitches(c *core.Ctx) []*ErrSwitch {
	return c.Cache("errSwitches", func() any {
		var out []*ErrSwitch
		ix := index(c)
		for _, rel := range []string{pkgAPIv1, pkgAPIv2, pkgAPICommon, pkgBulk, "internal/api"} {
			pk := c.Prog().Pkg(rel)
			if pk == nil {
				continue
			}
			info := pk.TypesInfo
			for _, f := range pk.Syntax {
				for _, d := range f.Decls {
					fd, ok := d.(*ast.FuncDecl)
					if !ok || fd.Body == nil {
						continue
					}
					di := ix.Decls[loadFuncObj(pk.TypesInfo, fd)]
					ast.Inspect(fd.Body, func(n ast.Node) bool {
						sw, ok := n.(*ast.SwitchStmt)
						if !ok || sw.Tag != nil {
							return true
						}
						es := &ErrSwitch{Func: di, Stmt: sw, Arms: map[string]Outcome{}}
						any := false
						for _, cc := range sw.Body.List {
							cl := cc.(*ast.CaseClause)
							oc := outcomeOfBody(info, cl.Body)
							if cl.List == nil {
								es.Default = oc
								continue
							}
							for _, e := range cl.List {
								for _, nm := range errNamesOfCase(info, e) {
									any = true
									if oc != nil {
										es.Arms[nm] = *oc
									} else {
										es.Arms[nm] = Outcome{}
									}
								}
							}
						}
						if any {
							es.Source = precedingErrSource(info, fd, sw)
							out = append(out, es)
						}
						return true
					})
				}
			}
		}
		c.Stats["api_error_switches"] = len(out)
		return out
	}).([]*ErrSwitch)
}

func loadFuncObj(info *types.Info, fd *ast.FuncDecl) *types.Func {
	o, _ := info.Defs[fd.Name].(*types.Func)
	return o
}

// precedingErrSource: the method called in the nearest preceding assignment that defines `err`.
func precedingErrSource(info *types.Info, fd *ast.FuncDecl, sw *ast.SwitchStmt) string {
	best := ""
	var bestPos = fd.Pos()
	ast.Inspect(fd.Body, func(n ast.Node) bool {
		as, ok := n.(*ast.AssignStmt)
		if !ok || as.End() > sw.Pos() || as.Pos() < bestPos || len(as.Rhs) != 1 {
			return true
		}
		call, ok := as.Rhs[0].(*ast.CallExpr)
		if !ok {
			return true
		}
		hasErr := false
		for _, l := range as.Lhs {
			if id, ok := l.(*ast.Ident); ok && id.Name == "err" {
				hasErr = true
			}
		}
		if !hasErr {
			return true
		}
		if f := astx.Callee(info, call); f != nil {
			best = f.Name()
			bestPos = as.Pos()
		}
		return true
	})
	return best
}

// resolveOutcome follows delegation (default arm -> HandleCommon*Errors) to find how errName is answered.
func resolveOutcome(c *core.Ctx, es *ErrSwitch, name string, depth int) Outcome {
	if oc, ok := es.Arms[name]; ok {
		return oc
	}
	if es.Default == nil {
		return Outcome{Status: -1} // falls through the switch: nothing written
	}
	if es.Default.Delegate != "" && depth < 4 {
		for _, other := range errSwitches(c) {
			if other.Func != nil && other.Func.Decl.Name.Name == es.Default.Delegate {
				return resolveOutcome(c, other, name, depth+1)
			}
		}
	}
	return *es.Default
}

func describeOutcome(o Outcome) string {
	if o.Status == -1 {
		return "no response"
	}
	s := fmt.Sprintf("%d", o.Status)
	if o.Code != "" {
		s += "/" + o.Code
	}
	if o.Delegate != "" {
		s += "->" + o.Delegate
	}
	return s
}

func sortedArmNames(es *ErrSwitch) []string {
	var out []string
	for k := range es.Arms {
		out = append(out, k)
	}
	sort.Strings(out)
	return out
}

// switchKey identifies a switch by its function and the call whose error it handles.
func switchKey(es *ErrSwitch) string {
	fk := "?"
	if es.Func != nil {
		fk = astx.FuncKey(es.Func.Obj)
	}
	return fk + ":after-" + es.Source
}
