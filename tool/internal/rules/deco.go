package rules

import (
	"fmt"
	"go/ast"
	"go/token"
	"go/types"
	"sort"
	"strings"

	"ledgerlint/internal/astx"
	"ledgerlint/internal/core"
	"ledgerlint/internal/load"
)

// decorator is a struct type that implements ledgercontroller.Controller by embedding one.
type decorator struct {
	Named *types.Named
	Rel   string
	Name  string
	Field string // the field holding the wrapped Controller
}

func controllerIface(c *core.Ctx) *types.Interface {
	n := namedType(c, pkgCtrl, "Controller")
	if n == nil {
		return nil
	}
	it, _ := n.Underlying().(*types.Interface)
	return it
}

func decorators(c *core.Ctx) []decorator {
	return c.Cache("decorators", func() any {
		var out []decorator
		it := controllerIface(c)
		if it == nil {
			c.Unknown("anchor", pkgCtrl+".Controller", "", "interface Controller not found")
			return out
		}
		for _, pk := range c.Prog().RepoPackages() {
			sc := pk.Types.Scope()
			for _, nm := range sc.Names() {
				tn, ok := sc.Lookup(nm).(*types.TypeName)
				if !ok {
					continue
				}
				nt, ok := tn.Type().(*types.Named)
				if !ok {
					continue
				}
				st, ok := nt.Underlying().(*types.Struct)
				if !ok {
					continue
				}
				field := ""
				for i := 0; i < st.NumFields(); i++ {
					f := st.Field(i)
					if astx.IsNamed(f.Type(), load.Module+"/"+pkgCtrl, "Controller") {
						if _, isPtr := f.Type().(*types.Pointer); !isPtr {
							field = f.Name()
						}
					}
				}
				if field != "" && types.Implements(types.NewPointer(nt), it) {
					out = append(out, decorator{Named: nt, Rel: relPkg(pk.PkgPath), Name: nm, Field: field})
				}
			}
		}
		sort.Slice(out, func(i, j int) bool { return out[i].Rel+out[i].Name < out[j].Rel+out[j].Name })
		return out
	}).([]decorator)
}

// ruleDecoratorCompleteness (DECO): a Controller decorator must re-wrap itself around the
// controller returned by BeginTX and LockLedger, otherwise whatever it adds is lost inside
// transactions (atomic bulks) and under the ledger lock.
func ruleDecoratorCompleteness(c *core.Ctx, rule string, include func(decorator) bool) {
	decs := decorators(c)
	c.Floor(rule, "Controller decorators (structs wrapping a Controller)", len(decs), 5)
	for _, dec := range decs {
		if include != nil && !include(dec) {
			continue
		}
		var lits = map[string]*ast.CompositeLit{}
		for _, m := range []string{"BeginTX", "LockLedger"} {
			key := fmt.Sprintf("%s.%s:%s", dec.Rel, dec.Name, m)
			d := index(c).LookupFunc(dec.Rel, dec.Name, m)
			if d == nil {
				c.Fail(rule, key+":declared", "", fmt.Sprintf("%s does not declare %s: the method is promoted from the embedded Controller, so the controller handed out inside a transaction / under the lock is the inner one and everything this decorator adds is bypassed there", dec.Name, m))
				continue
			}
			info := d.Pkg.TypesInfo
			// the success return wraps the inner result in the same type
			var lit *ast.CompositeLit
			var lenv *originEnv
			wrapsInner := false
			env := newOriginEnv(c, d)
			ast.Inspect(d.Decl.Body, func(n ast.Node) bool {
				r, ok := n.(*ast.ReturnStmt)
				if !ok || len(r.Results) == 0 || isErrorReturn(info, d.Decl.Body, r) > 0 {
					return true
				}
				if cl, le := env.resolveLit(r.Results[0]); cl != nil && astx.Named(le.info.TypeOf(cl)) == dec.Named {
					lit, lenv = cl, le
				}
				return true
			})
			if lit != nil {
				// the Controller field is the first result of the inner call
				if v := fieldOfCompositeLit(lit, dec.Field); v != nil {
					o := lenv.origin(v)
					wrapsInner = strings.HasSuffix(o, "#0") && strings.Contains(o, "."+m+"(")
				}
			}
			// copy idiom: ret := *c; ret.<field> = inner; return &ret
			copyIdiom := false
			if lit == nil {
				var cp types.Object
				assigned := false
				ast.Inspect(d.Decl.Body, func(n ast.Node) bool {
					as, ok := n.(*ast.AssignStmt)
					if !ok || len(as.Lhs) != 1 || len(as.Rhs) != 1 {
						return true
					}
					if se, ok := as.Rhs[0].(*ast.StarExpr); ok && as.Tok == token.DEFINE {
						if id, ok := se.X.(*ast.Ident); ok && d.Decl.Recv != nil && id.Name == d.Decl.Recv.List[0].Names[0].Name {
							if l, ok := as.Lhs[0].(*ast.Ident); ok {
								cp = info.Defs[l]
							}
						}
					}
					if se, ok := as.Lhs[0].(*ast.SelectorExpr); ok && se.Sel.Name == dec.Field {
						if id, ok := se.X.(*ast.Ident); ok && info.Uses[id] == cp && cp != nil {
							if _, isCall := as.Rhs[0].(*ast.CallExpr); !isCall {
								assigned = true
							}
						}
					}
					return true
				})
				copyIdiom = cp != nil && assigned
			}
			c.Check((lit != nil && wrapsInner) || copyIdiom, rule, key+":re-wraps", pos(c, d.Decl), "returns &"+dec.Name+"{Controller: <inner result>, …}",
				fmt.Sprintf("%s.%s does not return a %s wrapped around the inner %s result", dec.Name, m, dec.Name, m))
			if lit != nil {
				lits[m] = lit
			}
		}
		// sibling literals initialise the same fields; what BeginTX sets to a constant, LockLedger carries over from the receiver
		if b, l := lits["BeginTX"], lits["LockLedger"]; b != nil && l != nil {
			fields := func(cl *ast.CompositeLit) []string {
				var out []string
				for _, el := range cl.Elts {
					if kv, ok := el.(*ast.KeyValueExpr); ok {
						if id, ok := kv.Key.(*ast.Ident); ok {
							out = append(out, id.Name)
						}
					}
				}
				sort.Strings(out)
				return out
			}
			fb, fl := fields(b), fields(l)
			key := fmt.Sprintf("%s.%s:sibling-literals", dec.Rel, dec.Name)
			c.Check(eqStrings(fb, fl), rule, key, pos(c, l), "BeginTX and LockLedger children initialise the same fields "+strings.Join(fb, ","),
				fmt.Sprintf("the child built by LockLedger initialises %v but the one built by BeginTX initialises %v: state the decorator keeps per transaction is lost when the ledger lock is taken inside a transaction (e.g. first write on an initializing ledger)", fl, fb))
		}
		// commit-time state => own Commit and Rollback
		if st, ok := dec.Named.Underlying().(*types.Struct); ok {
			hasQueue := false
			for i := 0; i < st.NumFields(); i++ {
				if sl, ok := st.Field(i).Type().Underlying().(*types.Slice); ok {
					if _, isFn := sl.Elem().Underlying().(*types.Signature); isFn {
						hasQueue = true
					}
				}
			}
			if hasQueue {
				for _, m := range []string{"Commit", "Rollback"} {
					d := index(c).LookupFunc(dec.Rel, dec.Name, m)
					c.Check(d != nil, rule, fmt.Sprintf("%s.%s:%s:declared", dec.Rel, dec.Name, m), "", "declares "+m, fmt.Sprintf("%s queues work for commit time but does not declare %s", dec.Name, m))
				}
			}
		}
	}
}
