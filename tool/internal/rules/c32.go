package rules

import (
	"fmt"
	"go/ast"
	"go/token"
	"go/types"
	"sort"
	"strings"

	"ledgerlint/internal/astx"
	"ledgerlint/internal/core"
)

func init() {
	register("C32", checkC32)
	addBreakers("C32",
		Breaker{Name: "stream-parse-error-only-in-envelope", File: "internal/api/bulking/handler_stream_json.go",
			Old: "\t\t\t\t\t\th.actions = append(h.actions, \"\")\n\t\t\t\t\t\th.channel <- BulkElement{parseError: err}\n", New: "", Expect: "DOM/stream-parse-error"},
		Breaker{Name: "atomic-bulk-commits-despite-error", File: "internal/api/bulking/bulker.go",
			Old: "if hasError && bulkOptions.Atomic {", New: "if hasError && bulkOptions.Atomic && !bulkOptions.ContinueOnFailure {", Expect: "PAIR/bulk-commit-only-without-error"},
		Breaker{Name: "element-after-failure-still-processed", File: "internal/api/bulking/bulker.go",
			Old: "if hasError.Load() && !continueOnFailure {", New: "if hasError.Load() && !continueOnFailure && parallel {", Expect: "DOM/bulk-short-circuit"},
		Breaker{Name: "failure-not-recorded", File: "internal/api/bulking/bulker.go",
			Old: "\t\t\t\t\thasError.Store(true)\n", New: "", Expect: "DOM/bulk-short-circuit"},
		Breaker{Name: "skipped-element-sends-no-result", File: "internal/api/bulking/bulker.go",
			Old: "\t\t\t\t\tresult <- BulkElementResult{\n\t\t\t\t\t\tError:     context.Canceled,\n\t\t\t\t\t\tElementID: itemIndex,\n\t\t\t\t\t}\n\t\t\t\t\treturn", New: "\t\t\t\t\treturn", Expect: "PATH/one-result-per-element"},
		Breaker{Name: "error-result-sent-twice", File: "internal/api/bulking/bulker.go",
			Old: "\t\t\t\t\tobserve.RecordError(ctx, err)\n", New: "\t\t\t\t\tobserve.RecordError(ctx, err)\n\t\t\t\t\tresult <- BulkElementResult{Error: err, ElementID: itemIndex}\n", Expect: "PATH/one-result-per-element"},
		Breaker{Name: "always-parallel", File: "internal/api/bulking/bulker.go",
			Old: "if parallel && b.parallelism != 0 {", New: "if b.parallelism != 0 {", Expect: "DOM/bulk-parallelism"},
		Breaker{Name: "validate-after-begin", File: "internal/api/bulking/bulker.go",
			Old: "\tif err := bulkOptions.Validate(); err != nil {\n\t\treturn fmt.Errorf(\"validating bulk options: %w\", err)\n\t}\n", New: "", Expect: "DOM/bulk-validate-first"},
		Breaker{Name: "atomic-parallel-accepted", File: "internal/api/bulking/bulker.go",
			Old: "\tif opts.Atomic && opts.Parallel {\n\t\treturn ErrAtomicParallelConflict\n\t}\n", New: "", Expect: "DOM/bulk-validate-first"},
		Breaker{Name: "bulk-element-ignores-ik", File: "internal/api/bulking/bulker.go",
			Old: "\t\tlog, revertTransactionResult, _, err := ctrl.RevertTransaction(ctx, ledgercontroller.Parameters[ledgercontroller.RevertTransaction]{\n\t\t\tDryRun:         false,\n\t\t\tIdempotencyKey: data.IdempotencyKey,", New: "\t\tlog, revertTransactionResult, _, err := ctrl.RevertTransaction(ctx, ledgercontroller.Parameters[ledgercontroller.RevertTransaction]{\n\t\t\tDryRun:         false,", Expect: "EXH/bulk-arms"},
		Breaker{Name: "unknown-action-payload-arm-missing", File: "internal/api/bulking/elements.go",
			Old: "\tcase ActionDeleteMetadata:\n\t\treq = &DeleteMetadataRequest{}\n", New: "", Expect: "EXH/bulk-arms"},
		Breaker{Name: "result-index-not-set", File: "internal/api/bulking/bulker.go",
			Old: "\t\t\t\t\tData:      ret,\n\t\t\t\t\tLogID:     logID,\n\t\t\t\t\tElementID: itemIndex,\n", New: "\t\t\t\t\tData:      ret,\n\t\t\t\t\tLogID:     logID,\n", Expect: "WMC/bulk-result-order"},
		Breaker{Name: "bulk-on-outer-controller", File: "internal/api/bulking/bulker.go",
			Old: "ret, logID, err := b.processElement(ctx, ctrl, schemaVersion, element)", New: "ret, logID, err := b.processElement(ctx, b.ctrl, schemaVersion, element)", Expect: "TXH/bulk-controller"},
		Breaker{Name: "bulk-error-code-missing", File: "internal/api/bulking/handler_json.go",
			Old: "\tcase errors.Is(err, ledgercontroller.ErrAlreadyReverted{}):\n\t\treturn common.ErrAlreadyRevert\n", New: "", Expect: "EXH/bulk-error-codes"},
	)
}

func checkC32(c *core.Ctx) {
	c.Decide("Bulker.Run validates the options (atomic ∧ parallel refused) before any work, opens a transaction exactly when atomic, rolls it back whenever an element failed and commits only when none did, on every path; the worker closure refuses to process an element after a failure unless continueOnFailure, records every failure, and sends exactly one result on every path; parallelism is 1 unless parallel was requested; elements run on the controller Run selected (the transaction for atomic bulks); every result carries its element index and that index is the sort key of the JSON response; the action constants, the payload decoder and processElement agree, each arm forwards idempotency key and schema version and is not a dry run; the bulk error-code mapping covers every error kind the single-request handlers map")
	c.NotDecided("equality of each element's result with the stand-alone request; scheduling of the worker pool")
	c.Trust("pond worker pool runs every submitted closure once")
	ruleBulkRun(c)
	ruleBulkWorker(c)
	ruleBulkArms(c)
	ruleBulkResultOrder(c)
	ruleBulkErrorCodes(c)
	ruleBulkFailureRecorded(c)
	ruleStreamParseErrorFailsBulk(c)
}

// ruleStreamParseErrorFailsBulk: a streaming bulk handler feeds the bulker element by element from
// a goroutine. Bulker.Run decides between Commit and Rollback of an atomic bulk from the results
// of the elements it was handed, and of nothing else; so an element that cannot be parsed must
// reach the bulker as a failing element. A reader that only stores the error for the response
// envelope and stops leaves an atomic bulk to commit the elements that came before the malformed
// one (and the response status is computed from those successful results: 200).
func ruleStreamParseErrorFailsBulk(c *core.Ctx) {
	pk := c.Prog().Pkg(pkgBulk)
	if pk == nil {
		return
	}
	info := pk.TypesInfo
	n := 0
	for _, d := range index(c).Decls {
		if relPkg(d.Pkg.PkgPath) != pkgBulk || d.Decl.Body == nil || d.Obj.Name() != "GetChannels" || strings.HasSuffix(c.Prog().Rel(d.Decl.Pos()), "_test.go") {
			continue
		}
		// the reader goroutine: a `go func(){…}` whose loop sends on a channel of BulkElement
		ast.Inspect(d.Decl.Body, func(x ast.Node) bool {
			gs, ok := x.(*ast.GoStmt)
			if !ok {
				return true
			}
			fl, ok := gs.Call.Fun.(*ast.FuncLit)
			if !ok {
				return true
			}
			isElementSend := func(n ast.Node) bool {
				s, ok := n.(*ast.SendStmt)
				if !ok {
					return false
				}
				t := info.TypeOf(s.Value)
				return t != nil && astx.RecvTypeName(t) == "BulkElement"
			}
			sends := false
			ast.Inspect(fl.Body, func(y ast.Node) bool {
				if isElementSend(y) {
					sends = true
				}
				return true
			})
			if !sends {
				return true
			}
			n++
			key := declKey(d) + ":parse-error-is-a-failing-element"
			// error branches of the reader that leave the goroutine
			bad := ast.Node(nil)
			ast.Inspect(fl.Body, func(y ast.Node) bool {
				is, ok := y.(*ast.IfStmt)
				if !ok || len(errorCondVars(info, is.Cond)) == 0 || !astx.Terminates(info, is.Body.List) {
					return true
				}
				delivered := false
				ast.Inspect(is.Body, func(z ast.Node) bool {
					if isElementSend(z) {
						delivered = true
					}
					return true
				})
				if !delivered {
					bad = is
				}
				return true
			})
			if bad != nil {
				c.Fail("DOM/stream-parse-error", key, pos(c, bad), "the stream reader stops at an element it cannot parse without handing the bulker a failing element: Bulker.Run sees only the elements before it, so an atomic bulk commits them (all-or-nothing is lost) and the response is 200 with the parse error in the envelope")
			} else {
				c.Pass("DOM/stream-parse-error", key, pos(c, fl), "a parse error is delivered to the bulker as a failing element")
			}
			return true
		})
	}
	c.Floor("DOM/stream-parse-error", "streaming bulk readers", n, 2)
}

func ruleBulkRun(c *core.Ctx) {
	d := fn(c, pkgBulk, "Bulker", "Run")
	if d == nil {
		return
	}
	info := d.Pkg.TypesInfo
	key := declKey(d)
	txWrapIx = index(c)
	rulePair(c, d)
	flow := astx.NewFlow(info, d.Decl.Body)
	// Validate first
	val := callsTo(info, d.Decl.Body, named("Validate"))
	beg := callsTo(info, d.Decl.Body, named("BeginTX"))
	run := callsTo(info, d.Decl.Body, named("run"))
	recFirst := len(val) >= 1 && len(run) >= 1
	okFirst := recFirst
	if recFirst {
		// its error leaves the function, and it comes before every BeginTX and every run
		for _, later := range append(append([]*ast.CallExpr{}, beg...), run...) {
			dom := false
			for _, v := range val {
				if flow.Dominates(v, later) {
					dom = true
				}
			}
			okFirst = okFirst && dom
		}
		for _, v := range val {
			checked := false
			ast.Inspect(d.Decl.Body, func(n ast.Node) bool {
				if i, ok := n.(*ast.IfStmt); ok && i.Init != nil && i.Init.Pos() <= v.Pos() && v.End() <= i.Init.End() && astx.Terminates(info, i.Body.List) {
					checked = true
				}
				return true
			})
			checked = checked || assignedErrChecked(info, d.Decl.Body, v)
			okFirst = okFirst && checked
		}
	}
	if v := fn(c, pkgBulk, "BulkingOptions", "Validate"); v != nil {
		rej, seen := false, false
		ast.Inspect(v.Decl.Body, func(n ast.Node) bool {
			if is, ok := n.(*ast.IfStmt); ok {
				var at, pa bool
				for _, cj := range splitAnd(is.Cond) {
					t := types.ExprString(ast.Unparen(cj))
					at = at || strings.HasSuffix(t, ".Atomic")
					pa = pa || strings.HasSuffix(t, ".Parallel")
				}
				if at && pa && len(splitAnd(is.Cond)) == 2 {
					seen = true
					if astx.Terminates(v.Pkg.TypesInfo, is.Body.List) {
						if r, ok := is.Body.List[len(is.Body.List)-1].(*ast.ReturnStmt); ok && len(r.Results) == 1 && !astx.IsNilExpr(v.Pkg.TypesInfo, r.Results[0]) {
							rej = true
						}
					}
				}
			}
			return true
		})
		if !seen {
			// the refusal is written some other way (nested ifs, a switch): an unrecognised shape —
			// unless Validate does not look at the two flags at all, which is the violation itself
			mentionsA, mentionsP := false, false
			ast.Inspect(v.Decl.Body, func(n ast.Node) bool {
				if se, ok := n.(*ast.SelectorExpr); ok {
					mentionsA = mentionsA || se.Sel.Name == "Atomic"
					mentionsP = mentionsP || se.Sel.Name == "Parallel"
				}
				return true
			})
			if mentionsA && mentionsP {
				recFirst = false
			}
		}
		okFirst = okFirst && rej
	}
	if len(val) == 0 && len(scopeCalls(fnScope(c, d, 1), named("Validate"))) == 0 {
		// nothing validates the options before the bulk starts
		recFirst, okFirst = true, false
	}
	c.Shape(recFirst, okFirst, "DOM/bulk-validate-first", key, pos(c, d.Decl), "Validate (atomic ∧ parallel refused) before BeginTX and run", "bulk options are not validated (atomic together with parallel refused) before the bulk starts: elements of an 'atomic' bulk could run concurrently on one SQL transaction")
	// BeginTX exactly when Atomic: every BeginTX sits on the positive side of the Atomic flag, and,
	// assuming the flag, no run call is reached without passing a BeginTX
	isAtomic := func(e ast.Expr) bool {
		se, ok := ast.Unparen(e).(*ast.SelectorExpr)
		return ok && se.Sel.Name == "Atomic"
	}
	var atomicConds []string
	ast.Inspect(d.Decl.Body, func(n ast.Node) bool {
		if e, ok := n.(ast.Expr); ok && isAtomic(e) {
			atomicConds = append(atomicConds, types.ExprString(ast.Unparen(e)))
		}
		return true
	})
	var assumeAtomic []astx.Assumption
	for _, a := range atomicConds {
		assumeAtomic = append(assumeAtomic, astx.Assumption{Cond: a, Value: true})
	}
	recAtomic := len(beg) >= 1 && len(run) >= 1 && len(atomicConds) > 0
	okAtomic := recAtomic
	for _, b := range beg {
		onPos := false
		for _, f := range astx.FactsAt(info, d.Decl.Body, b.Pos()) {
			if isAtomic(f.Cond) && f.Positive {
				onPos = true
			}
		}
		okAtomic = okAtomic && onPos
	}
	isBegin := func(n ast.Node) bool {
		found := false
		ast.Inspect(n, func(x ast.Node) bool {
			if call, ok := x.(*ast.CallExpr); ok {
				for _, b := range beg {
					if call == b {
						found = true
					}
				}
			}
			return !found
		})
		return found
	}
	for _, r := range run {
		if l, ok := flow.Locate(r); ok {
			if flow.PathAvoidingAssuming(nil, astx.Exit{Block: l.Block, Idx: l.Idx}, isBegin, assumeAtomic) {
				okAtomic = false
			}
		}
	}
	c.Shape(recAtomic, okAtomic, "PAIR/bulk-begin-when-atomic", key, pos(c, d.Decl), "BeginTX iff bulkOptions.Atomic", "the transaction of a bulk must be opened exactly when the bulk is atomic")
	// Commit only when no element failed: assuming an atomic bulk whose run reported a failure,
	// no path leads from the run call to a Commit
	var hasErrNames []string
	var runAssigns []ast.Node
	ast.Inspect(d.Decl.Body, func(n ast.Node) bool {
		if as, ok := n.(*ast.AssignStmt); ok && len(as.Rhs) == 1 && len(as.Lhs) == 1 {
			for _, r := range run {
				if as.Rhs[0] == r {
					if id, ok := as.Lhs[0].(*ast.Ident); ok && id.Name != "_" {
						hasErrNames = append(hasErrNames, id.Name)
						runAssigns = append(runAssigns, as)
					}
				}
			}
		}
		return true
	})
	commits := callsTo(info, d.Decl.Body, named("Commit"))
	recCommit := len(hasErrNames) > 0 && len(commits) > 0
	okCommit := recCommit
	assumeFail := append([]astx.Assumption{}, assumeAtomic...)
	for _, h := range hasErrNames {
		assumeFail = append(assumeFail, astx.Assumption{Cond: h, Value: true})
	}
	for _, ra := range runAssigns {
		for _, cm := range commits {
			if l, ok := flow.Locate(cm); ok {
				if flow.PathAvoidingAssuming(ra, astx.Exit{Block: l.Block, Idx: l.Idx}, func(ast.Node) bool { return false }, assumeFail) {
					okCommit = false
				}
			}
		}
	}
	c.Shape(recCommit, okCommit, "PAIR/bulk-commit-only-without-error", key, pos(c, d.Decl), "Commit unreachable from run when it reported a failure", "an atomic bulk can reach Commit although an element failed: the elements that succeeded would be applied, breaking all-or-nothing")
	// elements run on the selected controller
	if len(run) == 1 && len(run[0].Args) >= 2 {
		arg := astx.ExprString(run[0].Args[1])
		sel := false
		ast.Inspect(d.Decl.Body, func(n ast.Node) bool {
			if as, ok := n.(*ast.AssignStmt); ok && len(as.Rhs) == 1 && len(beg) == 1 && as.Rhs[0] == beg[0] && astx.ExprString(as.Lhs[0]) == arg {
				sel = true
			}
			return true
		})
		c.Check(sel, "TXH/bulk-controller", key+":run-gets-selected-controller", pos(c, run[0]), "run(ctx, ctrl, …) with ctrl rebound from BeginTX when atomic", "the elements do not run on the controller returned by BeginTX: an atomic bulk would write outside its transaction")
	}
}

// bulkModel identifies the moving parts of Bulker.run by what they are, not by their names: the
// shared failure flag (the atomic.Bool local), the element counter (the variable incremented in
// the loop over the bulk), the worker closure handed to the pool, and the environments of run and
// of the helpers it calls (a worker body moved into a helper is read there).
type bulkModel struct {
	run     *astx.DeclInfo
	envs    []*originEnv
	flag    types.Object
	counter types.Object
	worker  *ast.FuncLit
}

func bulkWorkerModel(c *core.Ctx) *bulkModel {
	d := fn(c, pkgBulk, "Bulker", "run")
	if d == nil {
		return nil
	}
	info := d.Pkg.TypesInfo
	m := &bulkModel{run: d, envs: scopeEnvs(c, d)}
	ast.Inspect(d.Decl.Body, func(n ast.Node) bool {
		switch x := n.(type) {
		case *ast.AssignStmt:
			for _, l := range x.Lhs {
				if id, ok := l.(*ast.Ident); ok && x.Tok == token.DEFINE {
					if o := info.Defs[id]; o != nil && astx.IsNamed(o.Type(), "sync/atomic", "Bool") {
						m.flag = o
					}
				}
			}
		case *ast.ValueSpec:
			for _, nm := range x.Names {
				if o := info.Defs[nm]; o != nil && astx.IsNamed(o.Type(), "sync/atomic", "Bool") {
					m.flag = o
				}
			}
		case *ast.RangeStmt:
			ast.Inspect(x.Body, func(y ast.Node) bool {
				if _, isLit := y.(*ast.FuncLit); isLit {
					return false
				}
				if s, ok := y.(*ast.IncDecStmt); ok && s.Tok == token.INC {
					if id, ok := s.X.(*ast.Ident); ok {
						m.counter = info.ObjectOf(id)
					}
				}
				return true
			})
		}
		return true
	})
	for _, call := range callsTo(info, d.Decl.Body, named("Submit")) {
		if len(call.Args) == 1 {
			if fl, ok := call.Args[0].(*ast.FuncLit); ok {
				m.worker = fl
			}
		}
	}
	return m
}

func ruleBulkWorker(c *core.Ctx) {
	m := bulkWorkerModel(c)
	if m == nil {
		return
	}
	d := m.run
	info := d.Pkg.TypesInfo
	key := declKey(d)
	worker := m.worker
	if worker == nil {
		c.Unrecognised("DOM/bulk-short-circuit", key+":worker", pos(c, d.Decl), "no worker closure submitted to the pool")
		return
	}
	// where the element is processed: the worker itself, or a helper it calls
	type site struct {
		env  *originEnv
		call *ast.CallExpr
	}
	var pes []site
	for _, e := range m.envs {
		for _, call := range e.calls(named("processElement")) {
			pes = append(pes, site{e, call})
		}
	}
	if len(pes) == 0 {
		failOrGone(c, pkgBulk, "processElement", "DOM/bulk-short-circuit", key+":processElement", pos(c, worker), "the worker no longer processes the element it is handed")
		return
	}
	if len(pes) != 1 || m.flag == nil {
		c.Unrecognised("DOM/bulk-short-circuit", key+":processElement", pos(c, worker), fmt.Sprintf("worker calls processElement %d times / failure flag identified: %v", len(pes), m.flag != nil))
		return
	}
	pe := pes[0]
	isFlag := func(e *originEnv, x ast.Expr) bool { return e.rootObj(x) == m.flag }
	// short circuit: `flag.Load() && !continueOnFailure` is false where the element is processed
	short := false
	for _, f := range astx.FactsAt(pe.env.info, pe.env.d.Decl.Body, pe.call.Pos()) {
		if f.Positive {
			continue
		}
		cj := splitAnd(f.Cond)
		if len(cj) != 2 {
			continue
		}
		load, notCont := false, false
		for _, x := range cj {
			if call, ok := ast.Unparen(x).(*ast.CallExpr); ok {
				if se, ok := call.Fun.(*ast.SelectorExpr); ok && se.Sel.Name == "Load" && isFlag(pe.env, se.X) {
					load = true
				}
			}
			if u, ok := ast.Unparen(x).(*ast.UnaryExpr); ok && u.Op == token.NOT {
				if t := pe.env.info.TypeOf(u.X); t != nil {
					if b, isB := t.Underlying().(*types.Basic); isB && b.Kind() == types.Bool {
						notCont = strings.HasPrefix(pe.env.origin(u.X), "param:")
					}
				}
			}
		}
		if load && notCont {
			short = true
		}
	}
	// and every failure is recorded under an error test
	stored := false
	for _, e := range m.envs {
		for _, call := range e.calls(named("Store")) {
			if len(call.Args) != 1 || !isFlag(e, recvExpr(call)) {
				continue
			}
			if v, known := constBool(e.info, e.d.Decl.Body, call.Args[0]); !known || !v {
				continue
			}
			for _, f := range astx.FactsAt(e.info, e.d.Decl.Body, call.Pos()) {
				if isErrNilTest(e.info, f.Cond) {
					stored = true
				}
			}
		}
	}
	c.Check(short && stored, "DOM/bulk-short-circuit", key, pos(c, worker), "no element is processed after a failure unless continueOnFailure; every failure is recorded", fmt.Sprintf("after the first failure later elements must be skipped unless continueOnFailure, and every failing element must set hasError (short-circuit=%v records=%v)", short, stored))
	// processElement runs on the controller parameter of run
	if len(pe.call.Args) >= 2 {
		cls := pe.env.origin(pe.call.Args[1])
		ro := pe.env.rootObj(pe.call.Args[1])
		c.Check(ro != nil && isParamObj(d, ro), "TXH/bulk-controller", key+":processElement-controller", pos(c, pe.call), "processElement(ctx, ctrl, …)", "elements are processed on "+cls+" instead of the controller passed to run")
	}
	// exactly one send per path of the worker
	flow := astx.NewFlow(info, worker.Body)
	isResultChan := func(x ast.Expr) bool {
		p := canonPath(d, x)
		return len(p) >= 2 && p[0] == 'p' && !strings.Contains(p, ".")
	}
	counts := flow.CountOnPaths(func(n ast.Node) bool {
		s, ok := n.(*ast.SendStmt)
		return ok && isResultChan(s.Chan)
	})
	var bad []string
	total := 0
	for ei, set := range counts {
		for n := range set {
			total++
			if n != 1 {
				bad = append(bad, fmt.Sprintf("exit#%d:%d", ei, n))
			}
		}
	}
	sort.Strings(bad)
	c.Check(len(bad) == 0 && total > 0, "PATH/one-result-per-element", key, pos(c, worker), fmt.Sprintf("%d exit/count pairs, all exactly one send", total), fmt.Sprintf("some path through the worker sends a number of results different from one (%v): the response would have fewer or more results than elements", bad))
	// parallelism: the pool size is 1 unless the caller asked for a parallel bulk
	var size types.Object
	for _, call := range callsTo(info, d.Decl.Body, named("New")) {
		if f := astx.Callee(info, call); f != nil && f.Pkg() != nil && strings.Contains(f.Pkg().Path(), "pond") && len(call.Args) >= 1 {
			size = m.envs[0].rootObj(call.Args[0])
		}
	}
	if size == nil {
		c.Unrecognised("DOM/bulk-parallelism", key, pos(c, d.Decl), "the size handed to the worker pool is not a local variable the rule can follow")
		return
	}
	init1, okPar, others := false, true, 0
	ast.Inspect(d.Decl.Body, func(n ast.Node) bool {
		as, ok := n.(*ast.AssignStmt)
		if !ok || len(as.Lhs) != 1 || len(as.Rhs) != 1 {
			return true
		}
		id, isID := as.Lhs[0].(*ast.Ident)
		if !isID || info.ObjectOf(id) != size {
			return true
		}
		if tv, ok := info.Types[as.Rhs[0]]; ok && tv.Value != nil && tv.Value.ExactString() == "1" {
			init1 = true
			return true
		}
		others++
		guarded := false
		for _, f := range astx.FactsAt(info, d.Decl.Body, as.Pos()) {
			if fid, ok := ast.Unparen(f.Cond).(*ast.Ident); ok && f.Positive && isParamObj(d, info.ObjectOf(fid)) {
				guarded = true
			}
		}
		okPar = okPar && guarded
		return true
	})
	c.Check(okPar && init1, "DOM/bulk-parallelism", key, pos(c, d.Decl), "parallelism = 1 unless parallel", "the worker pool may run elements concurrently although parallel was not requested: a sequential bulk would not apply its elements in order")
}

func ruleBulkArms(c *core.Ctx) {
	pk := c.Prog().Pkg(pkgBulk)
	info := pk.TypesInfo
	actions := map[string]bool{}
	sc := pk.Types.Scope()
	for _, n := range sc.Names() {
		if k, ok := sc.Lookup(n).(*types.Const); ok && strings.HasPrefix(n, "Action") {
			_ = k
			actions[n] = true
		}
	}
	arms := func(d *astx.DeclInfo) map[string]*ast.CaseClause {
		out := map[string]*ast.CaseClause{}
		if d == nil {
			return out
		}
		ast.Inspect(d.Decl.Body, func(n ast.Node) bool {
			if cc, ok := n.(*ast.CaseClause); ok {
				for _, e := range cc.List {
					if id, ok := e.(*ast.Ident); ok && actions[id.Name] {
						out[id.Name] = cc
					}
				}
			}
			return true
		})
		return out
	}
	dec := arms(fn(c, pkgBulk, "", "UnmarshalBulkElementPayload"))
	proc := arms(fn(c, pkgBulk, "Bulker", "processElement"))
	c.Floor("EXH/bulk-arms", "bulk action constants", len(actions), 4)
	for a := range actions {
		c.Check(dec[a] != nil, "EXH/bulk-arms", "decode:"+a, "", "payload decoder has an arm", "UnmarshalBulkElementPayload has no arm for "+a+": the element is decoded into nil and processElement type-asserts it")
		cc := proc[a]
		c.Check(cc != nil, "EXH/bulk-arms", "process:"+a, "", "processElement has an arm", "processElement has no arm for "+a+" (it panics)")
		if cc == nil {
			continue
		}
		// every controller call in the arm forwards IK and schema version, DryRun false
		n := 0
		ast.Inspect(cc, func(x ast.Node) bool {
			cl, ok := x.(*ast.CompositeLit)
			if !ok || astx.RecvTypeName(info.TypeOf(cl)) != "Parameters" {
				return true
			}
			n++
			ik := fieldOfCompositeLit(cl, "IdempotencyKey")
			sv := fieldOfCompositeLit(cl, "SchemaVersion")
			dr := fieldOfCompositeLit(cl, "DryRun")
			ok1 := ik != nil && strings.HasSuffix(astx.SelectorPath(ik), ".IdempotencyKey")
			ok2 := sv != nil && astx.ExprString(sv) == "schemaVersion"
			ok3 := dr == nil || astx.ExprString(dr) == "false"
			c.Check(ok1 && ok2 && ok3, "EXH/bulk-arms", fmt.Sprintf("params:%s#%d", a, n), pos(c, cl), "IdempotencyKey, SchemaVersion forwarded; not a dry run",
				fmt.Sprintf("the %s arm builds its controller parameters without the element's idempotency key (%v), the bulk's schema version (%v), or as a dry run (%v): the element would not behave like the stand-alone request", a, ok1, ok2, !ok3))
			return true
		})
		c.Check(n >= 1, "EXH/bulk-arms", "params:"+a, pos(c, cc), "calls a controller write", a+" arm performs no controller write")
	}
}

func ruleBulkResultOrder(c *core.Ctx) {
	// the sort key of writeJSONResponse
	d := fn(c, pkgBulk, "", "writeJSONResponse")
	if d == nil {
		return
	}
	info := d.Pkg.TypesInfo
	keyField := ""
	for _, call := range callsTo(info, d.Decl.Body, named("SortFunc")) {
		if len(call.Args) == 2 {
			if fl, ok := call.Args[1].(*ast.FuncLit); ok {
				ast.Inspect(fl.Body, func(n ast.Node) bool {
					if se, ok := n.(*ast.SelectorExpr); ok && keyField == "" {
						if _, isField := info.Uses[se.Sel].(*types.Var); isField {
							keyField = se.Sel.Name
						}
					}
					return true
				})
			}
		}
	}
	if keyField == "" {
		c.Unknown("WMC/bulk-result-order", declKey(d)+":sort-key", pos(c, d.Decl), "the results are paired with the actions by position but no sort key was found")
		return
	}
	// every BulkElementResult literal sent by the worker sets it from the element index
	r := fn(c, pkgBulk, "Bulker", "run")
	if r == nil {
		return
	}
	m := bulkWorkerModel(c)
	if m == nil || m.counter == nil {
		c.Fail("WMC/bulk-result-order", declKey(r)+":index-advances", pos(c, r.Decl), "the element index is not advanced per element")
		return
	}
	c.Pass("WMC/bulk-result-order", declKey(r)+":index-advances", pos(c, r.Decl), "index++ per element")
	n, okAll := 0, true
	for _, e := range m.envs {
		e := e
		ast.Inspect(e.d.Decl.Body, func(x ast.Node) bool {
			cl, ok := x.(*ast.CompositeLit)
			if !ok || astx.RecvTypeName(e.info.TypeOf(cl)) != "BulkElementResult" {
				return true
			}
			n++
			v := fieldOfCompositeLit(cl, keyField)
			if v == nil || e.rootObj(v) != m.counter {
				okAll = false
				c.Fail("WMC/bulk-result-order", fmt.Sprintf("%s:result#%d:%s", declKey(r), n, keyField), pos(c, cl), fmt.Sprintf("this result does not set %s from the element index; the JSON response sorts by %s and pairs results with actions by position, so with parallel=true the result is reported under another element's action", keyField, keyField))
			}
			return true
		})
	}
	if okAll {
		c.Pass("WMC/bulk-result-order", declKey(r)+":all-results-indexed", pos(c, r.Decl), fmt.Sprintf("%d results set %s = element index", n, keyField))
	}
	c.Floor("WMC/bulk-result-order", "results sent by the worker", n, 4)
}

// ruleBulkErrorCodes: mapBulkElementError covers every error kind the single-request write
// handlers (and HandleCommonWriteErrors) map to a non-500 answer.
func ruleBulkErrorCodes(c *core.Ctx) {
	d := fn(c, pkgBulk, "", "mapBulkElementError")
	if d == nil {
		return
	}
	var bulk *ErrSwitch
	for _, es := range errSwitches(c) {
		if es.Func == d {
			bulk = es
		}
	}
	if bulk == nil {
		c.Fail("EXH/bulk-error-codes", declKey(d)+":switch", pos(c, d.Decl), "mapBulkElementError has no error switch")
		return
	}
	want := map[string]string{}
	for _, s := range writeCallSites(c, "CreateTransaction", "RevertTransaction", "SaveTransactionMetadata", "SaveAccountMetadata", "DeleteTransactionMetadata", "DeleteAccountMetadata") {
		if relPkg(s.Pkg.PkgPath) != pkgAPIv2 {
			continue
		}
		es, _ := handlingAfter(c, s)
		if es == nil {
			continue
		}
		for name, oc := range es.Arms {
			if oc.Status >= 400 && oc.Status < 500 {
				want[name] = astx.FuncKey(s.EnclObj)
			}
		}
	}
	for _, es := range errSwitches(c) {
		if es.Func != nil && es.Func.Decl.Name.Name == "HandleCommonWriteErrors" {
			for name, oc := range es.Arms {
				if oc.Status >= 400 && oc.Status < 500 {
					want[name] = "HandleCommonWriteErrors"
				}
			}
		}
	}
	c.Floor("EXH/bulk-error-codes", "client-error kinds mapped by the v2 write handlers", len(want), 10)
	for name, where := range want {
		_, ok := bulk.Arms[name]
		c.Check(ok, "EXH/bulk-error-codes", name, pos(c, bulk.Stmt), "mapped", fmt.Sprintf("%s is answered as a client error by %s but mapBulkElementError has no arm for it: inside a bulk the same failure is reported as INTERNAL", name, where))
	}
}
