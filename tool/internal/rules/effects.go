package rules

import (
	"fmt"
	"go/ast"
	"go/token"
	"go/types"
	"sort"
	"strings"

	"ledgerlint/internal/astx"
)

// Effect is one way a posting amount reaches volume/balance state inside a function.
type Effect struct {
	Target string // Input | Output | balance
	Sign   int    // +1 | -1 | 0 (unknown)
	Role   string // Source | Destination | ?
	Via    string
	Pos    token.Pos
	Call   *ast.CallExpr
	// Accumulates is false when the receiver is not also the first operand (x.Add(y, amt)).
	Accumulates bool
	// Exclusive is set when the effect is only reached if another role test failed
	// (else-branch of `x == p.Source`, or one case of a switch over the roles): a posting
	// whose source and destination coincide then updates one side only.
	Exclusive bool
}

// roleExclusive reports whether pos sits in a branch that excludes another role selection.
func roleExclusive(info *types.Info, body *ast.BlockStmt, pos token.Pos) bool {
	for _, f := range astx.FactsAt(info, body, pos) {
		be, ok := ast.Unparen(f.Cond).(*ast.BinaryExpr)
		if !ok || f.Positive || be.Op != token.EQL {
			continue
		}
		l, r := roleOfExpr(be.X), roleOfExpr(be.Y)
		if (l != "") != (r != "") {
			return true // reached only when `x == p.<role>` was false
		}
	}
	excl := false
	ast.Inspect(body, func(n ast.Node) bool {
		sw, ok := n.(*ast.SwitchStmt)
		if !ok || !(sw.Pos() <= pos && pos < sw.End()) {
			return true
		}
		roleClauses, mine := 0, false
		for _, cl := range sw.Body.List {
			cc := cl.(*ast.CaseClause)
			isRole := false
			for _, e := range cc.List {
				if roleOfExpr(e) != "" {
					isRole = true
				}
				if be, ok := ast.Unparen(e).(*ast.BinaryExpr); ok && be.Op == token.EQL && ((roleOfExpr(be.X) != "") != (roleOfExpr(be.Y) != "")) {
					isRole = true
				}
			}
			if isRole {
				roleClauses++
				if cc.Pos() <= pos && pos < cc.End() {
					mine = true
				}
			}
		}
		if roleClauses >= 2 && mine {
			excl = true
		}
		return true
	})
	return excl
}

func (e Effect) Sig() string {
	s := "?"
	switch e.Sign {
	case 1:
		s = "+"
	case -1:
		s = "-"
	}
	return fmt.Sprintf("(%s,%s,%s)", e.Target, s, e.Role)
}

func isBigIntMethod(f *types.Func, names ...string) bool {
	if f == nil || f.Pkg() == nil || f.Pkg().Path() != "math/big" {
		return false
	}
	sig, _ := f.Type().(*types.Signature)
	if sig == nil || sig.Recv() == nil || astx.RecvTypeName(sig.Recv().Type()) != "Int" {
		return false
	}
	for _, n := range names {
		if f.Name() == n {
			return true
		}
	}
	return false
}

// amountSign classifies an amount operand: X.Amount -> +1, Neg(X.Amount) -> -1, else 0.
func amountSign(info *types.Info, e ast.Expr) int {
	e = ast.Unparen(e)
	if id, ok := e.(*ast.Ident); ok && effectsBody != nil {
		if def := resolveLocal(info, effectsBody, id); def != ast.Expr(id) {
			return amountSign(info, def)
		}
	}
	if p := astx.SelectorPath(e); strings.HasSuffix(p, ".Amount") {
		return 1
	}
	if call, ok := e.(*ast.CallExpr); ok {
		if f := astx.Callee(info, call); isBigIntMethod(f, "Neg") && len(call.Args) == 1 {
			return -amountSign(info, call.Args[0])
		}
		// conversions such as (*big.Int)(posting.Amount)
		if len(call.Args) == 1 {
			if tv, ok := info.Types[call.Fun]; ok && tv.IsType() {
				return amountSign(info, call.Args[0])
			}
		}
	}
	return 0
}

func roleOfExpr(e ast.Expr) string {
	if id, ok := ast.Unparen(e).(*ast.Ident); ok && effectsBody != nil && effectsInfo != nil {
		if def := resolveLocal(effectsInfo, effectsBody, id); def != ast.Expr(id) {
			return roleOfExpr(def)
		}
	}
	p := astx.SelectorPath(e)
	switch {
	case strings.HasSuffix(p, ".Source"):
		return "Source"
	case strings.HasSuffix(p, ".Destination"):
		return "Destination"
	}
	return ""
}

// roleFromFacts finds a positive fact `x == p.Source|p.Destination`.
func roleFromFacts(facts []astx.Fact) string {
	role := ""
	for _, f := range facts {
		be, ok := ast.Unparen(f.Cond).(*ast.BinaryExpr)
		if !ok || be.Op != token.EQL || !f.Positive {
			continue
		}
		l, r := roleOfExpr(be.X), roleOfExpr(be.Y)
		if l != "" && r != "" {
			continue // source == destination comparison, not a role selection
		}
		if l != "" {
			role = l
		} else if r != "" {
			role = r
		}
	}
	return role
}

// effectsBody/effectsInfo: the body whose single-definition locals amountSign and roleOfExpr read
// through (`neg := new(big.Int).Neg(p.Amount)`, `src := p.Source`); set by amountEffects.
var (
	effectsBody *ast.BlockStmt
	effectsInfo *types.Info
)

// amountEffectsScope collects the effects over d and the same-package helpers it calls.
func amountEffectsScope(scope []*astx.DeclInfo) []Effect {
	var out []Effect
	inScope(scope, func(sd *astx.DeclInfo) {
		out = append(out, amountEffects(sd.Pkg.TypesInfo, sd.Decl.Body)...)
	})
	return out
}

// amountEffects extracts the effects of posting amounts in a function body.
func amountEffects(info *types.Info, body *ast.BlockStmt) []Effect {
	var out []Effect
	prevB, prevI := effectsBody, effectsInfo
	effectsBody, effectsInfo = body, info
	defer func() { effectsBody, effectsInfo = prevB, prevI }()
	ast.Inspect(body, func(n ast.Node) bool {
		call, ok := n.(*ast.CallExpr)
		if !ok {
			return true
		}
		f := astx.Callee(info, call)
		if f == nil {
			return true
		}
		switch {
		case isBigIntMethod(f, "Add", "Sub") && len(call.Args) == 2:
			recv := recvExpr(call)
			sign := amountSign(info, call.Args[1])
			first := 0
			if sign == 0 {
				// amount may be the first operand: x.Add(amount, x) — keep commutative Add only
				if s := amountSign(info, call.Args[0]); s != 0 && f.Name() == "Add" {
					sign = s
					first = 1
				}
			}
			if sign == 0 {
				return true
			}
			if f.Name() == "Sub" {
				sign = -sign
			}
			e := Effect{Sign: sign, Via: "big.Int." + f.Name(), Pos: call.Pos(), Call: call}
			rp := astx.SelectorPath(recv)
			accOperand := call.Args[first]
			e.Accumulates = astx.ExprString(recv) == astx.ExprString(accOperand)
			switch {
			case strings.HasSuffix(rp, ".Input"):
				e.Target = "Input"
			case strings.HasSuffix(rp, ".Output"):
				e.Target = "Output"
			default:
				// balances[posting.Source][posting.Asset].Add(balances[...][...], amt)
				if ix, ok := ast.Unparen(recv).(*ast.IndexExpr); ok {
					e.Target = "balance"
					if inner, ok := ast.Unparen(ix.X).(*ast.IndexExpr); ok {
						e.Role = roleOfExpr(inner.Index)
					}
				} else if strings.HasSuffix(rp, ".Input") || strings.HasSuffix(rp, ".Output") {
				} else {
					e.Target = "other:" + astx.ExprString(recv)
				}
			}
			if e.Role == "" {
				// role through an index in the receiver path, else through guarding facts
				ast.Inspect(recv, func(x ast.Node) bool {
					if ie, ok := x.(*ast.IndexExpr); ok {
						if r := roleOfExpr(ie.Index); r != "" && e.Role == "" {
							e.Role = r
						}
					}
					return true
				})
			}
			if e.Role == "" {
				e.Role = roleFromFacts(astx.FactsAt(info, body, call.Pos()))
			}
			if e.Role == "" {
				e.Role = "?"
			}
			e.Exclusive = roleExclusive(info, body, call.Pos())
			out = append(out, e)
		case (f.Name() == "AddInput" || f.Name() == "AddOutput") && len(call.Args) == 3:
			sig, _ := f.Type().(*types.Signature)
			if sig == nil || sig.Recv() == nil || astx.RecvTypeName(sig.Recv().Type()) != "PostCommitVolumes" {
				return true
			}
			e := Effect{Target: strings.TrimPrefix(f.Name(), "Add"), Sign: amountSign(info, call.Args[2]), Role: roleOfExpr(call.Args[0]), Via: f.Name(), Pos: call.Pos(), Call: call, Accumulates: true}
			if e.Role == "" {
				e.Role = "?"
			}
			e.Exclusive = roleExclusive(info, body, call.Pos())
			out = append(out, e)
		}
		return true
	})
	return out
}

func effectSigs(es []Effect) []string {
	var s []string
	for _, e := range es {
		s = append(s, e.Sig())
	}
	sort.Strings(s)
	return s
}
