package rules

import (
	"fmt"
	"go/ast"
	"go/types"
	"sort"
	"strings"

	"ledgerlint/internal/astx"
	"ledgerlint/internal/core"
	"ledgerlint/internal/load"
)

func init() {
	register("C38", checkC38)
	addBreakers("C38",
		Breaker{Name: "null-cursor-panics-again", File: "internal/storage/common/cursor.go",
			Old: "\tif q == nil {\n\t\t// a JSON null resets the interface value\n\t\treturn nil, fmt.Errorf(\"invalid cursor: null\")\n\t}\n", New: "", Expect: "PANIC/decoders"},
		Breaker{Name: "v1-script-var-panics-again", File: "internal/api/v1/controllers_transactions_create.go",
			Old: "\t\t\t\treturn nil, fmt.Errorf(\"unmarshalling variable %q: %w\", k, err)", New: "\t\t\t\tpanic(err)", Expect: "PANIC/decoders"},
		Breaker{Name: "saved-metadata-panics-again", File: "internal/log.go",
			Old: "\tcase strings.ToUpper(MetaTargetTypeTransaction):\n\t\tid, err = strconv.ParseUint(string(x.TargetID), 10, 64)\n\tdefault:\n\t\treturn fmt.Errorf(\"unknown type '%s'\", x.TargetType)\n\t}\n\tif err != nil {\n\t\treturn err\n\t}\n\n\t*s = SavedMetadata{", New: "\tcase strings.ToUpper(MetaTargetTypeTransaction):\n\t\tid, err = strconv.ParseUint(string(x.TargetID), 10, 64)\n\tdefault:\n\t\tpanic(\"unknown type\")\n\t}\n\tif err != nil {\n\t\treturn err\n\t}\n\n\t*s = SavedMetadata{", Expect: "PANIC/decoders"},
		Breaker{Name: "log-type-json-panics-again", File: "internal/log.go",
			Old: "\tv, err := logTypeFromString(s)\n\tif err != nil {\n\t\treturn err\n\t}\n\t*lt = v\n", New: "\t*lt = LogTypeFromString(s)\n", Expect: "PANIC/decoders"},
		Breaker{Name: "bad-json-body-is-500", File: "internal/api/v2/controllers_schema_insert.go",
			Old: "\tif err := json.NewDecoder(r.Body).Decode(&data); err != nil {\n\t\tapi.BadRequest(w, common.ErrValidation, err)", New: "\tif err := json.NewDecoder(r.Body).Decode(&data); err != nil {\n\t\tcommon.InternalServerError(w, r, err)", Expect: "HTTP/decode-error"},
		Breaker{Name: "bad-pit-is-500", File: "internal/api/v2/controllers_transactions_read.go",
			Old: "\tpit, err := getPIT(r)\n\tif err != nil {\n\t\tapi.BadRequest(w, common.ErrValidation, err)\n\t\treturn\n\t}", New: "\tpit, err := getPIT(r)\n\tif err != nil {\n\t\tcommon.HandleCommonErrors(w, r, err)\n\t\treturn\n\t}", Expect: "HTTP/decode-error"},
		Breaker{Name: "bad-cursor-silently-ok", File: "internal/api/v2/controllers_accounts_list.go",
			Old: "\t\tif err != nil {\n\t\t\tapi.BadRequest(w, common.ErrValidation, err)\n\t\t\treturn\n\t\t}\n\n\t\tcursor, err := l.ListAccounts", New: "\t\tif err != nil {\n\t\t\treturn\n\t\t}\n\n\t\tcursor, err := l.ListAccounts", Expect: "HTTP/decode-error"},
		Breaker{Name: "import-body-error-is-500", File: "internal/api/v2/controllers_logs_import.go",
			Old: "api.BadRequest(w, common.ErrValidation, fmt.Errorf(\"reading input stream: %w\", err))", New: "common.InternalServerError(w, r, fmt.Errorf(\"reading input stream: %w\", err))", Expect: "HTTP/decode-error"},
		Breaker{Name: "invalid-query-is-500-again", File: "internal/api/common/errors.go",
			Old: "\tcase errors.Is(err, storagecommon.ErrInvalidQuery{}) ||\n\t\terrors.Is(err, ledger.ErrMissingFeature{}):\n\t\t// an invalid query, or a read that needs a disabled feature, is a client error\n\t\t// whichever handler forwarded the query\n\t\tapi.BadRequest(w, ErrValidation, err)\n", New: "", Expect: "HTTP/read-error"},
		Breaker{Name: "list-volumes-generic-errors", File: "internal/api/v2/controllers_volumes.go",
			Old: "common.HandleCommonPaginationErrors(w, r, err)", New: "common.InternalServerError(w, r, err)", Expect: "HTTP/read-error"},
		Breaker{Name: "bulk-element-conversion-panics", File: "internal/api/bulking/elements.go",
			Old: "\tif _, err := req.Postings.Validate(); err != nil {\n\t\treturn nil, err\n\t}", New: "\tif _, err := req.Postings.Validate(); err != nil {\n\t\tpanic(err)\n\t}", Expect: "PANIC/decoders"},
	)
}

func checkC38(c *core.Ctx) {
	c.Decide("in every handler of api/v1, api/v2 and api/bulking an error produced by decoding the request (JSON decode, query/cursor/date/id parsing, ToCore conversions) is answered with a 4xx writer, never with InternalServerError or the generic 500 fallback; every handler that forwards a client-built filter / expand / point-in-time to a read of the controller maps ErrInvalidQuery and ErrMissingFeature (and ErrNotPaginatedField for listings) to 400; no function reachable (resolved callees, depth ≤ 3) from the JSON decoding entry points (UnmarshalJSON, Scan, ToCore, *FromString helpers they call) contains a panic outside the enumerated invariant panics; the idempotency and reference conflict mappings of C13/C14")
	c.NotDecided("well-formedness of every response body; panics inside dependencies; panics guarded only by invariants of the VM (C27)")
	c.Trust("the recover middleware is the only thing between a panic and the client; go-libs api writers set the status they are named after")
	ruleDecodeErrorsAreClientErrors(c)
	ruleReadErrorsMapped(c)
	ruleNoPanicInDecoders(c)
	ruleUncheckedAssertionsOnDecodedJSON(c)
	ruleDateFilterValidated(c)
	ruleValidatorsRejectStrings(c)
	// an error kind that maps to a 4xx must survive the wrapping on its way up (C14's rule)
	ruleErrorChainKept(c)
}

// decodeCallees: functions whose error means "the client sent something malformed".
var decodeCallees = map[string]bool{
	"Decode": true, "getPaginatedQuery": true, "getResourceQuery": true, "getPIT": true, "getOOT": true, "getDate": true,
	"getQueryBuilder": true, "UnmarshalCursor": true, "ParseUint": true, "ParseInt": true, "ParseBool": true, "Atoi": true, "PathUnescape": true,
	"ToCore": true, "ParseTime": true, "getOffsetPaginatedQuery": true, "getColumnPaginatedQuery": true, "GetPageSize": true, "ParseJSON": true,
	"getExpand": true, "getBulkOptions": true, "Extract": true, "getCommandParameters": false,
}

func ruleDecodeErrorsAreClientErrors(c *core.Ctx) {
	n := 0
	for _, rel := range []string{pkgAPIv1, pkgAPIv2, pkgBulk} {
		pk := c.Prog().Pkg(rel)
		if pk == nil {
			continue
		}
		info := pk.TypesInfo
		for _, f := range pk.Syntax {
			if load.IsGenerated(f) {
				continue
			}
			for _, dd := range f.Decls {
				fd, ok := dd.(*ast.FuncDecl)
				if !ok || fd.Body == nil {
					continue
				}
				if !writesResponses(info, fd) {
					continue
				}
				occ := map[string]int{}
				ast.Inspect(fd.Body, func(x ast.Node) bool {
					is, ok := x.(*ast.IfStmt)
					if !ok {
						return true
					}
					vars := errorCondVars(info, is.Cond)
					if len(vars) == 0 {
						return true
					}
					// the call that produced the error: if-init or the nearest preceding assignment
					callee := errSourceCallee(info, fd, is, vars[0])
					if callee == "" || !decodeCallees[callee] {
						return true
					}
					if callee == "Decode" && !decodesRequestBody(info, fd, is) {
						return true
					}
					// functions that hand the error back to their caller are judged at the caller
					if rets := returnsErr(info, is.Body, vars[0]); rets {
						return true
					}
					occ[callee]++
					key := fmt.Sprintf("%s:%s#%d", enclKey(rel, fd), callee, occ[callee])
					n++
					// every response written in the branch must be a 4xx (a 2xx is the end-of-stream idiom)
					var bad []string
					wrote := 0
					ast.Inspect(is.Body, func(y ast.Node) bool {
						call, ok := y.(*ast.CallExpr)
						if !ok {
							return true
						}
						oc := outcomeOfBody(info, []ast.Stmt{&ast.ExprStmt{X: call}})
						if oc == nil {
							return true
						}
						wrote++
						switch {
						case oc.Status >= 200 && oc.Status < 500:
						case oc.Delegate == "HandleCommonPaginationErrors" || oc.Delegate == "HandleCommonWriteErrors" || oc.Delegate == "HandleCommonErrors":
							// delegated: the errors named below are mapped there; a decoding error is none of them
							bad = append(bad, "->"+oc.Delegate)
						default:
							bad = append(bad, describeOutcome(*oc))
						}
						return false
					})
					if wrote == 0 && storesErrInField(info, is.Body, vars[0]) {
						c.Pass("HTTP/decode-error", key, pos(c, is), "idiom: the error is stored on the handler and reported when the stream terminates")
						return true
					}
					c.Check(len(bad) == 0 && wrote > 0, "HTTP/decode-error", key, pos(c, is), fmt.Sprintf("%s error → 4xx", callee), fmt.Sprintf("an error from %s (malformed client input) is answered %v: invalid input must yield a 4xx, not a server error", callee, bad))
					// the only decoding error a handler may wave through is io.EOF (no body at all)
					var tolerated []string
					ast.Inspect(is.Cond, func(y ast.Node) bool {
						call, ok := y.(*ast.CallExpr)
						if !ok || len(call.Args) != 2 {
							return true
						}
						if f := astx.Callee(info, call); f != nil && f.Pkg() != nil && f.Pkg().Path() == "errors" && f.Name() == "Is" {
							if t := types.ExprString(call.Args[1]); t != "io.EOF" {
								tolerated = append(tolerated, t)
							}
						}
						return true
					})
					if len(tolerated) > 0 {
						c.Fail("HTTP/decode-error", key+":tolerates", pos(c, is), fmt.Sprintf("the %s error is ignored when it is %v: a malformed (truncated) body is accepted and the request is carried out with whatever was decoded", callee, tolerated))
					}
					return true
				})
			}
		}
	}
	c.Floor("HTTP/decode-error", "request-decoding error branches in API handlers", n, 40)
}

// decodesRequestBody: the Decode call behind this error check reads the request body
// (json.NewDecoder(r.Body) directly or through a local decoder variable).
func decodesRequestBody(info *types.Info, fd *ast.FuncDecl, is *ast.IfStmt) bool {
	found := false
	ast.Inspect(fd.Body, func(n ast.Node) bool {
		call, ok := n.(*ast.CallExpr)
		if !ok {
			return true
		}
		if f := astx.Callee(info, call); f != nil && f.Name() == "NewDecoder" && len(call.Args) == 1 && strings.HasSuffix(astx.SelectorPath(call.Args[0]), ".Body") {
			found = true
		}
		return true
	})
	return found
}

// storesErrInField: `h.err = err` — streaming handlers keep the error for Terminate.
func storesErrInField(info *types.Info, body *ast.BlockStmt, v *ast.Ident) bool {
	obj := info.Uses[v]
	ok := false
	ast.Inspect(body, func(n ast.Node) bool {
		if as, isAs := n.(*ast.AssignStmt); isAs && len(as.Lhs) == 1 && len(as.Rhs) == 1 {
			if _, isSel := as.Lhs[0].(*ast.SelectorExpr); isSel {
				if id, isID := as.Rhs[0].(*ast.Ident); isID && info.Uses[id] == obj {
					ok = true
				}
			}
		}
		return true
	})
	return ok
}

// returnsErr: the branch returns the error variable to the caller.
func returnsErr(info *types.Info, body *ast.BlockStmt, v *ast.Ident) bool {
	obj := info.Uses[v]
	ret := false
	ast.Inspect(body, func(n ast.Node) bool {
		if _, isLit := n.(*ast.FuncLit); isLit {
			return false
		}
		r, ok := n.(*ast.ReturnStmt)
		if !ok {
			return true
		}
		for _, e := range r.Results {
			ast.Inspect(e, func(y ast.Node) bool {
				if id, ok := y.(*ast.Ident); ok && info.Uses[id] == obj {
					ret = true
				}
				return true
			})
		}
		return true
	})
	return ret
}

// writesResponses: the function (or a literal in it) has an http.ResponseWriter in scope.
func writesResponses(info *types.Info, fd *ast.FuncDecl) bool {
	found := false
	ast.Inspect(fd, func(n ast.Node) bool {
		var ft *ast.FuncType
		switch x := n.(type) {
		case *ast.FuncDecl:
			ft = x.Type
		case *ast.FuncLit:
			ft = x.Type
		}
		if ft != nil && ft.Params != nil {
			for _, p := range ft.Params.List {
				if t := info.TypeOf(p.Type); t != nil && astx.IsNamed(t, "net/http", "ResponseWriter") {
					found = true
				}
			}
		}
		return true
	})
	return found
}

func errSourceCallee(info *types.Info, fd *ast.FuncDecl, is *ast.IfStmt, v *ast.Ident) string {
	if as, ok := is.Init.(*ast.AssignStmt); ok && len(as.Rhs) == 1 {
		if call, ok := ast.Unparen(as.Rhs[0]).(*ast.CallExpr); ok {
			return calleeName(info, call)
		}
	}
	obj := info.Uses[v]
	best := ""
	ast.Inspect(fd.Body, func(n ast.Node) bool {
		as, ok := n.(*ast.AssignStmt)
		if !ok || as.End() > is.Pos() || len(as.Rhs) != 1 {
			return true
		}
		call, ok := ast.Unparen(as.Rhs[0]).(*ast.CallExpr)
		if !ok {
			return true
		}
		for _, l := range as.Lhs {
			if id, ok := l.(*ast.Ident); ok && info.ObjectOf(id) == obj {
				best = calleeName(info, call)
			}
		}
		return true
	})
	return best
}

func calleeName(info *types.Info, call *ast.CallExpr) string {
	if f := astx.Callee(info, call); f != nil {
		return f.Name()
	}
	switch x := ast.Unparen(call.Fun).(type) {
	case *ast.IndexExpr:
		return lastSeg(astx.SelectorPath(x.X))
	case *ast.IndexListExpr:
		return lastSeg(astx.SelectorPath(x.X))
	}
	return ""
}

// readMethods: controller reads that take a client-built query.
var readMethods = map[string]bool{
	"ListTransactions": true, "CountTransactions": true, "GetTransaction": true, "ListAccounts": true, "CountAccounts": true, "GetAccount": true,
	"GetAggregatedBalances": true, "ListLogs": true, "GetVolumesWithBalances": true, "ListSchemas": true, "RunQuery": true,
}

func ruleReadErrorsMapped(c *core.Ctx) {
	n := 0
	for _, s := range index(c).Sites {
		if s.Encl == nil || !readMethods[s.Callee.Name()] {
			continue
		}
		rel := relPkg(s.Pkg.PkgPath)
		if rel != pkgAPIv1 && rel != pkgAPIv2 {
			continue
		}
		sig, _ := s.Callee.Type().(*types.Signature)
		if sig == nil || sig.Recv() == nil || astx.RecvTypeName(sig.Recv().Type()) != "Controller" {
			continue
		}
		n++
		es, direct := handlingAfter(c, s)
		key := fmt.Sprintf("%s:%s", astx.FuncKey(s.EnclObj), s.Callee.Name())
		for _, e := range []string{pkgCommon + ".ErrInvalidQuery", pkgStore + ".ErrMissingFeature"} {
			oc := outcomeFor(c, es, direct, e)
			c.Check(oc.Status >= 400 && oc.Status < 500, "HTTP/read-error", key+":"+lastSeg(e), pos(c, s.Call), lastSeg(e)+" → 4xx",
				fmt.Sprintf("%s forwards a client-built filter/expand/point-in-time to %s but answers %s with %s: an invalid query or a read that needs a disabled feature must be a 400", astx.FuncKey(s.EnclObj), s.Callee.Name(), lastSeg(e), describeOutcome(oc)))
		}
	}
	c.Floor("HTTP/read-error", "API call sites of controller reads", n, 18)
}

// invariantPanics: panics on the decoding paths that no input can trigger; one line of reason each.
var invariantPanics = map[string]string{
	"internal/controller/ledger.TxToScriptData":    "the three lookups read maps filled in the same function from the same postings a few lines above",
	"internal.(LogType).String":                    "called on values produced by LogTypeFromString / constants only; an out-of-range LogType cannot be decoded from JSON",
	"internal/queries.FieldTypeToString":           "type switch over the closed set of FieldType implementations of this package",
	"internal/machine/vm/program.(Program).String": "debug rendering of compiler output",
}

func ruleNoPanicInDecoders(c *core.Ctx) {
	ix := index(c)
	// roots: every UnmarshalJSON / Scan / ToCore method and Validate of request types in the request path packages
	rootPkgs := map[string]bool{pkgCore: true, pkgAPIv1: true, pkgAPIv2: true, pkgBulk: true, pkgCtrl: true, pkgVM: true, pkgQueries: true, pkgCommon: true, pkgAPICommon: true, pkgMachine: true}
	type item struct {
		f     *types.Func
		depth int
		via   string
	}
	var work []item
	for obj, d := range ix.Decls {
		if !rootPkgs[relPkg(d.Pkg.PkgPath)] || d.Decl.Body == nil {
			continue
		}
		switch obj.Name() {
		// (Scan decodes database values, not client input: not a root)
		case "UnmarshalJSON", "ToCore", "UnmarshalBulkElementPayload", "HydrateLog":
			work = append(work, item{obj, 0, astx.FuncKey(obj)})
		}
	}
	sort.Slice(work, func(i, j int) bool { return astx.FuncKey(work[i].f) < astx.FuncKey(work[j].f) })
	c.Floor("PANIC/decoders", "decoding entry points (UnmarshalJSON, Scan, ToCore, …)", len(work), 12)
	seen := map[*types.Func]bool{}
	n := 0
	for len(work) > 0 {
		it := work[0]
		work = work[1:]
		if seen[it.f] {
			continue
		}
		seen[it.f] = true
		d := ix.Decls[it.f]
		if d == nil || d.Decl.Body == nil {
			continue
		}
		n++
		info := d.Pkg.TypesInfo
		fk := astx.FuncKey(it.f)
		np := 0
		ast.Inspect(d.Decl.Body, func(x ast.Node) bool {
			call, ok := x.(*ast.CallExpr)
			if !ok {
				return true
			}
			if id, ok := call.Fun.(*ast.Ident); ok && id.Name == "panic" {
				if _, isBuiltin := info.Uses[id].(*types.Builtin); isBuiltin {
					np++
					key := fmt.Sprintf("%s:panic#%d", fk, np)
					if why, ok := invariantPanics[fk]; ok {
						c.Pass("PANIC/decoders", key, pos(c, call), "invariant: "+why)
					} else {
						c.Fail("PANIC/decoders", key, pos(c, call), fmt.Sprintf("panic reachable from request decoding (%s): malformed client input must produce an error, not a panic answered 500 by the recover middleware", it.via))
					}
				}
			}
			if it.depth < 3 {
				if f := astx.Callee(info, call); f != nil && f.Pkg() != nil && strings.HasPrefix(f.Pkg().Path(), load.Module) && !seen[f] {
					work = append(work, item{f, it.depth + 1, it.via + " → " + f.Name()})
				}
			}
			return true
		})
		if np == 0 {
			c.PassTrivial("PANIC/decoders", fk+":no-panic", pos(c, d.Decl), "no panic")
		}
	}
	c.Stats["decoder_functions_scanned"] = n
}
