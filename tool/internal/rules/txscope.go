package rules

import (
	"fmt"
	"go/ast"
	"go/token"
	"go/types"
	"sort"
	"strings"

	"ledgerlint/internal/astx"
	"ledgerlint/internal/core"
	"ledgerlint/internal/load"
)

// effectfulStoreMethods derives, from the storage package itself, which *Store methods
// write or lock: they issue an INSERT/UPDATE/DELETE/raw-write statement or a SELECT ... FOR
// UPDATE, directly or through another *Store method.
func effectfulStoreMethods(c *core.Ctx) map[string]bool {
	return c.Cache("effectfulStoreMethods", func() any {
		m := bunModel(c, pkgStore)
		ix := index(c)
		direct := map[string]bool{}
		for _, s := range m.Stmts {
			if load.RecvName(s.Encl) != "Store" {
				continue
			}
			w := false
			switch s.Kind {
			case "insert", "update", "delete":
				w = s.RootKind == "new"
			case "raw":
				w = s.Raw == nil || len(sqlWriters(s.Raw, "", "")) > 0 || strings.Contains(s.RawText, "advisory")
			case "select":
				w = len(s.ClausesNamed("For")) > 0
			}
			if w {
				direct[s.Encl.Name.Name] = true
			}
		}
		// closure over calls between *Store methods
		changed := true
		for changed {
			changed = false
			for obj, d := range ix.Decls {
				if d.Pkg.PkgPath != load.Module+"/"+pkgStore || load.RecvName(d.Decl) != "Store" || direct[obj.Name()] {
					continue
				}
				for _, call := range callsTo(d.Pkg.TypesInfo, d.Decl.Body, func(f *types.Func) bool {
					sig, _ := f.Type().(*types.Signature)
					return sig != nil && sig.Recv() != nil && astx.IsNamed(sig.Recv().Type(), load.Module+"/"+pkgStore, "Store") && direct[f.Name()]
				}) {
					_ = call
					direct[obj.Name()] = true
					changed = true
					break
				}
			}
		}
		// transaction control is handled by the PAIR rule, not here
		for _, n := range []string{"BeginTX", "Commit", "Rollback", "LockLedger"} {
			delete(direct, n)
		}
		return direct
	}).(map[string]bool)
}

func isCtrlStoreIface(t types.Type) bool {
	return astx.IsNamed(t, load.Module+"/"+pkgCtrl, "Store")
}

// rootClass classifies the receiver of a Store method call inside declaration d.
//
//	param:<name>   a parameter of the enclosing function or literal whose type is the Store interface
//	begin:<name>   a local variable assigned from X.BeginTX(...) / X.LockLedger(...)
//	adapter        <receiver>.Store where the method receiver is one of the runtime adapters
//	field:<path>   anything else (e.g. ctrl.store)
func rootClass(info *types.Info, d *astx.DeclInfo, recv ast.Expr) string {
	root := astx.RootIdent(recv)
	if root == nil {
		return "field:" + astx.ExprString(recv)
	}
	obj := info.Uses[root]
	if obj == nil {
		return "field:" + astx.ExprString(recv)
	}
	path := astx.SelectorPath(recv)
	// direct identifier
	if path == root.Name {
		if v, ok := obj.(*types.Var); ok {
			// parameter of the declaration or of an enclosing literal?
			isParam := false
			ast.Inspect(d.Decl, func(n ast.Node) bool {
				var ft *ast.FuncType
				switch x := n.(type) {
				case *ast.FuncDecl:
					ft = x.Type
				case *ast.FuncLit:
					ft = x.Type
				}
				if ft != nil && ft.Params != nil {
					for _, f := range ft.Params.List {
						for _, nm := range f.Names {
							if info.Defs[nm] == v {
								isParam = true
							}
						}
					}
				}
				return true
			})
			if isParam {
				// a parameter may be re-bound from BeginTX (runTx): still transaction scoped
				return "param:" + root.Name
			}
			// assigned from BeginTX / LockLedger?
			fromBegin := false
			other := false
			ast.Inspect(d.Decl.Body, func(n ast.Node) bool {
				as, ok := n.(*ast.AssignStmt)
				if !ok {
					return true
				}
				for i, l := range as.Lhs {
					id, ok := l.(*ast.Ident)
					if !ok || info.ObjectOf(id) != v {
						continue
					}
					if len(as.Rhs) == 1 && i == 0 {
						if call, ok := as.Rhs[0].(*ast.CallExpr); ok {
							if f := astx.Callee(info, call); f != nil && (f.Name() == "BeginTX" || f.Name() == "LockLedger") {
								fromBegin = true
								continue
							}
						}
					}
					other = true
				}
				return true
			})
			if fromBegin && !other {
				return "begin:" + root.Name
			}
		}
		return "field:" + path
	}
	// <recv>.Store on an adapter
	if d.Decl.Recv != nil && len(d.Decl.Recv.List) == 1 && len(d.Decl.Recv.List[0].Names) == 1 {
		rn := d.Decl.Recv.List[0].Names[0]
		if info.Defs[rn] == obj && path == rn.Name+".Store" {
			return "adapter"
		}
	}
	return "field:" + path
}

// ruleTxHandleOwnership (TXH): every effectful Store call in the controller layer goes
// through a transaction-scoped value.
func ruleTxHandleOwnership(c *core.Ctx) {
	eff := effectfulStoreMethods(c)
	var names []string
	for n := range eff {
		names = append(names, n)
	}
	sort.Strings(names)
	c.Floor("TXH/effectful-methods", "effectful *Store methods derived from the storage package", len(names), 9)
	c.Notes = append(c.Notes, "effectful Store methods: "+strings.Join(names, ","))
	ix := index(c)
	n := 0
	adapters := map[string]bool{}
	for _, s := range ix.Sites {
		if s.Encl == nil || !eff[s.Callee.Name()] {
			continue
		}
		sig, _ := s.Callee.Type().(*types.Signature)
		if sig == nil || sig.Recv() == nil {
			continue
		}
		rt := sig.Recv().Type()
		if !isCtrlStoreIface(rt) && !astx.IsNamed(rt, load.Module+"/"+pkgStore, "Store") {
			continue
		}
		rel := relPkg(s.Pkg.PkgPath)
		if rel == pkgStore {
			continue // calls between *Store methods run on the receiver itself (checked by TXH/statement-handle)
		}
		n++
		d := ix.Decls[s.EnclObj]
		if d == nil {
			continue
		}
		cls := rootClass(s.Pkg.TypesInfo, d, recvExpr(s.Call))
		key := fmt.Sprintf("%s:%s:%s", astx.FuncKey(s.EnclObj), s.Callee.Name(), cls)
		switch {
		case strings.HasPrefix(cls, "param:"), strings.HasPrefix(cls, "begin:"):
			c.Pass("TXH/store-call", key, pos(c, s.Call), "receiver is the transaction-scoped store")
		case cls == "adapter":
			adapters[load.RecvName(s.Encl)] = true
			c.Pass("TXH/store-call", key, pos(c, s.Call), "receiver is the store the adapter was constructed with")
		default:
			c.Fail("TXH/store-call", key, pos(c, s.Call), fmt.Sprintf("%s is called on %s, not on the operation's transaction-scoped store: the write would autocommit outside the request's SQL transaction (visible before commit, durable after a rollback)", s.Callee.Name(), strings.TrimPrefix(cls, "field:")))
		}
	}
	c.Floor("TXH/store-call", "effectful Store call sites outside the storage package", n, 14)
	// adapters must be constructed from a transaction-scoped store
	for ad := range adapters {
		for obj, d := range ix.Decls {
			if relPkg(d.Pkg.PkgPath) != pkgCtrl || d.Decl.Recv != nil || d.Decl.Body == nil {
				continue
			}
			res := d.Decl.Type.Results
			if res == nil || len(res.List) != 1 || astx.RecvTypeName(d.Pkg.TypesInfo.TypeOf(res.List[0].Type)) != ad {
				continue
			}
			for _, site := range ix.DirectSites(obj) {
				sd := ix.Decls[site.EnclObj]
				if sd == nil || len(site.Call.Args) != 1 {
					continue
				}
				cls := rootClass(site.Pkg.TypesInfo, sd, site.Call.Args[0])
				key := fmt.Sprintf("%s:%s(%s)", astx.FuncKey(site.EnclObj), obj.Name(), cls)
				c.Check(strings.HasPrefix(cls, "param:") || strings.HasPrefix(cls, "begin:"), "TXH/adapter-construction", key, pos(c, site.Call),
					"adapter wraps the transaction-scoped store", "the runtime adapter is built around "+cls+", so the balances it locks are not locked in the transaction that commits the postings")
			}
		}
	}
	// the callback chain: forgeLog/runTx hand the BeginTX result to runLog, runLog hands its own
	// store parameter to fn
	for _, spec := range []struct{ fnName, callee string }{{"forgeLog", "runLog"}, {"runTx", "runLog"}} {
		d := fn(c, pkgCtrl, "logProcessor", spec.fnName)
		if d == nil {
			continue
		}
		for _, call := range callsTo(d.Pkg.TypesInfo, d.Decl.Body, named(spec.callee)) {
			if len(call.Args) < 2 {
				continue
			}
			cls := rootClass(d.Pkg.TypesInfo, d, call.Args[1])
			ok := strings.HasPrefix(cls, "begin:")
			if strings.HasPrefix(cls, "param:") {
				// runTx re-binds its parameter from BeginTX before use
				ok = reboundFromBegin(d, call.Args[1])
			}
			c.Check(ok, "TXH/callback-chain", fmt.Sprintf("%s:%s-gets-tx-store", declKey(d), spec.callee), pos(c, call),
				"runLog receives the BeginTX result", "runLog is handed "+cls+" instead of the store returned by BeginTX: the operation and its log would not share one SQL transaction")
		}
	}
	if d := fn(c, pkgCtrl, "logProcessor", "runLog"); d != nil {
		info := d.Pkg.TypesInfo
		found := 0
		ast.Inspect(d.Decl.Body, func(n ast.Node) bool {
			call, ok := n.(*ast.CallExpr)
			if !ok {
				return true
			}
			id, ok := call.Fun.(*ast.Ident)
			if !ok || id.Name != "fn" || len(call.Args) < 2 {
				return true
			}
			found++
			cls := rootClass(info, d, call.Args[1])
			c.Check(strings.HasPrefix(cls, "param:"), "TXH/callback-chain", declKey(d)+":fn-gets-runLog-store", pos(c, call),
				"fn receives runLog's store", "the operation callback is handed "+cls+" instead of runLog's transaction-scoped store")
			return true
		})
		c.Floor("TXH/callback-chain", "fn invocations in runLog", found, 1)
	}
}

// reboundFromBegin reports whether the identifier e (a parameter) is assigned from BeginTX
// before any other use in d.
func reboundFromBegin(d *astx.DeclInfo, e ast.Expr) bool {
	id, ok := ast.Unparen(e).(*ast.Ident)
	if !ok {
		return false
	}
	info := d.Pkg.TypesInfo
	obj := info.Uses[id]
	if len(d.Decl.Body.List) == 0 {
		return false
	}
	as, ok := d.Decl.Body.List[0].(*ast.AssignStmt)
	if !ok || len(as.Rhs) != 1 || len(as.Lhs) == 0 {
		return false
	}
	l, ok := as.Lhs[0].(*ast.Ident)
	if !ok || info.ObjectOf(l) != obj {
		return false
	}
	call, ok := as.Rhs[0].(*ast.CallExpr)
	if !ok {
		return false
	}
	f := astx.Callee(info, call)
	return f != nil && f.Name() == "BeginTX"
}

// ruleStatementHandle (TXH in storage/ledger): every statement and direct SQL execution of
// the ledger store starts from the store's db field (the field BeginTX swaps for the
// transaction) or from newScopedSelect.
func ruleStatementHandle(c *core.Ctx) {
	m := bunModel(c, pkgStore)
	pk := c.Prog().Pkg(pkgStore)
	n := 0
	handleOK := func(h ast.Expr) (bool, string) {
		if h == nil {
			return false, "<none>"
		}
		p := astx.SelectorPath(h)
		t := pk.TypesInfo.TypeOf(h)
		// <x>.db where x is *Store, or a local bound by a type switch on <x>.db
		if strings.HasSuffix(p, ".db") {
			if se, ok := ast.Unparen(h).(*ast.SelectorExpr); ok && astx.IsNamed(pk.TypesInfo.TypeOf(se.X), load.Module+"/"+pkgStore, "Store") {
				return true, p
			}
		}
		_ = t
		// an accessor of *Store that returns the db field (GetDB) is the same handle
		if call, ok := ast.Unparen(h).(*ast.CallExpr); ok {
			if f := astx.Callee(pk.TypesInfo, call); f != nil {
				if d := index(c).Decls[f]; d != nil && load.RecvName(d.Decl) == "Store" && d.Decl.Body != nil && len(d.Decl.Body.List) == 1 {
					if r, ok := d.Decl.Body.List[0].(*ast.ReturnStmt); ok && len(r.Results) == 1 && strings.HasSuffix(astx.SelectorPath(r.Results[0]), ".db") {
						return true, astx.ExprString(h)
					}
				}
			}
		}
		return false, p
	}
	for _, s := range m.Stmts {
		if s.RootKind != "new" && s.RootKind != "scoped" {
			continue
		}
		n++
		key := fmt.Sprintf("%s:%s@%s", enclKey(pkgStore, s.Encl), s.Describe(), s.RootKind)
		if s.RootKind == "scoped" {
			ok := s.Handle != nil && astx.IsNamed(pk.TypesInfo.TypeOf(s.Handle), load.Module+"/"+pkgStore, "Store")
			c.Check(ok, "TXH/statement-handle", key, posOf(c, s.Pos()), "newScopedSelect on the store", "newScopedSelect called on something that is not the ledger store")
			continue
		}
		ok, p := handleOK(s.Handle)
		c.Check(ok, "TXH/statement-handle", key, posOf(c, s.Pos()), "statement built on "+p,
			fmt.Sprintf("statement is built on %s instead of the store's db field: it would not run in the transaction BeginTX opened", p))
	}
	for _, e := range m.ExecCalls {
		n++
		key := fmt.Sprintf("%s:%s", enclKey(pkgStore, e.Encl), e.Method)
		// LockLedger binds conn/db from a type switch on store.db: accept locals whose
		// definition is `switch db := store.db.(type)` or `conn, err := db.Conn(ctx)`
		ok, p := handleOK(e.Handle)
		if !ok {
			ok = derivedFromStoreDB(pk.TypesInfo, e.Encl, e.Handle)
		}
		c.Check(ok, "TXH/statement-handle", key+":"+p, pos(c, e.Call), "direct SQL on "+p,
			fmt.Sprintf("direct SQL execution on %s which does not derive from the store's db field", p))
	}
	c.Floor("TXH/statement-handle", "statement roots and direct executions in storage/ledger", n, 45)
}

// derivedFromStoreDB: handle is a local bound by `switch db := <store>.db.(type)` or by
// `conn, err := db.Conn(ctx)` where db is such a local.
func derivedFromStoreDB(info *types.Info, fd *ast.FuncDecl, h ast.Expr) bool {
	id, ok := ast.Unparen(h).(*ast.Ident)
	if !ok {
		return false
	}
	obj := info.Uses[id]
	found := false
	var isSwitchVar func(o types.Object) bool
	isSwitchVar = func(o types.Object) bool {
		res := false
		ast.Inspect(fd.Body, func(n ast.Node) bool {
			ts, ok := n.(*ast.TypeSwitchStmt)
			if !ok {
				return true
			}
			as, ok := ts.Assign.(*ast.AssignStmt)
			if !ok || len(as.Rhs) != 1 {
				return true
			}
			ta, ok := as.Rhs[0].(*ast.TypeAssertExpr)
			if !ok || !strings.HasSuffix(astx.SelectorPath(ta.X), ".db") {
				return true
			}
			// implicit objects of the clauses
			for _, cl := range ts.Body.List {
				if info.Implicits[cl] == o {
					res = true
				}
			}
			return true
		})
		return res
	}
	if isSwitchVar(obj) {
		return true
	}
	ast.Inspect(fd.Body, func(n ast.Node) bool {
		as, ok := n.(*ast.AssignStmt)
		if !ok || as.Tok != token.DEFINE || len(as.Rhs) != 1 || len(as.Lhs) == 0 {
			return true
		}
		l, ok := as.Lhs[0].(*ast.Ident)
		if !ok || info.Defs[l] != obj {
			return true
		}
		if call, ok := as.Rhs[0].(*ast.CallExpr); ok {
			if se, ok := call.Fun.(*ast.SelectorExpr); ok && se.Sel.Name == "Conn" {
				if rid, ok := se.X.(*ast.Ident); ok && isSwitchVar(info.Uses[rid]) {
					found = true
				}
			}
		}
		return true
	})
	return found
}
