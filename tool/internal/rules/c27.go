package rules

import (
	"fmt"
	"go/ast"
	"go/token"
	"go/types"
	"sort"
	"strings"

	"ledgerlint/internal/astx"
	"ledgerlint/internal/core"
	"ledgerlint/internal/load"
)

func init() {
	register("C27", checkC27)
	addBreakers("C27",
		Breaker{Name: "opcode-without-vm-handler", File: "internal/machine/vm/machine.go",
			Old: "\tcase program.OP_FUNDING_REVERSE:\n\t\tfunding := pop[machine.Funding](m)\n\t\tresult := funding.Reverse()\n\t\tm.pushValue(result)\n\n", New: "", Expect: "EXH/opcodes"},
		Breaker{Name: "new-opcode-unnamed", File: "internal/machine/vm/program/instructions.go",
			Old: "\tOP_SAVE\n)", New: "\tOP_SAVE\n\tOP_NOP\n)", Expect: "EXH/opcodes"},
		Breaker{Name: "invalid-opcode-panics", File: "internal/machine/vm/machine.go",
			Old: "\t\treturn true, machine.NewErrInvalidScript(\"invalid opcode: %v\", op)", New: "\t\tpanic(machine.NewErrInvalidScript(\"invalid opcode: %v\", op))", Expect: "EXH/opcodes"},
		Breaker{Name: "asset-mismatch-panics", File: "internal/machine/vm/machine.go",
			Old: "\t\t\treturn true, machine.NewErrInvalidScript(\"cannot add different assets: %v and %v\", a.Asset, b.Asset)", New: "\t\t\tpanic(machine.NewErrInvalidScript(\"cannot add different assets: %v and %v\", a.Asset, b.Asset))", Expect: "PANIC/machine"},
		Breaker{Name: "missing-variable-panics", File: "internal/machine/vm/machine.go",
			Old: "\t\t\t\treturn fmt.Errorf(\"missing variable '%s'\", res.Name)", New: "\t\t\t\tpanic(fmt.Errorf(\"missing variable '%s'\", res.Name))", Expect: "PANIC/machine"},
		Breaker{Name: "compile-logic-error-panics", File: "internal/machine/script/compiler/compiler.go",
			Old: "\terr := visitor.VisitScript(tree)\n\tif err != nil {\n\t\tartifacts.Errors = append(artifacts.Errors, *err)\n\t\treturn artifacts\n\t}", New: "\terr := visitor.VisitScript(tree)\n\tif err != nil {\n\t\tpanic(err.Msg)\n\t}", Expect: "PANIC/machine"},
		Breaker{Name: "syntax-errors-not-returned-before-visit", File: "internal/machine/script/compiler/compiler.go",
			Old: "\tif len(errListener.Errors) != 0 {\n\t\treturn artifacts\n\t}\n", New: "", Expect: "DOM/compile"},
		Breaker{Name: "lexer-errors-unlistened", File: "internal/machine/script/compiler/compiler.go",
			Old: "\tlexer.AddErrorListener(errListener)\n", New: "", Expect: "DOM/compile"},
		Breaker{Name: "partial-postings-on-runtime-error", File: "internal/controller/ledger/numscript_runtime.go",
			Old: "\t\t\treturn nil, fmt.Errorf(\"failed to execute machine: %w\", err)", New: "\t\t\treturn &NumscriptExecutionResult{Metadata: machineInstance.GetTxMetaJSON()}, fmt.Errorf(\"failed to execute machine: %w\", err)", Expect: "RET/nil-on-error"},
		Breaker{Name: "interpreter-partial-result", File: "internal/controller/ledger/numscript_runtime.go",
			Old: "\tif err != nil {\n\t\treturn nil, ErrRuntime{", New: "\tif err != nil {\n\t\treturn &NumscriptExecutionResult{}, ErrRuntime{", Expect: "RET/nil-on-error"},
		Breaker{Name: "backward-jump", File: "internal/machine/vm/machine.go",
			Old: "\tcase program.OP_FAIL:\n\t\treturn true, machine.ErrScriptFailed\n", New: "\tcase program.OP_FAIL:\n\t\tm.P = 0\n\t\treturn false, nil\n", Expect: "TERM/pc-monotone"},
		Breaker{Name: "compile-error-keeps-program", File: "internal/machine/script/compiler/compiler.go",
			Old: "\t\treturn nil, &err\n\t}\n\n\treturn artifacts.Program, nil", New: "\t\treturn artifacts.Program, &err\n\t}\n\n\treturn artifacts.Program, nil", Expect: "RET/nil-on-error"},
	)
}

func checkC27(c *core.Ctx) {
	c.Decide("the opcode table, the VM's dispatch and the opcode names agree, every opcode the compiler emits has a VM handler, and an unknown opcode is an error, not a panic; the program counter only moves forward (every non-finishing tick advances it, nothing else assigns it), so execution ends; syntax errors collected by the ANTLR listeners (installed on lexer and parser) are returned before the parse tree is visited; no explicit panic is reachable from compile / set-variables / resolve / execute entry points outside an enumerated list of compiler-invariant sites; a failing Compile, Parse, Run or Execute returns a nil program/runtime/result (no partial postings)")
	c.NotDecided("panics that come from typed pops, type assertions, slice indexes and nil parse-tree children: they are excluded by compiler invariants (stack discipline, static typing of expressions, grammar shape) that need a bytecode verifier, not a syntax rule; hangs inside called library code")
	c.Trust("the generated ANTLR parser recovers its own panics (its recover blocks are generated code)")
	ruleOpcodes(c)
	rulePCMonotone(c)
	ruleCompileDom(c)
	ruleMachinePanics(c)
	ruleNilOnError(c)
	ruleResourceTableBound(c)
	rulePrinterDrains(c)
}

func opConsts(c *core.Ctx) map[types.Object]bool {
	out := map[types.Object]bool{}
	pk := c.Prog().Pkg(pkgProgram)
	if pk == nil {
		return out
	}
	sc := pk.Types.Scope()
	for _, n := range sc.Names() {
		if k, ok := sc.Lookup(n).(*types.Const); ok && strings.HasPrefix(n, "OP_") {
			out[k] = true
		}
	}
	return out
}

// switchCases returns the constants named in the cases of the switch over tag variable `tag` in body,
// plus the default clause.
func switchCases(info *types.Info, body *ast.BlockStmt, consts map[types.Object]bool) (map[types.Object]bool, *ast.CaseClause, *ast.SwitchStmt) {
	var best *ast.SwitchStmt
	bestN := 0
	ast.Inspect(body, func(n ast.Node) bool {
		sw, ok := n.(*ast.SwitchStmt)
		if !ok || sw.Tag == nil {
			return true
		}
		cnt := 0
		for _, cl := range sw.Body.List {
			for _, e := range cl.(*ast.CaseClause).List {
				if consts[constObj(info, e)] {
					cnt++
				}
			}
		}
		if cnt > bestN {
			best, bestN = sw, cnt
		}
		return true
	})
	got := map[types.Object]bool{}
	var def *ast.CaseClause
	if best == nil {
		return got, nil, nil
	}
	for _, cl := range best.Body.List {
		cc := cl.(*ast.CaseClause)
		if cc.List == nil {
			def = cc
		}
		for _, e := range cc.List {
			if o := constObj(info, e); consts[o] {
				got[o] = true
			}
		}
	}
	return got, def, best
}

func constObj(info *types.Info, e ast.Expr) types.Object {
	switch x := ast.Unparen(e).(type) {
	case *ast.Ident:
		return info.Uses[x]
	case *ast.SelectorExpr:
		return info.Uses[x.Sel]
	}
	return nil
}

func ruleOpcodes(c *core.Ctx) {
	consts := opConsts(c)
	c.Floor("EXH/opcodes", "opcode constants", len(consts), 20)
	tick := fn(c, pkgVM, "Machine", "tick")
	name := fn(c, pkgProgram, "", "OpcodeName")
	if tick == nil || name == nil {
		return
	}
	handled, def, _ := switchCases(tick.Pkg.TypesInfo, tick.Decl.Body, consts)
	namedOps, _, _ := switchCases(name.Pkg.TypesInfo, name.Decl.Body, consts)
	emitted := map[types.Object]bool{}
	if pk := c.Prog().Pkg(pkgCompiler); pk != nil {
		for id, o := range pk.TypesInfo.Uses {
			if consts[o] && !strings.HasSuffix(c.Prog().Rel(id.Pos()), "_test.go") {
				emitted[o] = true
			}
		}
	}
	c.Floor("EXH/opcodes", "opcodes the compiler emits", len(emitted), 15)
	var names []string
	byName := map[string]types.Object{}
	for o := range consts {
		names = append(names, o.Name())
		byName[o.Name()] = o
	}
	sort.Strings(names)
	for _, n := range names {
		o := byName[n]
		c.Check(handled[o], "EXH/opcodes", n+":vm-handler", pos(c, tick.Decl), "case in Machine.tick", "opcode "+n+" has no case in Machine.tick"+map[bool]string{true: " although the compiler emits it: every program using it fails with `invalid opcode`", false: ""}[emitted[o]])
		c.Check(namedOps[o], "EXH/opcodes", n+":name", pos(c, name.Decl), "case in OpcodeName", "opcode "+n+" has no name in OpcodeName")
	}
	// default arm: error, no panic
	okDef := false
	if def != nil && len(def.Body) > 0 {
		if r, ok := def.Body[len(def.Body)-1].(*ast.ReturnStmt); ok && isErrorReturn(tick.Pkg.TypesInfo, tick.Decl.Body, r) == 1 {
			okDef = true
		}
		for _, st := range def.Body {
			if containsPanic(tick.Pkg.TypesInfo, st) {
				okDef = false
			}
		}
	}
	c.Check(okDef, "EXH/opcodes", "tick:default-is-error", pos(c, tick.Decl), "unknown opcode → error", "an unknown opcode is not answered with an error (the default arm of Machine.tick panics or falls through)")
}

func containsPanic(info *types.Info, n ast.Node) bool {
	found := false
	ast.Inspect(n, func(x ast.Node) bool {
		if call, ok := x.(*ast.CallExpr); ok {
			if id, ok := call.Fun.(*ast.Ident); ok && id.Name == "panic" {
				if _, isB := info.Uses[id].(*types.Builtin); isB {
					found = true
				}
			}
		}
		return true
	})
	return found
}

// rulePCMonotone: Machine.P is only ever increased, and every `return false, …` of tick is preceded by an increase.
func rulePCMonotone(c *core.Ctx) {
	pk := c.Prog().Pkg(pkgVM)
	tick := fn(c, pkgVM, "Machine", "tick")
	if pk == nil || tick == nil {
		return
	}
	info := pk.TypesInfo
	isP := func(e ast.Expr) bool {
		s, ok := ast.Unparen(e).(*ast.SelectorExpr)
		if !ok || s.Sel.Name != "P" {
			return false
		}
		sel, ok := info.Selections[s]
		return ok && astx.RecvTypeName(sel.Recv()) == "Machine"
	}
	n := 0
	for _, f := range pk.Syntax {
		if strings.HasSuffix(c.Prog().Rel(f.Pos()), "_test.go") {
			continue
		}
		ast.Inspect(f, func(x ast.Node) bool {
			switch s := x.(type) {
			case *ast.AssignStmt:
				for i, l := range s.Lhs {
					if !isP(l) {
						continue
					}
					n++
					ok := false
					if s.Tok == token.ADD_ASSIGN && i < len(s.Rhs) {
						if tv, has := info.Types[s.Rhs[i]]; has && tv.Value != nil && tv.Value.String() != "0" && !strings.HasPrefix(tv.Value.String(), "-") {
							ok = true
						}
					}
					c.Check(ok, "TERM/pc-monotone", fmt.Sprintf("assign:%s#%d", c.Prog().Rel(s.Pos())[:strings.LastIndex(c.Prog().Rel(s.Pos()), ":")], n), pos(c, s), "m.P += positive constant", "the program counter is assigned other than by a positive constant increment: execution may loop forever")
				}
			case *ast.IncDecStmt:
				if isP(s.X) {
					n++
					c.Check(s.Tok == token.INC, "TERM/pc-monotone", fmt.Sprintf("incdec#%d", n), pos(c, s), "m.P++", "the program counter is decremented")
				}
			case *ast.UnaryExpr:
				if s.Op == token.AND && isP(s.X) {
					c.Fail("TERM/pc-monotone", "address-taken", pos(c, s), "the address of Machine.P is taken: writes to it cannot be tracked")
				}
			}
			return true
		})
	}
	c.Floor("TERM/pc-monotone", "writes to Machine.P", n, 2)
	// every exit of tick that reports "not finished" passes an increment
	flow := astx.NewFlow(info, tick.Decl.Body)
	isInc := func(x ast.Node) bool {
		found := false
		ast.Inspect(x, func(y ast.Node) bool {
			if as, ok := y.(*ast.AssignStmt); ok && as.Tok == token.ADD_ASSIGN {
				for _, l := range as.Lhs {
					if isP(l) {
						found = true
					}
				}
			}
			return true
		})
		return found
	}
	for _, e := range flow.Exits() {
		if e.Return == nil || len(e.Return.Results) != 2 {
			continue
		}
		if tv, ok := info.Types[e.Return.Results[0]]; !ok || tv.Value == nil || tv.Value.String() != "false" {
			// a non-constant first result: must be a literal in this function
			if tv.Value == nil {
				c.Fail("TERM/pc-monotone", "tick:finished-not-literal", pos(c, e.Return), "Machine.tick returns a computed `finished` flag: cannot show progress")
			}
			continue
		}
		// the last unconditional increment dominates this exit
		var incs []ast.Node
		ast.Inspect(tick.Decl.Body, func(y ast.Node) bool {
			if as, ok := y.(*ast.AssignStmt); ok && isInc(as) {
				incs = append(incs, as)
			}
			return true
		})
		dom := false
		for _, inc := range incs {
			if flow.Dominates(inc, e.Return) {
				// and it is after the switch: not inside a case that could be skipped
				dom = true
			}
		}
		c.Check(dom, "TERM/pc-monotone", "tick:continue-implies-advance", pos(c, e.Return), "`return false` dominated by m.P += k", "Machine.tick can return `not finished` without advancing the program counter: Execute would spin forever")
	}
}

func ruleCompileDom(c *core.Ctx) {
	d := fn(c, pkgCompiler, "", "CompileFull")
	if d == nil {
		return
	}
	info := d.Pkg.TypesInfo
	key := declKey(d)
	// listeners: RemoveErrorListeners + AddErrorListener(errListener) on both lexer and parser
	adds := callsTo(info, d.Decl.Body, named("AddErrorListener"))
	recvs := map[string]bool{}
	var listener types.Object
	for _, a := range adds {
		if id := astx.RootIdent(recvExpr(a)); id != nil && len(a.Args) == 1 {
			if t := info.TypeOf(recvExpr(a)); t != nil {
				recvs[astx.RecvTypeName(t)] = true
			}
			if l := astx.RootIdent(a.Args[0]); l != nil {
				listener = info.ObjectOf(l)
			}
		}
	}
	c.Check(recvs["NumScriptLexer"] && recvs["NumScriptParser"] && listener != nil, "DOM/compile", key+":listeners", pos(c, d.Decl), "error listener on lexer and parser", "the collecting error listener is not installed on both the lexer and the parser: a token or syntax error would go unnoticed and the visitor would walk a broken tree")
	// the guard `len(errListener.Errors) != 0 → return` dominates the visit
	visits := callsTo(info, d.Decl.Body, named("VisitScript"))
	if len(visits) != 1 {
		c.Fail("DOM/compile", key+":visit", pos(c, d.Decl), "expected exactly one VisitScript call")
		return
	}
	ok := false
	for _, f := range astx.FactsAt(info, d.Decl.Body, visits[0].Pos()) {
		s := types.ExprString(f.Cond)
		if listener != nil && strings.Contains(s, "len("+listener.Name()+".Errors)") {
			if be, isB := ast.Unparen(f.Cond).(*ast.BinaryExpr); isB {
				if (be.Op == token.NEQ || be.Op == token.GTR) && !f.Positive && types.ExprString(be.Y) == "0" {
					ok = true
				}
				if be.Op == token.EQL && f.Positive && types.ExprString(be.Y) == "0" {
					ok = true
				}
			}
		}
	}
	// the parse happens before the guard
	parse := callsTo(info, d.Decl.Body, named("Script"))
	okOrder := len(parse) == 1 && astx.NewFlow(info, d.Decl.Body).Dominates(parse[0], visits[0])
	c.Check(ok && okOrder, "DOM/compile", key+":errors-before-visit", pos(c, visits[0]), "no syntax error ⇒ visit", "the parse tree is visited although the listeners collected syntax errors: error nodes have nil children and the visitor dereferences them")
	// a visitor error ends compilation with the error recorded and no program
	okNoProg := true
	ast.Inspect(d.Decl.Body, func(n ast.Node) bool {
		as, isA := n.(*ast.AssignStmt)
		if !isA {
			return true
		}
		for _, l := range as.Lhs {
			if strings.HasSuffix(types.ExprString(l), ".Program") {
				if !astx.NewFlow(info, d.Decl.Body).Dominates(visits[0], as) {
					okNoProg = false
				}
				neg := false
				for _, f := range astx.FactsAt(info, d.Decl.Body, as.Pos()) {
					if s := types.ExprString(f.Cond); s == "err != nil" && !f.Positive {
						neg = true
					}
				}
				okNoProg = okNoProg && neg
			}
		}
		return true
	})
	c.Check(okNoProg, "DOM/compile", key+":program-only-on-success", pos(c, d.Decl), "Program set only after a successful visit", "CompileFull publishes a Program although the visitor reported an error")
}

// machinePanicAllow: explicit panics on the compile/run path that only a compiler bug can reach.
var machinePanicAllow = map[string]numAllowed{
	"internal/machine/vm.pop":                           {"", 1, "typed pop: operand types are fixed by the compiler's static typing of expressions (declared not decided)"},
	"internal/machine/vm.(Machine).GetTxMetaJSON":       {"", 1, "NewStringFromValue fails only for a value kind the VM never stores in metadata"},
	"internal/machine/vm.(Machine).GetAccountsMetaJSON": {"", 1, "NewStringFromValue fails only for a value kind the VM never stores in metadata"},
	"internal/machine/vm.(Machine).tick":                {"", 1, "OP_SAVE operand kind (asset | monetary) is fixed by the compiler"},
	"internal/machine/vm.(Machine).Execute":             {"", 1, "stack balance is a compiler invariant"},
	"internal/machine/vm.(Machine).ResolveResources":    {"", 1, "closed set of program.Resource kinds"},
}

func ruleMachinePanics(c *core.Ctx) {
	ix := index(c)
	type item struct {
		f   *types.Func
		via string
	}
	var work []item
	add := func(rel, recv, name string) {
		if d := ix.LookupFunc(rel, recv, name); d != nil {
			work = append(work, item{d.Obj, astx.FuncKey(d.Obj)})
		} else {
			c.Unknown("PANIC/machine", rel+"."+recv+"."+name+":root", "", "entry point not found")
		}
	}
	add(pkgCompiler, "", "Compile")
	add(pkgCompiler, "", "CompileFull")
	add(pkgProgram, "Program", "ParseVariablesJSON")
	add(pkgProgram, "Program", "ParseVariables")
	add(pkgVM, "Machine", "SetVarsFromJSON")
	add(pkgVM, "Machine", "ResolveResources")
	add(pkgVM, "Machine", "ResolveBalances")
	add(pkgVM, "Machine", "Execute")
	add(pkgVM, "", "Run")
	add(pkgCtrl, "MachineNumscriptRuntimeAdapter", "Execute")
	add(pkgCtrl, "DefaultInterpreterMachineAdapter", "Execute")
	add(pkgCtrl, "DefaultNumscriptParser", "Parse")
	add(pkgCtrl, "InterpreterNumscriptParser", "Parse")
	seen := map[*types.Func]bool{}
	n, sites := 0, 0
	for len(work) > 0 {
		it := work[0]
		work = work[1:]
		if seen[it.f] {
			continue
		}
		seen[it.f] = true
		d := ix.Decls[it.f]
		if d == nil || d.Decl.Body == nil {
			continue
		}
		rel := relPkg(d.Pkg.PkgPath)
		if rel == "internal/machine/script/parser" {
			continue // generated ANTLR parser: recovers its own panics
		}
		for _, f := range d.Pkg.Syntax {
			if f.Pos() <= d.Decl.Pos() && d.Decl.End() <= f.End() && load.IsGenerated(f) {
				d = nil
				break
			}
		}
		if d == nil {
			continue
		}
		n++
		info := d.Pkg.TypesInfo
		fk := astx.FuncKey(it.f)
		np := 0
		ast.Inspect(d.Decl.Body, func(x ast.Node) bool {
			call, ok := x.(*ast.CallExpr)
			if !ok {
				return true
			}
			if id, ok := call.Fun.(*ast.Ident); ok && id.Name == "panic" {
				if _, isBuiltin := info.Uses[id].(*types.Builtin); isBuiltin {
					np++
					sites++
					key := fmt.Sprintf("%s:panic#%d", fk, np)
					if a, ok := machinePanicAllow[fk]; ok && np <= a.max {
						c.Pass("PANIC/machine", key, pos(c, call), "compiler invariant: "+a.why)
					} else {
						c.Fail("PANIC/machine", key, pos(c, call), fmt.Sprintf("explicit panic reachable from a compile/run entry point (%s): scripts, variables and balances are untrusted input and must produce an error", it.via))
					}
				}
			}
			if f := astx.Callee(info, call); isPanickingBigCall(f, call, info) {
				np++
				sites++
				c.Fail("PANIC/machine", fmt.Sprintf("%s:big-%s#%d", fk, f.Name(), np), pos(c, call), fmt.Sprintf("math/big.%s panics on a zero divisor and is reachable from a compile/run entry point (%s) with a divisor that is not a constant or a Rat's own denominator: a script, variable or metadata value such as 1/0 crashes instead of being rejected", f.Name(), it.via))
			}
			if f := astx.Callee(info, call); f != nil && f.Pkg() != nil && strings.HasPrefix(f.Pkg().Path(), load.Module) && !seen[f] {
				work = append(work, item{f, it.via + " → " + f.Name()})
			}
			return true
		})
	}
	c.Floor("PANIC/machine", "functions reachable from compile/run entry points", n, 60)
	c.Stats["machine_functions_scanned"] = n
	c.Stats["machine_panic_sites"] = sites
}

// ruleNilOnError: the listed functions return (pointer-or-interface, error); on every return whose error is
// (or may be) non-nil the first result is the nil literal.
func ruleNilOnError(c *core.Ctx) {
	type ep struct{ rel, recv, name string }
	for _, e := range []ep{
		{pkgCtrl, "MachineNumscriptRuntimeAdapter", "Execute"},
		{pkgCtrl, "DefaultInterpreterMachineAdapter", "Execute"},
		{pkgCtrl, "DefaultNumscriptParser", "Parse"},
		{pkgCtrl, "InterpreterNumscriptParser", "Parse"},
		{pkgVM, "", "Run"},
		{pkgCompiler, "", "Compile"},
	} {
		d := fn(c, e.rel, e.recv, e.name)
		if d == nil {
			continue
		}
		info := d.Pkg.TypesInfo
		key := declKey(d)
		i := 0
		ast.Inspect(d.Decl.Body, func(n ast.Node) bool {
			if _, ok := n.(*ast.FuncLit); ok {
				return false
			}
			r, ok := n.(*ast.ReturnStmt)
			if !ok || len(r.Results) != 2 {
				return true
			}
			i++
			cls := isErrorReturn(info, d.Decl.Body, r)
			if cls == -1 {
				c.PassTrivial("RET/nil-on-error", fmt.Sprintf("%s:return#%d", key, i), pos(c, r), "success return")
				return true
			}
			c.Check(astx.IsNilExpr(info, r.Results[0]), "RET/nil-on-error", fmt.Sprintf("%s:return#%d", key, i), pos(c, r), "nil result with the error", "a return that carries an error also carries a non-nil result: a failed compile/run must not leave a program or partial postings for the caller")
			return true
		})
		c.Floor("RET/nil-on-error", key+" returns", i, 2)
	}
}
