package rules

import (
	"fmt"
	"go/ast"
	"go/types"
	"sort"
	"strings"

	"ledgerlint/internal/astx"
	"ledgerlint/internal/core"
	"ledgerlint/internal/load"
	"ledgerlint/internal/sqlfe"
)

// Producer says: table (or table.column) is only populated when the feature condition holds.
type Producer struct {
	Target string // "moves", "moves.post_commit_effective_volumes", "transactions_metadata", ...
	Cond   string // FEATURE=VALUE
	Via    string
}

// featureProducers derives the producer table from the repository: per-ledger triggers in
// ledgerSetups (condition -> function -> the tables/columns its final body writes) and the
// feature guard around InsertMoves in CommitTransaction.
func featureProducers(c *core.Ctx) []Producer {
	return c.Cache("featureProducers", func() any {
		var out []Producer
		add := func(target, cond, via string) {
			for _, p := range out {
				if p.Target == target && p.Cond == cond {
					return
				}
			}
			out = append(out, Producer{target, cond, via})
		}
		cat := c.Catalog()
		ls := ledgerSetups(c)
		for _, k := range sqlfe.SortedKeys(ls.Cat.Triggers) {
			t := ls.Cat.Triggers[k]
			if t.Cond == "" {
				continue
			}
			f := cat.Functions[t.Func]
			if f == nil {
				c.Fail("FEAT/producer", "trigger:"+t.Name+":function", t.Origin, fmt.Sprintf("per-ledger trigger %s executes %s() which does not exist after all migrations", t.Name, t.Func))
				continue
			}
			via := fmt.Sprintf("trigger %s -> %s()", t.Name, t.Func)
			for _, st := range f.Stmts {
				switch st.Kind {
				case "insert":
					add(sqlfe.NormName(st.Table), t.Cond, via)
				case "update":
					for _, a := range st.Set {
						add(sqlfe.NormName(st.Table)+"."+sqlfe.LastPart(a.Col), t.Cond, via)
					}
				case "assign":
					if strings.HasPrefix(st.Table, "new.") {
						add(t.Table+"."+strings.TrimPrefix(st.Table, "new."), t.Cond, via)
					}
				}
			}
		}
		// Go-side guard around InsertMoves
		if d := index(c).LookupFunc(pkgStore, "Store", "CommitTransaction"); d != nil {
			for _, call := range storeMethodCallsIn(d, "InsertMoves") {
				for k, v := range astx.FeatureFacts(d.Pkg.TypesInfo, astx.FactsAt(d.Pkg.TypesInfo, d.Decl.Body, call.Pos())) {
					if v {
						add("moves", k, "guard around InsertMoves in CommitTransaction")
					}
				}
			}
		}
		sort.Slice(out, func(i, j int) bool { return out[i].Target < out[j].Target })
		return out
	}).([]Producer)
}

// ruleFeatureConsumers (FEAT): every reader of a feature-populated table/column is guarded
// by the same feature. filter selects which producer targets a property is about.
func ruleFeatureConsumers(c *core.Ctx, rule string, filter func(target string) bool) {
	prods := featureProducers(c)
	byTarget := map[string][]string{}
	for _, p := range prods {
		if filter(p.Target) {
			byTarget[p.Target] = append(byTarget[p.Target], p.Cond)
			c.Pass(rule, "producer:"+p.Target+"<-"+p.Cond, "", p.Via)
		}
	}
	c.Floor(rule, "feature-populated tables/columns derived from ledgerSetups and CommitTransaction", len(byTarget), 1)
	m := bunModel(c, pkgStore)
	writeMethods := effectfulStoreMethods(c)
	n := 0
	for _, s := range m.Stmts {
		if load.RecvName(s.Encl) == "Store" && (writeMethods[s.Encl.Name.Name] || s.Encl.Name.Name == "InsertMoves") {
			continue
		}
		if s.Kind != "select" {
			continue
		}
		info := s.Pkg.TypesInfo
		fkey := enclKey(pkgStore, s.Encl)
		// table-level
		for _, cl := range s.ClausesNamed("ModelTableExpr", "TableExpr") {
			for _, alt := range cl.SQL {
				t := tableName(alt)
				conds, ok := byTarget[t]
				if !ok {
					continue
				}
				for _, cond := range conds {
					n++
					key := fmt.Sprintf("%s:reads:%s:needs:%s", fkey, t, cond)
					lifted := liftedUnguarded(c, s.Encl, info, cl.Call, cond, condsOfTable(prods, t), 0)
					if len(lifted) == 0 {
						c.Pass(rule, key, pos(c, cl.Call), "every non-error path through this read tests "+cond)
					}
					for _, lf := range lifted {
						if ambiguousFeatureErr(s.Encl, info) {
							c.Unrecognised(rule, fmt.Sprintf("%s:reads:%s:needs:%s:path-%s", lf.fkey, t, cond, lf.desc), pos(c, cl.Call), "one error variable receives the result of several feature-test wrappers; the guards of this read are not decided")
							continue
						}
						c.Fail(rule, fmt.Sprintf("%s:reads:%s:needs:%s:path-%s", lf.fkey, t, cond, lf.desc), pos(c, cl.Call), fmt.Sprintf("%s is read here but rows exist in it only when %s; a path through this read (%s) reaches %s without a positive test of that feature — with the feature off it answers from an empty/stale table instead of reporting the missing feature (or falling back to current data)", t, cond, lf.desc, lf.where))
					}
				}
			}
		}
		// column-level
		for _, cl := range s.Clauses {
			if !cl.HasSQL || cl.Method == "ModelTableExpr" || cl.Method == "TableExpr" {
				continue
			}
			if cl.Method == "Column" {
				// a bare projection of the table's own columns into the model is what `*` (or no
				// column list at all) already does: the value is passed through, null when the
				// feature is off, and nothing is computed from it
				continue
			}
			for _, alt := range cl.SQL {
				toks, _ := sqlfe.Lex(alt)
				for target, conds := range byTarget {
					i := strings.IndexByte(target, '.')
					if i < 0 {
						continue
					}
					tab, col := target[:i], target[i+1:]
					if !stmtMayRead(s.Tables(), tab) {
						continue
					}
					mentions := false
					for _, tk := range toks {
						if (tk.Kind == sqlfe.Ident || tk.Kind == sqlfe.QIdent) && strings.ToLower(tk.Text) == col {
							mentions = true
						}
					}
					if !mentions {
						continue
					}
					for _, cond := range conds {
						n++
						key := fmt.Sprintf("%s:reads:%s:needs:%s", fkey, target, cond)
						lifted := liftedUnguarded(c, s.Encl, info, cl.Call, cond, condsOfTable(prods, tab), 0)
						if len(lifted) == 0 {
							c.Pass(rule, key, pos(c, cl.Call), "every non-error path through this read tests "+cond)
						}
						for _, lf := range lifted {
							if ambiguousFeatureErr(s.Encl, info) {
								c.Unrecognised(rule, fmt.Sprintf("%s:reads:%s:needs:%s:path-%s", lf.fkey, target, cond, lf.desc), pos(c, cl.Call), "one error variable receives the result of several feature-test wrappers; the guards of this read are not decided")
								continue
							}
							c.Fail(rule, fmt.Sprintf("%s:reads:%s:needs:%s:path-%s", lf.fkey, target, cond, lf.desc), pos(c, cl.Call), fmt.Sprintf("column %s is read here but it is maintained only when %s; a path through this read (%s) reaches %s without a positive test of that feature", target, cond, lf.desc, lf.where))
						}
					}
				}
			}
		}
	}
	c.Floor(rule, "reads of feature-populated tables/columns", n, 4)
}

type liftedFinding struct {
	fkey, desc, where string
}

// liftedUnguarded is unguardedPaths with caller context: when the read sits in an unexported
// helper, the question is asked again at each of the helper's static call sites in the package
// (a guard in the caller guards the read; an unguarded read is reported at — and keyed by — the
// outermost function, so that extracting a helper neither hides a guard nor renames a finding).
func liftedUnguarded(c *core.Ctx, fd *ast.FuncDecl, info *types.Info, node ast.Node, cond string, allConds []string, depth int) []liftedFinding {
	bad, where := unguardedPaths(c, fd, info, node, cond, allConds)
	if len(bad) == 0 {
		return nil
	}
	if depth < 3 && !ast.IsExported(fd.Name.Name) {
		var d *astx.DeclInfo
		for _, dd := range index(c).Decls {
			if dd.Decl == fd {
				d = dd
			}
		}
		if d != nil {
			var out []liftedFinding
			sites := 0
			for _, s := range index(c).SitesOf(d.Obj) {
				if s.Encl == nil || s.Encl == fd || s.Pkg != d.Pkg || strings.HasSuffix(c.Prog().Rel(s.Call.Pos()), "_test.go") {
					continue
				}
				sites++
				out = append(out, liftedUnguarded(c, s.Encl, s.Pkg.TypesInfo, s.Call, cond, allConds, depth+1)...)
			}
			if sites > 0 {
				seen := map[string]bool{}
				var uniq []liftedFinding
				for _, o := range out {
					if !seen[o.fkey+o.desc] {
						seen[o.fkey+o.desc] = true
						uniq = append(uniq, o)
					}
				}
				return uniq
			}
		}
	}
	var out []liftedFinding
	for _, b := range bad {
		out = append(out, liftedFinding{enclKey(pkgStore, fd), b, where[b]})
	}
	return out
}

// unguardedPaths: the paths of the enclosing function that execute node, leave through an
// exit that is not surely an error return, and never test cond positively. Each is described
// by the set of other feature tests it did pass, so that distinct ways of reaching the read
// unguarded are distinct findings.
func unguardedPaths(c *core.Ctx, fd *ast.FuncDecl, info *types.Info, node ast.Node, cond string, allConds []string) (desc []string, where map[string]string) {
	body := astx.InnermostFuncBody(fd, node)
	flow := astx.NewFlow(info, body)
	conds := append([]string{cond}, allConds...)
	states := flow.PropagateGuards(node, astx.FeatureBit(info, conds))
	where = map[string]string{}
	if states == nil {
		return []string{"node-not-located"}, where
	}
	for _, es := range states {
		if es.Exit.Return != nil && isErrorReturn(info, body, es.Exit.Return) > 0 {
			continue
		}
		for _, st := range es.States {
			if !st.Visited || st.Mask&1 != 0 {
				continue
			}
			var passed []string
			for i, cn := range conds {
				if i > 0 && cn != cond && st.Mask&(1<<uint(i)) != 0 {
					passed = append(passed, cn)
				}
			}
			sort.Strings(passed)
			d := "tests-none"
			if len(passed) > 0 {
				d = "tests-only-" + strings.Join(passed, "+")
			}
			if _, ok := where[d]; !ok {
				desc = append(desc, d)
				if es.Exit.Return != nil {
					where[d] = "the return at " + pos(c, es.Exit.Return)
				} else {
					where[d] = "the end of the function"
				}
			}
		}
	}
	sort.Strings(desc)
	return desc, where
}

// condsOfTable: the feature conditions that govern a table or one of its columns.
func condsOfTable(prods []Producer, table string) []string {
	var out []string
	for _, p := range prods {
		if p.Target == table || strings.HasPrefix(p.Target, table+".") {
			out = append(out, p.Cond)
		}
	}
	out = dedupStrings(out)
	sort.Strings(out)
	return out
}

func stmtMayRead(tabs []string, tab string) bool {
	for _, t := range tabs {
		if t == tab {
			return true
		}
	}
	return false
}

func tableName(expr string) string {
	toks, err := sqlfe.Lex(expr)
	if err != nil || len(toks) == 0 || toks[0].IsOp("(") {
		return ""
	}
	var parts []string
	for i := 0; i < len(toks); i++ {
		if n, ok := toks[i].Name(); ok {
			parts = append(parts, strings.ToLower(n))
			if i+1 < len(toks) && toks[i+1].IsOp(".") {
				i++
				continue
			}
		}
		break
	}
	return sqlfe.NormName(strings.Join(parts, "."))
}

func factKeys(ff map[string]bool) []string {
	var out []string
	for k, v := range ff {
		if v {
			out = append(out, k)
		} else {
			out = append(out, "!"+k)
		}
	}
	sort.Strings(out)
	return out
}

// ruleFeatureTables (EXH): the feature tables agree, HasFeature calls use valid constant pairs.
func ruleFeatureTables(c *core.Ctx) {
	pk := c.Prog().Pkg(pkgFeatures)
	if pk == nil {
		c.Unknown("anchor", pkgFeatures, "", "package not loaded")
		return
	}
	info := pk.TypesInfo
	_ = info
	maps := featureTableMaps(c)
	conf, def, min := maps["FeatureConfigurations"], maps["DefaultFeatures"], maps["MinimalFeatureSet"]
	if conf == nil || def == nil || min == nil {
		c.Unknown("EXH/features", "tables", "", "FeatureConfigurations / DefaultFeatures / MinimalFeatureSet not all found")
		return
	}
	keys := func(m map[string][]string) []string { return sqlfe.SortedKeys(m) }
	c.Check(eqStrings(keys(conf), keys(def)) && eqStrings(keys(conf), keys(min)), "EXH/features", "same-key-set", "", fmt.Sprintf("%d features in all three tables", len(conf)),
		fmt.Sprintf("feature tables disagree: configurations %v, defaults %v, minimal %v", keys(conf), keys(def), keys(min)))
	for name, tbl := range map[string]map[string][]string{"DefaultFeatures": def, "MinimalFeatureSet": min} {
		for k, v := range tbl {
			ok := false
			for _, allowed := range conf[k] {
				if len(v) == 1 && allowed == v[0] {
					ok = true
				}
			}
			c.Check(ok, "EXH/features", name+":"+k, "", "value is a valid configuration", fmt.Sprintf("%s[%s]=%v is not among the configurations %v", name, k, v, conf[k]))
		}
	}
	// every HasFeature(f, v) in the repository uses a valid constant pair
	n := 0
	for _, s := range index(c).Sites {
		helper := astx.FeatureHelpers[s.Callee]
		if helper == nil {
			helper = astx.FeatureHelpers[s.Callee.Origin()]
		}
		if helper != nil && helper.FeatArg < 0 && helper.ValArg < 0 {
			helper = nil // a constant wrapper: its own HasFeature call is checked
		}
		if helper == nil && (s.Callee.Name() != "HasFeature" || len(s.Call.Args) != 2) {
			continue
		}
		if helper == nil && s.EnclObj != nil {
			// the HasFeature call of a parameterised wrapper is checked at the wrapper's call sites
			if h := astx.FeatureHelpers[s.EnclObj]; h != nil && (h.FeatArg >= 0 || h.ValArg >= 0) {
				continue
			}
		}
		if strings.HasSuffix(c.Prog().Rel(s.Call.Pos()), "_test.go") && helper != nil {
			continue
		}
		n++
		var ft *astx.FeatureTest
		if helper != nil {
			ft, _ = astx.HelperTest(s.Pkg.TypesInfo, s.Call)
		} else {
			ft = astx.AsFeatureTest(s.Pkg.TypesInfo, s.Call)
		}
		key := fmt.Sprintf("%s:HasFeature", astx.FuncKey(s.EnclObj))
		if ft == nil {
			c.Unknown("EXH/features", key+":non-constant", pos(c, s.Call), "HasFeature called with non-constant arguments")
			continue
		}
		ok := false
		for _, v := range conf[ft.Feature] {
			if v == ft.Value {
				ok = true
			}
		}
		c.Check(ok, "EXH/features", fmt.Sprintf("%s(%s,%s)", key, ft.Feature, ft.Value), pos(c, s.Call), "valid feature/value pair",
			fmt.Sprintf("HasFeature(%q, %q): not a configuration of FeatureConfigurations (%v) — the test can never be true", ft.Feature, ft.Value, conf[ft.Feature]))
	}
	c.Floor("EXH/features", "HasFeature call sites", n, 10)
	// each ledgerSetups condition is a valid pair too
	for _, ls := range ledgerSetups(c).Setups {
		if ls.Cond == "" {
			continue
		}
		for _, cond := range strings.Split(ls.Cond, "&") {
			kv := strings.SplitN(cond, "=", 2)
			ok := false
			for _, v := range conf[kv[0]] {
				if len(kv) == 2 && v == kv[1] {
					ok = true
				}
			}
			c.Check(ok, "EXH/features", fmt.Sprintf("ledgerSetups[%d]:%s", ls.Index, cond), ls.Pos, "valid pair", "ledgerSetups requires "+cond+" which is not a valid configuration: the per-ledger objects would never be installed")
		}
	}
}

// featureTableMaps reads the map literals of pkg/features (FeatureConfigurations, DefaultFeatures,
// MinimalFeatureSet, …): name -> key -> values.
func featureTableMaps(c *core.Ctx) map[string]map[string][]string {
	pk := c.Prog().Pkg(pkgFeatures)
	if pk == nil {
		return nil
	}
	info := pk.TypesInfo
	maps := map[string]map[string][]string{}
	for _, f := range pk.Syntax {
		for _, d := range f.Decls {
			gd, ok := d.(*ast.GenDecl)
			if !ok {
				continue
			}
			for _, sp := range gd.Specs {
				vs, ok := sp.(*ast.ValueSpec)
				if !ok {
					continue
				}
				for i, nm := range vs.Names {
					if i >= len(vs.Values) {
						continue
					}
					cl, ok := vs.Values[i].(*ast.CompositeLit)
					if !ok {
						continue
					}
					mm := map[string][]string{}
					for _, el := range cl.Elts {
						kv, ok := el.(*ast.KeyValueExpr)
						if !ok {
							continue
						}
						k, ok := astx.ConstString(info, kv.Key)
						if !ok {
							continue
						}
						if v, ok := astx.ConstString(info, kv.Value); ok {
							mm[k] = []string{v}
						} else if vl, ok := kv.Value.(*ast.CompositeLit); ok {
							for _, e := range vl.Elts {
								if v, ok := astx.ConstString(info, e); ok {
									mm[k] = append(mm[k], v)
								}
							}
						}
					}
					maps[nm.Name] = mm
				}
			}
		}
	}
	return maps
}

// ambiguousFeatureErr: fd uses an error variable that is assigned from feature-test wrappers more
// than once (astx does not read its nil tests as feature tests).
func ambiguousFeatureErr(fd *ast.FuncDecl, info *types.Info) bool {
	if fd == nil || fd.Body == nil || len(astx.FeatureErrAmbiguous) == 0 {
		return false
	}
	found := false
	ast.Inspect(fd.Body, func(n ast.Node) bool {
		if id, ok := n.(*ast.Ident); ok {
			if obj := info.ObjectOf(id); obj != nil && astx.FeatureErrAmbiguous[obj] {
				found = true
			}
		}
		return !found
	})
	return found
}
