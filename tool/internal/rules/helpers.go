package rules

import (
	"fmt"
	"go/ast"
	"go/token"
	"go/types"
	"sort"
	"strings"

	"ledgerlint/internal/astx"
	"ledgerlint/internal/bunq"
	"ledgerlint/internal/core"
	"ledgerlint/internal/load"
	"ledgerlint/internal/sqlfe"
)

// ---------- SQL clause helpers ----------

// whereConjuncts parses every alternative of the Where clauses of a statement and returns
// the conjuncts with the clause they come from.
type conjunct struct {
	Node   *sqlfe.Node
	Clause *bunq.Clause
	Alt    string
}

func whereConjuncts(c *core.Ctx, s *bunq.Statement, key string) []conjunct {
	var out []conjunct
	for _, cl := range s.ClausesNamed("Where", "WhereOr") {
		if !cl.HasSQL {
			continue
		}
		for _, alt := range cl.SQL {
			n, err := sqlfe.ParseExpr(alt)
			if err != nil {
				if !cl.Opaque {
					c.Unknown("sql-parse", key+":where", pos(c, cl.Call), fmt.Sprintf("cannot parse %q: %v", alt, err))
				}
				continue
			}
			for _, cj := range sqlfe.Conjuncts(n) {
				out = append(out, conjunct{cj, cl, alt})
			}
		}
	}
	return out
}

// stripQual removes table qualifiers from identifiers in a canonical string:
// accounts_volumes.input -> input (only for the given qualifiers).
func stripQual(n *sqlfe.Node, quals ...string) *sqlfe.Node {
	if n == nil {
		return nil
	}
	cp := *n
	if cp.Op == "ident" {
		for _, q := range quals {
			if strings.HasPrefix(cp.Text, q+".") {
				cp.Text = strings.TrimPrefix(cp.Text, q+".")
			}
		}
	}
	cp.Args = nil
	for _, a := range n.Args {
		cp.Args = append(cp.Args, stripQual(a, quals...))
	}
	return &cp
}

// parseOnConflict parses bun's On("conflict (a, b) do update") / On("conflict do nothing").
func parseOnConflict(text string) (target []string, doNothing, doUpdate bool, ok bool) {
	toks, err := sqlfe.Lex(text)
	if err != nil || len(toks) == 0 || !toks[0].Is("conflict") {
		return nil, false, false, false
	}
	i := 1
	if i < len(toks) && toks[i].IsOp("(") {
		i++
		for i < len(toks) && !toks[i].IsOp(")") {
			if nm, isName := toks[i].Name(); isName {
				target = append(target, strings.ToLower(nm))
			}
			i++
		}
		i++
	}
	if i+1 < len(toks) && toks[i].Is("do") {
		switch {
		case toks[i+1].Is("nothing"):
			return target, true, false, true
		case toks[i+1].Is("update"):
			return target, false, true, true
		}
	}
	return target, false, false, false
}

func sameSet(a, b []string) bool {
	if len(a) != len(b) {
		return false
	}
	x := append([]string(nil), a...)
	y := append([]string(nil), b...)
	sort.Strings(x)
	sort.Strings(y)
	for i := range x {
		if x[i] != y[i] {
			return false
		}
	}
	return true
}

// boundArgs pairs the ? placeholders of a parsed clause with the Go arguments (in order).
func boundArgs(n *sqlfe.Node, args []ast.Expr) map[*sqlfe.Node]ast.Expr {
	out := map[*sqlfe.Node]ast.Expr{}
	i := 0
	var walk func(x *sqlfe.Node)
	walk = func(x *sqlfe.Node) {
		if x == nil {
			return
		}
		if x.Op == "param" {
			if i < len(args) {
				out[x] = args[i]
			}
			i++
			return
		}
		for _, a := range x.Args {
			walk(a)
		}
	}
	walk(n)
	return out
}

// argKind classifies a Go argument bound to a placeholder.
func argKind(e ast.Expr) string {
	p := astx.SelectorPath(e)
	switch {
	case strings.HasSuffix(p, ".PIT"):
		return "PIT"
	case strings.HasSuffix(p, ".OOT"):
		return "OOT"
	case strings.HasSuffix(p, "ledger.Name"):
		return "ledger.Name"
	case strings.HasSuffix(p, "ledger.ID"):
		return "ledger.ID"
	}
	return ""
}

// hasLedgerPredicate reports whether the statement carries a top-level conjunct
// `ledger = ?` whose placeholder is bound to <store>.ledger.Name.
func hasLedgerPredicate(c *core.Ctx, s *bunq.Statement, key string) bool {
	for _, cl := range s.ClausesNamed("Where") {
		if !cl.HasSQL || len(cl.SQL) == 0 {
			continue
		}
		all := true
		for _, alt := range cl.SQL {
			full, err := sqlfe.ParseExpr(alt)
			if err != nil {
				all = false
				break
			}
			bound := boundArgs(full, cl.Args)
			ok := false
			for _, cj := range sqlfe.Conjuncts(full) {
				n := sqlfe.Unparen(cj)
				if n.Op != "bin" || n.Text != "=" {
					continue
				}
				l, r := sqlfe.Unparen(n.Args[0]), sqlfe.Unparen(n.Args[1])
				if l.Op == "param" {
					l, r = r, l
				}
				if l.Op == "ident" && sqlfe.LastPart(l.Text) == "ledger" && r.Op == "param" {
					if arg, has := bound[r]; has && argKind(arg) == "ledger.Name" {
						ok = true
					}
				}
			}
			if !ok {
				all = false
				break
			}
		}
		if all {
			return true
		}
	}
	return false
}

// ---------- Go helpers ----------

// declKey renders "pkg.(Recv).Name" for a declaration.
func declKey(d *astx.DeclInfo) string { return astx.FuncKey(d.Obj) }

func enclKey(pkRel string, fd *ast.FuncDecl) string {
	r := load.RecvName(fd)
	if r != "" {
		return fmt.Sprintf("%s.(%s).%s", pkRel, r, fd.Name.Name)
	}
	return pkRel + "." + fd.Name.Name
}

func relPkg(path string) string { return strings.TrimPrefix(path, load.Module+"/") }

// callsTo returns the calls inside n (function literals included) whose callee satisfies match.
func callsTo(info *types.Info, n ast.Node, match func(*types.Func) bool) []*ast.CallExpr {
	var out []*ast.CallExpr
	ast.Inspect(n, func(x ast.Node) bool {
		if call, ok := x.(*ast.CallExpr); ok {
			if f := astx.Callee(info, call); f != nil && match(f) {
				out = append(out, call)
			}
		}
		return true
	})
	return out
}

func named(name string) func(*types.Func) bool {
	return func(f *types.Func) bool { return f.Name() == name }
}

// methodOn matches methods called name whose receiver's named type is typeName (any package).
func methodOn(typeName, name string) func(*types.Func) bool {
	return func(f *types.Func) bool {
		if f.Name() != name {
			return false
		}
		sig, _ := f.Type().(*types.Signature)
		if sig == nil || sig.Recv() == nil {
			return false
		}
		return astx.RecvTypeName(sig.Recv().Type()) == typeName
	}
}

// recvExpr returns the receiver expression of a method call.
func recvExpr(call *ast.CallExpr) ast.Expr {
	if se, ok := ast.Unparen(call.Fun).(*ast.SelectorExpr); ok {
		return se.X
	}
	return nil
}

// lastResultIsNilError reports how a return statement's last result looks:
// "nil" (literal nil), "err" (an identifier or expression), "" when the function returns nothing.
func lastResult(r *ast.ReturnStmt) ast.Expr {
	if r == nil || len(r.Results) == 0 {
		return nil
	}
	return r.Results[len(r.Results)-1]
}

// isErrorReturn classifies a return: +1 surely returns a non-nil error, -1 surely nil, 0 unknown.
func isErrorReturn(info *types.Info, body *ast.BlockStmt, r *ast.ReturnStmt) int {
	e := lastResult(r)
	if e == nil {
		return 0
	}
	if astx.IsNilExpr(info, e) {
		return -1
	}
	switch x := ast.Unparen(e).(type) {
	case *ast.Ident:
		obj := info.Uses[x]
		if obj == nil {
			return 0
		}
		if v := astx.ErrNonNilFact(info, astx.FactsAt(info, body, r.Pos()), obj); v != 0 {
			return v
		}
		// the variable's only definition is an error constructor call: err := newErrX(...)
		defs, ctor := 0, 0
		ast.Inspect(body, func(n ast.Node) bool {
			as, ok := n.(*ast.AssignStmt)
			if !ok {
				return true
			}
			for i, l := range as.Lhs {
				id, ok := l.(*ast.Ident)
				if !ok || info.ObjectOf(id) != obj {
					continue
				}
				defs++
				if len(as.Lhs) == len(as.Rhs) {
					if call, ok := ast.Unparen(as.Rhs[i]).(*ast.CallExpr); ok {
						if f := astx.Callee(info, call); f != nil {
							n := f.Name()
							if n == "Errorf" || n == "New" || strings.HasPrefix(n, "NewErr") || strings.HasPrefix(n, "newErr") {
								ctor++
							}
						}
					}
				}
			}
			return true
		})
		if defs > 0 && defs == ctor {
			return 1
		}
		return 0
	case *ast.CallExpr:
		// constructor of an error value (fmt.Errorf, errors.New, NewErrX, newErrX ...)
		if t := info.TypeOf(e); t != nil {
			if _, isTuple := t.(*types.Tuple); isTuple {
				return 0
			}
		}
		if f := astx.Callee(info, x); f != nil {
			n := f.Name()
			if n == "Errorf" || n == "New" || strings.HasPrefix(n, "NewErr") || strings.HasPrefix(n, "newErr") || n == "Wrap" || n == "Wrapf" || n == "ResolveError" {
				if n == "ResolveError" {
					return 0
				}
				return 1
			}
		}
	case *ast.CompositeLit, *ast.UnaryExpr:
		return 1
	}
	return 0
}

func posOf(c *core.Ctx, p token.Pos) string { return c.Prog().Rel(p) }

// fieldOfCompositeLit returns the value of a keyed field in a composite literal.
func fieldOfCompositeLit(cl *ast.CompositeLit, name string) ast.Expr {
	for _, el := range cl.Elts {
		if kv, ok := el.(*ast.KeyValueExpr); ok {
			if id, ok := kv.Key.(*ast.Ident); ok && id.Name == name {
				return kv.Value
			}
		}
	}
	return nil
}

// isZeroBigInt recognises new(big.Int), big.NewInt(0), &big.Int{}.
func isZeroBigInt(info *types.Info, e ast.Expr) bool {
	e = ast.Unparen(e)
	call, ok := e.(*ast.CallExpr)
	if !ok {
		if ue, ok := e.(*ast.UnaryExpr); ok && ue.Op == token.AND {
			if cl, ok := ue.X.(*ast.CompositeLit); ok && len(cl.Elts) == 0 {
				return astx.IsNamed(info.TypeOf(cl), "math/big", "Int")
			}
		}
		return false
	}
	if id, ok := call.Fun.(*ast.Ident); ok && id.Name == "new" && len(call.Args) == 1 {
		if tv, ok := info.Types[call.Args[0]]; ok && tv.IsType() {
			return astx.IsNamed(tv.Type, "math/big", "Int")
		}
	}
	if f := astx.Callee(info, call); f != nil && f.Pkg() != nil && f.Pkg().Path() == "math/big" && f.Name() == "NewInt" && len(call.Args) == 1 {
		if tv, ok := info.Types[call.Args[0]]; ok && tv.Value != nil && tv.Value.ExactString() == "0" {
			return true
		}
	}
	return false
}
