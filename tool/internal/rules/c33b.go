package rules

import (
	"go/ast"
	"go/types"
	"regexp"
	"strings"

	"ledgerlint/internal/astx"
	"ledgerlint/internal/core"
)

var lastOfData = regexp.MustCompile(`^([A-Za-z_][A-Za-z0-9_]*)\.Data\[(.+)\]\.ID$`)

// rulePipelineBatchShapeTolerant reads the batch obligations of PipelineHandler.Run off the
// function and its same-package helpers, by structure rather than by local names; anchors that
// cannot be found make the obligation an unrecognised shape.
func rulePipelineBatchShapeTolerant(c *core.Ctx) {
	d := fn(c, pkgReplic, "PipelineHandler", "Run")
	if d == nil {
		return
	}
	key := declKey(d)
	scope := fnScope(c, d, 1)
	// ---- fetch order -------------------------------------------------------------------------
	recF, okF := false, false
	for _, sc := range scopeCalls(scope, named("ListLogs")) {
		info := sc.D.Pkg.TypesInfo
		for _, a := range sc.Call.Args {
			cl, ok := ast.Unparen(resolveLocal(info, sc.D.Decl.Body, a)).(*ast.CompositeLit)
			if !ok {
				continue
			}
			col, ord := fieldOfCompositeLit(cl, "Column"), fieldOfCompositeLit(cl, "Order")
			if col == nil || ord == nil {
				continue
			}
			recF = true
			cs, _ := astx.ConstString(info, col)
			okF = cs == "id" && strings.Contains(types.ExprString(resolveLocal(info, sc.D.Decl.Body, ord)), "OrderAsc")
		}
	}
	c.Shape(recF, okF, "SHAPE/pipeline-batch", key+":fetch-order", pos(c, d.Decl), "ListLogs by id ascending", "the pipeline does not fetch logs ordered by ascending id")
	// ---- fetch filter -------------------------------------------------------------------------
	recG, okG := false, false
	nCmp := 0
	for _, name := range []string{"Gt", "Gte", "Lt", "Lte", "Match"} {
		for _, sc := range scopeCalls(scope, named(name)) {
			info := sc.D.Pkg.TypesInfo
			f := astx.Callee(info, sc.Call)
			if f == nil || f.Pkg() == nil || !strings.HasSuffix(f.Pkg().Path(), "/query") || len(sc.Call.Args) != 2 {
				continue
			}
			if k, _ := astx.ConstString(info, sc.Call.Args[0]); k != "id" {
				continue
			}
			recG = true
			nCmp++
			arg := nospace(types.ExprString(sc.Call.Args[1]))
			fs := factStrings(info, sc.D.Decl.Body, sc.Call.Pos())
			guarded := false
			for _, ft := range fs {
				if ft[0] == '+' && strings.HasSuffix(nospace(ft[1:]), "LastLogID!=nil") {
					guarded = true
				}
			}
			if name == "Gt" && strings.HasPrefix(arg, "*") && strings.HasSuffix(arg, "LastLogID") && guarded {
				okG = true
			}
		}
	}
	c.Shape(recG, okG && nCmp == 1, "SHAPE/pipeline-batch", key+":fetch-after-last", pos(c, d.Decl), "filter id > LastLogID", "the pipeline's fetch filter is not exactly `id > LastLogID` (from the beginning when LastLogID is nil): logs are skipped or re-sent out of order")
	// ---- last of batch, whole batch -------------------------------------------------------------
	info := d.Pkg.TypesInfo
	var logsVar, lastVar, idx string
	ast.Inspect(d.Decl.Body, func(n ast.Node) bool {
		as, ok := n.(*ast.AssignStmt)
		if !ok || len(as.Lhs) != 1 || len(as.Rhs) != 1 {
			return true
		}
		if m := lastOfData.FindStringSubmatch(nospace(types.ExprString(as.Rhs[0]))); m != nil {
			logsVar, idx, lastVar = m[1], m[2], types.ExprString(as.Lhs[0])
		}
		return true
	})
	recL := logsVar != ""
	okIdx := idx == "len("+logsVar+".Data)-1"
	okAssign, okNotify := false, false
	ast.Inspect(d.Decl.Body, func(n ast.Node) bool {
		switch x := n.(type) {
		case *ast.AssignStmt:
			if len(x.Lhs) == 1 && len(x.Rhs) == 1 && strings.HasSuffix(types.ExprString(x.Lhs[0]), ".LastLogID") && types.ExprString(x.Rhs[0]) == lastVar {
				okAssign = true
			}
		case *ast.SendStmt:
			if types.ExprString(x.Value) == "*"+lastVar {
				okNotify = true
			}
		}
		return true
	})
	c.Shape(recL, okIdx && okAssign && okNotify, "SHAPE/pipeline-batch", key+":last-of-batch", pos(c, d.Decl), "LastLogID = id of the batch's last log = value notified", "the new LastLogID (and the persisted value) is not the id of the last log of the acknowledged batch")
	recA, okA := false, false
	for _, call := range callsTo(info, d.Decl.Body, named("Accept")) {
		for _, a := range call.Args {
			m, ok := ast.Unparen(a).(*ast.CallExpr)
			if !ok || len(m.Args) < 1 {
				continue
			}
			first := nospace(types.ExprString(m.Args[0]))
			if strings.Contains(first, ".Data") {
				recA = true
				okA = logsVar != "" && first == logsVar+".Data"
			}
		}
	}
	c.Shape(recA && recL, okA, "SHAPE/pipeline-batch", key+":whole-batch", pos(c, d.Decl), "Accept(all of the fetched batch)", "the exporter is not handed the whole fetched batch")
}
