package rules

import (
	"regexp"
	"sort"
	"path/filepath"
	"fmt"
	"go/ast"
	"go/token"
	"go/types"
	"strings"

	"ledgerlint/internal/astx"
	"ledgerlint/internal/bunq"
	"ledgerlint/internal/core"
	"ledgerlint/internal/load"
	"ledgerlint/internal/sqlfe"
)

func init() {
	register("C02", checkC02)
	register("C03", checkC03)
	addBreakers("C02",
		Breaker{Name: "insert-transaction-before-volumes", File: "internal/storage/ledger/transactions.go",
			Old:    "\tpostCommitVolumes, err := store.UpdateVolumes(ctx, tx.VolumeUpdates()...)\n\tif err != nil {\n\t\treturn fmt.Errorf(\"failed to update balances: %w\", err)\n\t}\n\ttx.PostCommitVolumes = postCommitVolumes.Copy()\n\n\terr = store.InsertTransaction(ctx, tx)\n\tif err != nil {\n\t\treturn fmt.Errorf(\"failed to insert transaction: %w\", err)\n\t}\n",
			New:    "\terr := store.InsertTransaction(ctx, tx)\n\tif err != nil {\n\t\treturn fmt.Errorf(\"failed to insert transaction: %w\", err)\n\t}\n\tpostCommitVolumes, err := store.UpdateVolumes(ctx, tx.VolumeUpdates()...)\n\tif err != nil {\n\t\treturn fmt.Errorf(\"failed to update balances: %w\", err)\n\t}\n\ttx.PostCommitVolumes = postCommitVolumes.Copy()\n",
			Expect: "DOM/commit-transaction"},
		Breaker{Name: "volumes-only-when-moves-history", File: "internal/storage/ledger/transactions.go",
			Old: "\terr = store.InsertTransaction(ctx, tx)\n\tif err != nil {", New: "\tif store.ledger.HasFeature(features.FeatureMovesHistory, \"ON\") {\n\t\tif err := store.InsertTransaction(ctx, tx); err != nil {\n\t\t\treturn err\n\t\t}\n\t\treturn nil\n\t}\n\terr = store.InsertTransaction(ctx, tx)\n\tif err != nil {", Expect: "commit-transaction"},
		Breaker{Name: "second-caller-of-update-volumes", File: "internal/storage/ledger/accounts.go",
			Old: "\t\t\t_, err := store.db.NewUpdate().\n\t\t\t\tModelTableExpr(store.GetPrefixedRelationName(\"accounts\")).\n\t\t\t\tSet(\"metadata = metadata - ?\", key).",
			New: "\t\t\t_, _ = store.UpdateVolumes(ctx)\n\t\t\t_, err := store.db.NewUpdate().\n\t\t\t\tModelTableExpr(store.GetPrefixedRelationName(\"accounts\")).\n\t\t\t\tSet(\"metadata = metadata - ?\", key).", Expect: "WMC/commit-writers"},
		Breaker{Name: "balance-output-minus-input", File: "internal/storage/ledger/balances.go",
			Old: "new(big.Int).Sub(volumes.Input, volumes.Output)", New: "new(big.Int).Sub(volumes.Output, volumes.Input)", Expect: "FLOW/balance"},
		Breaker{Name: "sql-balance-output-minus-input", File: "internal/storage/ledger/resource_volumes.go",
			Old: `ColumnExpr("input - output as balance")`, New: `ColumnExpr("output - input as balance")`, Expect: "FLOW/balance"},
		Breaker{Name: "current-volumes-from-moves", File: "internal/storage/ledger/resource_accounts.go",
			Old: "\tif opts.UsePIT() {\n\t\tselectRowsQuery = selectRowsQuery.", New: "\tif !opts.UsePIT() {\n\t\tselectRowsQuery = selectRowsQuery.", Expect: "TEMP/current-vs-history"},
		Breaker{Name: "volume-updates-not-passed", File: "internal/storage/ledger/transactions.go",
			Old: "store.UpdateVolumes(ctx, tx.VolumeUpdates()...)", New: "store.UpdateVolumes(ctx)", Expect: "volume-updates-argument"},
	)
	addBreakers("C03",
		Breaker{Name: "pcv-not-copied", File: "internal/storage/ledger/transactions.go",
			Old: "tx.PostCommitVolumes = postCommitVolumes.Copy()", New: "tx.PostCommitVolumes = postCommitVolumes", Expect: "pcv-copied-before-unwinding"},
		Breaker{Name: "unwinding-forward-order", File: "internal/storage/ledger/transactions.go",
			Old: "\t\tslices.Reverse(postings)\n", New: "", Expect: "iterates-reversed-private-copy"},
		Breaker{Name: "snapshot-after-subtraction", File: "internal/storage/ledger/transactions.go",
			Old:  "\t\t\tpostCommitVolumes.AddInput(posting.Destination, posting.Asset, new(big.Int).Neg(posting.Amount))\n\n\t\t\tmoves = append(moves, &ledger.Move{\n\t\t\t\tIsSource:          true,",
			New:  "\t\t\tpostCommitVolumes.AddInput(posting.Destination, posting.Asset, new(big.Int).Neg(posting.Amount))\n\t\t\tpostCommitVolumes.AddOutput(posting.Source, posting.Asset, new(big.Int).Neg(posting.Amount))\n\n\t\t\tmoves = append(moves, &ledger.Move{\n\t\t\t\tIsSource:          true,",
			Old2: "\t\t\t\tTransactionID:     *tx.ID,\n\t\t\t})\n\t\t\tpostCommitVolumes.AddOutput(posting.Source, posting.Asset, new(big.Int).Neg(posting.Amount))\n", New2: "\t\t\t\tTransactionID:     *tx.ID,\n\t\t\t})\n",
			Expect: "step-order"},
		Breaker{Name: "source-move-snapshots-destination", File: "internal/storage/ledger/transactions.go",
			Old: "PostCommitVolumes: pointer.For(postCommitVolumes[posting.Source][posting.Asset].Copy()),", New: "PostCommitVolumes: pointer.For(postCommitVolumes[posting.Destination][posting.Asset].Copy()),", Expect: "move-Source:snapshot"},
		Breaker{Name: "unwinding-subtracts-output-from-destination", File: "internal/storage/ledger/transactions.go",
			Old: "postCommitVolumes.AddInput(posting.Destination, posting.Asset, new(big.Int).Neg(posting.Amount))", New: "postCommitVolumes.AddOutput(posting.Destination, posting.Asset, new(big.Int).Neg(posting.Amount))", Expect: "FLOW/unwinding"},
		Breaker{Name: "moves-not-reversed-back", File: "internal/storage/ledger/transactions.go",
			Old: "\t\tslices.Reverse(moves)\n", New: "", Expect: "moves-reversed-back"},
		Breaker{Name: "subtract-postings-adds", File: "internal/volumes.go",
			Old: "ret.AddOutput(posting.Source, posting.Asset, big.NewInt(0).Neg(posting.Amount))", New: "ret.AddOutput(posting.Source, posting.Asset, posting.Amount)", Expect: "FLOW/subtract-postings"},
		Breaker{Name: "subtract-postings-mutates-receiver", File: "internal/volumes.go",
			Old: "\tret := a.Copy()\n\tfor _, posting := range postings {", New: "\tret := a\n\tfor _, posting := range postings {", Expect: "on-copy"},
		Breaker{Name: "add-input-adds-to-output", File: "internal/volumes.go",
			Old: "volumes.Input.Add(volumes.Input, input)", New: "volumes.Output.Add(volumes.Output, input)", Expect: "FLOW/add-helpers"},
		Breaker{Name: "returned-pcv-copies-deltas", File: "internal/storage/ledger/volumes.go",
			Old: "\t\t\t\t\tInput:  volumes.Input,\n\t\t\t\t\tOutput: volumes.Output,", New: "\t\t\t\t\tInput:  new(big.Int).Set(volumes.Input),\n\t\t\t\t\tOutput: new(big.Int).Set(volumes.Output),",
			Old2: "import (\n\t\"context\"\n", New2: "import (\n\t\"context\"\n\t\"math/big\"\n", Expect: "ALIAS/pcv"},
		Breaker{Name: "update-rewrites-post-commit-volumes", File: "internal/storage/ledger/transactions.go",
			Old: "Set(\"metadata = metadata || ?\", m).", New: "Set(\"metadata = metadata || ?\", m).\n\t\t\t\tSet(\"post_commit_volumes = post_commit_volumes\").", Expect: "WMC/immutable-columns"},
		Breaker{Name: "sql-trigger-rewrites-move-pcv", File: "internal/storage/bucket/migrations/11-make-stateless/up.sql",
			Old: "    update moves\n    set post_commit_effective_volumes = (", New: "    update moves\n    set post_commit_volumes = post_commit_volumes, post_commit_effective_volumes = (", Expect: "WMC/immutable-columns"},
	)
}

func checkC02(c *core.Ctx) {
	c.Decide("CommitTransaction applies tx.VolumeUpdates() through UpdateVolumes, then InsertTransaction, then (only under MOVES_HISTORY=ON) InsertMoves, all on its own receiver, each error leaving the function; these three writers are called from nowhere else; CommitTransaction itself is called only by createTransaction, revertTransaction and importLog; balances are computed as input minus output in Go and SQL; the current-volumes readers read accounts_volumes on the non-PIT side; plus the C07 transaction-scoping rules (failed / dry-run writes contribute nothing) and the C01 upsert shape")
	c.NotDecided("equality of the stored values with the fold (needs execution against Postgres)")
	c.Trust("same as C01 and C07")
	ruleVolumeUpdatesFlow(c)
	// the volumes a read reports must be this ledger's: every statement (sub-queries of expands
	// included) is ledger-scoped (shared with C19)
	ruleScopedStatements(c)
	ruleCommitTransactionShape(c)
	ruleCommitWritersCallers(c)
	ruleBalanceIsInputMinusOutput(c)
	ruleCurrentVolumesReaders(c)
	ruleUpdateVolumesUpsert(c)
	ruleTxHandleOwnership(c)
	rulePairAll(c)
}

func checkC03(c *core.Ctx) {
	c.Decide("in CommitTransaction the value stored in tx.PostCommitVolumes is a Copy taken before the unwinding loop; the loop iterates a reversed private copy of the postings, snapshots the destination then the source account's volumes before subtracting the same posting from the same side (Input for destination, Output for source), marks IsSource only on the source move, and reverses the moves back before inserting them; SubtractPostings subtracts (Output,Source) and (Input,Destination) on a copy; AddInput/AddOutput add to the side they name; the map returned by UpdateVolumes shares the *big.Int pointees with the model rows bun scans RETURNING into; no statement anywhere updates transactions.post_commit_volumes or moves.post_commit_volumes")
	c.NotDecided("row order of RETURNING versus the model slice and that bun scans into an existing *big.Int (driver behaviour); numeric results")
	c.Trust("bun Model+Returning scans into the model elements in statement order")
	// the volumes CommitTransaction starts from are those VolumeUpdates folded (shared with C01)
	ruleVolumeUpdatesFlow(c)
	ruleUnwindingLoop(c)
	ruleSubtractPostings(c)
	ruleAddInputOutputHelpers(c)
	rulePCVAliasChain(c)
	ruleImmutableColumns(c)
	ruleBackfillTakesLastMove(c)
}

// storeMethodCallsIn returns calls in d to methods of *Store (storage) with the given name.
func storeMethodCallsIn(d *astx.DeclInfo, name string) []*ast.CallExpr {
	return callsTo(d.Pkg.TypesInfo, d.Decl.Body, func(f *types.Func) bool {
		if f.Name() != name {
			return false
		}
		sig, _ := f.Type().(*types.Signature)
		return sig != nil && sig.Recv() != nil && astx.IsNamed(sig.Recv().Type(), load.Module+"/"+pkgStore, "Store")
	})
}

func ruleCommitTransactionShape(c *core.Ctx) {
	d := fn(c, pkgStore, "Store", "CommitTransaction")
	if d == nil {
		return
	}
	info := d.Pkg.TypesInfo
	key := declKey(d)
	recvName := ""
	if d.Decl.Recv != nil && len(d.Decl.Recv.List[0].Names) == 1 {
		recvName = d.Decl.Recv.List[0].Names[0].Name
	}
	flow := astx.NewFlow(info, d.Decl.Body)
	var calls []*ast.CallExpr
	for _, name := range []string{"UpdateVolumes", "InsertTransaction", "InsertMoves"} {
		cs := storeMethodCallsIn(d, name)
		if len(cs) != 1 {
			c.Fail("DOM/commit-transaction", key+":calls-"+name+"-once", pos(c, d.Decl), fmt.Sprintf("CommitTransaction calls %s %d times, expected exactly once", name, len(cs)))
			return
		}
		call := cs[0]
		calls = append(calls, call)
		r := astx.SelectorPath(recvExpr(call))
		c.Check(r == recvName, "TXH/commit-transaction", key+":"+name+":receiver", pos(c, call), name+" on the receiver", fmt.Sprintf("%s is called on %s, not on CommitTransaction's own receiver: the three writes would not share one transaction", name, r))
		ff := astx.FeatureFacts(info, astx.FactsAt(info, d.Decl.Body, call.Pos()))
		if name == "InsertMoves" {
			c.Check(ff["MOVES_HISTORY=ON"] && len(ff) == 1, "FEAT/commit-transaction", key+":InsertMoves:guard", pos(c, call), "InsertMoves only under MOVES_HISTORY=ON", fmt.Sprintf("InsertMoves is guarded by %v, expected exactly MOVES_HISTORY=ON", ff))
		} else {
			c.Check(len(ff) == 0, "FEAT/commit-transaction", key+":"+name+":unguarded", pos(c, call), name+" runs for every feature set", fmt.Sprintf("%s is under feature guard %v: volumes/transactions would depend on a feature flag", name, ff))
		}
	}
	c.Check(flow.Dominates(calls[0], calls[1]) && flow.Dominates(calls[1], calls[2]), "DOM/commit-transaction", key+":order", pos(c, d.Decl),
		"UpdateVolumes -> InsertTransaction -> InsertMoves", "the order UpdateVolumes, InsertTransaction, InsertMoves is not enforced on every path")
	// every normal, error-free exit passes UpdateVolumes and InsertTransaction
	for _, name := range []string{"UpdateVolumes", "InsertTransaction"} {
		stop := astx.ContainsCallTo(info, func(f *types.Func, _ *ast.CallExpr) bool { return f.Name() == name })
		for i, e := range flow.Exits() {
			if e.Return != nil && isErrorReturn(info, d.Decl.Body, e.Return) > 0 {
				continue
			}
			if flow.PathAvoiding(nil, e, stop) {
				var p token.Pos = d.Decl.Pos()
				if e.Return != nil {
					p = e.Return.Pos()
				}
				c.Fail("DOM/commit-transaction", fmt.Sprintf("%s:success-exit#%d-without-%s", key, i, name), posOf(c, p), "a success exit of CommitTransaction is reachable without calling "+name)
			}
		}
	}
	// UpdateVolumes argument is tx.VolumeUpdates()
	arg := ""
	if len(calls[0].Args) >= 2 {
		if ac, ok := ast.Unparen(calls[0].Args[1]).(*ast.CallExpr); ok {
			if f := astx.Callee(info, ac); f != nil {
				arg = f.Name()
			}
		}
	}
	c.Check(arg == "VolumeUpdates", "DOM/commit-transaction", key+":volume-updates-argument", pos(c, calls[0]), "UpdateVolumes(ctx, tx.VolumeUpdates()...)", "UpdateVolumes is not fed with tx.VolumeUpdates(): the stored volumes would not follow the postings")
}

func ruleCommitWritersCallers(c *core.Ctx) {
	ix := index(c)
	allowed := map[string][]string{
		"UpdateVolumes":     {pkgStore + ".(Store).CommitTransaction"},
		"InsertTransaction": {pkgStore + ".(Store).CommitTransaction"},
		"InsertMoves":       {pkgStore + ".(Store).CommitTransaction"},
		"CommitTransaction": {pkgCtrl + ".(DefaultController).createTransaction", pkgCtrl + ".(DefaultController).revertTransaction", pkgCtrl + ".(DefaultController).importLog"},
	}
	for _, name := range []string{"UpdateVolumes", "InsertTransaction", "InsertMoves", "CommitTransaction"} {
		d := fn(c, pkgStore, "Store", name)
		if d == nil {
			continue
		}
		sites := ix.SitesOf(d.Obj)
		c.Floor("WMC/commit-writers", "call sites of "+name, len(sites), 1)
		for _, s := range sites {
			caller := astx.FuncKey(s.EnclObj)
			ok := false
			for _, a := range allowed[name] {
				if a == caller {
					ok = true
				}
			}
			c.Check(ok, "WMC/commit-writers", name+"<-"+caller, pos(c, s.Call), "allowed caller",
				fmt.Sprintf("%s is called from %s; it may only be called from %v (volumes, transaction row and moves must be written together)", name, caller, allowed[name]))
		}
		for _, r := range ix.RefsOf(d.Obj) {
			c.Fail("WMC/commit-writers", name+":escapes-as-value@"+astx.FuncKey(r.EnclObj), pos(c, r.Ident), name+" is taken as a function value; its callers can no longer be enumerated")
		}
	}
}

// ruleBalanceIsInputMinusOutput: every balance computation subtracts output from input.
func ruleBalanceIsInputMinusOutput(c *core.Ctx) {
	n := 0
	// Go: new(big.Int).Sub(x.Input, x.Output)
	for _, rel := range []string{pkgCore, pkgStore} {
		pk := c.Prog().Pkg(rel)
		if pk == nil {
			continue
		}
		for _, f := range pk.Syntax {
			for _, dd := range f.Decls {
				fd, ok := dd.(*ast.FuncDecl)
				if !ok || fd.Body == nil {
					continue
				}
				ast.Inspect(fd.Body, func(x ast.Node) bool {
					call, ok := x.(*ast.CallExpr)
					if !ok || len(call.Args) != 2 {
						return true
					}
					if !isBigIntMethod(astx.Callee(pk.TypesInfo, call), "Sub") {
						return true
					}
					a, b := astx.SelectorPath(call.Args[0]), astx.SelectorPath(call.Args[1])
					aIn, aOut := strings.HasSuffix(a, ".Input"), strings.HasSuffix(a, ".Output")
					bIn, bOut := strings.HasSuffix(b, ".Input"), strings.HasSuffix(b, ".Output")
					if !(aIn || aOut) || !(bIn || bOut) {
						return true
					}
					n++
					c.Check(aIn && bOut, "FLOW/balance", enclKey(rel, fd)+":Sub", pos(c, call), "Sub(Input, Output)", fmt.Sprintf("balance computed as Sub(%s, %s): must be input minus output", a, b))
					return true
				})
			}
		}
	}
	// SQL: "... as balance" columns
	m := bunModel(c, pkgStore)
	for _, s := range m.Stmts {
		for _, cl := range s.ClausesNamed("ColumnExpr") {
			for _, alt := range cl.SQL {
				items, err := sqlfe.ParseSelectItems(alt)
				if err != nil {
					continue
				}
				for _, it := range items {
					if it.Alias != "balance" {
						continue
					}
					e := sqlfe.Unparen(it.Expr)
					// first_value(a - b) over (...) : look inside
					var sub *sqlfe.Node
					sqlfe.Walk(e, func(y *sqlfe.Node) bool {
						if y.Op == "bin" && y.Text == "-" && sub == nil {
							sub = y
						}
						return true
					})
					if sub == nil {
						continue // sum(case ...) forms are covered by the input/output label rule
					}
					l, r := sqlfe.Canon(sub.Args[0]), sqlfe.Canon(sub.Args[1])
					n++
					okL := strings.Contains(l, "input")
					okR := strings.Contains(r, "output")
					c.Check(okL && okR && !strings.Contains(l, "output") && !strings.Contains(r, "input"), "FLOW/balance", enclKey(pkgStore, s.Encl)+":sql-balance", pos(c, cl.Call), l+" - "+r,
						fmt.Sprintf("SQL balance is %s - %s: must be input minus output", l, r))
				}
			}
		}
	}
	c.Floor("FLOW/balance", "balance computations", n, 5)
}

// ruleCurrentVolumesReaders: readers use accounts_volumes exactly when no point in time is requested.
func ruleCurrentVolumesReaders(c *core.Ctx) {
	m := bunModel(c, pkgStore)
	n := 0
	for _, s := range m.Stmts {
		if load.RecvName(s.Encl) == "Store" {
			continue
		}
		for _, cl := range s.ClausesNamed("ModelTableExpr", "TableExpr") {
			if len(cl.SQL) != 1 {
				continue
			}
			t := sqlfe.NormName(strings.Trim(strings.ReplaceAll(cl.SQL[0], `"`, ""), " "))
			if t != "accounts_volumes" && t != "moves" {
				continue
			}
			pit := pitPolarity(s.Pkg.TypesInfo, cl.Facts)
			key := fmt.Sprintf("%s:%s", enclKey(pkgStore, s.Encl), t)
			n++
			if t == "accounts_volumes" {
				c.Check(pit <= 0, "TEMP/current-vs-history", key, pos(c, cl.Call), "accounts_volumes read on the non-PIT side", "accounts_volumes (current volumes) is read on a branch where a point in time is set")
			} else if load.RecvName(s.Encl) != "transactionsResourceHandler" {
				c.Check(pit >= 0, "TEMP/current-vs-history", key, pos(c, cl.Call), "moves read on the PIT/OOT side", "moves (history) is read on a branch where no point in time is set: current volumes would depend on MOVES_HISTORY")
			}
		}
	}
	c.Floor("TEMP/current-vs-history", "volume source selections", n, 6)
}

// pitPolarity: +1 the facts say a PIT/OOT is in use, -1 they say none is, 0 unknown.
func pitPolarity(info *types.Info, facts []astx.Fact) int {
	res := 0
	isUse := func(e ast.Expr) bool {
		call, ok := ast.Unparen(e).(*ast.CallExpr)
		if !ok || len(call.Args) != 0 {
			return false
		}
		se, ok := call.Fun.(*ast.SelectorExpr)
		return ok && (se.Sel.Name == "UsePIT" || se.Sel.Name == "UseOOT")
	}
	notUse := func(e ast.Expr) bool {
		ue, ok := ast.Unparen(e).(*ast.UnaryExpr)
		return ok && ue.Op == token.NOT && isUse(ue.X)
	}
	for _, f := range facts {
		// !(!UsePIT() && !UseOOT())  =>  a PIT or an OOT is in use
		if be, ok := ast.Unparen(f.Cond).(*ast.BinaryExpr); ok && be.Op == token.LAND && notUse(be.X) && notUse(be.Y) && !f.Positive {
			return 1
		}
		// !(opts.PIT != nil && !opts.PIT.IsZero()): the spelled-out UsePIT(), negated
		if be, ok := ast.Unparen(f.Cond).(*ast.BinaryExpr); ok && be.Op == token.LAND && !f.Positive {
			if l, ok := ast.Unparen(be.X).(*ast.BinaryExpr); ok && l.Op == token.NEQ && astx.IsNilExpr(info, l.Y) {
				lp := astx.SelectorPath(l.X)
				if strings.HasSuffix(lp, ".PIT") || strings.HasSuffix(lp, ".OOT") {
					if r, ok := ast.Unparen(be.Y).(*ast.UnaryExpr); ok && r.Op == token.NOT {
						if call, ok := ast.Unparen(r.X).(*ast.CallExpr); ok {
							if se, ok := call.Fun.(*ast.SelectorExpr); ok && se.Sel.Name == "IsZero" && astx.SelectorPath(se.X) == lp {
								if res == 0 {
									res = -1
								}
								continue
							}
						}
					}
				}
			}
		}
		isPIT := isUse(f.Cond)
		if !isPIT {
			// opts.PIT != nil  (split into == nil negative by splitFact)
			if be, ok := ast.Unparen(f.Cond).(*ast.BinaryExpr); ok && strings.HasSuffix(astx.SelectorPath(be.X), ".PIT") && astx.IsNilExpr(info, be.Y) {
				if be.Op == token.NEQ {
					if f.Positive {
						return 1
					}
				} else if be.Op == token.EQL && !f.Positive {
					return 1
				}
			}
			continue
		}
		if f.Positive {
			res = 1
		} else if res == 0 {
			res = -1
		}
	}
	return res
}

// ---------------- C03 ----------------

func ruleUnwindingLoop(c *core.Ctx) {
	d := fn(c, pkgStore, "Store", "CommitTransaction")
	if d == nil {
		return
	}
	info := d.Pkg.TypesInfo
	key := declKey(d)
	// tx.PostCommitVolumes = X.Copy()
	var pcvAssign *ast.AssignStmt
	var loop *ast.RangeStmt
	var loopD *astx.DeclInfo
	ast.Inspect(d.Decl.Body, func(n ast.Node) bool {
		if x, ok := n.(*ast.AssignStmt); ok {
			if len(x.Lhs) == 1 && strings.HasSuffix(astx.SelectorPath(x.Lhs[0]), ".PostCommitVolumes") && pcvAssign == nil {
				pcvAssign = x
			}
		}
		return true
	})
	inScope(fnScope(c, d, 1), func(sd *astx.DeclInfo) {
		ast.Inspect(sd.Decl.Body, func(n ast.Node) bool {
			x, ok := n.(*ast.RangeStmt)
			if !ok || loop != nil {
				return true
			}
			// the loop that builds moves
			hasMove := false
			ast.Inspect(x.Body, func(y ast.Node) bool {
				if cl, ok := y.(*ast.CompositeLit); ok && astx.RecvTypeName(info.TypeOf(cl)) == "Move" {
					hasMove = true
				}
				return true
			})
			if hasMove {
				loop, loopD = x, sd
			}
			return true
		})
	})
	if pcvAssign == nil || loop == nil {
		c.Unrecognised("FLOW/unwinding", key+":anchors", pos(c, d.Decl), "assignment of tx.PostCommitVolumes or the move-building loop not found in CommitTransaction or its direct helpers")
		return
	}
	// where the loop runs, seen from CommitTransaction
	loopAt := loop.Pos()
	if loopD != d {
		loopAt = token.NoPos
		for _, site := range callsTo(info, d.Decl.Body, func(f *types.Func) bool { return f == loopD.Obj }) {
			loopAt = site.Pos()
		}
		if loopAt == token.NoPos {
			c.Unrecognised("FLOW/unwinding", key+":anchors", pos(c, d.Decl), "call of the move-building helper not found")
			return
		}
	}
	isCopy := false
	if call, ok := pcvAssign.Rhs[0].(*ast.CallExpr); ok {
		if f := astx.Callee(info, call); f != nil && f.Name() == "Copy" {
			isCopy = true
		}
	}
	c.Check(isCopy && pcvAssign.End() < loopAt, "FLOW/unwinding", key+":pcv-copied-before-unwinding", pos(c, pcvAssign),
		"tx.PostCommitVolumes = pcv.Copy() before the loop", "tx.PostCommitVolumes must be a Copy() taken before the unwinding loop: otherwise the loop's subtractions rewrite the transaction's post-commit volumes into pre-commit ones")
	// loop ranges over a private, reversed copy of tx.Postings
	var rngObj, movesObj types.Object
	if id, ok := ast.Unparen(loop.X).(*ast.Ident); ok {
		rngObj = info.ObjectOf(id)
	}
	ast.Inspect(loop.Body, func(n ast.Node) bool {
		if as, ok := n.(*ast.AssignStmt); ok && len(as.Lhs) == 1 && len(as.Rhs) == 1 {
			if call, ok := as.Rhs[0].(*ast.CallExpr); ok {
				if id, ok := call.Fun.(*ast.Ident); ok && id.Name == "append" {
					if l, ok := as.Lhs[0].(*ast.Ident); ok {
						movesObj = info.ObjectOf(l)
					}
				}
			}
		}
		return true
	})
	isVar := func(e ast.Expr, obj types.Object) bool {
		id, ok := ast.Unparen(e).(*ast.Ident)
		return ok && obj != nil && info.ObjectOf(id) == obj
	}
	private, reversed, copied := false, false, false
	movesReversed := false
	ast.Inspect(loopD.Decl.Body, func(n ast.Node) bool {
		switch x := n.(type) {
		case *ast.AssignStmt:
			if len(x.Lhs) == 1 && isVar(x.Lhs[0], rngObj) && x.Tok == token.DEFINE {
				if call, ok := x.Rhs[0].(*ast.CallExpr); ok {
					if id, ok := call.Fun.(*ast.Ident); ok && id.Name == "make" {
						private = true
					}
				}
			}
		case *ast.CallExpr:
			if id, ok := x.Fun.(*ast.Ident); ok && id.Name == "copy" && len(x.Args) == 2 && isVar(x.Args[0], rngObj) && strings.HasSuffix(astx.SelectorPath(x.Args[1]), ".Postings") && x.End() < loop.Pos() {
				copied = true
			}
			if f := astx.Callee(info, x); f != nil && f.Pkg() != nil && f.Pkg().Path() == "slices" && f.Name() == "Reverse" && len(x.Args) == 1 {
				if isVar(x.Args[0], rngObj) && x.End() < loop.Pos() {
					reversed = true
				}
				if isVar(x.Args[0], movesObj) && x.Pos() > loop.End() {
					movesReversed = true
				}
			}
		}
		return true
	})
	var insertMoves *ast.CallExpr
	for _, call := range callsTo(info, d.Decl.Body, named("InsertMoves")) {
		insertMoves = call
	}
	if rngObj == nil {
		// ranging directly over tx.Postings (or an expression): positive evidence only when it is the stored slice
		if strings.HasSuffix(astx.SelectorPath(loop.X), ".Postings") {
			c.Fail("FLOW/unwinding", key+":iterates-reversed-private-copy", pos(c, loop), "the unwinding loop iterates tx.Postings itself, in forward order: unwinding must walk a reversed private copy")
		} else {
			c.Unrecognised("FLOW/unwinding", key+":iterates-reversed-private-copy", pos(c, loop), "the unwinding loop ranges over an expression the rule does not read")
		}
	} else {
		c.Check(private && copied && reversed, "FLOW/unwinding", key+":iterates-reversed-private-copy", pos(c, loop),
			"postings := make; copy(postings, tx.Postings); slices.Reverse(postings)", fmt.Sprintf("the unwinding loop must iterate a reversed private copy of tx.Postings (private=%v copied=%v reversed=%v): unwinding in forward order gives wrong per-move volumes, reversing tx.Postings in place changes the stored transaction", private, copied, reversed))
	}
	c.Check(movesReversed && insertMoves != nil && insertMoves.Pos() > loopAt, "FLOW/unwinding", key+":moves-reversed-back", pos(c, loop),
		"slices.Reverse(moves) before InsertMoves", "the moves are not reversed back into posting order before InsertMoves (seq order would be the reverse of the postings)")
	// inside the loop: snapshots and subtractions
	type step struct {
		kind string // snapshot | sub
		role string
		side string
		src  bool
		pos  token.Pos
	}
	var steps []step
	ast.Inspect(loop.Body, func(n ast.Node) bool {
		switch x := n.(type) {
		case *ast.CompositeLit:
			if astx.RecvTypeName(info.TypeOf(x)) != "Move" {
				return true
			}
			st := step{kind: "snapshot", pos: x.Pos()}
			st.role = roleOfExpr(fieldOfCompositeLit(x, "Account"))
			if v := fieldOfCompositeLit(x, "IsSource"); v != nil {
				if id, ok := v.(*ast.Ident); ok && id.Name == "true" {
					st.src = true
				}
			}
			snap := fieldOfCompositeLit(x, "PostCommitVolumes")
			snapRole, snapCopy := "", false
			if snap != nil {
				ast.Inspect(snap, func(y ast.Node) bool {
					if ie, ok := y.(*ast.IndexExpr); ok {
						if r := roleOfExpr(ie.Index); r != "" {
							snapRole = r
						}
					}
					if call, ok := y.(*ast.CallExpr); ok {
						if f := astx.Callee(info, call); f != nil && f.Name() == "Copy" {
							snapCopy = true
						}
					}
					return true
				})
			}
			c.Check(snapRole == st.role && snapCopy && st.role != "", "FLOW/unwinding", fmt.Sprintf("%s:move-%s:snapshot", key, st.role), pos(c, x),
				"PostCommitVolumes: copy of pcv[posting."+st.role+"][asset]", fmt.Sprintf("the %s move snapshots pcv[posting.%s] (copy=%v): each move must carry a copy of its own account's running volumes", st.role, snapRole, snapCopy))
			c.Check(st.src == (st.role == "Source"), "FLOW/unwinding", fmt.Sprintf("%s:move-%s:is-source", key, st.role), pos(c, x),
				"IsSource set exactly on the source move", fmt.Sprintf("IsSource=%v on the %s move", st.src, st.role))
			// the move is dated like its transaction: insertion date and effective date are copied from
			// it explicitly (the column defaults would stamp an imported move with the time of the import)
			for field, want := range map[string]string{"InsertionDate": ".InsertedAt", "EffectiveDate": ".Timestamp", "TransactionID": ".ID"} {
				v := fieldOfCompositeLit(x, field)
				got := ""
				if v != nil {
					got = nospace(types.ExprString(v))
				}
				c.Check(v != nil && strings.HasSuffix(strings.TrimPrefix(got, "*"), want), "FLOW/unwinding", fmt.Sprintf("%s:move-%s:%s", key, st.role, field), pos(c, x),
					field+" = tx"+want, fmt.Sprintf("the %s move does not take %s from the transaction (tx%s), it is %q: a move written while importing or replaying a log is dated by the database default (now) instead of the original date, and point-in-time reads of the copy differ from the source", st.role, field, want, got))
			}
			steps = append(steps, st)
		case *ast.CallExpr:
			if f := astx.Callee(info, x); f != nil && (f.Name() == "AddInput" || f.Name() == "AddOutput") && len(x.Args) == 3 {
				steps = append(steps, step{kind: "sub", role: roleOfExpr(x.Args[0]), side: strings.TrimPrefix(f.Name(), "Add"), pos: x.Pos()})
			}
		}
		return true
	})
	var order []string
	for _, st := range steps {
		order = append(order, st.kind+":"+st.role+st.side)
	}
	want := []string{"snapshot:Destination", "sub:DestinationInput", "snapshot:Source", "sub:SourceOutput"}
	c.Check(strings.Join(order, " ") == strings.Join(want, " "), "FLOW/unwinding", key+":step-order", pos(c, loop), strings.Join(order, " "),
		fmt.Sprintf("loop steps are %v, expected %v: each snapshot must precede the subtraction of the same posting on the same side, destination first", order, want))
	effs := amountEffects(info, loop.Body)
	got := effectSigs(effs)
	c.Check(strings.Join(got, " ") == "(Input,-,Destination) (Output,-,Source)", "FLOW/unwinding", key+":effects", pos(c, loop), strings.Join(got, " "),
		fmt.Sprintf("unwinding effects are %v, expected (Input,-,Destination) (Output,-,Source)", got))
	checkSidesIndependent(c, "FLOW/unwinding", key, effs)
}

func ruleSubtractPostings(c *core.Ctx) {
	d := fn(c, pkgCore, "PostCommitVolumes", "SubtractPostings")
	if d == nil {
		return
	}
	info := d.Pkg.TypesInfo
	key := declKey(d)
	effs := amountEffects(info, d.Decl.Body)
	got := effectSigs(effs)
	c.Check(strings.Join(got, " ") == "(Input,-,Destination) (Output,-,Source)", "FLOW/subtract-postings", key+":effects", pos(c, d.Decl), strings.Join(got, " "),
		fmt.Sprintf("SubtractPostings effects are %v, expected (Input,-,Destination) (Output,-,Source): preCommitVolumes = postCommitVolumes minus the transaction's own postings", got))
	checkSidesIndependent(c, "FLOW/subtract-postings", key, effs)
	// operates on a copy of the receiver
	recv := d.Decl.Recv.List[0].Names[0].Name
	onCopy := true
	copyVar := ""
	ast.Inspect(d.Decl.Body, func(n ast.Node) bool {
		if as, ok := n.(*ast.AssignStmt); ok && len(as.Rhs) == 1 {
			if call, ok := as.Rhs[0].(*ast.CallExpr); ok {
				if f := astx.Callee(info, call); f != nil && f.Name() == "Copy" && astx.SelectorPath(recvExpr(call)) == recv {
					if id, ok := as.Lhs[0].(*ast.Ident); ok {
						copyVar = id.Name
					}
				}
			}
		}
		return true
	})
	for _, e := range effs {
		if astx.SelectorPath(recvExpr(e.Call)) != copyVar || copyVar == "" {
			onCopy = false
		}
	}
	c.Check(onCopy, "FLOW/subtract-postings", key+":on-copy", pos(c, d.Decl), "subtractions applied to a Copy() of the receiver", "SubtractPostings mutates its receiver: marshalling a transaction would change its stored post-commit volumes")
}

func ruleAddInputOutputHelpers(c *core.Ctx) {
	for _, side := range []string{"Input", "Output"} {
		d := fn(c, pkgCore, "PostCommitVolumes", "Add"+side)
		if d == nil {
			continue
		}
		info := d.Pkg.TypesInfo
		key := declKey(d)
		params := d.Decl.Type.Params.List
		var amt types.Object
		if len(params) > 0 {
			last := params[len(params)-1]
			if len(last.Names) > 0 {
				amt = info.Defs[last.Names[len(last.Names)-1]]
			}
		}
		ok := false
		stored := false
		ast.Inspect(d.Decl.Body, func(n ast.Node) bool {
			switch x := n.(type) {
			case *ast.CallExpr:
				if isBigIntMethod(astx.Callee(info, x), "Add") && len(x.Args) == 2 {
					r := astx.SelectorPath(recvExpr(x))
					a0 := astx.SelectorPath(x.Args[0])
					id, _ := ast.Unparen(x.Args[1]).(*ast.Ident)
					if strings.HasSuffix(r, "."+side) && a0 == r && id != nil && info.Uses[id] == amt {
						ok = true
					}
				}
			case *ast.AssignStmt:
				if _, isIdx := x.Lhs[0].(*ast.IndexExpr); isIdx {
					stored = true
				}
			}
			return true
		})
		c.Check(ok && stored, "FLOW/add-helpers", key, pos(c, d.Decl), "adds its amount to ."+side+" and stores the entry back", "Add"+side+" does not add its amount argument to the "+side+" side and store it back")
	}
}

// rulePCVAliasChain: the map UpdateVolumes returns shares its *big.Int values with the model
// rows that receive RETURNING input, output.
func rulePCVAliasChain(c *core.Ctx) {
	d := fn(c, pkgStore, "Store", "UpdateVolumes")
	if d == nil {
		return
	}
	info := d.Pkg.TypesInfo
	key := declKey(d)
	// the variadic parameter
	var param types.Object
	for _, f := range d.Decl.Type.Params.List {
		if _, ok := f.Type.(*ast.Ellipsis); ok && len(f.Names) == 1 {
			param = info.Defs[f.Names[0]]
		}
	}
	if param == nil {
		c.Unknown("ALIAS/pcv", key+":param", pos(c, d.Decl), "variadic volumes parameter not found")
		return
	}
	// (a) model rows embed the argument element by value
	embeds := false
	var modelVar types.Object
	ast.Inspect(d.Decl.Body, func(n ast.Node) bool {
		as, ok := n.(*ast.AssignStmt)
		if !ok || len(as.Rhs) != 1 {
			return true
		}
		call, ok := as.Rhs[0].(*ast.CallExpr)
		if !ok || len(call.Args) != 2 {
			return true
		}
		f := astx.Callee(info, call)
		if f == nil || f.Name() != "Map" {
			return true
		}
		if id, ok := ast.Unparen(call.Args[0]).(*ast.Ident); !ok || info.Uses[id] != param {
			return true
		}
		fl, ok := call.Args[1].(*ast.FuncLit)
		if !ok || len(fl.Type.Params.List) != 1 || len(fl.Type.Params.List[0].Names) != 1 {
			return true
		}
		from := info.Defs[fl.Type.Params.List[0].Names[0]]
		ast.Inspect(fl.Body, func(y ast.Node) bool {
			if cl, ok := y.(*ast.CompositeLit); ok {
				if v := fieldOfCompositeLit(cl, "AccountsVolumes"); v != nil {
					if id, ok := ast.Unparen(v).(*ast.Ident); ok && info.Uses[id] == from {
						embeds = true
					}
				}
			}
			return true
		})
		if id, ok := as.Lhs[0].(*ast.Ident); ok {
			modelVar = info.ObjectOf(id)
		}
		return true
	})
	c.Check(embeds, "ALIAS/pcv", key+":model-rows-embed-argument", pos(c, d.Decl), "rows built as {AccountsVolumes: from}", "the model rows do not embed the caller's AccountsVolumes element by value: RETURNING would be scanned into big.Ints the returned map never sees")
	// (b) Model(&modelVar)
	m := bunModel(c, pkgStore)
	modelOK := false
	for _, s := range stmtsIn(m, d) {
		for _, cl := range s.ClausesNamed("Model") {
			if len(cl.Args) == 1 {
				if ue, ok := cl.Args[0].(*ast.UnaryExpr); ok && ue.Op == token.AND {
					if id, ok := ue.X.(*ast.Ident); ok && info.Uses[id] == modelVar && modelVar != nil {
						modelOK = true
					}
				}
			}
		}
	}
	c.Check(modelOK, "ALIAS/pcv", key+":model-is-mapped-slice", pos(c, d.Decl), "Model(&rows)", "the insert's Model is not the slice of rows built from the argument")
	// (c) returned map entries take Input/Output of the argument elements, without copying
	direct := false
	ast.Inspect(d.Decl.Body, func(n ast.Node) bool {
		rs, ok := n.(*ast.RangeStmt)
		if !ok {
			return true
		}
		if id, ok := ast.Unparen(rs.X).(*ast.Ident); !ok || info.Uses[id] != param {
			return true
		}
		v, _ := rs.Value.(*ast.Ident)
		if v == nil {
			return true
		}
		ast.Inspect(rs.Body, func(y ast.Node) bool {
			if cl, ok := y.(*ast.CompositeLit); ok && astx.RecvTypeName(info.TypeOf(cl)) == "Volumes" {
				in, out := fieldOfCompositeLit(cl, "Input"), fieldOfCompositeLit(cl, "Output")
				if in != nil && out != nil && astx.SelectorPath(in) == v.Name+".Input" && astx.SelectorPath(out) == v.Name+".Output" {
					direct = true
				}
			}
			return true
		})
		return true
	})
	c.Check(direct, "ALIAS/pcv", key+":map-shares-pointees", pos(c, d.Decl), "ret[account][asset] = Volumes{Input: v.Input, Output: v.Output}", "the returned post-commit volumes are not the same *big.Int values as the model rows (copied, swapped or recomputed): they would keep the deltas instead of the totals read back by RETURNING")
}

// ruleImmutableColumns: which columns UPDATE statements may assign.
func ruleImmutableColumns(c *core.Ctx) {
	ws := tableWriters(c)
	for _, w := range opaqueWriters(ws) {
		c.Unknown("WMC/immutable-columns", "opaque-writer:"+w.Origin, w.Pos, "a write statement whose target cannot be determined: "+w.Opaque)
	}
	allowed := map[string]map[string]bool{
		"transactions": {"metadata": true, "updated_at": true, "reverted_at": true},
		"moves":        {"post_commit_effective_volumes": true},
	}
	n := 0
	for _, t := range []string{"transactions", "moves"} {
		for _, o := range c.Catalog().OpaqueMentioning(t) {
			c.Unknown("WMC/immutable-columns", "opaque-sql:"+o.Head, o.Origin, "unclassified migration statement mentions "+t)
		}
		for _, w := range writersOf(ws, t) {
			if w.Kind != "update" && w.Kind != "upsert" {
				continue
			}
			n++
			key := fmt.Sprintf("%s:%s:%s", t, w.Origin, w.Kind)
			if w.ColsOpaque != "" {
				c.Unknown("WMC/immutable-columns", key, w.Pos, "assigned columns unknown: "+w.ColsOpaque)
				continue
			}
			var bad []string
			for _, col := range w.Cols {
				if !allowed[t][col] {
					bad = append(bad, col)
				}
			}
			c.Check(len(bad) == 0, "WMC/immutable-columns", key, w.Pos, fmt.Sprintf("assigns %v", w.Cols),
				fmt.Sprintf("UPDATE of %s assigns %v; only %v may change after insert (postings, ids, dates and post-commit volumes are immutable)", t, bad, keysOf(allowed[t])))
		}
	}
	c.Floor("WMC/immutable-columns", "UPDATE statements on transactions/moves", n, 4)
	// sanity of the statement model: the known Go updaters of transactions are present
	_ = bunq.Model{}
}

func keysOf(m map[string]bool) []string {
	var out []string
	for k := range m {
		out = append(out, k)
	}
	return out
}

var (
	reFirstValuePCV = regexp.MustCompile(`first_value\(\s*(?:moves\.)?post_commit_volumes\s*\)\s*over\s*\(`)
	reLastKeySeqDesc = regexp.MustCompile(`(?:^|[\s,.])seq\s+desc\s*$`)
)

// ruleBackfillTakesLastMove (CAT): a migration that derives a transaction's post_commit_volumes
// from the moves table picks, per (transaction, account, asset), one move out of several: it must
// be the last one (highest seq), the state right after the whole transaction. Read off the SQL
// text of every migration: a `DISTINCT ON (…)` sub-select over moves that yields
// post_commit_volumes either through `first_value(post_commit_volumes) over (… order by … seq
// desc)` or, when the column is taken as is, through an `order by … seq desc` of its own.
func ruleBackfillTakesLastMove(c *core.Ctx) {
	dir := filepath.Join(c.RepoDir, "internal/storage/bucket/migrations")
	files, _ := filepath.Glob(filepath.Join(dir, "*", "up.sql"))
	sort.Strings(files)
	n := 0
	for _, f := range files {
		b, err := c.ReadFile(f)
		if err != nil {
			continue
		}
		txt := strings.ToLower(string(b))
		// drop line comments
		var sb strings.Builder
		for _, line := range strings.Split(txt, "\n") {
			if i := strings.Index(line, "--"); i >= 0 {
				line = line[:i]
			}
			sb.WriteString(line)
			sb.WriteString(" ")
		}
		txt = strings.Join(strings.Fields(sb.String()), " ")
		rel, _ := filepath.Rel(c.RepoDir, f)
		for at := 0; ; {
			i := strings.Index(txt[at:], "distinct on (")
			if i < 0 {
				break
			}
			start := at + i
			// the sub-select ends where the parenthesis that encloses it closes
			depth, end := 0, len(txt)
			for j := start; j < len(txt); j++ {
				switch txt[j] {
				case '(':
					depth++
				case ')':
					depth--
					if depth < 0 {
						end = j
						j = len(txt)
					}
				}
			}
			seg := txt[start:end]
			at = start + len("distinct on (")
			if !strings.Contains(seg, "post_commit_volumes") || !strings.Contains(seg, "from moves") {
				continue
			}
			// one row per (transaction, account, asset), chosen by DISTINCT ON itself: legacy
			// helper functions that aggregate with first(…) … group by are another construct
			onList := seg[len("distinct on ("):]
			if k := strings.Index(onList, ")"); k >= 0 {
				onList = onList[:k]
			}
			if !(strings.Contains(onList, "transactions_seq") || strings.Contains(onList, "transactions_id")) || strings.Contains(seg, "group by") {
				continue
			}
			n++
			key := fmt.Sprintf("%s:distinct-on#%d", rel, n)
			wins := reFirstValuePCV.FindAllStringIndex(seg, -1)
			ok := true
			detail := ""
			if len(wins) > 0 {
				for _, w := range wins {
					// window body up to its closing parenthesis
					d, e := 1, len(seg)
					for j := w[1]; j < len(seg); j++ {
						if seg[j] == '(' {
							d++
						} else if seg[j] == ')' {
							d--
							if d == 0 {
								e = j
								break
							}
						}
					}
					body := seg[w[1]:e]
					k := strings.LastIndex(body, "order by")
					if k < 0 || !reLastKeySeqDesc.MatchString(strings.TrimSpace(body[k:])) {
						ok = false
						detail = "window `" + strings.TrimSpace(body) + "`"
					}
				}
			} else {
				k := strings.LastIndex(seg, "order by")
				if k < 0 || !reLastKeySeqDesc.MatchString(strings.TrimSpace(seg[k:])) {
					ok = false
					detail = "DISTINCT ON without a window keeps the first row of its ORDER BY, which is not `… seq desc`"
				}
			}
			c.Check(ok, "CAT/pcv-backfill", key, rel, "the move kept per (transaction, account, asset) is the last one by seq", "this migration fills post_commit_volumes from a move that is not the last one of the transaction for that account and asset ("+detail+"): a transaction touching an account several times gets the volumes of an intermediate state, and its pre-commit volumes go wrong (negative) with them")
		}
	}
	c.Floor("CAT/pcv-backfill", "back-fills of post_commit_volumes from moves in the migrations", n, 1)
}
