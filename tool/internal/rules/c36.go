package rules

import (
	"fmt"
	"go/ast"
	"go/types"
	"sort"
	"strings"

	"ledgerlint/internal/astx"
	"ledgerlint/internal/core"
	"ledgerlint/internal/load"
	"ledgerlint/internal/sqlfe"
)

func init() {
	register("C36", checkC36)
	addBreakers("C36",
		Breaker{Name: "amount-through-float64", File: "internal/machine/vm/run.go",
			Old: "\t\t\t\tif exact, ok := new(big.Int).SetString(amount.String(), 10); ok {\n\t\t\t\t\ts.Script.Vars[k] = fmt.Sprintf(\"%s %s\", v[\"asset\"], exact.String())\n\t\t\t\t} else {", New: "\t\t\t\tif exact, ok := new(big.Int).SetString(amount.String(), 10); ok && exact.IsInt64() {\n\t\t\t\t\ts.Script.Vars[k] = fmt.Sprintf(\"%s %d\", v[\"asset\"], exact.Int64())\n\t\t\t\t} else {", Expect: "NUM/narrowing"},
		Breaker{Name: "script-vars-decoded-without-usenumber", File: "internal/machine/vm/run.go",
			Old: "\tdec := json.NewDecoder(bytes.NewReader(data))\n\tdec.UseNumber()\n", New: "\tdec := json.NewDecoder(bytes.NewReader(data))\n", Expect: "NUM/decode-any"},
		Breaker{Name: "run-query-response-through-float64", File: "internal/api/v2/controllers_queries_run.go",
			Old: "\t\tdec.UseNumber()\n\t\terr = dec.Decode(&fields)", New: "\t\terr = dec.Decode(&fields)", Expect: "NUM/decode-any"},
		Breaker{Name: "bulk-script-vars-any-without-usenumber", File: "internal/api/bulking/elements.go",
			Old: "\tIdempotencyKey string `json:\"ik\"`\n\tData           any    `json:\"data\"`\n", New: "\tIdempotencyKey string `json:\"ik\"`\n\tData           any    `json:\"data\"`\n\tExtra          map[string]any `json:\"extra\"`\n", Expect: "NUM/decode-any"},
		Breaker{Name: "posting-amount-as-int64", File: "internal/controller/ledger/controller_default.go",
			Old: "if finalBalance.Cmp(new(big.Int)) < 0 && account != \"world\" {", New: "if finalBalance.Int64() < 0 && account != \"world\" {", Expect: "NUM/narrowing"},
		Breaker{Name: "volumes-column-bigint", File: "internal/storage/bucket/migrations/11-make-stateless/up.sql",
			Old: "\tinput numeric not null,\n", New: "\tinput bigint not null,\n", Expect: "NUM/sql-types"},
		Breaker{Name: "move-amount-tag-bigint", File: "internal/moves.go",
			Old: "`bun:\"amount,type:numeric\"`", New: "`bun:\"amount,type:bigint\"`", Expect: "NUM/bun-tags"},
		Breaker{Name: "aggregated-sum-as-float", File: "internal/storage/ledger/resource_aggregated_balances.go",
			Old: "sum(((volumes).inputs)::numeric)", New: "sum(((volumes).inputs)::float8)", Expect: "NUM/sql-casts"},
		Breaker{Name: "balance-filter-float-parse", File: "internal/queries/filter_template.go",
			Old: "\t\tif x, ok := new(big.Int).SetString(string(*v), 10); ok {\n\t\t\treturn x, nil", New: "\t\tif f, err := v.Float64(); err == nil {\n\t\t\treturn big.NewInt(int64(f)), nil", Expect: "NUM/float-to-int"},
	)
}

// numAllow lists, by function and kind, the float/narrowing uses that do not carry amounts, with the
// number of occurrences confirmed by reading; one more occurrence in the same function is reported.
type numAllowed struct {
	what string
	max  int
	why  string
}

var numAllow = map[string][]numAllowed{
	"internal/machine/vm.(ScriptV1).ToCore": {
		{"float-to-int", 2, "legacy conversion for amounts written in fractional/exponent notation or supplied programmatically as float64; integral JSON literals take the exact json.Number arm (NUM/decode-any)"},
		{"json.Number.Float64", 1, "reached only when the literal is not an integer (SetString failed)"},
	},
	"internal/machine/script/compiler.(CompileErrorList).Error": {{"float-to-int", 1, "line-number padding of a compiler message"}},
	"internal/machine/vm.(Machine).tick": {
		{"MonetaryInt.Uint64", 3, "portion/argument counts the compiler emits (OP_MAKE_ALLOTMENT, OP_FUNDING_ASSEMBLE), never amounts"},
		{"big.Int.Uint64", 1, "OP_BUMP stack offset the compiler emits, never an amount"},
	},
	"internal/queries.jsonToString":                        {{"float-to-int64", 1, "substitution into string-typed fields (addresses, metadata) only; request variables arrive as json.Number (NUM/decode-any on RunQuery)"}},
	"internal/queries.resolveValue":                        {{"big.Float", 2, "fallback for float64 values supplied programmatically, exactness-checked with big.Exact; request variables arrive as json.Number (NUM/decode-any on RunQuery.UnmarshalJSON) and take the SetString path"}},
	"internal/queries.validateValueType":                   {{"big.Float", 2, "validation of a declared default only (IsInt test); defaults are decoded with UseNumber"}},
	"internal/machine.(MonetaryInt).Uint64":                {{"big.Int.Uint64", 1, "the accessor itself; each of its call sites is an obligation"}},
	"internal/storage/common.convertPaginationIDToSQLType": {{"big.Int.Int64", 1, "TypeDate arm: the pagination id is a timestamp in microseconds, not an amount"}},
}

func checkC36(c *core.Ctx) {
	c.Decide("on the request→storage path (internal/{api,controller,machine,queries,storage} and the core package) no floating-point value is converted to an integer, no big.Int / MonetaryInt is narrowed to int64/uint64, no amount is parsed with ParseFloat or held in a big.Float, outside an enumerated list of non-amount uses; JSON bodies that can carry numeric amounts into `any` are decoded with UseNumber; every amount/volume column of the folded SQL catalog is numeric (composite type volumes included) and SQL expressions over them cast only to numeric; the bun tags of amount fields say numeric")
	c.NotDecided("round trips through the pgx driver; arithmetic results")
	c.Trust("math/big and Postgres numeric are arbitrary precision")
	ruleNoLossyNumerics(c)
	ruleDecodeAnyUsesNumber(c)
	ruleDecodeSites(c)
	ruleSQLAmountTypes(c)
	ruleSQLFunctionNumericTypes(c)
}

func isFloat(t types.Type) bool {
	b, ok := t.Underlying().(*types.Basic)
	return ok && b.Info()&types.IsFloat != 0
}
func isInteger(t types.Type) bool {
	b, ok := t.Underlying().(*types.Basic)
	return ok && b.Info()&types.IsInteger != 0
}

var numPackages = []string{pkgCore, pkgCtrl, pkgSysCtrl, pkgStore, pkgCommon, pkgQueries, pkgMachine, pkgVM, pkgProgram, pkgCompiler, pkgAPIv1, pkgAPIv2, pkgBulk, pkgAPICommon, "internal/machine/vm/program"}

func ruleNoLossyNumerics(c *core.Ctx) {
	n := 0
	seenPk := map[string]bool{}
	for _, rel := range numPackages {
		if seenPk[rel] {
			continue
		}
		seenPk[rel] = true
		pk := c.Prog().Pkg(rel)
		if pk == nil {
			continue
		}
		info := pk.TypesInfo
		for _, f := range pk.Syntax {
			if load.IsGenerated(f) {
				continue
			}
			for _, dd := range f.Decls {
				fd, ok := dd.(*ast.FuncDecl)
				if !ok || fd.Body == nil {
					continue
				}
				n++
				fkey := enclKey(rel, fd)
				if obj := load.FuncObj(pk, fd); obj != nil {
					fkey = astx.FuncKey(obj)
				}
				occ := map[string]int{}
				report := func(rule, what string, at ast.Node, detail string) {
					occ[rule+what]++
					key := fmt.Sprintf("%s:%s#%d", fkey, what, occ[rule+what])
					for _, a := range numAllow[fkey] {
						if what == a.what && occ[rule+what] <= a.max {
							c.Pass(rule, key, pos(c, at), "allowed: "+a.why)
							return
						}
					}
					// an unexported helper all of whose callers are allowed for this kind of use
					// (a piece of one of them moved into a function) inherits their allowance
					if why := numAllowedByCallers(c, load.FuncObj(pk, fd), what, 0); why != "" {
						c.Pass(rule, key, pos(c, at), "allowed (helper of): "+why)
						return
					}
					c.Fail(rule, key, pos(c, at), detail)
				}
				ast.Inspect(fd.Body, func(x ast.Node) bool {
					call, ok := x.(*ast.CallExpr)
					if !ok {
						return true
					}
					// conversions T(x)
					if tv, ok := info.Types[call.Fun]; ok && tv.IsType() && len(call.Args) == 1 {
						src := info.TypeOf(call.Args[0])
						if src != nil && isInteger(tv.Type) && isFloat(src) {
							report("NUM/float-to-int", "float-to-"+tv.Type.String(), call, fmt.Sprintf("a %s is converted to %s: above 2^53 the value has already lost digits and above 2^63 the conversion overflows", src, tv.Type))
						}
						return true
					}
					f := astx.Callee(info, call)
					if f == nil {
						return true
					}
					sig, _ := f.Type().(*types.Signature)
					recv := ""
					if sig != nil && sig.Recv() != nil {
						recv = astx.RecvTypeName(sig.Recv().Type())
					}
					pkgPath := ""
					if f.Pkg() != nil {
						pkgPath = f.Pkg().Path()
					}
					switch {
					case pkgPath == "math/big" && recv == "Int" && (f.Name() == "Int64" || f.Name() == "Uint64"):
						report("NUM/narrowing", "big.Int."+f.Name(), call, "a big.Int is narrowed with "+f.Name()+"(): amounts above 2^63 / 2^64 are silently truncated")
					case recv == "MonetaryInt" && (f.Name() == "Uint64" || f.Name() == "Int64"):
						report("NUM/narrowing", "MonetaryInt."+f.Name(), call, "a MonetaryInt is narrowed with "+f.Name()+"()")
					case pkgPath == "math/big" && (recv == "Float" || f.Name() == "NewFloat" || f.Name() == "ParseFloat"):
						report("NUM/float-to-int", "big.Float", call, "an amount path uses big.Float")
					case pkgPath == "strconv" && f.Name() == "ParseFloat":
						report("NUM/float-to-int", "strconv.ParseFloat", call, "a number is parsed as float64: integers above 2^53 lose digits")
					case pkgPath == "encoding/json" && recv == "Number" && f.Name() == "Float64":
						report("NUM/float-to-int", "json.Number.Float64", call, "a JSON number is read as float64")
					}
					return true
				})
			}
		}
	}
	c.Floor("NUM/float-to-int", "functions scanned on the request→storage path", n, 400)
	c.Stats["num_functions_scanned"] = n
}

// ruleDecodeAnyUsesNumber: a struct that receives request JSON into an `any`-typed field
// which later feeds amounts must decode with UseNumber. Instances are the types whose ToCore
// turns `any` values into monetary strings.
func ruleDecodeAnyUsesNumber(c *core.Ctx) {
	d := fn(c, pkgVM, "ScriptV1", "UnmarshalJSON")
	if d == nil {
		c.Fail("NUM/decode-any", pkgVM+".(ScriptV1).UnmarshalJSON:declared", "", "ScriptV1 carries script variables as map[string]any (amounts may be JSON numbers) but has no UnmarshalJSON: the default decoder turns numbers into float64")
		return
	}
	info := d.Pkg.TypesInfo
	use := len(callsTo(info, d.Decl.Body, named("UseNumber"))) == 1
	c.Check(use, "NUM/decode-any", declKey(d)+":UseNumber", pos(c, d.Decl), "decoder.UseNumber()", "ScriptV1.UnmarshalJSON decodes without UseNumber: numeric amounts become float64 and lose digits above 2^53")
	// and ToCore has a json.Number arm that formats the literal digits
	if t := fn(c, pkgVM, "ScriptV1", "ToCore"); t != nil {
		// somewhere in ToCore (or a helper it calls) the digits of a json.Number are parsed exactly:
		// SetString(<json.Number>.String(), 10) — whether the arm is a type-switch case or an if
		arm := false
		inScope(fnScope(c, t, 3), func(sd *astx.DeclInfo) {
			si := sd.Pkg.TypesInfo
			for _, call := range callsTo(si, sd.Decl.Body, named("SetString")) {
				if len(call.Args) < 1 {
					continue
				}
				ast.Inspect(call.Args[0], func(n ast.Node) bool {
					if e, ok := n.(ast.Expr); ok {
						if tt := si.TypeOf(e); tt != nil && astx.IsNamed(tt, "encoding/json", "Number") {
							arm = true
						}
					}
					return true
				})
			}
		})
		c.Check(arm, "NUM/decode-any", declKey(t)+":json.Number-arm", pos(c, t.Decl), "json.Number → exact digits", "ScriptV1.ToCore has no arm turning a json.Number amount into its exact digits")
	}
}

// decodeAnyAllow: decode sites whose `any` slots never hold an amount.
var decodeAnyAllow = map[string]string{
	"internal.(ChartOfAccounts).UnmarshalJSON": "chart of accounts: segment names, patterns and metadata defaults; no amounts",
	"internal.(ChartSegment).UnmarshalJSON":    "chart of accounts segment; no amounts",
	"internal.(SavedMetadata).UnmarshalJSON":   "targetId of an account target is an address string; transaction ids are parsed with ParseUint",
	"internal.(DeletedMetadata).UnmarshalJSON": "targetId of an account target is an address string; transaction ids are parsed with ParseUint",
	"internal.checkForExtraFields":             "only the key set of the decoded object is inspected",
}

func numAllowedByCallers(c *core.Ctx, f *types.Func, what string, depth int) string {
	if f == nil || f.Exported() || depth > 2 {
		return ""
	}
	why := ""
	n := 0
	for _, s := range index(c).SitesOf(f) {
		if s.Encl == nil || strings.HasSuffix(c.Prog().Rel(s.Call.Pos()), "_test.go") {
			continue
		}
		n++
		caller := load.FuncObj(s.Pkg, s.Encl)
		if caller == nil {
			return ""
		}
		found := ""
		for _, a := range numAllow[astx.FuncKey(caller)] {
			if a.what == what {
				found = a.why
			}
		}
		if found == "" {
			found = numAllowedByCallers(c, caller, what, depth+1)
		}
		if found == "" {
			return ""
		}
		why = found
	}
	if n == 0 {
		return ""
	}
	return why
}

// decodeAllowedByCallers: an unexported helper all of whose callers are allowed decode sites (a
// piece of one of them moved into a function) inherits their reason.
func decodeAllowedByCallers(c *core.Ctx, f *types.Func, depth int) string {
	if f == nil || f.Exported() || depth > 2 {
		return ""
	}
	why := ""
	n := 0
	for _, s := range index(c).SitesOf(f) {
		if s.Encl == nil || strings.HasSuffix(c.Prog().Rel(s.Call.Pos()), "_test.go") {
			continue
		}
		n++
		caller := load.FuncObj(s.Pkg, s.Encl)
		if caller == nil {
			return ""
		}
		if w, ok := decodeAnyAllow[astx.FuncKey(caller)]; ok {
			why = w
			continue
		}
		if w := decodeAllowedByCallers(c, caller, depth+1); w != "" {
			why = w
			continue
		}
		return ""
	}
	if n == 0 {
		return ""
	}
	return why
}

// containsAny reports a path to an empty-interface slot reachable by the default JSON decoder
// from t; it stops at types that define their own UnmarshalJSON (those bodies are scanned as
// functions of their own).
func containsAny(t types.Type, seen map[types.Type]bool, path string) string {
	if seen[t] {
		return ""
	}
	seen[t] = true
	if n, ok := t.(*types.Named); ok {
		for _, tt := range []types.Type{n, types.NewPointer(n)} {
			ms := types.NewMethodSet(tt)
			for i := 0; i < ms.Len(); i++ {
				if nm := ms.At(i).Obj().Name(); nm == "UnmarshalJSON" || nm == "UnmarshalText" {
					return ""
				}
			}
		}
	}
	if a, ok := t.(*types.Alias); ok {
		return containsAny(types.Unalias(a), seen, path)
	}
	switch u := t.Underlying().(type) {
	case *types.Interface:
		if u.NumMethods() == 0 {
			return path
		}
	case *types.Pointer:
		return containsAny(u.Elem(), seen, path)
	case *types.Slice:
		return containsAny(u.Elem(), seen, path+"[]")
	case *types.Array:
		return containsAny(u.Elem(), seen, path+"[]")
	case *types.Map:
		return containsAny(u.Elem(), seen, path+"[k]")
	case *types.Struct:
		return structAny(u, seen, path, map[string]bool{})
	}
	return ""
}

// structAny follows encoding/json's field resolution: a field of an embedded struct is hidden by a
// field with the same JSON name at a shallower depth (the `type X struct{ Aux; Data json.RawMessage }`
// idiom).
func structAny(u *types.Struct, seen map[types.Type]bool, path string, hidden map[string]bool) string {
	jsonName := func(i int) string {
		name := strings.Split(reflectTag(u.Tag(i), "json"), ",")[0]
		if name == "" {
			name = u.Field(i).Name()
		}
		return name
	}
	here := map[string]bool{}
	for k := range hidden {
		here[k] = true
	}
	for i := 0; i < u.NumFields(); i++ {
		if f := u.Field(i); f.Exported() && !(f.Embedded() && reflectTag(u.Tag(i), "json") == "") {
			here[jsonName(i)] = true
		}
	}
	for i := 0; i < u.NumFields(); i++ {
		f := u.Field(i)
		tag := reflectTag(u.Tag(i), "json")
		if !f.Exported() || tag == "-" {
			continue
		}
		if f.Embedded() && tag == "" {
			ft := f.Type()
			if p, ok := ft.Underlying().(*types.Pointer); ok {
				ft = p.Elem()
			}
			if es, ok := ft.Underlying().(*types.Struct); ok && !hasUnmarshaler(ft) {
				if p := structAny(es, seen, path+"."+f.Name(), here); p != "" {
					return p
				}
				continue
			}
		}
		if hidden[jsonName(i)] {
			continue
		}
		if p := containsAny(f.Type(), seen, path+"."+f.Name()); p != "" {
			return p
		}
	}
	return ""
}

func hasUnmarshaler(t types.Type) bool {
	n, ok := types.Unalias(t).(*types.Named)
	if !ok {
		return false
	}
	for _, tt := range []types.Type{n, types.NewPointer(n)} {
		ms := types.NewMethodSet(tt)
		for i := 0; i < ms.Len(); i++ {
			if nm := ms.At(i).Obj().Name(); nm == "UnmarshalJSON" || nm == "UnmarshalText" {
				return true
			}
		}
	}
	return false
}

func isTypeParam(t types.Type) bool { _, ok := t.(*types.TypeParam); return ok }

// instantiationsOf lists the type arguments bound to tp over every instantiation of generic
// function f in the repository; an instantiation with another type parameter is followed one level.
func instantiationsOf(c *core.Ctx, f *types.Func, tp *types.TypeParam) []types.Type {
	var out []types.Type
	if f == nil {
		return nil
	}
	for _, pk := range c.Prog().RepoPackages() {
		for id, inst := range pk.TypesInfo.Instances {
			obj, _ := pk.TypesInfo.Uses[id].(*types.Func)
			if obj == nil || obj.Origin() != f || inst.TypeArgs == nil || tp.Index() >= inst.TypeArgs.Len() {
				continue
			}
			out = append(out, inst.TypeArgs.At(tp.Index()))
		}
	}
	sort.Slice(out, func(i, j int) bool { return out[i].String() < out[j].String() })
	return out
}

// concreteAssigned collects T for assignments `v = &T{}` / `v = new(T)` / `v = T{}` to obj.
func concreteAssigned(info *types.Info, body *ast.BlockStmt, obj types.Object) []types.Type {
	var out []types.Type
	ast.Inspect(body, func(n ast.Node) bool {
		as, ok := n.(*ast.AssignStmt)
		if !ok || len(as.Lhs) != len(as.Rhs) {
			return true
		}
		for i, l := range as.Lhs {
			id, ok := l.(*ast.Ident)
			if !ok || info.ObjectOf(id) != obj {
				continue
			}
			if t := info.TypeOf(as.Rhs[i]); t != nil && !types.IsInterface(t) {
				if p, ok := t.Underlying().(*types.Pointer); ok {
					t = p.Elem()
				}
				out = append(out, t)
			}
		}
		return true
	})
	return out
}

func reflectTag(tag, key string) string {
	i := strings.Index(tag, key+`:"`)
	if i < 0 {
		return ""
	}
	rest := tag[i+len(key)+2:]
	if j := strings.Index(rest, `"`); j >= 0 {
		return rest[:j]
	}
	return rest
}

// ruleDecodeSites: every JSON decode on the request path whose target can receive a number into
// an `any` slot uses a decoder with UseNumber.
func ruleDecodeSites(c *core.Ctx) {
	n := 0
	for _, rel := range []string{pkgCore, pkgCtrl, pkgSysCtrl, pkgCommon, pkgQueries, pkgMachine, pkgVM, pkgAPIv1, pkgAPIv2, pkgBulk, pkgAPICommon} {
		pk := c.Prog().Pkg(rel)
		if pk == nil {
			continue
		}
		info := pk.TypesInfo
		for _, f := range pk.Syntax {
			if load.IsGenerated(f) {
				continue
			}
			for _, dd := range f.Decls {
				fd, ok := dd.(*ast.FuncDecl)
				if !ok || fd.Body == nil {
					continue
				}
				fkey := enclKey(rel, fd)
				if obj := load.FuncObj(pk, fd); obj != nil {
					fkey = astx.FuncKey(obj)
				}
				numbered := map[types.Object]bool{}
				for _, u := range callsTo(info, fd.Body, named("UseNumber")) {
					if id := astx.RootIdent(recvExpr(u)); id != nil {
						numbered[info.ObjectOf(id)] = true
					}
				}
				occ := 0
				ast.Inspect(fd.Body, func(x ast.Node) bool {
					call, ok := x.(*ast.CallExpr)
					if !ok {
						return true
					}
					cal := astx.Callee(info, call)
					if cal == nil || cal.Pkg() == nil || cal.Pkg().Path() != "encoding/json" {
						return true
					}
					var target ast.Expr
					useNum := false
					switch {
					case cal.Name() == "Unmarshal" && len(call.Args) == 2:
						target = call.Args[1]
					case cal.Name() == "Decode" && len(call.Args) == 1:
						target = call.Args[0]
						if id := astx.RootIdent(recvExpr(call)); id != nil && numbered[info.ObjectOf(id)] {
							useNum = true
						}
					default:
						return true
					}
					tt := info.TypeOf(target)
					if tt == nil {
						return true
					}
					if p, ok := tt.Underlying().(*types.Pointer); ok {
						// the pointee itself, even if it defines UnmarshalJSON, is what gets filled:
						// its own method handles it
						tt = p.Elem()
					}
					n++
					qual := func(p *types.Package) string { return p.Name() }
					var cands []types.Type
					switch {
					case isTypeParam(tt):
						// one obligation per instantiation of the enclosing generic function
						cands = instantiationsOf(c, load.FuncObj(pk, fd), tt.(*types.TypeParam))
					case types.IsInterface(tt):
						// `var req any; req = &T{}`: the concrete types assigned in this function
						tx := ast.Unparen(target)
						if u, ok := tx.(*ast.UnaryExpr); ok {
							tx = ast.Unparen(u.X)
						}
						if id, ok := tx.(*ast.Ident); ok {
							cands = concreteAssigned(info, fd.Body, info.ObjectOf(id))
						}
						if len(cands) == 0 {
							cands = []types.Type{tt}
						}
					default:
						cands = []types.Type{tt}
					}
					occ++
					seenCand := map[string]bool{}
					for _, ct := range cands {
						name := types.TypeString(ct, qual)
						if seenCand[name] {
							continue
						}
						seenCand[name] = true
						slot := containsAny(ct, map[types.Type]bool{}, name)
						if slot == "" {
							continue
						}
						// one obligation per concrete target type (per instantiation for generic decoders)
						key := fmt.Sprintf("%s:decode#%d", fkey, occ)
						if len(cands) > 1 || isTypeParam(tt) {
							key = fmt.Sprintf("%s[%s]:decode#%d", fkey, name, occ)
						}
						if why, ok := decodeAnyAllow[fkey]; ok {
							c.Pass("NUM/decode-any", key, pos(c, call), "allowed: "+why)
							continue
						}
						if why := decodeAllowedByCallers(c, load.FuncObj(pk, fd), 0); why != "" {
							c.Pass("NUM/decode-any", key, pos(c, call), "allowed (helper of): "+why)
							continue
						}
						c.Check(useNum, "NUM/decode-any", key, pos(c, call), "UseNumber before decoding into "+slot, "JSON is decoded into "+slot+" (an `any` slot) without UseNumber: a numeric amount arrives as float64 and loses digits above 2^53")
					}
					return true
				})
			}
		}
	}
	c.Floor("NUM/decode-any", "JSON decode sites examined", n, 20)
	c.Stats["num_decode_sites"] = n
}

func ruleSQLAmountTypes(c *core.Ctx) {
	cat := c.Catalog()
	want := map[string][]string{"moves": {"amount"}, "accounts_volumes": {"input", "output"}}
	for _, t := range sortedKeysOf(want) {
		tb := cat.Tables[t]
		if tb == nil {
			c.Fail("NUM/sql-types", t+":exists", "", "table "+t+" not in the folded catalog")
			continue
		}
		for _, col := range want[t] {
			cc := tb.Col(col)
			c.Check(cc != nil && cc.Type == "numeric", "NUM/sql-types", t+"."+col, tb.Origin, "numeric", fmt.Sprintf("column %s.%s has type %v, expected numeric (arbitrary precision)", t, col, colType(cc)))
		}
	}
	if ty, ok := cat.Types["volumes"]; ok {
		c.Check(strings.Count(ty, "numeric") == 2, "NUM/sql-types", "type:volumes", "", "volumes(inputs numeric, outputs numeric)", "composite type volumes is "+ty)
	}
	// SQL casts over volumes in Go-built clauses
	m := bunModel(c, pkgStore)
	n := 0
	for _, s := range m.Stmts {
		for _, cl := range s.Clauses {
			for _, alt := range cl.SQL {
				low := strings.ToLower(alt)
				if !strings.Contains(low, "::") || !(strings.Contains(low, "input") || strings.Contains(low, "output") || strings.Contains(low, "amount") || strings.Contains(low, "balance")) {
					continue
				}
				for _, bad := range []string{"::float", "::double", "::real", "::int", "::bigint", "::integer", "::smallint"} {
					n++
					c.Check(!strings.Contains(low, bad), "NUM/sql-casts", fmt.Sprintf("%s:%s:%s", enclKey(pkgStore, s.Encl), cl.Method, bad), pos(c, cl.Call), "no lossy cast", "an amount/volume expression is cast with "+bad+": "+alt)
				}
			}
		}
	}
	// bun tags
	for _, ft := range []struct{ rel, typ, field, wantCol string }{{pkgCore, "Move", "Amount", "amount"}} {
		nt := namedType(c, ft.rel, ft.typ)
		ok := false
		got := ""
		if nt != nil {
			for _, bf := range bunFields(nt, 0) {
				if bf.Field == ft.field {
					got = bf.Type
					ok = bf.Type == "numeric" && bf.Column == ft.wantCol
				}
			}
		}
		c.Check(ok, "NUM/bun-tags", ft.typ+"."+ft.field, "", "type:numeric", fmt.Sprintf("%s.%s is mapped with bun type %q, expected numeric", ft.typ, ft.field, got))
	}
	// amount-carrying Go fields are *big.Int (or big-int wrappers), never machine integers
	for _, ft := range []struct {
		rel, typ string
		fields   []string
	}{{pkgCore, "Posting", []string{"Amount"}}, {pkgCore, "Volumes", []string{"Input", "Output"}}, {pkgCore, "AccountsVolumes", []string{"Input", "Output"}}} {
		nt := namedType(c, ft.rel, ft.typ)
		if nt == nil {
			c.Unknown("NUM/go-types", ft.typ, "", "type not found")
			continue
		}
		st, _ := nt.Underlying().(*types.Struct)
		for _, fn := range ft.fields {
			ok := false
			got := "?"
			for i := 0; st != nil && i < st.NumFields(); i++ {
				if st.Field(i).Name() == fn {
					got = st.Field(i).Type().String()
					ok = astx.IsNamed(st.Field(i).Type(), "math/big", "Int")
				}
			}
			c.Check(ok, "NUM/go-types", ft.typ+"."+fn, "", "*big.Int", fmt.Sprintf("%s.%s has type %s, expected *big.Int", ft.typ, fn, got))
		}
	}
}

func colType(cc *sqlfe.Column) string {
	if cc == nil {
		return "<missing>"
	}
	return cc.Type
}

func sortedKeysOf(m map[string][]string) []string {
	var out []string
	for k := range m {
		out = append(out, k)
	}
	sort.Strings(out)
	return out
}
