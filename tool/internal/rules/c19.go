package rules

import (
	"fmt"
	"go/ast"
	"go/token"
	"go/types"
	"sort"
	"strings"

	"ledgerlint/internal/astx"
	"ledgerlint/internal/bunq"
	"ledgerlint/internal/core"
	"ledgerlint/internal/sqlfe"
)

func init() {
	register("C19", checkC19)
	addBreakers("C19",
		Breaker{Name: "find-schema-without-ledger", File: "internal/storage/ledger/schema.go",
			Old: "\t\tWhere(\"version = ?\", version).\n\t\tWhere(\"ledger = ?\", s.ledger.Name).", New: "\t\tWhere(\"version = ?\", version).", Expect: "SCOPE/statement"},
		Breaker{Name: "delete-account-metadata-without-ledger", File: "internal/storage/ledger/accounts.go",
			Old: "\t\t\t\tWhere(\"address = ?\", account).\n\t\t\t\tWhere(\"ledger = ?\", store.ledger.Name).", New: "\t\t\t\tWhere(\"address = ?\", account).", Expect: "SCOPE/statement"},
		Breaker{Name: "ik-lookup-bound-to-other-value", File: "internal/storage/ledger/logs.go",
			Old: "Where(\"ledger = ?\", store.ledger.Name).\n\t\t\t\tLimit(1).", New: "Where(\"ledger = ?\", store.ledger.Bucket).\n\t\t\t\tLimit(1).", Expect: "SCOPE/statement"},
		Breaker{Name: "expand-volumes-unscoped-select", File: "internal/storage/ledger/resource_accounts.go",
			Old: "selectRowsQuery := h.store.newScopedSelect().\n\t\tWhere(\"accounts_address in (select address from dataset)\")", New: "selectRowsQuery := h.store.db.NewSelect().\n\t\tWhere(\"accounts_address in (select address from dataset)\")", Expect: "SCOPE/statement"},
		Breaker{Name: "insert-moves-without-ledger-value", File: "internal/storage/ledger/moves.go",
			Old: "\t\t\t\tValue(\"ledger\", \"?\", store.ledger.Name).\n", New: "", Expect: "SCOPE/statement"},
		Breaker{Name: "upsert-accounts-update-arm-unscoped", File: "internal/storage/ledger/accounts.go",
			Old: "WHERE a.address = d.address and ledger = ?2 and (d.first_usage", New: "WHERE a.address = d.address and (d.first_usage", Expect: "SCOPE/raw"},
		Breaker{Name: "scoped-select-skips-predicate-when-flag-missing", File: "internal/storage/ledger/store.go",
			Old: "store.disableScopedSelectOptimization || store.aloneInBucket == nil || !store.aloneInBucket.Load()", New: "store.disableScopedSelectOptimization || (store.aloneInBucket != nil && !store.aloneInBucket.Load())", Expect: "SCOPE/scoped-select-guard"},
		Breaker{Name: "alone-when-at-most-two", File: "internal/storage/driver/driver.go",
			Old: "\tstore.SetAloneInBucket(count == 1)", New: "\tstore.SetAloneInBucket(count <= 2)", Expect: "SCOPE/alone-in-bucket"},
		Breaker{Name: "count-ignores-deleted-ledgers", File: "internal/storage/system/store.go",
			Old: "\t\tWhere(\"bucket = ?\", bucket).\n\t\tCount(ctx)", New: "\t\tWhere(\"bucket = ?\", bucket).\n\t\tWhere(\"deleted_at IS NULL\").\n\t\tCount(ctx)", Expect: "SCOPE/alone-in-bucket"},
		Breaker{Name: "open-ledger-skips-flag-refresh", File: "internal/storage/driver/driver.go",
			Old: "\tstore.SetAloneInBucket(count == 1)\n", New: "\t_ = count\n", Expect: "SCOPE/alone-in-bucket"},
		Breaker{Name: "history-trigger-function-unscoped-revision", File: "internal/storage/bucket/migrations/11-make-stateless/up.sql",
			Old: "where accounts_metadata.accounts_address = new.address and accounts_metadata.ledger = new.ledger", New: "where accounts_metadata.accounts_address = new.address", Expect: "SCOPE/sql-function"},
		Breaker{Name: "per-ledger-trigger-without-when", File: "internal/storage/bucket/default_bucket.go",
			Old: "\t\tcreate trigger \"set_log_hash_{{.ID}}\"\n\t\tbefore insert\n\t\ton \"{{.Bucket}}\".\"logs\"\n\t\tfor each row\n\t\twhen (\n\t\t\tnew.ledger = '{{.Name}}'\n\t\t)\n", New: "\t\tcreate trigger \"set_log_hash_{{.ID}}\"\n\t\tbefore insert\n\t\ton \"{{.Bucket}}\".\"logs\"\n\t\tfor each row\n", Expect: "SCOPE/trigger-when"},
		Breaker{Name: "second-writer-of-alone-flag", File: "internal/storage/ledger/store.go",
			Old: "func (store *Store) GetLedger() ledger.Ledger {\n\treturn store.ledger", New: "func (store *Store) GetLedger() ledger.Ledger {\n\tif store.aloneInBucket != nil {\n\t\tstore.aloneInBucket.Store(true)\n\t}\n\treturn store.ledger", Expect: "WMC/alone-flag"},
	)
}

func checkC19(c *core.Ctx) {
	c.Decide("every statement of storage/ledger that touches a bucket table is ledger-scoped: selects start from newScopedSelect or carry a top-level `ledger = ?` bound to the store's ledger name, updates/deletes carry it, inserts stamp the ledger column with it, each arm of the raw account upsert carries it; newScopedSelect drops the predicate only under (kill switch off ∧ flag present ∧ flag true); the flag is written only by SetAloneInBucket/Create and refreshed from CountLedgersInBucket == 1 (a count of all rows of the bucket, deleted ones included) on OpenLedger and CreateLedger; every final SQL function that runs per ledger filters each bucket table by ledger; every per-ledger trigger fires only `when (new.ledger = '<name>')`")
	c.NotDecided("staleness of the alone-in-bucket flag across processes or between the count and later creations (a schedule question); Postgres evaluating the predicates")
	c.Trust("bun renders Where/Value clauses as given; text/template substitutes the ledger name into the trigger condition")
	ruleScopedStatements(c)
	ruleScopedSelectGuard(c)
	ruleAloneInBucket(c)
	ruleSQLFunctionsScoped(c)
	ruleTriggerWhen(c)
	// uniqueness is per ledger: every unique constraint on a shared table includes the ledger column
	ruleUniqueScope(c, "CAT/unique-scope")
}

// ledgerBoundArg resolves the Go value bound to a placeholder, looking through a spread
// slice built with append(args, a, b, c) (GetBalances).
func spreadPattern(info *types.Info, fd *ast.FuncDecl, args []ast.Expr) []ast.Expr {
	if len(args) != 1 {
		return nil
	}
	id, ok := ast.Unparen(args[0]).(*ast.Ident)
	if !ok {
		return nil
	}
	obj := info.Uses[id]
	var pattern []ast.Expr
	n := 0
	ast.Inspect(fd.Body, func(x ast.Node) bool {
		call, ok := x.(*ast.CallExpr)
		if !ok {
			return true
		}
		if fid, ok := call.Fun.(*ast.Ident); ok && fid.Name == "append" && len(call.Args) >= 2 {
			if a0, ok := call.Args[0].(*ast.Ident); ok && info.Uses[a0] == obj {
				n++
				pattern = call.Args[1:]
			}
		}
		return true
	})
	if n != 1 {
		return nil
	}
	return pattern
}

// stmtLedgerScoped decides whether a builder statement is restricted to the store's ledger.
func stmtLedgerScoped(c *core.Ctx, s *bunq.Statement, key string) (bool, string) {
	info := s.Pkg.TypesInfo
	switch s.Kind {
	case "select", "update", "delete":
		if s.RootKind == "scoped" {
			return true, "rooted at newScopedSelect"
		}
		for _, cl := range s.ClausesNamed("Where") {
			if !cl.HasSQL || len(cl.SQL) == 0 {
				continue
			}
			args := cl.Args
			pat := spreadPattern(info, s.Encl, args)
			allAlts := true
			for _, alt := range cl.SQL {
				full, err := sqlfe.ParseExpr(alt)
				if err != nil {
					allAlts = false
					break
				}
				// index placeholders in order
				var params []*sqlfe.Node
				sqlfe.Walk(full, func(x *sqlfe.Node) bool {
					if x.Op == "param" {
						params = append(params, x)
					}
					return true
				})
				argOf := func(p *sqlfe.Node) ast.Expr {
					for i, q := range params {
						if q == p {
							if pat != nil {
								return pat[i%len(pat)]
							}
							if i < len(args) {
								return args[i]
							}
						}
					}
					return nil
				}
				okAll := true
				for _, dj := range sqlfe.Disjuncts(full) {
					okDj := false
					for _, cj := range sqlfe.Conjuncts(dj) {
						n := sqlfe.Unparen(cj)
						if n.Op != "bin" || n.Text != "=" {
							continue
						}
						l, r := sqlfe.Unparen(n.Args[0]), sqlfe.Unparen(n.Args[1])
						if l.Op == "param" {
							l, r = r, l
						}
						if l.Op == "ident" && sqlfe.LastPart(l.Text) == "ledger" && r.Op == "param" {
							if a := argOf(r); a != nil && argKind(a) == "ledger.Name" {
								okDj = true
							}
						}
					}
					if !okDj {
						okAll = false
					}
				}
				if !okAll {
					allAlts = false
					break
				}
			}
			if allAlts {
				return true, "ledger = ? bound to the store's ledger name"
			}
		}
		return false, "no top-level `ledger = ?` predicate bound to the store's ledger name"
	case "insert":
		for _, cl := range s.ClausesNamed("Value") {
			for _, alt := range cl.SQL {
				a, err := sqlfe.ParseAssign(alt)
				if err == nil && sqlfe.LastPart(a.Col) == "ledger" && len(cl.Args) == 1 && argKind(cl.Args[0]) == "ledger.Name" {
					return true, "Value(ledger, ?, store.ledger.Name)"
				}
			}
		}
		// model rows literally stamped with the ledger
		stamped := false
		ast.Inspect(s.Encl.Body, func(n ast.Node) bool {
			if cl, ok := n.(*ast.CompositeLit); ok {
				if v := fieldOfCompositeLit(cl, "Ledger"); v != nil && argKind(v) == "ledger.Name" {
					// the literal's type must have a bun column "ledger"
					for _, bf := range bunFields(info.TypeOf(cl), 0) {
						if bf.Column == "ledger" {
							stamped = true
						}
					}
				}
			}
			return true
		})
		if stamped {
			return true, "model rows carry Ledger: store.ledger.Name"
		}
		return false, "inserted rows are not stamped with the store's ledger name"
	}
	return false, "statement kind not handled"
}

func ruleScopedStatements(c *core.Ctx) {
	m := bunModel(c, pkgStore)
	cat := c.Catalog()
	n := 0
	for _, s := range m.Stmts {
		if s.RootKind != "new" && s.RootKind != "scoped" {
			continue
		}
		if s.Encl.Name.Name == "newScopedSelect" || strings.HasPrefix(s.Encl.Name.Name, "Dump") {
			continue // the scoping primitive itself (checked by SCOPE/scoped-select-guard); debug helpers
		}
		fkey := enclKey(pkgStore, s.Encl)
		if s.Kind == "raw" {
			ruleScopedRaw(c, s, fkey)
			n++
			continue
		}
		if s.Kind == "values" {
			continue
		}
		var bucketTabs []string
		for _, t := range s.Tables() {
			if _, ok := cat.Tables[t]; ok {
				bucketTabs = append(bucketTabs, t)
			}
			if strings.Contains(t, "{{go:") || t == "(opaque)" {
				c.Unknown("SCOPE/statement", fkey+":"+s.Describe()+":table", posOf(c, s.Pos()), "table expression not resolved")
			}
		}
		if len(bucketTabs) == 0 {
			continue // composes CTEs / sub-queries only
		}
		n++
		key := fmt.Sprintf("%s:%s", fkey, s.Describe())
		ok, why := stmtLedgerScoped(c, s, key)
		c.Check(ok, "SCOPE/statement", key, posOf(c, s.Pos()), why,
			fmt.Sprintf("%s on %v: %s — in a shared bucket it would read or change another ledger's rows", s.Kind, bucketTabs, why))
	}
	c.Floor("SCOPE/statement", "statements touching bucket tables in storage/ledger", n, 35)
}

// ruleScopedRaw: each arm of a raw statement that names a bucket table carries the ledger.
func ruleScopedRaw(c *core.Ctx, s *bunq.Statement, fkey string) {
	if s.Raw == nil {
		if s.RawText != "" && !strings.Contains(s.RawText, "advisory") {
			c.Unknown("SCOPE/raw", fkey+":raw", posOf(c, s.Pos()), fmt.Sprintf("raw SQL not parsed: %v", s.RawErr))
		} else if s.RawText == "" {
			c.Unknown("SCOPE/raw", fkey+":raw", posOf(c, s.Pos()), "raw SQL text is not a constant")
		}
		return
	}
	cat := c.Catalog()
	argKindAt := func(p string) string {
		// ?N positional
		var idx int
		if _, err := fmt.Sscanf(p, "?%d", &idx); err != nil || idx >= len(s.RawArgs) {
			return ""
		}
		return argKind(s.RawArgs[idx])
	}
	isLedgerEq := func(n *sqlfe.Node) bool {
		n = sqlfe.Unparen(n)
		if n.Op != "bin" || n.Text != "=" {
			return false
		}
		l, r := sqlfe.Unparen(n.Args[0]), sqlfe.Unparen(n.Args[1])
		if l.Op == "param" {
			l, r = r, l
		}
		return l.Op == "ident" && sqlfe.LastPart(l.Text) == "ledger" && r.Op == "param" && argKindAt(r.Text) == "ledger.Name"
	}
	arm := 0
	for _, sub := range sqlfe.SubStmts(s.Raw) {
		var tabs []string
		if sub.Table != "" {
			if _, ok := cat.Tables[sqlfe.NormName(sub.Table)]; ok {
				tabs = append(tabs, sqlfe.NormName(sub.Table))
			}
		}
		for _, f := range sub.From {
			if f.Table != "" {
				if _, ok := cat.Tables[sqlfe.NormName(f.Table)]; ok {
					tabs = append(tabs, sqlfe.NormName(f.Table))
				}
			}
		}
		if len(tabs) == 0 {
			continue
		}
		arm++
		key := fmt.Sprintf("%s:raw-arm#%d:%s[%s]", fkey, arm, sub.Kind, strings.Join(tabs, "+"))
		ok := false
		switch sub.Kind {
		case "select", "update", "delete":
			for _, cj := range sqlfe.Conjuncts(sub.Where) {
				if isLedgerEq(cj) {
					ok = true
				}
			}
			for _, f := range sub.From {
				for _, cj := range sqlfe.Conjuncts(f.On) {
					if isLedgerEq(cj) {
						ok = true
					}
				}
			}
		case "insert":
			for i, col := range sub.Columns {
				if col != "ledger" {
					continue
				}
				if sub.Source != nil && i < len(sub.Source.Cols) {
					e := sqlfe.Unparen(sub.Source.Cols[i].Expr)
					if e.Op == "param" && argKindAt(e.Text) == "ledger.Name" {
						ok = true
					}
				}
				for _, row := range sub.Values {
					if i < len(row) {
						e := sqlfe.Unparen(row[i])
						if e.Op == "param" && argKindAt(e.Text) == "ledger.Name" {
							ok = true
						}
					}
				}
			}
		}
		c.Check(ok, "SCOPE/raw", key, posOf(c, s.Pos()), "arm carries the store's ledger name", fmt.Sprintf("the %s arm on %v of this raw statement is not restricted to / stamped with the store's ledger name", sub.Kind, tabs))
	}
	if s.Encl.Name.Name == "UpsertAccounts" {
		c.Floor("SCOPE/raw", "arms of the account upsert touching bucket tables", arm, 3)
	} else if arm == 0 {
		c.PassTrivial("SCOPE/raw", fkey+":raw:no-bucket-table", posOf(c, s.Pos()), "raw statement names no bucket table")
	}
}

// ruleScopedSelectGuard: the predicate may be skipped only when (kill switch off, flag present, flag true).
func ruleScopedSelectGuard(c *core.Ctx) {
	d := fn(c, pkgStore, "Store", "newScopedSelect")
	if d == nil {
		return
	}
	info := d.Pkg.TypesInfo
	key := declKey(d)
	var where *ast.CallExpr
	for _, call := range callsTo(info, d.Decl.Body, named("Where")) {
		if len(call.Args) == 2 {
			if s, ok := astx.ConstString(info, call.Args[0]); ok {
				if n, err := sqlfe.ParseExpr(s); err == nil && sqlfe.Canon(n) == "(? = ledger)" && argKind(call.Args[1]) == "ledger.Name" {
					where = call
				}
			}
		}
	}
	if where == nil {
		c.Fail("SCOPE/scoped-select-guard", key+":predicate", pos(c, d.Decl), "newScopedSelect no longer adds `ledger = ?` bound to the store's ledger name")
		return
	}
	c.Pass("SCOPE/scoped-select-guard", key+":predicate", pos(c, where), "ledger = ? bound to store.ledger.Name")
	// find the enclosing if and decompose its condition into disjuncts
	var cond ast.Expr
	ast.Inspect(d.Decl.Body, func(n ast.Node) bool {
		if is, ok := n.(*ast.IfStmt); ok && is.Body.Pos() <= where.Pos() && where.End() <= is.Body.End() {
			cond = is.Cond
		}
		return true
	})
	if cond == nil {
		c.Pass("SCOPE/scoped-select-guard", key+":guard", pos(c, where), "predicate added unconditionally")
		return
	}
	var djs []string
	var split func(e ast.Expr)
	split = func(e ast.Expr) {
		e = ast.Unparen(e)
		if be, ok := e.(*ast.BinaryExpr); ok && be.Op == token.LOR {
			split(be.X)
			split(be.Y)
			return
		}
		djs = append(djs, classifyScopeDisjunct(info, e))
	}
	split(cond)
	sort.Strings(djs)
	want := []string{"flag-absent", "flag-false", "kill-switch"}
	c.Check(eqStrings(djs, want), "SCOPE/scoped-select-guard", key+":guard", pos(c, where), "predicate kept when kill-switch ∨ flag absent ∨ flag false",
		fmt.Sprintf("the condition keeping the ledger predicate decomposes into %v, expected %v: the predicate may be dropped only when the optimisation is enabled, the flag exists and it is true", djs, want))
	// the select starts from store.db
	m := bunModel(c, pkgStore)
	for _, s := range stmtsIn(m, d) {
		c.Check(s.Handle != nil && strings.HasSuffix(astx.SelectorPath(s.Handle), ".db"), "SCOPE/scoped-select-guard", key+":handle", posOf(c, s.Pos()), "built on store.db", "newScopedSelect is not built on the store's db handle")
	}
}

func classifyScopeDisjunct(info *types.Info, e ast.Expr) string {
	e = ast.Unparen(e)
	p := astx.SelectorPath(e)
	if strings.HasSuffix(p, ".disableScopedSelectOptimization") {
		return "kill-switch"
	}
	if be, ok := e.(*ast.BinaryExpr); ok && be.Op == token.EQL && astx.IsNilExpr(info, be.Y) && strings.HasSuffix(astx.SelectorPath(be.X), ".aloneInBucket") {
		return "flag-absent"
	}
	if ue, ok := e.(*ast.UnaryExpr); ok && ue.Op == token.NOT {
		if call, ok := ast.Unparen(ue.X).(*ast.CallExpr); ok {
			if se, ok := call.Fun.(*ast.SelectorExpr); ok && se.Sel.Name == "Load" && strings.HasSuffix(astx.SelectorPath(se.X), ".aloneInBucket") {
				return "flag-false"
			}
		}
	}
	return "other:" + types.ExprString(e)
}

func ruleAloneInBucket(c *core.Ctx) {
	ix := index(c)
	// writers of the field
	pk := c.Prog().Pkg(pkgStore)
	var field *types.Var
	if st := namedType(c, pkgStore, "Store"); st != nil {
		if s, ok := st.Underlying().(*types.Struct); ok {
			for i := 0; i < s.NumFields(); i++ {
				if s.Field(i).Name() == "aloneInBucket" {
					field = s.Field(i)
				}
			}
		}
	}
	if field == nil {
		c.Unknown("anchor", pkgStore+".Store.aloneInBucket", "", "field aloneInBucket not found")
		return
	}
	writers := map[string]bool{}
	for _, f := range pk.Syntax {
		for _, d := range f.Decls {
			fd, ok := d.(*ast.FuncDecl)
			if !ok || fd.Body == nil {
				continue
			}
			ast.Inspect(fd.Body, func(n ast.Node) bool {
				switch x := n.(type) {
				case *ast.AssignStmt:
					for _, l := range x.Lhs {
						if se, ok := l.(*ast.SelectorExpr); ok && pk.TypesInfo.Uses[se.Sel] == field {
							writers[enclKey(pkgStore, fd)] = true
						}
					}
				case *ast.CallExpr:
					if se, ok := x.Fun.(*ast.SelectorExpr); ok && (se.Sel.Name == "Store" || se.Sel.Name == "Swap" || se.Sel.Name == "CompareAndSwap") {
						if inner, ok := ast.Unparen(se.X).(*ast.SelectorExpr); ok && pk.TypesInfo.Uses[inner.Sel] == field {
							writers[enclKey(pkgStore, fd)] = true
						}
					}
				case *ast.KeyValueExpr:
					if id, ok := x.Key.(*ast.Ident); ok && pk.TypesInfo.Uses[id] == field {
						writers[enclKey(pkgStore, fd)] = true
					}
				}
				return true
			})
		}
	}
	allowed := map[string]bool{pkgStore + ".(Store).SetAloneInBucket": true, pkgStore + ".(DefaultFactory).Create": true}
	for w := range writers {
		c.Check(allowed[w], "WMC/alone-flag", "writer:"+w, "", "allowed writer of aloneInBucket", w+" writes the alone-in-bucket flag; only SetAloneInBucket and the factory may (a wrong `true` removes the ledger predicate from every scoped select of the bucket)")
	}
	c.Floor("WMC/alone-flag", "writers of aloneInBucket", len(writers), 2)
	// every Factory.Create result in the driver is followed by SetAloneInBucket(count == 1)
	create := ix.LookupFunc(pkgStore, "DefaultFactory", "Create")
	if create == nil {
		c.Unknown("anchor", pkgStore+".(DefaultFactory).Create", "", "not found")
		return
	}
	// the flag is one object per bucket, shared by every store of that bucket: the driver refreshes
	// it through the store it is opening, and stores opened earlier (replication pipelines, cached
	// controllers) must see the change
	{
		info := create.Pkg.TypesInfo
		shared := false
		var flagObj types.Object
		ast.Inspect(create.Decl.Body, func(n ast.Node) bool {
			as, ok := n.(*ast.AssignStmt)
			if !ok || len(as.Lhs) != 1 || len(as.Rhs) != 1 {
				return true
			}
			if se, ok := as.Lhs[0].(*ast.SelectorExpr); ok && info.Uses[se.Sel] == field {
				if id, ok := ast.Unparen(as.Rhs[0]).(*ast.Ident); ok {
					flagObj = info.ObjectOf(id)
				}
			}
			return true
		})
		if flagObj != nil {
			lookup, stored := false, false
			ast.Inspect(create.Decl.Body, func(n ast.Node) bool {
				as, ok := n.(*ast.AssignStmt)
				if !ok {
					return true
				}
				// flag, ok := registry[<ledger>.Bucket]
				if len(as.Lhs) == 2 && len(as.Rhs) == 1 {
					if l, ok := as.Lhs[0].(*ast.Ident); ok && info.ObjectOf(l) == flagObj {
						if ix, ok := ast.Unparen(as.Rhs[0]).(*ast.IndexExpr); ok && strings.HasSuffix(astx.SelectorPath(ix.Index), ".Bucket") {
							if _, isMap := info.TypeOf(ix.X).Underlying().(*types.Map); isMap && strings.HasPrefix(astx.SelectorPath(ix.X), create.Decl.Recv.List[0].Names[0].Name+".") {
								lookup = true
							}
						}
					}
				}
				// registry[<ledger>.Bucket] = flag
				if len(as.Lhs) == 1 && len(as.Rhs) == 1 {
					if ix, ok := as.Lhs[0].(*ast.IndexExpr); ok && strings.HasSuffix(astx.SelectorPath(ix.Index), ".Bucket") {
						if r, ok := ast.Unparen(as.Rhs[0]).(*ast.Ident); ok && info.ObjectOf(r) == flagObj {
							stored = true
						}
					}
				}
				return true
			})
			shared = lookup && stored
		}
		c.Check(shared, "WMC/alone-flag", declKey(create)+":shared-per-bucket", pos(c, create.Decl), "one flag per bucket, looked up in and stored into the factory's registry", "the alone-in-bucket flag given to a new store is not the bucket's shared flag (factory registry keyed by the ledger's bucket): a store opened while its ledger was alone keeps skipping the ledger predicate after another ledger joins the bucket, and reads the other ledger's rows")
	}
	sites := ix.SitesOf(create.Obj)
	nSites := 0
	for _, s := range sites {
		if relPkg(s.Pkg.PkgPath) != pkgDriver || s.Encl == nil {
			continue
		}
		nSites++
		info := s.Pkg.TypesInfo
		fkey := astx.FuncKey(s.EnclObj)
		// the store created here, and the SetAloneInBucket calls on it (here or in a helper it is handed to)
		var encl *astx.DeclInfo
		for _, dd := range index(c).Decls {
			if dd.Decl == s.Encl {
				encl = dd
			}
		}
		if encl == nil {
			c.Unrecognised("SCOPE/alone-in-bucket", fkey+":refresh", pos(c, s.Call), "enclosing declaration not resolved")
			continue
		}
		envs := scopeEnvs(c, encl)
		storeOrigin := envs[0].origin(s.Call)
		state := 0 // +1 ok, -1 wrong, 0 unread
		detail := "no SetAloneInBucket call on the created store"
		for _, env := range envs {
			for _, call := range env.calls(named("SetAloneInBucket")) {
				if len(call.Args) != 1 || env.origin(recvExpr(call)) != storeOrigin {
					continue
				}
				arg := env.origin(call.Args[0])
				inner := strings.TrimSuffix(strings.TrimPrefix(arg, "("), ")")
				cnt := ""
				switch {
				case strings.HasSuffix(inner, "==1"):
					cnt = strings.TrimSuffix(inner, "==1")
				case strings.HasPrefix(inner, "1=="):
					cnt = strings.TrimPrefix(inner, "1==")
				}
				switch {
				case cnt != "" && strings.Contains(cnt, "CountLedgersInBucket(") && strings.HasSuffix(cnt, "#0"):
					if state == 0 {
						state = 1
					}
				case strings.Contains(arg, "?"):
					detail = "argument not read: " + arg
				default:
					state = -1
					detail = "argument is " + arg + ", not `CountLedgersInBucket(...) == 1`"
				}
			}
		}
		_ = info
		switch {
		case state == 1:
			c.Pass("SCOPE/alone-in-bucket", fkey+":refresh", pos(c, s.Call), "store.SetAloneInBucket(CountLedgersInBucket == 1)")
		case state == 0 && strings.HasPrefix(detail, "argument not read"):
			c.Unrecognised("SCOPE/alone-in-bucket", fkey+":refresh", pos(c, s.Call), detail)
		default:
			c.Fail("SCOPE/alone-in-bucket", fkey+":refresh", pos(c, s.Call), "the store created here is handed out without refreshing the alone-in-bucket flag from `CountLedgersInBucket(...) == 1`: "+detail)
		}
	}
	c.Floor("SCOPE/alone-in-bucket", "ledger store creations in the driver", nSites, 2)
	// the count statement counts every ledger of the bucket (no extra filter)
	if d := fn(c, pkgSysStore, "DefaultStore", "CountLedgersInBucket"); d != nil {
		m := bunModel(c, pkgSysStore)
		for _, s := range stmtsIn(m, d) {
			var conj []string
			for _, cj := range whereConjuncts(c, s, declKey(d)) {
				conj = append(conj, sqlfe.Canon(cj.Node))
			}
			c.Check(len(conj) == 1 && conj[0] == "(? = bucket)" && modelTable(s) == "_system.ledgers", "SCOPE/alone-in-bucket", declKey(d)+":counts-all-rows", posOf(c, s.Pos()), "count(*) from _system.ledgers where bucket = ?",
				fmt.Sprintf("CountLedgersInBucket filters by %v on %s: it must count every ledger row of the bucket (soft-deleted ones still own rows in the bucket tables)", conj, modelTable(s)))
		}
	}
}

// ruleSQLFunctionsScoped: functions executed per ledger filter every bucket table by ledger.
func ruleSQLFunctionsScoped(c *core.Ctx) {
	cat := c.Catalog()
	ls := ledgerSetups(c)
	fnames := map[string]bool{"create_block": true, "create_blocks": true}
	for _, t := range ls.Cat.Triggers {
		fnames[t.Func] = true
	}
	n := 0
	for _, name := range sqlfe.SortedKeys(fnames) {
		f := cat.Functions[name]
		if f == nil {
			c.Fail("SCOPE/sql-function", "sql:"+name+":exists", "", "function "+name+" is executed by a per-ledger trigger (ledgerSetups) but does not exist after all migrations")
			continue
		}
		for _, o := range f.Opaque {
			c.Unknown("SCOPE/sql-function", "sql:"+name+":unparsed", f.Origin, o)
		}
		arm := map[string]int{}
		for _, st := range f.AllStmts() {
			var tabs []string
			if st.Table != "" && st.Kind != "assign" {
				if _, ok := cat.Tables[sqlfe.NormName(st.Table)]; ok {
					tabs = append(tabs, sqlfe.NormName(st.Table))
				}
			}
			for _, fr := range st.From {
				if fr.Table != "" {
					if _, ok := cat.Tables[sqlfe.NormName(fr.Table)]; ok {
						tabs = append(tabs, sqlfe.NormName(fr.Table))
					}
				}
			}
			if len(tabs) == 0 {
				continue
			}
			n++
			k := st.Kind + "[" + strings.Join(tabs, "+") + "]"
			arm[k]++
			key := fmt.Sprintf("sql:%s:%s#%d", name, k, arm[k])
			ok := false
			switch st.Kind {
			case "select", "update", "delete":
				for _, cj := range sqlfe.Conjuncts(st.Where) {
					x := sqlfe.Unparen(cj)
					if x.Op == "bin" && x.Text == "=" {
						l, r := sqlfe.Unparen(x.Args[0]), sqlfe.Unparen(x.Args[1])
						if r.Op == "ident" && sqlfe.LastPart(r.Text) == "ledger" && !(l.Op == "ident" && sqlfe.LastPart(l.Text) == "ledger") {
							l, r = r, l
						}
						if l.Op == "ident" && sqlfe.LastPart(l.Text) == "ledger" && r.Op == "ident" {
							rt := r.Text
							if rt == "new.ledger" || rt == "_ledger" || rt == "old.ledger" {
								ok = true
							}
						}
					}
				}
			case "insert":
				for i, col := range st.Columns {
					if col == "ledger" {
						for _, row := range st.Values {
							if i < len(row) {
								e := sqlfe.Unparen(row[i])
								if e.Op == "ident" && (e.Text == "new.ledger" || e.Text == "_ledger") {
									ok = true
								}
							}
						}
					}
				}
			}
			c.Check(ok, "SCOPE/sql-function", key, f.Origin, "filtered by / stamped with the row's ledger", fmt.Sprintf("%s of %v in function %s (as defined last, %s) is not restricted to the ledger of the row being processed", st.Kind, tabs, name, f.Origin))
		}
	}
	c.Floor("SCOPE/sql-function", "statements on bucket tables in per-ledger SQL functions", n, 10)
}

func ruleTriggerWhen(c *core.Ctx) {
	ls := ledgerSetups(c)
	n := 0
	for _, k := range sqlfe.SortedKeys(ls.Cat.Triggers) {
		t := ls.Cat.Triggers[k]
		n++
		w := strings.ReplaceAll(t.WhenSrc, " ", "")
		c.Check(w == "new.ledger='<name>'", "SCOPE/trigger-when", "ledgerSetups:"+t.Name, t.Origin, "when (new.ledger = '<name>')",
			fmt.Sprintf("per-ledger trigger %s on %s has WHEN (%s): it must fire only for rows of its own ledger", t.Name, t.Table, t.WhenSrc))
	}
	c.Floor("SCOPE/trigger-when", "per-ledger triggers in ledgerSetups", n, 7)
	// triggers created by migrations for pre-existing ledgers
	for _, k := range sqlfe.SortedKeys(c.Catalog().Triggers) {
		t := c.Catalog().Triggers[k]
		if !t.PerLedger {
			continue
		}
		w := strings.ReplaceAll(t.WhenSrc, " ", "")
		c.Check(w == "new.ledger='<name>'", "SCOPE/trigger-when", "migrations:"+t.Name, t.Origin, "when (new.ledger = '<name>')",
			fmt.Sprintf("per-ledger trigger %s (created by %s) has WHEN (%s)", t.Name, t.Origin, t.WhenSrc))
	}
}
