package rules

import (
	"go/ast"
	"go/token"
	"go/types"
	"regexp"
	"sort"
	"strings"

	"ledgerlint/internal/astx"
	"ledgerlint/internal/core"
)

func init() {
	register("C24", checkC24)
	addBreakers("C24",
		Breaker{Name: "leftover-goes-one-too-far", File: "internal/machine/allotment.go",
			Old: "\t\tif totalAllocated.Lt(amount) {", New: "\t\tif totalAllocated.Lte(amount) {", Expect: "SHAPE/allocate"},
		Breaker{Name: "leftover-to-last-parts", File: "internal/machine/allotment.go",
			Old: "\tfor i := range parts {\n\t\tif totalAllocated.Lt(amount) {\n\t\t\tparts[i] = parts[i].Add(NewMonetaryInt(1))", New: "\tfor i := len(parts) - 1; i >= 0; i-- {\n\t\tif totalAllocated.Lt(amount) {\n\t\t\tparts[i] = parts[i].Add(NewMonetaryInt(1))", Expect: "SHAPE/allocate"},
		Breaker{Name: "leftover-not-counted", File: "internal/machine/allotment.go",
			Old: "\t\t\tparts[i] = parts[i].Add(NewMonetaryInt(1))\n\t\t\ttotalAllocated = totalAllocated.Add(NewMonetaryInt(1))\n", New: "\t\t\tparts[i] = parts[i].Add(NewMonetaryInt(1))\n", Expect: "SHAPE/allocate"},
		Breaker{Name: "divide-before-multiply", File: "internal/machine/allotment.go",
			Old: "\t\tres.Mul(&amtBigint, allot.Num())\n\t\tres.Div(&res, allot.Denom())\n", New: "\t\tres.Div(&amtBigint, allot.Denom())\n\t\tres.Mul(&res, allot.Num())\n", Expect: "SHAPE/allocate"},
		Breaker{Name: "floor-not-accumulated", File: "internal/machine/allotment.go",
			Old: "\t\tparts[i] = &mi\n\t\ttotalAllocated = totalAllocated.Add(parts[i])\n", New: "\t\tparts[i] = &mi\n\t\tif i == 0 {\n\t\t\ttotalAllocated = totalAllocated.Add(parts[i])\n\t\t}\n", Expect: "SHAPE/allocate"},
		Breaker{Name: "over-100-percent-accepted-at-runtime", File: "internal/machine/allotment.go",
			Old: "\tif total.Cmp(big.NewRat(1, 1)) == 1 {\n\t\treturn nil, errors.New(\"sum of portions exceeded 100%\")\n\t}\n", New: "", Expect: "SHAPE/new-allotment"},
		Breaker{Name: "remaining-not-complement", File: "internal/machine/allotment.go",
			Old: "\t\tremaining.Sub(remaining, total)\n", New: "", Expect: "SHAPE/new-allotment"},
		Breaker{Name: "compiler-accepts-under-100-percent", File: "internal/machine/script/compiler/allotment.go",
			Old: "\tif total.Cmp(big.NewRat(1, 1)) == -1 && !hasRemaining {", New: "\tif total.Cmp(big.NewRat(1, 1)) == -1 && !hasRemaining && !hasVariable {", Expect: "SHAPE/visit-allotment"},
		Breaker{Name: "compiler-accepts-over-100-percent", File: "internal/machine/script/compiler/allotment.go",
			Old: "\tif total.Cmp(big.NewRat(1, 1)) == 1 {\n\t\treturn LogicError(c,\n\t\t\terrors.New(\"the sum of known portions is greater than 100%\"),\n\t\t)\n\t}\n", New: "", Expect: "SHAPE/visit-allotment"},
		Breaker{Name: "constant-portion-not-summed", File: "internal/machine/script/compiler/allotment.go",
			Old: "\t\t\ttotal.Add(&rat, total)\n", New: "\t\t\t_ = rat\n", Expect: "SHAPE/visit-allotment"},
		Breaker{Name: "portion-above-one-accepted", File: "internal/machine/portion.go",
			Old: "\tif r.Cmp(big.NewRat(0, 1)) == -1 || r.Cmp(big.NewRat(1, 1)) == 1 {\n\t\treturn nil, errors.New(\"portion must be between 0% and 100% inclusive\")", New: "\tif r.Cmp(big.NewRat(0, 1)) == -1 {\n\t\treturn nil, errors.New(\"portion must be between 0% and 100% inclusive\")", Expect: "SHAPE/new-allotment"},
		Breaker{Name: "parts-pushed-in-wrong-order", File: "internal/machine/vm/machine.go",
			Old: "\t\tfor i := len(parts) - 1; i >= 0; i-- {\n\t\t\tm.pushValue(machine.Monetary{\n\t\t\t\tAsset:  monetary.Asset,\n\t\t\t\tAmount: parts[i],", New: "\t\tfor i := 0; i < len(parts); i++ {\n\t\t\tm.pushValue(machine.Monetary{\n\t\t\t\tAsset:  monetary.Asset,\n\t\t\t\tAmount: parts[i],", Expect: "SHAPE/allocate"},
	)
}

func checkC24(c *core.Ctx) {
	c.Decide("the allocation algorithm has the shape the property states: every part is first amount×numerator divided by denominator (multiply before divide, integer division) and added to a running total; then, walking the parts from the first one, one unit is added to a part and to the running total while the running total is strictly below the amount; the VM pushes the parts so that the first part is consumed first; an allotment is built only from portions in [0,1], refuses a sum above one and two `remaining`, and sets `remaining` to one minus the sum; the compiler adds every constant portion to the known sum and rejects: known sum above one, known sum below one without `remaining` (variables do not excuse it), known sum equal to one together with a variable or a `remaining`")
	c.NotDecided("the arithmetic identity itself (that the parts then sum to the amount for every input) — a value-level law, not a code shape; big.Int/big.Rat semantics are trusted")
	c.Trust("math/big: Mul, Div (Euclidean, = floor for non-negative operands), Rat.Cmp")
	ruleAllocateShapeTolerant(c)
	ruleNewAllotmentShape(c)
	ruleVisitAllotmentShape(c)
	// exact rationals and arbitrary-size integers only: no machine-word or floating-point shortcut
	// anywhere in the machine packages (numeric-type discipline shared with C36)
	ruleNoLossyNumerics(c)
}

func ruleAllocateShape(c *core.Ctx) {
	d := fn(c, pkgMachine, "Allotment", "Allocate")
	if d == nil {
		return
	}
	info := d.Pkg.TypesInfo
	key := declKey(d)
	var loops []*ast.RangeStmt
	var forLoops int
	ast.Inspect(d.Decl.Body, func(n ast.Node) bool {
		switch x := n.(type) {
		case *ast.RangeStmt:
			loops = append(loops, x)
		case *ast.ForStmt:
			forLoops++
		}
		return true
	})
	if len(loops) != 2 || forLoops != 0 {
		c.Fail("SHAPE/allocate", key+":two-passes", pos(c, d.Decl), "Allocate is not a floor pass over the allotment followed by a leftover pass walking the parts from the first one (range loops only)")
		return
	}
	floor, left := loops[0], loops[1]
	// floor pass: Mul(amount, Num) then Div(_, Denom)
	var mul, div *ast.CallExpr
	for _, call := range callsTo(info, floor.Body, func(f *types.Func) bool { return isBigIntMethod(f, "Mul", "Div", "Quo") }) {
		f := astx.Callee(info, call)
		switch f.Name() {
		case "Mul":
			mul = call
		case "Div", "Quo":
			div = call
		}
	}
	okFloor := mul != nil && div != nil && mul.Pos() < div.Pos() && len(mul.Args) == 2 && len(div.Args) == 2 &&
		strings.HasSuffix(types.ExprString(mul.Args[1]), ".Num()") && strings.HasSuffix(types.ExprString(div.Args[1]), ".Denom()") &&
		types.ExprString(recvExpr(mul)) == types.ExprString(recvExpr(div)) && strings.TrimPrefix(types.ExprString(div.Args[0]), "&") == types.ExprString(recvExpr(mul))
	// the multiplicand is the amount
	if okFloor {
		a := strings.TrimPrefix(types.ExprString(mul.Args[0]), "&")
		okFloor = false
		ast.Inspect(d.Decl.Body, func(n ast.Node) bool {
			if as, ok := n.(*ast.AssignStmt); ok && len(as.Lhs) == 1 && len(as.Rhs) == 1 && types.ExprString(as.Lhs[0]) == a && strings.Contains(types.ExprString(as.Rhs[0]), "amount") {
				okFloor = true
			}
			return true
		})
		if a == "amount" {
			okFloor = true
		}
	}
	c.Check(okFloor, "SHAPE/allocate", key+":floor", pos(c, floor), "part = amount × num ÷ denom (multiply first, integer division)", "a part is not computed as amount×numerator divided by the denominator with the multiplication first: dividing first (or rounding otherwise) loses units that the leftover pass cannot give back")
	// totalAllocated accumulates every floor, unconditionally, at the top level of the loop body
	okAcc := false
	var totalName string
	for _, st := range floor.Body.List {
		as, ok := st.(*ast.AssignStmt)
		if !ok || len(as.Lhs) != 1 || len(as.Rhs) != 1 {
			continue
		}
		if call, ok := as.Rhs[0].(*ast.CallExpr); ok {
			if f := astx.Callee(info, call); f != nil && f.Name() == "Add" && types.ExprString(recvExpr(call)) == types.ExprString(as.Lhs[0]) && len(call.Args) == 1 && strings.HasPrefix(types.ExprString(call.Args[0]), "parts[") {
				okAcc = true
				totalName = types.ExprString(as.Lhs[0])
			}
		}
	}
	c.Check(okAcc, "SHAPE/allocate", key+":floor-total", pos(c, floor), "running total += every floored part", "the running total does not accumulate every floored part unconditionally")
	// leftover pass: for i := range parts { if total.Lt(amount) { parts[i] += 1; total += 1 } }
	okLeft := types.ExprString(left.X) == "parts" && left.Key != nil && len(left.Body.List) == 1
	if okLeft {
		is, ok := left.Body.List[0].(*ast.IfStmt)
		okLeft = ok && is.Else == nil && nospace(types.ExprString(is.Cond)) == totalName+".Lt(amount)"
		if okLeft {
			incPart, incTotal := false, false
			for _, st := range is.Body.List {
				as, ok := st.(*ast.AssignStmt)
				if !ok || len(as.Lhs) != 1 || len(as.Rhs) != 1 {
					okLeft = false
					continue
				}
				l, r := nospace(types.ExprString(as.Lhs[0])), nospace(types.ExprString(as.Rhs[0]))
				idx := types.ExprString(left.Key)
				switch {
				case l == "parts["+idx+"]" && r == "parts["+idx+"].Add(NewMonetaryInt(1))":
					incPart = true
				case l == totalName && r == totalName+".Add(NewMonetaryInt(1))":
					incTotal = true
				default:
					okLeft = false
				}
			}
			okLeft = okLeft && incPart && incTotal
		}
	}
	c.Check(okLeft, "SHAPE/allocate", key+":leftover", pos(c, left), "from the first part on: +1 to the part and to the total while total < amount", "the leftover pass does not hand exactly one unit to each part from the first one on, counting it, while the running total is strictly below the amount: the parts then sum to more or less than the amount, or the extra units go to the wrong parts")
	// result
	okRet := false
	ast.Inspect(d.Decl.Body, func(n ast.Node) bool {
		if r, ok := n.(*ast.ReturnStmt); ok && len(r.Results) == 1 && types.ExprString(r.Results[0]) == "parts" {
			okRet = true
		}
		return true
	})
	c.Check(okRet, "SHAPE/allocate", key+":returns-parts", pos(c, d.Decl), "returns parts", "Allocate does not return the parts it computed")
	// VM: OP_ALLOC pushes the parts last-to-first so that the first part is popped first
	if t := fn(c, pkgVM, "Machine", "tick"); t != nil {
		ti := t.Pkg.TypesInfo
		ok := false
		ast.Inspect(t.Decl.Body, func(n ast.Node) bool {
			cc, isC := n.(*ast.CaseClause)
			if !isC || len(cc.List) != 1 || !strings.HasSuffix(types.ExprString(cc.List[0]), "OP_ALLOC") {
				return true
			}
			alloc := callsTo(ti, cc, named("Allocate"))
			var loop *ast.ForStmt
			for _, st := range cc.Body {
				if f, isF := st.(*ast.ForStmt); isF {
					loop = f
				}
			}
			if len(alloc) == 1 && loop != nil && loop.Init != nil && loop.Cond != nil && loop.Post != nil {
				init := nospace(stmtString(loop.Init))
				cond := nospace(types.ExprString(loop.Cond))
				post, isInc := loop.Post.(*ast.IncDecStmt)
				ok = init == "i:=len(parts)-1" && cond == "i>=0" && isInc && post.Tok == token.DEC && len(callsTo(ti, loop.Body, named("pushValue"))) == 1
				// the pushed amount is parts[i] with the monetary's asset
				ast.Inspect(loop.Body, func(m ast.Node) bool {
					if cl, isCL := m.(*ast.CompositeLit); isCL {
						a, am := fieldOfCompositeLit(cl, "Asset"), fieldOfCompositeLit(cl, "Amount")
						if a == nil || am == nil || !strings.HasSuffix(types.ExprString(a), ".Asset") || nospace(types.ExprString(am)) != "parts[i]" {
							ok = false
						}
					}
					return true
				})
			}
			return false
		})
		c.Check(ok, "SHAPE/allocate", declKey(t)+":OP_ALLOC-push-order", pos(c, t.Decl), "parts pushed last-to-first, each with the monetary's asset", "OP_ALLOC does not push the allocated parts last-to-first with the allocated asset: the first destination would receive the last part (the leftover units go to the wrong destinations)")
	}
}

func stmtString(s ast.Stmt) string {
	if as, ok := s.(*ast.AssignStmt); ok && len(as.Lhs) == 1 && len(as.Rhs) == 1 {
		return types.ExprString(as.Lhs[0]) + as.Tok.String() + types.ExprString(as.Rhs[0])
	}
	return ""
}

// ratCmpOne matches `<x>.Cmp(big.NewRat(1, 1)) <op> <k>` and returns (x, "op k").
func ratCmp(e ast.Expr) (string, string) {
	be, ok := ast.Unparen(e).(*ast.BinaryExpr)
	if !ok {
		return "", ""
	}
	call, ok := ast.Unparen(be.X).(*ast.CallExpr)
	if !ok || len(call.Args) != 1 {
		return "", ""
	}
	se, ok := call.Fun.(*ast.SelectorExpr)
	if !ok || se.Sel.Name != "Cmp" {
		return "", ""
	}
	return types.ExprString(se.X) + "~" + nospace(types.ExprString(call.Args[0])), be.Op.String() + nospace(types.ExprString(be.Y))
}

func ruleNewAllotmentShape(c *core.Ctx) {
	d := fn(c, pkgMachine, "", "NewAllotment")
	if d == nil {
		return
	}
	info := d.Pkg.TypesInfo
	key := declKey(d)
	// the running sum: the *big.Rat local that accumulates `sum.Add(sum, x)`
	var sumObj types.Object
	ast.Inspect(d.Decl.Body, func(n ast.Node) bool {
		call, ok := n.(*ast.CallExpr)
		if !ok || len(call.Args) != 2 {
			return true
		}
		if f := astx.Callee(info, call); f == nil || f.Name() != "Add" || f.Pkg() == nil || f.Pkg().Path() != "math/big" {
			return true
		}
		r, okR := ast.Unparen(recvExpr(call)).(*ast.Ident)
		a0, okA := ast.Unparen(call.Args[0]).(*ast.Ident)
		if okR && okA && info.ObjectOf(r) == info.ObjectOf(a0) {
			sumObj = info.ObjectOf(r)
		}
		return true
	})
	if sumObj == nil {
		for _, k := range []string{":sum-at-most-one", ":single-remaining", ":remaining-is-complement"} {
			c.Unrecognised("SHAPE/new-allotment", key+k, pos(c, d.Decl), "no running sum of the portions (`sum.Add(sum, x)` on a big.Rat local) found")
		}
	} else {
		isSum := func(e ast.Expr) bool {
			id, ok := ast.Unparen(e).(*ast.Ident)
			return ok && info.ObjectOf(id) == sumObj
		}
		env := newOriginEnv(c, d)
		over, twoRem, complement, summed := 0, 0, 0, 0 // +1 as required, -1 positively wrong
		ast.Inspect(d.Decl.Body, func(n ast.Node) bool {
			switch x := n.(type) {
			case *ast.ReturnStmt:
				if isErrorReturn(info, d.Decl.Body, x) != 1 {
					return true
				}
				fs := xfactsAt(info, d.Decl.Body, x.Pos())
				hasRem, other := false, 0
				for _, ft := range fs {
					if isErrNilTest(info, ft.Cond) {
						continue
					}
					// sum.Cmp(1) == 1 / > 0
					if be, ok := ft.Cond.(*ast.BinaryExpr); ok {
						if call, ok := ast.Unparen(be.X).(*ast.CallExpr); ok && len(call.Args) == 1 {
							if se, ok := call.Fun.(*ast.SelectorExpr); ok && se.Sel.Name == "Cmp" && isSum(se.X) && env.origin(call.Args[0]) == "NewRat(1,1)" {
								op := be.Op.String() + nospace(types.ExprString(be.Y))
								above := (ft.Positive && (op == "==1" || op == ">0")) || (!ft.Positive && (op == "<=0" || op == "!=1" || op == "<1"))
								if above {
									if over == 0 {
										over = 1
									}
								} else if ft.Positive && (op == ">=0" || op == "==0") {
									over = -1 // a sum of exactly one is refused
								}
								continue
							}
						}
					}
					if strings.HasSuffix(nospace(types.ExprString(ft.Cond)), ".Remaining") {
						if ft.Positive {
							hasRem = true
						}
						continue
					}
					if ft.Positive {
						other++
					}
				}
				if hasRem && other >= 1 && twoRem == 0 {
					twoRem = 1
				}
			case *ast.CallExpr:
				f := astx.Callee(info, x)
				if f == nil || f.Pkg() == nil || f.Pkg().Path() != "math/big" || len(x.Args) != 2 {
					return true
				}
				switch f.Name() {
				case "Sub":
					// rem.Sub(rem, sum) with rem := NewRat(1,1)
					if isSum(x.Args[1]) && types.ExprString(recvExpr(x)) == types.ExprString(x.Args[0]) {
						if env.origin(x.Args[0]) == "NewRat(1,1)" {
							complement = 1
						} else {
							complement = -1
						}
					}
				case "Add":
					if isSum(recvExpr(x)) {
						neg := false
						for _, ft := range xfactsAt(info, d.Decl.Body, x.Pos()) {
							if strings.HasSuffix(nospace(types.ExprString(ft.Cond)), ".Remaining") && !ft.Positive {
								neg = true
							}
						}
						if neg {
							summed = 1
						}
					}
				}
			}
			return true
		})
		verdict := func(k string, st int, okText, failText string) {
			switch {
			case st > 0:
				c.Pass("SHAPE/new-allotment", key+k, pos(c, d.Decl), okText)
			case st < 0:
				c.Fail("SHAPE/new-allotment", key+k, pos(c, d.Decl), failText)
			default:
				c.Unrecognised("SHAPE/new-allotment", key+k, pos(c, d.Decl), "not in a shape the rule reads: "+okText)
			}
		}
		// a missing refusal is positive evidence only when no error return mentions the sum at all
		if over == 0 {
			mentions := false
			ast.Inspect(d.Decl.Body, func(n ast.Node) bool {
				if call, ok := n.(*ast.CallExpr); ok {
					if se, ok := call.Fun.(*ast.SelectorExpr); ok && se.Sel.Name == "Cmp" && isSum(se.X) {
						mentions = true
					}
				}
				return true
			})
			if !mentions {
				over = -1
			}
		}
		verdict(":sum-at-most-one", over, "sum > 1 → error", "NewAllotment accepts portions that sum to more than 100%: the allocated parts exceed the amount")
		if twoRem == 0 {
			// no refusal under `.Remaining` at all
			refusals := 0
			ast.Inspect(d.Decl.Body, func(n ast.Node) bool {
				if r, ok := n.(*ast.ReturnStmt); ok && isErrorReturn(info, d.Decl.Body, r) == 1 {
					for _, ft := range xfactsAt(info, d.Decl.Body, r.Pos()) {
						if strings.HasSuffix(nospace(types.ExprString(ft.Cond)), ".Remaining") && ft.Positive {
							refusals++
						}
					}
				}
				return true
			})
			if refusals == 0 {
				twoRem = -1
			}
		}
		verdict(":single-remaining", twoRem, "second `remaining` → error", "NewAllotment accepts two `remaining` portions")
		comp := 0
		switch {
		case complement < 0:
			comp = -1
		case complement > 0 && summed > 0:
			comp = 1
		case complement == 0 && summed > 0:
			// the sum exists but nothing subtracts it from one
			subs := 0
			for _, call := range callsTo(info, d.Decl.Body, named("Sub")) {
				_ = call
				subs++
			}
			if subs == 0 {
				comp = -1
			}
		}
		verdict(":remaining-is-complement", comp, "remaining = 1 − Σ specific", "the `remaining` portion is not one minus the sum of the specific portions (every specific portion added to the sum): the portions no longer sum to 100%")
	}
	// specific portions lie in [0,1]
	for _, name := range []string{"NewPortionSpecific", "ValidatePortionSpecific"} {
		p := fn(c, pkgMachine, "", name)
		if p == nil {
			continue
		}
		pi := p.Pkg.TypesInfo
		lo, hi := false, false
		ast.Inspect(p.Decl.Body, func(n ast.Node) bool {
			is, ok := n.(*ast.IfStmt)
			if !ok || !astx.Terminates(pi, is.Body.List) {
				return true
			}
			for _, dj := range splitOr(is.Cond) {
				lhs, op := ratCmp(dj)
				if strings.HasSuffix(lhs, "~big.NewRat(0,1)") && (op == "==-1" || op == "<0") {
					lo = true
				}
				if strings.HasSuffix(lhs, "~big.NewRat(1,1)") && (op == "==1" || op == ">0") {
					hi = true
				}
			}
			return true
		})
		c.Check(lo && hi, "SHAPE/new-allotment", declKey(p)+":range", pos(c, p.Decl), "0 ≤ portion ≤ 1", name+" accepts a portion outside [0%, 100%]")
	}
}

func ruleVisitAllotmentShape(c *core.Ctx) {
	d := fn(c, pkgCompiler, "parseVisitor", "VisitAllotment")
	if d == nil {
		return
	}
	info := d.Pkg.TypesInfo
	key := declKey(d)
	// rejections: condition (as a set of conjunct strings) → present
	want := map[string]string{
		"total>1":                "known portions above 100%",
		"total<1&&!hasRemaining": "known portions below 100% without `remaining`",
		"total=1&&hasVariable":   "known portions equal to 100% together with a variable portion",
		"total=1&&hasRemaining":  "known portions equal to 100% together with `remaining`",
	}
	got := map[string]bool{}
	// every error return that is not inside the portion loop, described by the facts that hold there
	// (works for an if-chain, a first-match switch, or a comparison result kept in a local)
	var loopBody *ast.BlockStmt
	ast.Inspect(d.Decl.Body, func(n ast.Node) bool {
		switch l := n.(type) {
		case *ast.ForStmt:
			if loopBody == nil {
				loopBody = l.Body
			}
		case *ast.RangeStmt:
			if loopBody == nil {
				loopBody = l.Body
			}
		}
		return true
	})
	normFact := func(f string) string {
		positive := f[0] == '+'
		body := nospace(f[1:])
		// total.Cmp(big.NewRat(1,1)) <op> k
		if m := regexp.MustCompile(`^total\.Cmp\(big\.NewRat\(1,1\)\)(==|>|<|!=)(-?[0-9]+)$`).FindStringSubmatch(body); m != nil && positive {
			switch m[1] + m[2] {
			case "==1", ">0":
				return "total>1"
			case "==-1", "<0":
				return "total<1"
			case "==0":
				return "total=1"
			}
			return "total?" + m[1] + m[2]
		}
		if regexp.MustCompile(`^[A-Za-z_][A-Za-z0-9_]*$`).MatchString(body) {
			if positive {
				return body
			}
			return "!" + body
		}
		return ""
	}
	ast.Inspect(d.Decl.Body, func(n ast.Node) bool {
		r, ok := n.(*ast.ReturnStmt)
		if !ok || len(r.Results) != 1 || astx.IsNilExpr(info, r.Results[0]) {
			return true
		}
		if loopBody != nil && loopBody.Pos() <= r.Pos() && r.End() <= loopBody.End() {
			return true
		}
		var parts []string
		seen := map[string]bool{}
		hasTotal := false
		for _, f := range factStrings(info, d.Decl.Body, r.Pos()) {
			// a local holding the comparison (`cmp := total.Cmp(one)`) is expanded textually
			ff := f
			if m := regexp.MustCompile(`^([+-])([A-Za-z_][A-Za-z0-9_]*)(==|>|<)(-?[0-9]+)$`).FindStringSubmatch(nospace(f)); m != nil {
				var def ast.Expr
				ast.Inspect(d.Decl.Body, func(x ast.Node) bool {
					if as, ok := x.(*ast.AssignStmt); ok && len(as.Lhs) == 1 && len(as.Rhs) == 1 && types.ExprString(as.Lhs[0]) == m[2] {
						def = as.Rhs[0]
					}
					return true
				})
				if def != nil {
					ff = m[1] + nospace(types.ExprString(def)) + m[3] + m[4]
				}
			}
			nf := normFact(ff)
			if nf == "" || nf == "!err" || nf == "err" || seen[nf] {
				continue
			}
			if strings.HasPrefix(nf, "total") {
				hasTotal = true
			}
			seen[nf] = true
			parts = append(parts, nf)
		}
		if !hasTotal {
			return true
		}
		sort.Slice(parts, func(i, j int) bool {
			ti, tj := strings.HasPrefix(parts[i], "total"), strings.HasPrefix(parts[j], "total")
			if ti != tj {
				return ti
			}
			return parts[i] < parts[j]
		})
		got[strings.Join(parts, "&&")] = true
		return true
	})
	recognised := len(got) >= 2
	for cond, what := range want {
		c.Shape(recognised, got[cond], "SHAPE/visit-allotment", key+":rejects:"+cond, pos(c, d.Decl), "rejected at compile time", "the compiler does not reject an allotment with "+what+" (exactly under that condition): such an allotment can allocate more or less than the amount at run time")
	}
	for cond := range got {
		if _, ok := want[cond]; !ok && recognised {
			c.Fail("SHAPE/visit-allotment", key+":rejects:"+cond, pos(c, d.Decl), "unexpected rejection condition on the known sum: "+cond)
		}
	}
	// the flags and the sum are maintained by the arms of the portion loop
	okSum, okVar, okRem := false, false, false
	ast.Inspect(d.Decl.Body, func(n ast.Node) bool {
		cc, ok := n.(*ast.CaseClause)
		if !ok || len(cc.List) != 1 {
			return true
		}
		t := types.ExprString(cc.List[0])
		switch {
		case strings.HasSuffix(t, "AllotmentPortionConstContext"):
			for _, call := range callsTo(info, cc, func(f *types.Func) bool { return f.Name() == "Add" && f.Pkg() != nil && f.Pkg().Path() == "math/big" }) {
				if types.ExprString(recvExpr(call)) == "total" && len(call.Args) == 2 {
					a, b := strings.TrimPrefix(types.ExprString(call.Args[0]), "&"), strings.TrimPrefix(types.ExprString(call.Args[1]), "&")
					if (a == "total") != (b == "total") {
						okSum = len(factsNoErr(factStringsIn(info, cc, call.Pos()))) == 0
					}
				}
			}
		case strings.HasSuffix(t, "AllotmentPortionVarContext"):
			okVar = assignsTrue(cc, "hasVariable")
		case strings.HasSuffix(t, "AllotmentPortionRemainingContext"):
			okRem = assignsTrue(cc, "hasRemaining")
		}
		return true
	})
	c.Check(okSum && okVar && okRem, "SHAPE/visit-allotment", key+":bookkeeping", pos(c, d.Decl), "constant portions summed; variable and remaining flagged", "the compiler's bookkeeping of an allotment is incomplete (a constant portion not added to the known sum, or a variable / `remaining` portion not flagged): the 100% checks are evaluated on wrong data")
}

// factStringsIn: facts holding at p relative to the statements of a case clause.
func factStringsIn(info *types.Info, cc *ast.CaseClause, p token.Pos) []string {
	return factStrings(info, &ast.BlockStmt{List: cc.Body, Lbrace: cc.Colon, Rbrace: cc.End()}, p)
}

func assignsTrue(n ast.Node, name string) bool {
	ok := false
	ast.Inspect(n, func(x ast.Node) bool {
		if as, isA := x.(*ast.AssignStmt); isA && len(as.Lhs) == 1 && len(as.Rhs) == 1 && types.ExprString(as.Lhs[0]) == name && types.ExprString(as.Rhs[0]) == "true" {
			ok = true
		}
		return true
	})
	return ok
}
