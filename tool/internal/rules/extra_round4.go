package rules

import (
	"fmt"
	"go/ast"
	"go/token"
	"go/types"
	"strings"

	"ledgerlint/internal/astx"
	"ledgerlint/internal/core"
)

func init() {
	addBreakers("C29",
		Breaker{Name: "fixed-segment-falls-back-to-variable", File: "internal/chart.go",
			Old: "\t\t} else if segment.Account != nil {\n\t\t\treturn segment.Account, nil\n\t\t} else {\n\t\t\treturn nil, ErrInvalidAccount{\n\t\t\t\tpath:            path,\n\t\t\t\tsegment:         nextSegment,\n\t\t\t\tpatternMismatch: false,\n\t\t\t\thasSubsegments:  len(account) > 1,\n\t\t\t}\n\t\t}\n\t}\n\tif variableSegment != nil {", New: "\t\t} else if segment.Account != nil {\n\t\t\treturn segment.Account, nil\n\t\t} else if variableSegment == nil {\n\t\t\treturn nil, ErrInvalidAccount{\n\t\t\t\tpath:            path,\n\t\t\t\tsegment:         nextSegment,\n\t\t\t\tpatternMismatch: false,\n\t\t\t\thasSubsegments:  len(account) > 1,\n\t\t\t}\n\t\t}\n\t}\n\tif variableSegment != nil {", Expect: "SHAPE/chart-lookup"},
	)
	addBreakers("C30",
		Breaker{Name: "segment-decoded-into-reused-variable", File: "internal/chart.go",
			Old: "\tout := make(map[string]ChartSegment)\n\tfor key, value := range segment {", New: "\tout := make(map[string]ChartSegment)\n\tvar seg ChartSegment\n\tfor key, value := range segment {", Old2: "\t\tvar seg ChartSegment\n\t\terr := seg.UnmarshalJSON(value)", New2: "\t\terr := seg.UnmarshalJSON(value)", Expect: "KEYS/chart"},
		Breaker{Name: "imported-schema-rebuilt-without-queries", File: "internal/controller/ledger/controller_default.go",
			Old: "\t\t\t\tif err := store.InsertSchema(ctx, &payload.Schema); err != nil {", New: "\t\t\t\trebuilt := ledger.Schema{Version: payload.Schema.Version, CreatedAt: payload.Schema.CreatedAt, SchemaData: ledger.SchemaData{Chart: payload.Schema.Chart, Transactions: payload.Schema.Transactions}}\n\t\t\t\tif err := store.InsertSchema(ctx, &rebuilt); err != nil {", Expect: "DOM/import-schema"},
	)
	addBreakers("C31",
		Breaker{Name: "commit-error-filtered-in-a-helper", File: "internal/storage/ledger/store.go",
			Old: "\t\t\treturn db.Commit()\n", New: "\t\t\treturn keepCommitError(db.Commit())\n",
			Old2: "func (store *Store) GetLedger() ledger.Ledger {", New2: "func keepCommitError(err error) error {\n\tif err != nil && err.Error() == \"sql: transaction has already been committed or rolled back\" {\n\t\treturn nil\n\t}\n\treturn err\n}\n\nfunc (store *Store) GetLedger() ledger.Ledger {", Expect: "ERRP/commit-result"},
		Breaker{Name: "commit-reports-success-on-finished-transaction", File: "internal/storage/ledger/store.go",
			Old: "\t\t\treturn db.Commit()\n\t\t}))\n\t\treturn err\n", New: "\t\t\treturn db.Commit()\n\t\t}))\n\t\tif errors.Is(err, sql.ErrTxDone) {\n\t\t\treturn nil\n\t\t}\n\t\treturn err\n", Expect: "ERRP/commit-result"},
	)
	addBreakers("C32",
		Breaker{Name: "business-failures-do-not-stop-the-bulk", File: "internal/api/bulking/bulker.go",
			Old: "\t\t\t\t\thasError.Store(true)\n\t\t\t\t\tobserve.RecordError(ctx, err)\n", New: "\t\t\t\t\tif ret == nil {\n\t\t\t\t\t\thasError.Store(true)\n\t\t\t\t\t}\n\t\t\t\t\tobserve.RecordError(ctx, err)\n", Expect: "DOM/bulk-worker"},
	)
	addBreakers("C33",
		Breaker{Name: "item-failure-acknowledged", File: "internal/replication/drivers/batcher.go",
			Old: "\t\tif itemsErrors[index] != nil {\n\t\t\tlog.SetError(itemsErrors[index])\n\t\t} else {\n\t\t\tlog.SetResult(nil)\n\t\t}\n", New: "\t\tlog.SetResult(itemsErrors[index])\n", Expect: "DOM/batcher-item-errors"},
		Breaker{Name: "dead-driver-stays-registered", File: "internal/replication/manager.go",
			Old: "\t\tm.logger.Errorf(\"stopping driver: %s\", err)\n\t}\n\tfor name, registeredExporter := range m.drivers {", New: "\t\tm.logger.Errorf(\"stopping driver: %s\", err)\n\t\treturn\n\t}\n\tfor name, registeredExporter := range m.drivers {", Expect: "DOM/driver-lifecycle"},
	)
	addBreakers("C34",
		Breaker{Name: "worker-skips-initializing-ledgers", File: "internal/storage/worker_async_block.go",
			Old: "\t\t\tfor _, l := range cursor.Data {\n\t\t\t\tif err := r.processLedger(ctx, l); err != nil {", New: "\t\t\tfor _, l := range cursor.Data {\n\t\t\t\tif l.State == ledger.StateInitializing {\n\t\t\t\t\tcontinue\n\t\t\t\t}\n\t\t\t\tif err := r.processLedger(ctx, l); err != nil {", Expect: "DOM/block-worker"},
	)
}

// ruleChartLookupFixedFinal: a fixed segment that matches the next address element decides the
// lookup — accepted or rejected there, never retried through the sibling variable segment (an
// address the chart rejects under `admin` must not be accepted as a `$user`).
func ruleChartLookupFixedFinal(c *core.Ctx) {
	d := fn(c, pkgCore, "", "findAccountSchema")
	if d == nil {
		c.Fail("SHAPE/chart-lookup", "internal.findAccountSchema:declared", "", "findAccountSchema not found")
		return
	}
	info := d.Pkg.TypesInfo
	key := declKey(d)
	var fixedIf *ast.IfStmt
	for _, st := range d.Decl.Body.List {
		is, ok := st.(*ast.IfStmt)
		if !ok || is.Init == nil {
			continue
		}
		if as, ok := is.Init.(*ast.AssignStmt); ok && len(as.Rhs) == 1 {
			if ix, ok := as.Rhs[0].(*ast.IndexExpr); ok && argIsParam(c, d, ix.X, 1) {
				fixedIf = is
			}
		}
	}
	ok := fixedIf != nil && fixedIf.Else == nil && astx.Terminates(info, fixedIf.Body.List)
	c.Shape(fixedIf != nil, ok, "SHAPE/chart-lookup", key+":fixed-segment-final", pos(c, d.Decl), "a matching fixed segment returns on every path", "when a fixed segment matches the next element of the address, the lookup can fall through to the sibling variable segment: an address the fixed branch rejects is accepted through `$variable` (strict mode lets it in, with the wrong default metadata)")
	// the recursive calls descend into the matched segment's own children with the rest of the address
	n := 0
	for _, call := range callsTo(info, d.Decl.Body, named("findAccountSchema")) {
		if len(call.Args) != 4 {
			continue
		}
		n++
		a1, a2 := types.ExprString(call.Args[1]), types.ExprString(call.Args[2])
		base := strings.TrimSuffix(a1, ".FixedSegments")
		// the rest of the address: <4th parameter>[1:]
		rest := false
		if sl, isSl := ast.Unparen(call.Args[3]).(*ast.SliceExpr); isSl && sl.High == nil && sl.Max == nil && sl.Low != nil {
			if v, isC := constInt(info, sl.Low); isC && v == 1 && argIsParam(c, d, sl.X, 3) {
				rest = true
			}
		}
		okRec := strings.HasSuffix(a1, ".FixedSegments") && a2 == base+".VariableSegment" && rest
		c.Check(okRec, "SHAPE/chart-lookup", fmt.Sprintf("%s:descend#%d", key, n), pos(c, call), "descends into the matched segment's children with account[1:]", "the chart lookup does not descend into the matched segment's own fixed and variable children with the remaining address")
	}
	c.FloorShape("SHAPE/chart-lookup", "recursive descents", n, 2)
}

// ruleFreshDecodeTarget: a value decoded inside a loop is decoded into a variable declared in that
// iteration — UnmarshalJSON of a chart segment only sets the fields present in the input.
func ruleFreshDecodeTarget(c *core.Ctx) {
	n := 0
	for _, spec := range [][2]string{{"ChartOfAccounts", "UnmarshalJSON"}, {"ChartSegment", "UnmarshalJSON"}} {
		d := fn(c, pkgCore, spec[0], spec[1])
		if d == nil {
			continue
		}
		info := d.Pkg.TypesInfo
		ast.Inspect(d.Decl.Body, func(x ast.Node) bool {
			var body *ast.BlockStmt
			switch l := x.(type) {
			case *ast.RangeStmt:
				body = l.Body
			case *ast.ForStmt:
				body = l.Body
			}
			if body == nil {
				return true
			}
			for _, call := range callsTo(info, body, named("UnmarshalJSON")) {
				id, ok := ast.Unparen(recvExpr(call)).(*ast.Ident)
				if !ok {
					continue
				}
				obj := info.ObjectOf(id)
				if obj == nil {
					continue
				}
				if _, isVar := obj.(*types.Var); !isVar {
					continue
				}
				n++
				inLoop := body.Pos() <= obj.Pos() && obj.Pos() < body.End()
				c.Check(inLoop, "KEYS/chart", fmt.Sprintf("%s:fresh-target:%s", declKey(d), id.Name), pos(c, call), "decoded into a variable declared inside the loop body", "a chart segment is decoded into a variable that outlives the loop iteration: fields the input does not mention keep the previous segment's values (account status, default metadata leak from one root segment into the next, depending on map order)")
			}
			return true
		})
	}
	c.Floor("KEYS/chart", "segment decodes inside loops", n, 2)
}

// ruleImportSchemaVerbatim: an imported schema log is stored exactly as exported.
func ruleImportSchemaVerbatim(c *core.Ctx) {
	d := fn(c, pkgCtrl, "DefaultController", "importLog")
	if d == nil {
		return
	}
	info := d.Pkg.TypesInfo
	calls := callsTo(info, d.Decl.Body, named("InsertSchema"))
	ok := len(calls) == 1 && len(calls[0].Args) == 2 && nospace(types.ExprString(calls[0].Args[1])) == "&payload.Schema"
	c.Check(ok, "DOM/import-schema", declKey(d)+":schema-verbatim", pos(c, d.Decl), "InsertSchema(ctx, &payload.Schema)", "importLog does not store the schema carried by an INSERTED_SCHEMA log as it is: a rebuilt copy can lose documents (query templates, transaction templates) or dates")
}

// ruleCommitResultPropagated: Store.Commit reports exactly what the driver's Commit reported.
func ruleCommitResultPropagated(c *core.Ctx) {
	d := fn(c, pkgStore, "Store", "Commit")
	if d == nil {
		return
	}
	info := d.Pkg.TypesInfo
	key := declKey(d)
	bad := ast.Node(nil)
	n := 0
	ast.Inspect(d.Decl.Body, func(x ast.Node) bool {
		if _, isLit := x.(*ast.FuncLit); isLit {
			return false
		}
		r, ok := x.(*ast.ReturnStmt)
		if !ok || len(r.Results) != 1 {
			return true
		}
		n++
		if astx.IsNilExpr(info, r.Results[0]) {
			bad = r
		}
		return true
	})
	// and no filtering of the commit error
	filters := len(callsTo(info, d.Decl.Body, func(f *types.Func) bool {
		return f.Pkg() != nil && f.Pkg().Path() == "errors" && (f.Name() == "Is" || f.Name() == "As")
	}))
	// the same through a same-package helper the error is handed to (`return keep(db.Commit())`)
	isErrFilter := func(f *types.Func) bool {
		return f.Pkg() != nil && f.Pkg().Path() == "errors" && (f.Name() == "Is" || f.Name() == "As")
	}
	inScope(fnScope(c, d, 2), func(sd *astx.DeclInfo) {
		if sd == d || sd.Decl.Body == nil || sd.Decl.Type.Params == nil {
			return
		}
		var errParams []types.Object
		for _, fl := range sd.Decl.Type.Params.List {
			if t := sd.Pkg.TypesInfo.TypeOf(fl.Type); t != nil && t.String() == "error" {
				for _, nm := range fl.Names {
					errParams = append(errParams, sd.Pkg.TypesInfo.ObjectOf(nm))
				}
			}
		}
		if len(errParams) == 0 {
			return
		}
		filters += len(callsTo(sd.Pkg.TypesInfo, sd.Decl.Body, isErrFilter))
		ast.Inspect(sd.Decl.Body, func(x ast.Node) bool {
			if r, ok := x.(*ast.ReturnStmt); ok && len(r.Results) == 1 && astx.IsNilExpr(sd.Pkg.TypesInfo, r.Results[0]) {
				// `return nil` where the error handed in is known to be nil changes nothing
				facts := astx.FactsAt(sd.Pkg.TypesInfo, sd.Decl.Body, r.Pos())
				harmless := false
				for _, ep := range errParams {
					if astx.ErrNonNilFact(sd.Pkg.TypesInfo, facts, ep) == -1 {
						harmless = true
					}
				}
				if !harmless {
					filters++
				}
			}
			return true
		})
	})
	c.Check(bad == nil && filters == 0 && n >= 2, "ERRP/commit-result", key, pos(c, d.Decl), "returns the driver's Commit error untouched", "Store.Commit can report success although the driver's Commit failed (for instance database/sql's ErrTxDone after the context was cancelled and the transaction rolled back): the write is answered as committed and its events are published although nothing was made durable")
}

// ruleBulkFailureRecorded: every failed element marks the bulk as failed — whatever the kind of error.
func ruleBulkFailureRecorded(c *core.Ctx) {
	m := bulkWorkerModel(c)
	if m == nil {
		return
	}
	d := m.run
	key := declKey(d)
	if m.flag == nil {
		c.Unrecognised("DOM/bulk-worker", key+":failure-recorded", pos(c, d.Decl), "the shared failure flag (an atomic.Bool local of run) was not identified")
		return
	}
	type site struct {
		env  *originEnv
		call *ast.CallExpr
	}
	var stores []site
	for _, e := range m.envs {
		for _, call := range e.calls(named("Store")) {
			if len(call.Args) == 1 && e.rootObj(recvExpr(call)) == m.flag {
				if v, known := constBool(e.info, e.d.Decl.Body, call.Args[0]); known && v {
					stores = append(stores, site{e, call})
				}
			}
		}
	}
	if len(stores) == 0 {
		c.Fail("DOM/bulk-worker", key+":failure-recorded", pos(c, d.Decl), "the worker never records a failure (hasError.Store(true))")
		return
	}
	ok := false
	for _, st := range stores {
		// innermost enclosing if: `err != nil`, and Store is a direct statement of its body
		var inner *ast.IfStmt
		ast.Inspect(st.env.d.Decl.Body, func(x ast.Node) bool {
			if is, isIf := x.(*ast.IfStmt); isIf && is.Body.Pos() <= st.call.Pos() && st.call.End() <= is.Body.End() {
				inner = is
			}
			return true
		})
		if inner != nil && isErrNilTest(st.env.info, inner.Cond) {
			if be, isB := ast.Unparen(inner.Cond).(*ast.BinaryExpr); isB && be.Op == token.NEQ {
				for _, s := range inner.Body.List {
					if es, isE := s.(*ast.ExprStmt); isE && es.X == ast.Expr(st.call) {
						ok = true
					}
				}
			}
		}
	}
	c.Check(ok, "DOM/bulk-worker", key+":failure-recorded", pos(c, stores[0].call), "hasError.Store(true) for every failed element (directly under `err != nil`)", "a failed element marks the bulk as failed only under an additional condition: other failures neither stop the following elements of a sequential bulk nor roll an atomic bulk back")
}

// ruleBatcherItemErrors: the batching driver reports a per-item failure as a failure.
func ruleBatcherItemErrors(c *core.Ctx) {
	d := fn(c, "internal/replication/drivers", "Batcher", "commit")
	if d == nil {
		c.Unknown("DOM/batcher-item-errors", "internal/replication/drivers.(Batcher).commit", "", "not found")
		return
	}
	info := d.Pkg.TypesInfo
	key := declKey(d)
	okItem, okCall, badResult := false, false, false
	isErrTyped := func(e ast.Expr) bool {
		t := info.TypeOf(e)
		return t != nil && types.Implements(t, types.Universe.Lookup("error").Type().Underlying().(*types.Interface))
	}
	guardedNonNil := func(fs []string, arg string, positive bool) bool {
		for _, f := range fs {
			b := nospace(f[1:])
			if (f[0] == '+') == positive && b == nospace(arg)+"!=nil" {
				return true
			}
			if (f[0] == '+') != positive && b == nospace(arg)+"==nil" {
				return true
			}
		}
		return false
	}
	setErrs := callsTo(info, d.Decl.Body, named("SetError"))
	setRes := callsTo(info, d.Decl.Body, named("SetResult"))
	for _, call := range setErrs {
		if len(call.Args) != 1 {
			continue
		}
		fs := factStrings(info, d.Decl.Body, call.Pos())
		arg := types.ExprString(call.Args[0])
		if !guardedNonNil(fs, arg, true) {
			continue
		}
		// item-level when the error comes out of the per-item slice (directly or through a local)
		src := types.ExprString(resolveLocal(info, d.Decl.Body, call.Args[0]))
		if strings.Contains(src, "[") {
			okItem = true
		} else {
			okCall = true
		}
	}
	for _, call := range setRes {
		if len(call.Args) == 1 && !astx.IsNilExpr(info, call.Args[0]) && isErrTyped(call.Args[0]) {
			badResult = true // an error value handed over as a result
		}
		fs := factStrings(info, d.Decl.Body, call.Pos())
		neg := false
		for _, f := range fs {
			b := nospace(f[1:])
			if (f[0] == '-' && strings.HasSuffix(b, "!=nil")) || (f[0] == '+' && strings.HasSuffix(b, "==nil")) {
				neg = true
			}
		}
		if !neg {
			badResult = true
		}
	}
	recognised := len(setErrs)+len(setRes) > 0
	c.Shape(recognised, okItem && okCall && !badResult, "DOM/batcher-item-errors", key, pos(c, d.Decl), "SetError for a failed call and for each failed item; SetResult(nil) only for items without error", "the batching driver completes a failed item as a result instead of an error: Accept sees no failure, the pipeline advances and persists last_log_id past a log the exporter never stored")
}

// ruleStopDriverUnregisters: a driver that was asked to stop is forgotten even when Stop failed.
func ruleStopDriverUnregisters(c *core.Ctx) {
	d := fn(c, pkgReplic, "Manager", "stopDriver")
	if d == nil {
		return
	}
	info := d.Pkg.TypesInfo
	key := declKey(d)
	var del *ast.CallExpr
	ast.Inspect(d.Decl.Body, func(x ast.Node) bool {
		if call, ok := x.(*ast.CallExpr); ok {
			if id, ok := call.Fun.(*ast.Ident); ok && id.Name == "delete" && len(call.Args) == 2 && strings.HasSuffix(types.ExprString(call.Args[0]), ".drivers") {
				del = call
			}
		}
		return true
	})
	ok := del != nil
	if ok {
		for _, f := range astx.FactsAt(info, d.Decl.Body, del.Pos()) {
			s := types.ExprString(f.Cond)
			if strings.Contains(s, "err") {
				ok = false // reached only when Stop succeeded (or failed)
			}
		}
	}
	c.Check(ok, "DOM/driver-lifecycle", key+":unregisters", pos(c, d.Decl), "the driver is removed from the registry whether or not Stop failed", "a driver whose Stop failed stays registered: the next start of a pipeline on that exporter reuses the dead driver, Accept never succeeds again and no further log is delivered")
}

// ruleBlockWorkerLoop: the block worker calls create_blocks for every ledger its query selected.
func ruleBlockWorkerLoop(c *core.Ctx) {
	d := fn(c, pkgStorageTop, "AsyncBlockRunner", "run")
	if d == nil {
		c.Unknown("DOM/block-worker", "internal/storage.(AsyncBlockRunner).run", "", "not found")
		return
	}
	key := declKey(d)
	// the loop over a page of ledgers: in run itself or in a helper it hands the page to
	state := 0 // +1 ok, -1 wrong, 0 not found
	for _, env := range scopeEnvs(c, d) {
		env := env
		ast.Inspect(env.d.Decl.Body, func(x ast.Node) bool {
			r, isR := x.(*ast.RangeStmt)
			if !isR || !strings.HasSuffix(env.origin(r.X), ".Data") {
				return true
			}
			calls := callsTo(env.info, r.Body, named("processLedger"))
			if len(calls) == 0 {
				return true
			}
			skip := false
			ast.Inspect(r.Body, func(y ast.Node) bool {
				if b, isB := y.(*ast.BranchStmt); isB && (b.Tok == token.CONTINUE || b.Tok == token.BREAK) {
					skip = true
				}
				return true
			})
			top := false
			if len(calls) == 1 {
				for _, st := range r.Body.List {
					if st.Pos() <= calls[0].Pos() && calls[0].End() <= st.End() {
						if is, isIf := st.(*ast.IfStmt); isIf && is.Init != nil && is.Init.Pos() <= calls[0].Pos() && calls[0].End() <= is.Init.End() {
							top = true
						}
						if _, isE := st.(*ast.ExprStmt); isE {
							top = true
						}
						if _, isA := st.(*ast.AssignStmt); isA {
							top = true
						}
					}
				}
			}
			ok := len(calls) == 1 && !skip && top && r.Value != nil && len(calls[0].Args) == 2 && types.ExprString(calls[0].Args[1]) == types.ExprString(r.Value)
			if ok {
				if state == 0 {
					state = 1
				}
			} else {
				state = -1
			}
			return true
		})
	}
	msg := "the block worker skips some of the ledgers its HASH_LOGS=ASYNC query selected (an extra continue/condition in the loop): their logs never get a block"
	switch state {
	case 1:
		c.Pass("DOM/block-worker", key+":every-selected-ledger", pos(c, d.Decl), "processLedger for every ledger of every page, unconditionally")
	case -1:
		c.Fail("DOM/block-worker", key+":every-selected-ledger", pos(c, d.Decl), msg)
	default:
		if len(scopeCalls(fnScope(c, d, 2), named("processLedger"))) == 0 {
			failOrGone(c, pkgStorageTop, "processLedger", "DOM/block-worker", key+":every-selected-ledger", pos(c, d.Decl), "the block worker no longer processes the ledgers it selects")
		} else {
			c.Unrecognised("DOM/block-worker", key+":every-selected-ledger", pos(c, d.Decl), "the loop over the page of selected ledgers is not in a shape the rule reads")
		}
	}
}
