package rules

import (
	"go/ast"
	"go/types"

	"ledgerlint/internal/astx"
	"ledgerlint/internal/core"
)

// fnScope returns d together with the functions of the same package it (transitively, up to
// depth) calls. Shape rules look for their anchors in this scope so that extracting a helper
// does not hide the logic from them.
func fnScope(c *core.Ctx, d *astx.DeclInfo, depth int) []*astx.DeclInfo {
	if d == nil {
		return nil
	}
	ix := index(c)
	seen := map[*types.Func]bool{d.Obj: true}
	out := []*astx.DeclInfo{d}
	frontier := []*astx.DeclInfo{d}
	for i := 0; i < depth; i++ {
		var next []*astx.DeclInfo
		for _, cur := range frontier {
			if cur.Decl.Body == nil {
				continue
			}
			ast.Inspect(cur.Decl.Body, func(n ast.Node) bool {
				call, ok := n.(*ast.CallExpr)
				if !ok {
					return true
				}
				f := astx.Callee(cur.Pkg.TypesInfo, call)
				if f == nil || f.Pkg() == nil || f.Pkg() != d.Obj.Pkg() || seen[f] {
					return true
				}
				if dd := ix.Decls[f]; dd != nil && dd.Decl.Body != nil {
					seen[f] = true
					out = append(out, dd)
					next = append(next, dd)
				}
				return true
			})
		}
		frontier = next
	}
	return out
}

// inScope runs f over the body of every function of the scope.
func inScope(scope []*astx.DeclInfo, f func(d *astx.DeclInfo)) {
	for _, d := range scope {
		if d != nil && d.Decl.Body != nil {
			f(d)
		}
	}
}

// scopeCalls collects the calls matching m over a scope, with the function each was found in.
type scopedCall struct {
	D    *astx.DeclInfo
	Call *ast.CallExpr
}

func scopeCalls(scope []*astx.DeclInfo, m func(*types.Func) bool) []scopedCall {
	var out []scopedCall
	inScope(scope, func(d *astx.DeclInfo) {
		for _, call := range callsTo(d.Pkg.TypesInfo, d.Decl.Body, m) {
			out = append(out, scopedCall{d, call})
		}
	})
	return out
}
