package rules

import (
	"fmt"
	"go/ast"
	"go/token"
	"go/types"
	"sort"
	"strings"

	"ledgerlint/internal/astx"
	"ledgerlint/internal/core"
	"ledgerlint/internal/sqlfe"
)

func init() {
	register("C13", checkC13)
	register("C14", checkC14)
	register("C16", checkC16)
	addBreakers("C14",
		Breaker{Name: "reference-index-not-unique", File: "internal/storage/bucket/migrations/14-transaction-reference-index/up.sql",
			Old: "create unique index", New: "create index", Expect: "CAT/reference-index"},
		Breaker{Name: "reference-index-without-ledger", File: "internal/storage/bucket/migrations/14-transaction-reference-index/up.sql",
			Old: "(ledger, reference)", New: "(reference)", Expect: "CAT/reference-index"},
		Breaker{Name: "constraint-name-typo", File: "internal/storage/ledger/transactions.go",
			Old: `GetConstraint() == "transactions_reference"`, New: `GetConstraint() == "transaction_reference"`, Expect: "EXH/constraint-names"},
		Breaker{Name: "reference-conflict-mapped-to-400", File: "internal/api/v2/controllers_transactions_create.go",
			Old: "api.WriteErrorResponse(w, http.StatusConflict, common.ErrConflict, err)", New: "api.BadRequest(w, common.ErrConflict, err)", Expect: "HTTP/reference-conflict"},
		Breaker{Name: "v1-batch-forgets-reference-conflict", File: "internal/api/v1/controllers_transactions_create.go",
			Old: "\t\t\tcase errors.Is(err, ledgerstore.ErrTransactionReferenceConflict{}):\n\t\t\t\tapi.WriteErrorResponse(w, http.StatusConflict, common.ErrConflict, err)\n", New: "", Expect: "HTTP/reference-conflict"},
		Breaker{Name: "later-migration-drops-reference-index", File: "internal/storage/bucket/migrations/53-fix-logs-blocks-pkey-collision/up.sql",
			Old: "alter table logs_blocks add primary key (ledger, previous);", New: "alter table logs_blocks add primary key (ledger, previous);\n\t\tdrop index transactions_reference;", Expect: "CAT/reference-index"},
	)
	addBreakers("C16",
		Breaker{Name: "logs-pk-without-ledger", File: "internal/storage/bucket/migrations/0-init-schema/up.sql",
			Old: "create unique index logs_ledger on logs (ledger, id);", New: "create unique index logs_ledger on logs (id);", Expect: "CAT/id-unique"},
		Breaker{Name: "log-sequence-only-with-hashing", File: "internal/storage/bucket/default_bucket.go",
			Old: "\t{\n\t\tscript: `\n\t\t-- create a sequence for logs by ledger", New: "\t{\n\t\trequireFeatures: features.FeatureSet{\n\t\t\tfeatures.FeatureHashLogs: \"SYNC\",\n\t\t},\n\t\tscript: `\n\t\t-- create a sequence for logs by ledger", Expect: "SEQ/"},
		Breaker{Name: "setval-scoped-to-other-table", File: "internal/storage/bucket/default_bucket.go",
			Old: "\t\t\tfrom \"{{.Bucket}}\".logs\n\t\t\twhere ledger = '{{ .Name }}'", New: "\t\t\tfrom \"{{.Bucket}}\".logs", Expect: "SEQ/setval"},
		Breaker{Name: "transaction-nextval-uses-log-sequence", File: "internal/storage/ledger/transactions.go",
			Old: "fmt.Sprintf(`\"transaction_id_%d\"`, store.ledger.ID)", New: "fmt.Sprintf(`\"log_id_%d\"`, store.ledger.ID)", Expect: "SEQ/users"},
		Breaker{Name: "nextval-even-with-explicit-id", File: "internal/storage/ledger/logs.go",
			Old: "\t\t\tif log.ID == nil {\n\t\t\t\tquery = query.Value(\"id\", \"nextval(?)\", store.GetPrefixedRelationName(fmt.Sprintf(`\"log_id_%d\"`, store.ledger.ID)))\n\t\t\t}", New: "\t\t\tquery = query.Value(\"id\", \"nextval(?)\", store.GetPrefixedRelationName(fmt.Sprintf(`\"log_id_%d\"`, store.ledger.ID)))", Expect: "SEQ/users"},
		Breaker{Name: "resync-wrong-sequence", File: "internal/controller/system/state_tracker.go",
			Old: "'\"%s\".\"log_id_%d\"', \n\t\t\t\t\t\t(\n\t\t\t\t\t\t\tselect max(id) from \"%s\".logs where ledger = '%s'", New: "'\"%s\".\"log_id_%d\"', \n\t\t\t\t\t\t(\n\t\t\t\t\t\t\tselect max(id) from \"%s\".transactions where ledger = '%s'", Expect: "SEQ/resync"},
	)
	addBreakers("C13",
		Breaker{Name: "script-vars-in-map-order", File: "internal/controller/ledger/numscript.go",
			Old: "\tfor _, v := range monVars {\n\t\tsb.WriteString(fmt.Sprintf(\"\\tmonetary $%s\\n\", v))\n\t}", New: "\t_ = monVars\n\tfor _, v := range monetaryToVars {\n\t\tsb.WriteString(fmt.Sprintf(\"\\tmonetary $%s\\n\", v.name))\n\t}", Expect: "DET/script-text"},
		Breaker{Name: "ik-index-not-unique", File: "internal/storage/bucket/migrations/8-ik-ledger-unique-index/up.sql",
			Old: "create unique index", New: "create index", Expect: "CAT/ik-index"},
		Breaker{Name: "ik-hit-without-hash-comparison", File: "internal/controller/ledger/log_process.go",
			Old: "if computedHash := ledger.ComputeIdempotencyHash(parameters.Input); log.IdempotencyHash != computedHash {", New: "if computedHash := ledger.ComputeIdempotencyHash(parameters.Input); len(computedHash) == 0 {", Expect: "DOM/ik-hash-compared"},
		Breaker{Name: "ik-lookup-after-run", File: "internal/controller/ledger/log_process.go",
			Old: "\tif parameters.IdempotencyKey != \"\" {\n\t\tlog, output, err := lp.fetchLogWithIK(ctx, txStore, parameters)", New: "\tif parameters.IdempotencyKey != \"\" && parameters.DryRun {\n\t\tlog, output, err := lp.fetchLogWithIK(ctx, txStore, parameters)", Expect: "DOM/ik-lookup-first"},
		Breaker{Name: "ik-conflict-not-retried", File: "internal/controller/ledger/log_process.go",
			Old: "if errors.Is(err, postgres.ErrDeadlockDetected) || errors.Is(err, ledgerstore.ErrIdempotencyKeyConflict{}) {", New: "if errors.Is(err, postgres.ErrDeadlockDetected) {", Expect: "DOM/ik-conflict-retried"},
		Breaker{Name: "ik-constraint-name-typo", File: "internal/storage/ledger/logs.go",
			Old: `GetConstraint() == "logs_idempotency_key"`, New: `GetConstraint() == "logs_idempotency"`, Expect: "EXH/constraint-names"},
		Breaker{Name: "v2-revert-drops-write-errors", File: "internal/api/v2/controllers_transactions_revert.go",
			Old: "common.HandleCommonWriteErrors(w, r, err)", New: "common.HandleCommonErrors(w, r, err)", Expect: "HTTP/ik-errors"},
		Breaker{Name: "log-not-stamped-with-ik-hash", File: "internal/controller/ledger/log_process.go",
			Old: "\tlog.IdempotencyHash = ledger.ComputeIdempotencyHash(parameters.Input)\n", New: "", Expect: "DOM/ik-stamped"},
	)
}

// ---------- shared: constraint names in Go must name unique indexes of the catalog ----------

func ruleConstraintNames(c *core.Ctx) {
	pk := c.Prog().Pkg(pkgStore)
	cat := c.Catalog()
	n := 0
	expectErr := map[string]string{
		"transactions_reference": "NewErrTransactionReferenceConflict",
		"transactions_ledger":    "NewErrConcurrentTransaction",
		"logs_idempotency_key":   "NewErrIdempotencyKeyConflict",
	}
	seen := map[string]bool{}
	info := pk.TypesInfo
	// the constraint name a fact tests: `<x>.GetConstraint() == <const>` holding positively
	var curBody *ast.BlockStmt
	constraintOf := func(f xfact) (string, bool, bool) {
		be, ok := f.Cond.(*ast.BinaryExpr)
		if !ok || be.Op != token.EQL || !f.Positive {
			return "", false, false
		}
		for _, pair := range [][2]ast.Expr{{be.X, be.Y}, {be.Y, be.X}} {
			side := ast.Unparen(pair[0])
			if curBody != nil {
				side = ast.Unparen(resolveLocal(info, curBody, side))
			}
			call, ok := side.(*ast.CallExpr)
			if !ok {
				continue
			}
			if f := astx.Callee(info, call); f == nil || f.Name() != "GetConstraint" {
				continue
			}
			name, isConst := constStr(info, pair[1])
			return name, isConst, true
		}
		return "", false, false
	}
	for _, f := range pk.Syntax {
		for _, d := range f.Decls {
			fd, ok := d.(*ast.FuncDecl)
			if !ok || fd.Body == nil {
				continue
			}
			curBody = fd.Body
			for _, call := range callsTo(info, fd.Body, func(f *types.Func) bool { return strings.HasPrefix(f.Name(), "NewErr") }) {
				for _, ft := range xfactsAt(info, fd.Body, call.Pos()) {
					name, isConst, isTest := constraintOf(ft)
					if !isTest {
						continue
					}
					if !isConst {
						c.Unrecognised("EXH/constraint-names", enclKey(pkgStore, fd)+":non-constant", pos(c, call), "constraint name compared is not a constant")
						continue
					}
					n++
					seen[name] = true
					key := enclKey(pkgStore, fd) + ":" + name
					ix := cat.Indexes[name]
					c.Check(ix != nil && ix.Unique, "EXH/constraint-names", key+":names-unique-index", pos(c, call), "unique index "+name+" exists after all migrations",
						fmt.Sprintf("the code maps constraint %q to a conflict error but no unique index of that name exists in the folded catalog: the violation would surface as a generic error (or never happen)", name))
					if want, ok := expectErr[name]; ok {
						got := astx.Callee(info, call).Name()
						c.Check(got == want, "EXH/constraint-names", key+":error", pos(c, call), want, fmt.Sprintf("constraint %q is mapped to %s, expected %s", name, got, want))
					}
				}
			}
		}
	}
	for name := range expectErr {
		c.Check(seen[name], "EXH/constraint-names", "mapped:"+name, "", "mapped", "constraint "+name+" is no longer mapped to its conflict error in storage/ledger")
	}
	c.Floor("EXH/constraint-names", "constraint-name comparisons", n, 3)
}

// handlingAfter finds how the error of a controller call is answered in an API handler:
// the error switch in the following `if err != nil` (or the direct delegate call).
func handlingAfter(c *core.Ctx, s *astx.Site) (*ErrSwitch, *Outcome) {
	info := s.Pkg.TypesInfo
	var res *ErrSwitch
	var direct *Outcome
	// the if statement: either wraps the call in its init or follows the assignment
	var target *ast.IfStmt
	ast.Inspect(s.Encl.Body, func(n ast.Node) bool {
		is, ok := n.(*ast.IfStmt)
		if !ok {
			return true
		}
		if is.Init != nil && is.Init.Pos() <= s.Call.Pos() && s.Call.End() <= is.Init.End() {
			target = is
			return false
		}
		if is.Pos() > s.Call.End() && target == nil && len(errorCondVars(info, is.Cond)) > 0 {
			target = is
			return false
		}
		return true
	})
	if target == nil {
		return nil, nil
	}
	for _, es := range errSwitches(c) {
		if es.Stmt.Pos() >= target.Body.Pos() && es.Stmt.End() <= target.Body.End() {
			res = es
		}
	}
	if res == nil {
		direct = outcomeOfBody(info, target.Body.List)
	}
	return res, direct
}

func outcomeFor(c *core.Ctx, es *ErrSwitch, direct *Outcome, name string) Outcome {
	if es != nil {
		return resolveOutcome(c, es, name, 0)
	}
	if direct == nil {
		return Outcome{Status: -1}
	}
	if direct.Delegate != "" {
		for _, other := range errSwitches(c) {
			if other.Func != nil && other.Func.Decl.Name.Name == direct.Delegate {
				return resolveOutcome(c, other, name, 1)
			}
		}
	}
	return *direct
}

// writeCallSites: call sites in the API packages of controller methods that produce a log.
func writeCallSites(c *core.Ctx, methods ...string) []*astx.Site {
	var out []*astx.Site
	want := map[string]bool{}
	for _, m := range methods {
		want[m] = true
	}
	for _, s := range index(c).Sites {
		if s.Encl == nil || !want[s.Callee.Name()] {
			continue
		}
		rel := relPkg(s.Pkg.PkgPath)
		if rel != pkgAPIv1 && rel != pkgAPIv2 {
			continue
		}
		sig, _ := s.Callee.Type().(*types.Signature)
		if sig == nil || sig.Recv() == nil || astx.RecvTypeName(sig.Recv().Type()) != "Controller" {
			continue
		}
		out = append(out, s)
	}
	sort.Slice(out, func(i, j int) bool { return out[i].Call.Pos() < out[j].Call.Pos() })
	return out
}

var logWriters = []string{"CreateTransaction", "RevertTransaction", "SaveTransactionMetadata", "SaveAccountMetadata", "DeleteTransactionMetadata", "DeleteAccountMetadata", "InsertSchema"}

// ---------- C14 ----------

func checkC14(c *core.Ctx) {
	c.Decide("after all migrations a unique index named transactions_reference exists on transactions(ledger, reference) restricted to reference <> ''; the constraint names compared in storage/ledger name unique indexes of the folded catalog and map to the matching conflict errors; the reference column is written nullzero (empty reference stays outside the index); every API handler that creates transactions (v1, v2, bulk) answers ErrTransactionReferenceConflict with 409/CONFLICT")
	c.NotDecided("that Postgres enforces the index under concurrency")
	c.Trust("unique index semantics of Postgres; go-libs ResolveError turning 23505 into ErrConstraintsFailed with the constraint name")
	cat := c.Catalog()
	for _, o := range cat.OpaqueMentioning("transactions_reference", "transactions_reference2") {
		c.Unknown("CAT/reference-index", "opaque:"+o.Head, o.Origin, "unclassified migration statement mentions the reference index")
	}
	ix := cat.Indexes["transactions_reference"]
	if ix == nil {
		c.Fail("CAT/reference-index", "exists", "", "no index named transactions_reference exists after all migrations: reference uniqueness is not enforced by the database")
	} else {
		c.Check(ix.Unique, "CAT/reference-index", "unique", ix.Origin, "unique", "index transactions_reference is not UNIQUE")
		c.Check(ix.Table == "transactions" && eqStrings(ix.Cols, []string{"ledger", "reference"}), "CAT/reference-index", "columns", ix.Origin, "transactions(ledger, reference)", fmt.Sprintf("index transactions_reference is on %s%v, expected transactions(ledger, reference): the same reference must be usable in different ledgers and unique within one", ix.Table, ix.Cols))
		pred := sqlfe.Canon(ix.Where)
		c.Check(pred == "('' <> reference)" || pred == "", "CAT/reference-index", "predicate", ix.Origin, "where reference <> '' (or none)", "index predicate is "+pred+": it must not exclude non-empty references")
	}
	// no narrower (bucket-wide) unique constraint on transactions; the constraint is never absent
	// between two migrations; the conflict error survives every wrapper on its way to the handler
	ruleUniqueScope(c, "CAT/unique-scope", "transactions")
	ruleUniqueContinuity(c, "CAT/unique-continuity", "transactions")
	ruleErrorChainKept(c)
	ruleConstraintNames(c)
	// reference column tag
	if td := namedType(c, pkgCore, "TransactionData"); td != nil {
		ok := false
		for _, bf := range bunFields(td, 0) {
			if bf.Column == "reference" {
				for _, o := range bf.Opts {
					if o == "nullzero" {
						ok = true
					}
				}
			}
		}
		emptyExcluded := ix != nil && sqlfe.Canon(ix.Where) == "('' <> reference)"
		c.Check(ok || emptyExcluded, "CAT/reference-index", "empty-reference-outside-index", "", "empty reference is NULL or excluded by the predicate", "an empty reference would be indexed: two transactions without reference would conflict")
	}
	// HTTP
	n := 0
	for _, s := range writeCallSites(c, "CreateTransaction") {
		n++
		es, direct := handlingAfter(c, s)
		oc := outcomeFor(c, es, direct, pkgStore+".ErrTransactionReferenceConflict")
		c.Check(oc.Status == 409, "HTTP/reference-conflict", astx.FuncKey(s.EnclObj)+":CreateTransaction#"+fmt.Sprint(n), pos(c, s.Call), "409", "a reference conflict from CreateTransaction is answered "+describeOutcome(oc)+", expected 409 CONFLICT")
	}
	c.Floor("HTTP/reference-conflict", "API call sites of CreateTransaction", n, 3)
	if d := fn(c, pkgBulk, "", "mapBulkElementError"); d != nil {
		for _, es := range errSwitches(c) {
			if es.Func == d {
				oc := resolveOutcome(c, es, pkgStore+".ErrTransactionReferenceConflict", 0)
				c.Check(oc.Code == "ErrConflict", "HTTP/reference-conflict", "bulk:mapBulkElementError", pos(c, es.Stmt), "CONFLICT", "bulk elements report a reference conflict as "+describeOutcome(oc))
			}
		}
	}
	ruleReferenceReachesStore(c)
}

// ---------- C16 ----------

func checkC16(c *core.Ctx) {
	c.Decide("unique indexes (primary keys) on transactions(ledger, id) and logs(ledger, id) survive all migrations; ledgerSetups creates transaction_id_<ID> and log_id_<ID> for every ledger regardless of features and initialises each from max(id)+1 of its own table restricted to the ledger; the migration DO blocks create the same objects for pre-existing ledgers; InsertTransaction/InsertLog draw nextval from exactly those sequences and only when no id is supplied; the first-write resync in handleState sets each sequence from max(id) of its own table and ledger")
	c.NotDecided("that ids increase in commit order under concurrency (needs the lock analysis of C09/C34 plus execution)")
	c.Trust("Postgres sequence semantics")
	ruleIDsAndSequences(c)
	// imported ids: strictly increasing within and across imports (shared with C12); ids drawn
	// under the per-ledger lock when the hash chain needs commit order (shared with C09); the
	// unique (ledger, id) constraints never absent between two migrations
	ruleImportIDOrder(c)
	ruleLogInsertLock(c)
	ruleUniqueContinuity(c, "CAT/unique-continuity", "transactions", "logs")
}

// ruleIDsAndSequences: unique (ledger, id), per-ledger sequences created plainly for every ledger
// and started after the existing ids, drawn from by the insert paths, resynced on first write.
func ruleIDsAndSequences(c *core.Ctx) {
	cat := c.Catalog()
	for _, t := range []string{"transactions", "logs"} {
		found := false
		for _, name := range sqlfe.SortedKeys(cat.Indexes) {
			ix := cat.Indexes[name]
			if ix.Table == t && ix.Unique && eqStrings(ix.Cols, []string{"ledger", "id"}) {
				found = true
				c.Pass("CAT/id-unique", t+":"+name, ix.Origin, "unique (ledger, id)")
			}
		}
		c.Check(found, "CAT/id-unique", t+":unique(ledger,id)", "", "present", "no unique index on "+t+"(ledger, id) after all migrations: ids would not be unique per ledger (or unique only across the whole bucket)")
		for _, o := range cat.OpaqueMentioning(t + "_ledger") {
			c.Unknown("CAT/id-unique", "opaque:"+o.Head, o.Origin, "unclassified migration statement mentions "+t+"_ledger")
		}
	}
	ls := ledgerSetups(c)
	type seqSpec struct{ seq, table string }
	for _, sp := range []seqSpec{{"transaction_id_<id>", "transactions"}, {"log_id_<id>", "logs"}} {
		for where, objs := range map[string]map[string]*sqlfe.PerLedgerObj{"ledgerSetups": ls.Cat.MigrationLedgerObjs, "migrations": cat.MigrationLedgerObjs} {
			sq := objs["sequence:"+sp.seq]
			c.Check(sq != nil && sq.Cond == "", "SEQ/creation", where+":"+sp.seq, "", "created unconditionally", fmt.Sprintf("%s does not create sequence %s for every ledger (missing or feature-dependent)", where, sp.seq))
			if sq != nil {
				// ids follow commit order (under the per-ledger lock) only if nextval hands out
				// consecutive values to whichever session asks: no per-session cache, step 1, no cycle
				low := " " + strings.ToLower(sq.Text) + " "
				plain := true
				for _, opt := range []string{" cache ", " increment ", " cycle ", " maxvalue ", " minvalue ", " start "} {
					if strings.Contains(low, opt) && !strings.Contains(low, " no"+strings.TrimSpace(opt)+" ") && !strings.Contains(low, " no "+strings.TrimSpace(opt)+" ") {
						if opt == " cache " && (strings.Contains(low, " cache 1 ") || strings.Contains(low, " cache 1;")) {
							continue
						}
						plain = false
					}
				}
				c.Check(plain, "SEQ/creation", where+":"+sp.seq+":plain", sq.Origin, "no cache / increment / cycle options", fmt.Sprintf("%s creates sequence %s with options (%s): with a per-session cache or a step other than 1 the ids handed to concurrent connections no longer increase in commit order", where, sp.seq, strings.TrimSpace(sq.Text)))
			}
			sv := objs["setval:"+sp.seq]
			ok := false
			detail := "no setval statement"
			if sv != nil && sv.Stmt != nil && len(sv.Stmt.Cols) == 1 {
				// setval('"seq"', coalesce((select max(id) + 1 from T where ledger = '<name>'), 1)::bigint, false)
				call := sqlfe.Unparen(sv.Stmt.Cols[0].Expr)
				if call.Op == "call" && sqlfe.LastPart(call.Text) == "setval" && len(call.Args) == 3 {
					var sub *sqlfe.Stmt
					sqlfe.Walk(call.Args[1], func(y *sqlfe.Node) bool {
						if y.Sub != nil && sub == nil {
							sub = y.Sub
						}
						return true
					})
					if sub != nil && len(sub.From) == 1 && len(sub.Cols) == 1 {
						tab := sqlfe.NormName(sub.From[0].Table)
						col := sqlfe.Canon(sub.Cols[0].Expr)
						var conj []string
						for _, cj := range sqlfe.Conjuncts(sub.Where) {
							conj = append(conj, sqlfe.NormText(sqlfe.Canon(cj)))
						}
						third := sqlfe.Canon(call.Args[2])
						ok = tab == sp.table && col == "(1 + max(id))" && len(conj) == 1 && conj[0] == "('<name>' = ledger)" && third == "false"
						detail = fmt.Sprintf("setval(.., select %s from %s where %v, %s)", col, tab, conj, third)
					}
				}
			}
			c.Check(ok, "SEQ/setval", where+":"+sp.seq, "", "starts at max(id)+1 of this ledger's "+sp.table, fmt.Sprintf("%s initialises %s with %s; expected setval(seq, coalesce((select max(id) + 1 from %s where ledger = '<name>'), 1), false)", where, sp.seq, detail, sp.table))
		}
	}
	// users
	m := bunModel(c, pkgStore)
	for _, u := range []struct{ fnName, table, seq string }{{"InsertTransaction", "transactions", "transaction_id_<id>"}, {"InsertLog", "logs", "log_id_<id>"}} {
		d := fn(c, pkgStore, "Store", u.fnName)
		if d == nil {
			continue
		}
		found := false
		for _, s := range stmtsIn(m, d) {
			if s.Kind != "insert" {
				continue
			}
			for _, cl := range s.ClausesNamed("Value") {
				if len(cl.SQL) != 1 || cl.SQL[0] != "id = nextval(?)" || len(cl.Args) != 1 {
					continue
				}
				found = true
				ev := newEval(d)
				alts, opaque := ev.Eval(cl.Args[0])
				name := ""
				if len(alts) == 1 && !opaque {
					name = strings.Trim(sqlfe.NormName(strings.ReplaceAll(alts[0], `"`, "")), `"`)
				}
				c.Check(name == u.seq, "SEQ/users", declKey(d)+":sequence", pos(c, cl.Call), "nextval("+u.seq+")", fmt.Sprintf("%s draws ids from %q, expected %s", u.fnName, name, u.seq))
				// only when ID == nil
				nilGuard := false
				for _, f := range cl.Facts {
					if be, ok := ast.Unparen(f.Cond).(*ast.BinaryExpr); ok && be.Op == token.EQL && f.Positive && astx.IsNilExpr(d.Pkg.TypesInfo, be.Y) && strings.HasSuffix(astx.SelectorPath(be.X), ".ID") {
						nilGuard = true
					}
				}
				c.Check(nilGuard, "SEQ/users", declKey(d)+":only-without-id", pos(c, cl.Call), "nextval only when no id was supplied", "nextval is used even when an id is supplied: imported ids would be replaced and the copy would not reproduce the source ledger")
			}
		}
		c.Check(found, "SEQ/users", declKey(d)+":nextval", pos(c, d.Decl), "id from nextval", u.fnName+" no longer takes its id from the per-ledger sequence")
	}
	ruleSequenceResync(c)
}

// ruleSequenceResync: handleState sets both sequences from max(id) of the matching table and ledger.
func ruleSequenceResync(c *core.Ctx) {
	d := fn(c, pkgSysCtrl, "controllerFacade", "handleState")
	if d == nil {
		return
	}
	m := bunModel(c, pkgSysCtrl)
	got := map[string]string{}
	scoped := stmtsInScope(c, m, d, 1)
	envOf := map[*astx.DeclInfo]*originEnv{}
	for _, e := range scopeEnvs(c, d) {
		envOf[e.d] = e
	}
	for _, ss := range scoped {
		s := ss.S
		if s.Kind != "raw" {
			continue
		}
		if s.Raw == nil {
			c.Unknown("SEQ/resync", declKey(d)+":raw", posOf(c, s.Pos()), fmt.Sprintf("raw SQL not parsed: %v", s.RawErr))
			continue
		}
		if len(s.Raw.Cols) != 1 {
			continue
		}
		call := sqlfe.Unparen(s.Raw.Cols[0].Expr)
		if call.Op != "call" || sqlfe.LastPart(call.Text) != "setval" || len(call.Args) < 2 {
			continue
		}
		seq := ""
		if a0 := sqlfe.Unparen(call.Args[0]); a0.Op == "str" {
			seq = strings.Trim(sqlfe.NormName(strings.ReplaceAll(a0.Text, `"`, "")), `"`)
		}
		var sub *sqlfe.Stmt
		sqlfe.Walk(call.Args[1], func(y *sqlfe.Node) bool {
			if y.Sub != nil && sub == nil {
				sub = y.Sub
			}
			return true
		})
		desc := "?"
		if sub != nil && len(sub.From) == 1 && len(sub.Cols) == 1 {
			var conj []string
			for _, cj := range sqlfe.Conjuncts(sub.Where) {
				conj = append(conj, sqlfe.Canon(cj))
			}
			desc = fmt.Sprintf("%s from %s where %s", sqlfe.Canon(sub.Cols[0].Expr), sqlfe.NormName(sub.From[0].Table), strings.Join(conj, " and "))
		}
		got[seq] = desc
	}
	want := map[string]string{
		"transaction_id_<id>": "max(id) from transactions where ('<name>' = ledger)",
		"log_id_<id>":         "max(id) from logs where ('<name>' = ledger)",
	}
	for seq, w := range want {
		c.Check(got[seq] == w, "SEQ/resync", declKey(d)+":"+seq, pos(c, d.Decl), w, fmt.Sprintf("the first-write resync sets %s from `%s`, expected `%s`: after an import the next id would collide with (or skip far past) the imported ones", seq, got[seq], w))
	}
	// both run under the lock, inside the tx, before fn, only when the state row was flipped
	info := d.Pkg.TypesInfo
	// the write itself: the call of the function-typed parameter with the transactional controller
	params := map[types.Object]bool{}
	if d.Decl.Type.Params != nil {
		for _, fl := range d.Decl.Type.Params.List {
			for _, nm := range fl.Names {
				params[info.ObjectOf(nm)] = true
			}
		}
	}
	var fnCall *ast.CallExpr
	ast.Inspect(d.Decl.Body, func(n ast.Node) bool {
		if call, ok := n.(*ast.CallExpr); ok {
			if id, ok := call.Fun.(*ast.Ident); ok && params[info.Uses[id]] && fnCall == nil && len(call.Args) == 1 {
				if _, isSel := call.Args[0].(*ast.SelectorExpr); !isSel {
					fnCall = call
				}
			}
		}
		return true
	})
	// the row count of the state flip, and the handle the flip runs on
	var rowsObj types.Object
	for _, call := range callsTo(info, d.Decl.Body, named("RowsAffected")) {
		if objs := resultObjs(info, d.Decl.Body, call); len(objs) > 0 && objs[0] != nil {
			rowsObj = objs[0]
		}
	}
	flipHandle := ""
	for _, s := range stmtsIn(m, d) {
		if s.Kind == "update" && s.Handle != nil {
			flipHandle = envOf[d].origin(s.Handle)
		}
	}
	for _, ss := range scoped {
		s := ss.S
		if s.Kind != "raw" {
			continue
		}
		guard := false
		for _, af := range scopeFactsAtPos(d, ss.D, s.Pos()) {
			f := xfact{ast.Unparen(af.Cond), af.Positive}
			be, ok := f.Cond.(*ast.BinaryExpr)
			if !ok || !f.Positive || !usesObj(info, be.X, rowsObj) {
				continue
			}
			tv, isConst := info.Types[ast.Unparen(be.Y)]
			if !isConst || tv.Value == nil {
				continue
			}
			v := tv.Value.ExactString()
			if ((be.Op == token.GTR || be.Op == token.NEQ) && v == "0") || (be.Op == token.GEQ && v == "1") {
				guard = true
			}
		}
		rp := rootPosOf(d, ss.D, s.Pos())
		before := fnCall != nil && rp != token.NoPos && rp < fnCall.Pos()
		handle := s.Handle != nil && flipHandle != "" && envOf[ss.D] != nil && envOf[ss.D].origin(s.Handle) == flipHandle
		okey := declKey(d) + ":placement:" + s.Describe() + fmt.Sprint(s.Pos()-d.Decl.Pos())
		if rowsObj == nil || fnCall == nil || flipHandle == "" {
			c.Unrecognised("SEQ/resync", okey, posOf(c, s.Pos()), fmt.Sprintf("state flip / write call not identified (rows=%v write=%v flip-handle=%q)", rowsObj != nil, fnCall != nil, flipHandle))
			continue
		}
		c.Check(guard && before && handle, "SEQ/resync", okey, posOf(c, s.Pos()), "on tx, when the state row flipped, before the write",
			fmt.Sprintf("sequence resync must run on the transaction, only when the initializing->in-use update changed a row, before the write itself (on-tx=%v guarded=%v before-write=%v)", handle, guard, before))
	}
}

// ---------- C13 ----------

func checkC13(c *core.Ctx) {
	c.Decide("a unique index logs_idempotency_key on logs(ledger, idempotency_key) exists after all migrations and its name is the one InsertLog maps to ErrIdempotencyKeyConflict; forgeLog looks the key up before running the operation whenever a key is given, returns the stored log as a hit after rolling back, and compares the stored idempotency hash with the hash of the new input; every log is stamped with key and hash of the input; an IK conflict raised by a concurrent insert is retried and resolved by re-reading the log; every API write handler (v1, v2) answers ErrIdempotencyKeyConflict with 409 and ErrInvalidIdempotencyInput with 400, the bulk mapping too")
	c.NotDecided("outcomes of really concurrent sessions; hash collisions")
	c.Trust("unique index semantics; sha256")
	cat := c.Catalog()
	ix := cat.Indexes["logs_idempotency_key"]
	if ix == nil {
		c.Fail("CAT/ik-index", "exists", "", "no index logs_idempotency_key after all migrations")
	} else {
		c.Check(ix.Unique && ix.Table == "logs" && eqStrings(ix.Cols, []string{"ledger", "idempotency_key"}) && ix.Where == nil, "CAT/ik-index", "shape", ix.Origin, "unique logs(ledger, idempotency_key)",
			fmt.Sprintf("logs_idempotency_key is unique=%v on %s%v where %s; expected a plain unique index on logs(ledger, idempotency_key)", ix.Unique, ix.Table, ix.Cols, sqlfe.Canon(ix.Where)))
	}
	ruleConstraintNames(c)
	ruleForgeLogIK(c)
	ruleRequestInputNotMutated(c)
	ruleIKLookupColumns(c)
	ruleScriptTextDeterministic(c)
	ruleUniqueContinuity(c, "CAT/unique-continuity", "logs")
	ruleErrorChainKept(c)
	// HTTP
	n := 0
	for _, s := range writeCallSites(c, logWriters...) {
		n++
		es, direct := handlingAfter(c, s)
		key := fmt.Sprintf("%s:%s", astx.FuncKey(s.EnclObj), s.Callee.Name())
		oc := outcomeFor(c, es, direct, pkgCtrl+".ErrIdempotencyKeyConflict")
		c.Check(oc.Status == 409, "HTTP/ik-errors", key+":conflict", pos(c, s.Call), "409", fmt.Sprintf("ErrIdempotencyKeyConflict from %s is answered %s, expected 409: a retryable conflict must not look like a server failure", s.Callee.Name(), describeOutcome(oc)))
		oc = outcomeFor(c, es, direct, pkgCtrl+".ErrInvalidIdempotencyInput")
		c.Check(oc.Status == 400, "HTTP/ik-errors", key+":invalid-input", pos(c, s.Call), "400", fmt.Sprintf("ErrInvalidIdempotencyInput from %s is answered %s, expected 400", s.Callee.Name(), describeOutcome(oc)))
	}
	c.Floor("HTTP/ik-errors", "API call sites of log-producing controller methods", n, 12)
	if d := fn(c, pkgBulk, "", "mapBulkElementError"); d != nil {
		for _, es := range errSwitches(c) {
			if es.Func == d {
				oc := resolveOutcome(c, es, pkgCtrl+".ErrIdempotencyKeyConflict", 0)
				c.Check(oc.Code == "ErrConflict", "HTTP/ik-errors", "bulk:conflict", pos(c, es.Stmt), "CONFLICT", "bulk maps an IK conflict to "+describeOutcome(oc))
				oc = resolveOutcome(c, es, pkgCtrl+".ErrInvalidIdempotencyInput", 0)
				c.Check(oc.Code == "ErrValidation", "HTTP/ik-errors", "bulk:invalid-input", pos(c, es.Stmt), "VALIDATION", "bulk maps an invalid IK input to "+describeOutcome(oc))
			}
		}
	}
}

func ruleForgeLogIK(c *core.Ctx) {
	d := fn(c, pkgCtrl, "logProcessor", "forgeLog")
	if d == nil {
		return
	}
	info := d.Pkg.TypesInfo
	key := declKey(d)
	txWrapIx = index(c)
	flow := astx.NewFlow(info, d.Decl.Body)
	fetch := callsTo(info, d.Decl.Body, named("fetchLogWithIK"))
	run := callsTo(info, d.Decl.Body, named("runLog"))
	if len(fetch) == 0 && len(run) >= 1 {
		failOrGone(c, pkgCtrl, "fetchLogWithIK", "DOM/ik-lookup-first", key+":lookup-guard", pos(c, d.Decl), "forgeLog no longer looks the idempotency key up (fetchLogWithIK) before running the operation")
	} else if len(fetch) != 1 || len(run) != 1 {
		c.Unrecognised("DOM/ik-lookup-first", key+":anchors", pos(c, d.Decl), fmt.Sprintf("expected one fetchLogWithIK and one runLog call in forgeLog, found %d and %d", len(fetch), len(run)))
	} else {
		// the lookup runs whenever a key is given: its only guards say "the key is not empty"
		var extra []string
		keyed := false
		for _, f := range xfactsAt(info, d.Decl.Body, fetch[0].Pos()) {
			if isErrNilTest(info, f.Cond) {
				continue // the BeginTX error check
			}
			if e, ok := nonEmptyStringFact(info, f); ok && strings.HasSuffix(astx.SelectorPath(e), "IdempotencyKey") {
				keyed = true
				continue
			}
			if be, ok := f.Cond.(*ast.BinaryExpr); ok && (be.Op == token.EQL || be.Op == token.NEQ) {
				if strings.HasSuffix(astx.SelectorPath(be.X), "IdempotencyKey") || strings.HasSuffix(astx.SelectorPath(be.Y), "IdempotencyKey") {
					continue // the other spelling of the same fact (FactsAt gives both)
				}
			}
			extra = append(extra, types.ExprString(f.Cond))
		}
		_ = keyed
		// runLog cannot be reached with a key while avoiding the lookup
		l, located := flow.Locate(run[0])
		avoid := false
		if located {
			var assume []astx.Assumption
			ast.Inspect(d.Decl.Body, func(n ast.Node) bool {
				if be, ok := n.(*ast.BinaryExpr); ok {
					if e, ok := nonEmptyStringFact(info, xfact{be, true}); ok && strings.HasSuffix(astx.SelectorPath(e), "IdempotencyKey") {
						assume = append(assume, astx.Assumption{Cond: types.ExprString(be), Value: true})
					} else if e, ok := nonEmptyStringFact(info, xfact{be, false}); ok && strings.HasSuffix(astx.SelectorPath(e), "IdempotencyKey") {
						assume = append(assume, astx.Assumption{Cond: types.ExprString(be), Value: false})
					}
				}
				return true
			})
			isFetch := func(n ast.Node) bool {
				found := false
				ast.Inspect(n, func(x ast.Node) bool {
					if x == ast.Node(fetch[0]) {
						found = true
					}
					return !found
				})
				return found
			}
			avoid = flow.PathAvoidingAssuming(nil, astx.Exit{Block: l.Block, Idx: l.Idx}, isFetch, assume)
		}
		c.Shape(located, len(extra) == 0 && !avoid, "DOM/ik-lookup-first", key+":lookup-guard", pos(c, fetch[0]), "lookup whenever a key is given, before runLog",
			fmt.Sprintf("the idempotency lookup must run exactly when IdempotencyKey != \"\" and before runLog (other guards: %v, runLog reachable with a key without lookup: %v)", extra, avoid))
		// a hit returns the stored log flagged as a hit, after the probe transaction is ended
		res := resultObjs(info, d.Decl.Body, fetch[0])
		var hitReturns, unflagged []*ast.ReturnStmt
		ast.Inspect(d.Decl.Body, func(n ast.Node) bool {
			r, ok := n.(*ast.ReturnStmt)
			if !ok || len(r.Results) != 4 || len(res) < 2 {
				return true
			}
			if !usesObj(info, r.Results[1], res[1]) {
				return true
			}
			if v, known := constBool(info, d.Decl.Body, r.Results[2]); known {
				if v {
					hitReturns = append(hitReturns, r)
				} else {
					unflagged = append(unflagged, r)
				}
			}
			return true
		})
		switch {
		case len(unflagged) > 0:
			c.Fail("DOM/ik-lookup-first", key+":hit-returns-stored-log", pos(c, unflagged[0]), "an idempotency hit must return the stored log flagged as a hit: this return hands out the looked-up output with the flag false")
		case len(hitReturns) == 0:
			c.Unrecognised("DOM/ik-lookup-first", key+":hit-returns-stored-log", pos(c, fetch[0]), "no return of the looked-up output with a constant hit flag found")
		default:
			okHit := true
			for _, r := range hitReturns {
				okHit = okHit && usesObj(info, r.Results[0], res[0]) && astx.IsNilExpr(info, r.Results[3])
			}
			c.Check(okHit, "DOM/ik-lookup-first", key+":hit-returns-stored-log", pos(c, hitReturns[0]), "hit: return (log, output, true, nil) of the lookup (transaction end: PAIR/tx-closed)", "an idempotency hit must return the stored log and output with a nil error")
		}
	}
	// retry on IK conflict
	retryCalls := callsTo(info, d.Decl.Body, named("forgeLogRetry"))
	retried, opaque := false, false
	for _, call := range retryCalls {
		fs := xfactsAt(info, d.Decl.Body, call.Pos())
		if anyHasSuffix(errNamesOfFacts(info, fs, true), "ErrIdempotencyKeyConflict") {
			retried = true
		}
		opaque = opaque || factsOpaque(c, info, fs)
	}
	if !retried && opaque {
		c.Unrecognised("DOM/ik-conflict-retried", key, pos(c, d.Decl), "the retry is guarded by a predicate of the repository the rule does not read")
	} else {
		c.Check(retried, "DOM/ik-conflict-retried", key, pos(c, d.Decl), "IK conflict -> forgeLogRetry", "an idempotency-key conflict raised by a concurrent insert is no longer retried: the caller would get an internal error instead of the committed log")
	}
	if r := fn(c, pkgCtrl, "logProcessor", "forgeLogRetry"); r != nil {
		ok, opq, seen := false, false, false
		for _, sc := range scopeCalls(fnScope(c, r, 1), named("fetchLogWithIK")) {
			if sc.D.Obj.Name() == "forgeLog" || sc.D.Obj.Name() == "runTx" {
				continue
			}
			seen = true
			fs, complete := scopeFacts(r, sc)
			if anyHasSuffix(errNamesOfFacts(r.Pkg.TypesInfo, fs, true), "ErrIdempotencyKeyConflict") {
				ok = true
			}
			opq = opq || !complete || factsOpaque(c, r.Pkg.TypesInfo, fs)
		}
		if seen && !ok && opq {
			c.Unrecognised("DOM/ik-conflict-retried", declKey(r)+":re-reads-log", pos(c, r.Decl), "the re-read is guarded by conditions the rule does not read")
		} else {
			c.Check(ok, "DOM/ik-conflict-retried", declKey(r)+":re-reads-log", pos(c, r.Decl), "conflict -> fetchLogWithIK", "forgeLogRetry no longer resolves an IK conflict by re-reading the stored log")
		}
	}
	// hash comparison in fetchLogWithIK (or a helper it calls)
	if f := fn(c, pkgCtrl, "logProcessor", "fetchLogWithIK"); f != nil {
		fi := f.Pkg.TypesInfo
		rejects := scopeCalls(fnScope(c, f, 1), named("newErrInvalidIdempotencyInputs"))
		compared, opq := false, false
		for _, sc := range rejects {
			fs, complete := scopeFacts(f, sc)
			opq = opq || !complete || factsOpaque(c, fi, fs)
			for _, ft := range fs {
				be, ok := ft.Cond.(*ast.BinaryExpr)
				if !ok || !((be.Op == token.NEQ && ft.Positive) || (be.Op == token.EQL && !ft.Positive)) {
					continue
				}
				var other ast.Expr
				if strings.HasSuffix(astx.SelectorPath(be.X), ".IdempotencyHash") {
					other = be.Y
				} else if strings.HasSuffix(astx.SelectorPath(be.Y), ".IdempotencyHash") {
					other = be.X
				} else {
					continue
				}
				def := ast.Unparen(resolveLocal(fi, sc.D.Decl.Body, other))
				call, ok := def.(*ast.CallExpr)
				if !ok {
					continue
				}
				if cf := astx.Callee(fi, call); cf == nil || cf.Name() != "ComputeIdempotencyHash" || len(call.Args) != 1 {
					continue
				}
				if isRequestInput(f, sc, call.Args[0]) {
					compared = true
				}
			}
		}
		switch {
		case len(rejects) == 0:
			failOrGone(c, pkgCtrl, "newErrInvalidIdempotencyInputs", "DOM/ik-hash-compared", declKey(f), pos(c, f.Decl), "fetchLogWithIK no longer rejects a reused key whose input hash differs from the stored one (no ErrInvalidIdempotencyInput raised)")
		case !compared && opq:
			c.Unrecognised("DOM/ik-hash-compared", declKey(f), pos(c, f.Decl), "the rejection is guarded by conditions the rule does not read")
		default:
			c.Check(compared, "DOM/ik-hash-compared", declKey(f), pos(c, f.Decl), "stored hash != hash(input) -> ErrInvalidIdempotencyInput", "fetchLogWithIK no longer rejects a reused key whose input hash differs from the stored one")
		}
	}
	// runLog stamps key and hash
	if r := fn(c, pkgCtrl, "logProcessor", "runLog"); r != nil {
		ri := r.Pkg.TypesInfo
		stamp := map[string]bool{}
		var insert *ast.CallExpr
		for _, call := range callsTo(ri, r.Decl.Body, named("InsertLog")) {
			insert = call
		}
		ast.Inspect(r.Decl.Body, func(n ast.Node) bool {
			as, ok := n.(*ast.AssignStmt)
			if !ok || len(as.Lhs) != 1 || len(as.Rhs) != 1 || insert == nil || as.Pos() > insert.Pos() {
				return true
			}
			switch astx.SelectorPath(as.Lhs[0]) {
			case "log.IdempotencyKey":
				if strings.HasSuffix(astx.SelectorPath(as.Rhs[0]), ".IdempotencyKey") {
					stamp["key"] = true
				}
			case "log.IdempotencyHash":
				if call, ok := as.Rhs[0].(*ast.CallExpr); ok {
					if cf := astx.Callee(ri, call); cf != nil && cf.Name() == "ComputeIdempotencyHash" && len(call.Args) == 1 && strings.HasSuffix(astx.SelectorPath(call.Args[0]), ".Input") {
						stamp["hash"] = true
					}
				}
			}
			return true
		})
		c.Check(stamp["key"] && stamp["hash"], "DOM/ik-stamped", declKey(r), pos(c, r.Decl), "log.IdempotencyKey and log.IdempotencyHash set before InsertLog", fmt.Sprintf("the log is inserted without its idempotency key/hash (key=%v hash=%v): a replay could not be recognised or its input not verified", stamp["key"], stamp["hash"]))
	}
}

// isRequestInput: e is `<parameters>.Input` in the anchor function, or a parameter of a helper that
// the anchor function calls with `<parameters>.Input` at that position.
func isRequestInput(root *astx.DeclInfo, sc scopedCall, e ast.Expr) bool {
	if strings.HasSuffix(astx.SelectorPath(e), ".Input") {
		return true
	}
	id, ok := ast.Unparen(e).(*ast.Ident)
	if !ok || sc.D == root || sc.D.Decl.Type.Params == nil {
		return false
	}
	info := sc.D.Pkg.TypesInfo
	idx, k := -1, 0
	for _, fl := range sc.D.Decl.Type.Params.List {
		for _, nm := range fl.Names {
			if info.ObjectOf(nm) == info.Uses[id] {
				idx = k
			}
			k++
		}
	}
	if idx < 0 {
		return false
	}
	for _, site := range callsTo(root.Pkg.TypesInfo, root.Decl.Body, func(f *types.Func) bool { return f == sc.D.Obj || f.Origin() == sc.D.Obj }) {
		if idx < len(site.Args) && strings.HasSuffix(astx.SelectorPath(site.Args[idx]), ".Input") {
			return true
		}
	}
	return false
}
