package rules

import (
	"fmt"
	"go/ast"
	"go/constant"
	"go/token"
	"go/types"
	"regexp"
	"sort"
	"strings"

	"ledgerlint/internal/astx"
	"ledgerlint/internal/core"
	"ledgerlint/internal/load"
)

func init() {
	register("C28", checkC28)
	addBreakers("C28",
		Breaker{Name: "account-value-validated-after-trimming-kept-raw", File: "internal/machine/json.go",
			Old: "ValidateAccountAddress(AccountAddress(data))", New: "ValidateAccountAddress(AccountAddress(strings.TrimSpace(data)))", Expect: "DOM/value-sources"},
		Breaker{Name: "literal-asset-validated-only-when-long", File: "internal/machine/script/compiler/compiler.go",
			Old: "\t\tif err := machine.ValidateAsset(asset); err != nil {\n\t\t\treturn 0, nil, LogicError(c, err)\n\t\t}\n", New: "\t\tif len(asset) > 3 {\n\t\t\tif err := machine.ValidateAsset(asset); err != nil {\n\t\t\t\treturn 0, nil, LogicError(c, err)\n\t\t\t}\n\t\t}\n", Expect: "DOM/literal-validated"},
		Breaker{Name: "metadata-account-cast-unvalidated", File: "internal/machine/vm/machine.go",
			Old: "\t\t\tval, err = machine.NewValueFromString(res.Typ, metadata)\n\t\t\tif err != nil {\n\t\t\t\treturn err\n\t\t\t}\n", New: "\t\t\tif res.Typ == machine.TypeAccount {\n\t\t\t\tval = machine.AccountAddress(metadata)\n\t\t\t} else {\n\t\t\t\tval, err = machine.NewValueFromString(res.Typ, metadata)\n\t\t\t\tif err != nil {\n\t\t\t\t\treturn err\n\t\t\t\t}\n\t\t\t}\n", Expect: "WMC/address-conversions"},
		Breaker{Name: "literal-asset-unvalidated", File: "internal/machine/script/compiler/compiler.go",
			Old: "\t\tif err := machine.ValidateAsset(asset); err != nil {\n\t\t\treturn 0, nil, LogicError(c, err)\n\t\t}\n", New: "", Expect: "DOM/literal-validated"},
		Breaker{Name: "literal-asset-validation-error-ignored", File: "internal/machine/script/compiler/compiler.go",
			Old: "\t\tif err := machine.ValidateAsset(asset); err != nil {\n\t\t\treturn 0, nil, LogicError(c, err)\n\t\t}\n", New: "\t\t_ = machine.ValidateAsset(asset)\n", Expect: "DOM/literal-validated"},
		Breaker{Name: "account-lexer-rule-widened", File: "internal/machine/script/NumScript.g4",
			Old: "ACCOUNT: '@' [a-zA-Z0-9_-]+ (':' [a-zA-Z0-9_-]+)*;", New: "ACCOUNT: '@' [a-zA-Z0-9_.-]+ (':' [a-zA-Z0-9_.-]+)*;", Expect: "DOM/literal-validated"},
		Breaker{Name: "variable-account-unvalidated", File: "internal/machine/json.go",
			Old: "\t\tif err := ValidateAccountAddress(AccountAddress(data)); err != nil {\n\t\t\treturn nil, fmt.Errorf(\"value %s: %w\", data, err)\n\t\t}\n", New: "", Expect: "DOM/value-sources"},
		Breaker{Name: "variable-monetary-unvalidated", File: "internal/machine/json.go",
			Old: "\t\tif err := ParseMonetary(mon); err != nil {\n\t\t\treturn nil, fmt.Errorf(\"value %s: %w\", mon.String(), err)\n\t\t}\n", New: "", Expect: "DOM/value-sources"},
		Breaker{Name: "monetary-negative-accepted", File: "internal/machine/monetary.go",
			Old: "\tif mon.Amount.Ltz() {\n\t\treturn fmt.Errorf(\"negative amount\")\n\t}\n", New: "", Expect: "DOM/value-sources"},
		Breaker{Name: "monetary-asset-unchecked", File: "internal/machine/monetary.go",
			Old: "\tif err := ValidateAsset(mon.Asset); err != nil {\n\t\treturn fmt.Errorf(\"asset '%s': %w\", mon.Asset, err)\n\t}\n", New: "", Expect: "DOM/value-sources"},
		Breaker{Name: "asset-regexp-unanchored", File: "pkg/assets/asset.go",
			Old: "regexp.MustCompile(\"^\" + Pattern + \"$\")", New: "regexp.MustCompile(\"^\" + Pattern)", Expect: "DOM/value-sources"},
		Breaker{Name: "postings-validate-skips-destination", File: "internal/posting.go",
			Old: "\t\tif !accounts.ValidateAddress(p.Destination) {\n\t\t\treturn i, errors.New(\"invalid destination address\")\n\t\t}\n", New: "", Expect: "DOM/postings-validate"},
		Breaker{Name: "postings-validate-negative-allowed", File: "internal/posting.go",
			Old: "\t\tif p.Amount.Cmp(Zero) < 0 {\n\t\t\treturn i, errors.New(\"negative amount\")\n\t\t}\n", New: "", Expect: "DOM/postings-validate"},
		Breaker{Name: "postings-validate-first-only", File: "internal/posting.go",
			Old: "\t\tif !assets.IsValid(p.Asset) {\n\t\t\treturn i, errors.New(\"invalid asset\")\n\t\t}\n\t}\n", New: "\t\tif !assets.IsValid(p.Asset) {\n\t\t\treturn i, errors.New(\"invalid asset\")\n\t\t}\n\t\tbreak\n\t}\n", Expect: "DOM/postings-validate"},
		Breaker{Name: "import-unvalidated", File: "internal/controller/ledger/controller_default.go",
			Old: "\t\t\t\tif _, err := payload.Transaction.Postings.Validate(); err != nil {\n\t\t\t\t\treturn nil, NewErrImport(fmt.Errorf(\"invalid postings in log %d: %w\", *log.ID, err))\n\t\t\t\t}\n", New: "", Expect: "DOM/commit-paths"},
		Breaker{Name: "import-validates-other-payload", File: "internal/controller/ledger/controller_default.go",
			Old: "\t\t\t\tif _, err := payload.RevertTransaction.Postings.Validate(); err != nil {", New: "\t\t\t\tif _, err := payload.RevertedTransaction.Postings.Validate(); err != nil {", Expect: "DOM/commit-paths"},
		Breaker{Name: "reverse-rewrites-asset", File: "internal/posting.go",
			Old: "\t\tpostings[i].Source, postings[i].Destination = postings[i].Destination, postings[i].Source\n", New: "\t\tpostings[i].Source, postings[i].Destination = postings[i].Destination, postings[i].Source\n\t\tpostings[i].Asset = strings.ToLower(postings[i].Asset)\n", Old2: "import (\n", New2: "import (\n\t\"strings\"\n", Expect: "DOM/commit-paths"},
	)
}

func checkC28(c *core.Ctx) {
	c.Decide("every way an account address, asset or amount enters a machine program is checked against the repository's patterns: literal assets are validated in VisitLit, the ACCOUNT lexer rule of NumScript.g4 denotes exactly '@' + the account pattern (or literals are validated), variables and metadata-sourced values go through NewValueFromString / ParseVariables whose account, asset and monetary arms validate before producing the value (ParseMonetary checks asset, nil and negative), and the validators use fully anchored patterns; Postings.Validate checks amount presence and sign, both addresses and the asset of every posting; every CommitTransaction call site of the controller is one of: runtime output, reversal of a stored transaction (which only swaps source and destination), or an import payload validated with Postings.Validate before commit")
	c.NotDecided("the validation done by the interpreter runtime (external module formancehq/numscript); that the generated lexer implements the ACCOUNT rule of the .g4 file; amounts computed by the VM (non-negativity of arithmetic results)")
	ruleLiteralValidated(c)
	ruleValueSources(c)
	rulePostingsValidate(c)
	ruleCommitPaths(c)
	ruleAddressConversions(c)
}

// guardedCall: call is the init (or condition) of an if whose body leaves the function, or its
// assigned error is tested by the next if.
func errLeaves(info *types.Info, body *ast.BlockStmt, call *ast.CallExpr) bool {
	ok := false
	ast.Inspect(body, func(n ast.Node) bool {
		is, isIf := n.(*ast.IfStmt)
		if !isIf {
			return true
		}
		in := func(x ast.Node) bool { return x != nil && x.Pos() <= call.Pos() && call.End() <= x.End() }
		if in(is.Init) && len(errorCondVars(info, is.Cond)) > 0 && astx.Terminates(info, is.Body.List) {
			ok = true
		}
		// `if !valid(x) { return err }`
		if in(is.Cond) {
			if u, isU := ast.Unparen(is.Cond).(*ast.UnaryExpr); isU && u.Op == token.NOT && astx.Terminates(info, is.Body.List) {
				ok = true
			}
		}
		return true
	})
	return ok
}

// regexTokens canonicalises a regular expression written either in ANTLR lexer syntax or in Go
// syntax into a token list in which character classes are expanded to sorted byte sets.
func regexTokens(s string, g4 bool) ([]string, error) {
	var out []string
	class := func(body string) (string, error) {
		set := map[byte]bool{}
		b := []byte(body)
		for i := 0; i < len(b); i++ {
			ch := b[i]
			if ch == '\\' && i+1 < len(b) {
				i++
				switch b[i] {
				case 'd':
					for d := byte('0'); d <= '9'; d++ {
						set[d] = true
					}
					continue
				default:
					ch = b[i]
				}
			}
			if i+2 < len(b) && b[i+1] == '-' {
				for x := ch; x <= b[i+2]; x++ {
					set[x] = true
					if x == 255 {
						break
					}
				}
				i += 2
				continue
			}
			set[ch] = true
		}
		var ks []int
		for k := range set {
			ks = append(ks, int(k))
		}
		sort.Ints(ks)
		var sb strings.Builder
		sb.WriteString("[")
		for _, k := range ks {
			sb.WriteByte(byte(k))
		}
		sb.WriteString("]")
		return sb.String(), nil
	}
	for i := 0; i < len(s); i++ {
		ch := s[i]
		switch {
		case ch == ' ' || ch == '\t':
			if !g4 {
				out = append(out, "lit: ")
			}
		case ch == '[':
			j := strings.IndexByte(s[i:], ']')
			if j < 0 {
				return nil, fmt.Errorf("unterminated class")
			}
			cl, err := class(s[i+1 : i+j])
			if err != nil {
				return nil, err
			}
			out = append(out, cl)
			i += j
		case g4 && ch == '\'':
			j := strings.IndexByte(s[i+1:], '\'')
			if j < 0 {
				return nil, fmt.Errorf("unterminated literal")
			}
			for _, r := range s[i+1 : i+1+j] {
				out = append(out, "lit:"+string(r))
			}
			i += j + 1
		case ch == '(' || ch == ')' || ch == '*' || ch == '+' || ch == '?' || ch == '|':
			out = append(out, string(ch))
		case !g4 && (ch == '^' || ch == '$'):
			out = append(out, string(ch))
		case !g4 && ch == '\\' && i+1 < len(s):
			i++
			if s[i] == 'd' {
				out = append(out, "[0123456789]")
			} else {
				out = append(out, "lit:"+string(s[i]))
			}
		case !g4 && ch == '{':
			j := strings.IndexByte(s[i:], '}')
			if j < 0 {
				return nil, fmt.Errorf("unterminated repeat")
			}
			out = append(out, s[i:i+j+1])
			i += j
		case g4:
			return nil, fmt.Errorf("unsupported lexer syntax %q", string(ch))
		default:
			out = append(out, "lit:"+string(ch))
		}
	}
	return out, nil
}

func constStringOf(c *core.Ctx, rel, name string) (string, bool) {
	pk := c.Prog().Pkg(rel)
	if pk == nil {
		return "", false
	}
	k, ok := pk.Types.Scope().Lookup(name).(*types.Const)
	if !ok || k.Val().Kind() != constant.String {
		return "", false
	}
	return constant.StringVal(k.Val()), true
}

func g4Rule(c *core.Ctx, name string) (string, bool) {
	src, err := c.ReadFile("internal/machine/script/NumScript.g4")
	if err != nil {
		return "", false
	}
	re := regexp.MustCompile(`(?m)^` + name + `\s*:\s*(.*?);\s*$`)
	m := re.FindSubmatch(src)
	if m == nil {
		return "", false
	}
	return string(m[1]), true
}

func ruleLiteralValidated(c *core.Ctx) {
	d := fn(c, pkgCompiler, "parseVisitor", "VisitLit")
	if d == nil {
		return
	}
	info := d.Pkg.TypesInfo
	key := declKey(d)
	arms := map[string]*ast.CaseClause{}
	ast.Inspect(d.Decl.Body, func(n ast.Node) bool {
		ts, ok := n.(*ast.TypeSwitchStmt)
		if !ok {
			return true
		}
		for _, cl := range ts.Body.List {
			cc := cl.(*ast.CaseClause)
			for _, e := range cc.List {
				if t := info.TypeOf(e); t != nil {
					arms[astx.RecvTypeName(t)] = cc
				}
			}
		}
		return false
	})
	check := func(arm, validator, what string) (present, ok bool) {
		cc := arms[arm]
		if cc == nil {
			return false, false
		}
		var val *ast.CallExpr
		for _, st := range cc.Body {
			for _, v := range callsTo(info, st, named(validator)) {
				val = v
			}
		}
		if val == nil {
			return true, false
		}
		// before the resource is allocated, and the error leaves
		var alloc *ast.CallExpr
		for _, st := range cc.Body {
			for _, a := range callsTo(info, st, named("AllocateResource")) {
				alloc = a
			}
		}
		if alloc != nil && (nestedInArm(cc.Body, val) || !sameCoreValue(info, d.Decl.Body, val, alloc)) {
			return true, false
		}
		return true, alloc != nil && val.Pos() < alloc.Pos() && errLeaves(info, d.Decl.Body, val)
	}
	present, ok := check("LitAssetContext", "ValidateAsset", "asset")
	c.Check(present && ok, "DOM/literal-validated", key+":asset", pos(c, d.Decl), "ValidateAsset before AllocateResource, error returned", "a literal asset is stored as a program constant without passing ValidateAsset: the ASSET lexer rule accepts strings such as USD/2/3 that the asset pattern rejects")
	// accounts: validated, or the lexer rule is the pattern
	presentA, okA := check("LitAccountContext", "ValidateAccountAddress", "account")
	if presentA && okA {
		c.Pass("DOM/literal-validated", key+":account", pos(c, d.Decl), "ValidateAccountAddress before AllocateResource")
		return
	}
	rule, okR := g4Rule(c, "ACCOUNT")
	pat, okP := constStringOf(c, "pkg/accounts", "Pattern")
	if !presentA || !okR || !okP {
		c.Unknown("DOM/literal-validated", key+":account", pos(c, d.Decl), "LitAccount arm, ACCOUNT lexer rule or accounts.Pattern not found")
		return
	}
	lt, err1 := regexTokens(rule, true)
	gt, err2 := regexTokens(pat, false)
	if err1 != nil || err2 != nil {
		c.Unknown("DOM/literal-validated", key+":account", pos(c, d.Decl), fmt.Sprintf("cannot canonicalise the ACCOUNT rule / pattern: %v %v", err1, err2))
		return
	}
	want := append([]string{"^", "lit:@"}, gt[1:]...)
	got := append(append([]string{"^"}, lt...), "$")
	// the literal text has its leading '@' removed: c.GetText()[1:]
	strip := false
	if cc := arms["LitAccountContext"]; cc != nil {
		ast.Inspect(cc, func(n ast.Node) bool {
			if se, ok := n.(*ast.SliceExpr); ok && se.Low != nil && types.ExprString(se.Low) == "1" && se.High == nil {
				strip = true
			}
			return true
		})
	}
	c.Check(strings.Join(want, " ") == strings.Join(got, " ") && strip, "DOM/literal-validated", key+":account", "internal/machine/script/NumScript.g4", "ACCOUNT rule ≡ '@' + accounts.Pattern", fmt.Sprintf("account literals are not validated and the ACCOUNT lexer rule (%s) does not denote exactly '@' followed by the account pattern (%s)", rule, pat))
}

func ruleValueSources(c *core.Ctx) {
	d := fn(c, pkgMachine, "", "NewValueFromString")
	if d == nil {
		return
	}
	info := d.Pkg.TypesInfo
	key := declKey(d)
	consts := map[string]string{"TypeAccount": "ValidateAccountAddress", "TypeAsset": "ValidateAsset", "TypeMonetary": "ParseMonetary"}
	found := map[string]bool{}
	ast.Inspect(d.Decl.Body, func(n ast.Node) bool {
		sw, ok := n.(*ast.SwitchStmt)
		if !ok {
			return true
		}
		for _, cl := range sw.Body.List {
			cc := cl.(*ast.CaseClause)
			for _, e := range cc.List {
				name := types.ExprString(e)
				val, want := consts[name]
				if !want {
					continue
				}
				found[name] = true
				var vc *ast.CallExpr
				var asg ast.Node
				for _, st := range cc.Body {
					for _, v := range callsTo(info, st, named(val)) {
						vc = v
					}
					if as, ok := st.(*ast.AssignStmt); ok && len(as.Lhs) == 1 && types.ExprString(as.Lhs[0]) == "value" {
						asg = as
					}
				}
				ok := vc != nil && asg != nil && vc.Pos() < asg.Pos() && errLeaves(info, d.Decl.Body, vc)
				if ok && (nestedInArm(cc.Body, vc) || (len(vc.Args) == 1 && coreText(info, d.Decl.Body, vc.Args[0]) != coreText(info, d.Decl.Body, asg.(*ast.AssignStmt).Rhs[0]))) {
					// the validator runs under a further condition, or on something other than
					// the value that is produced
					ok = false
				}
				c.Check(ok, "DOM/value-sources", key+":"+name, pos(c, cc), val+" before the value is produced", "NewValueFromString produces a "+strings.TrimPrefix(name, "Type")+" from a variable or metadata string without "+val+" rejecting malformed input first")
			}
		}
		return false
	})
	for k := range consts {
		if !found[k] {
			c.Fail("DOM/value-sources", key+":"+k, pos(c, d.Decl), "no arm for "+k)
		}
	}
	// ParseVariables (typed values) validates the same three kinds
	if pv := fn(c, pkgProgram, "Program", "ParseVariables"); pv != nil {
		for _, v := range []string{"ValidateAccountAddress", "ValidateAsset", "ParseMonetary"} {
			calls := callsTo(pv.Pkg.TypesInfo, pv.Decl.Body, named(v))
			c.Check(len(calls) == 1 && errLeaves(pv.Pkg.TypesInfo, pv.Decl.Body, calls[0]), "DOM/value-sources", declKey(pv)+":"+v, pos(c, pv.Decl), v+" with error returned", "Program.ParseVariables accepts a typed variable without "+v)
		}
	}
	// ParseVariablesJSON goes through NewValueFromString
	if pj := fn(c, pkgProgram, "Program", "ParseVariablesJSON"); pj != nil {
		calls := callsTo(pj.Pkg.TypesInfo, pj.Decl.Body, named("NewValueFromString"))
		c.Check(len(calls) == 1 && errLeaves(pj.Pkg.TypesInfo, pj.Decl.Body, calls[0]) || (len(calls) == 1 && assignedErrChecked(pj.Pkg.TypesInfo, pj.Decl.Body, calls[0])), "DOM/value-sources", declKey(pj)+":NewValueFromString", pos(c, pj.Decl), "values built by NewValueFromString, error returned", "Program.ParseVariablesJSON builds variable values without NewValueFromString's validation")
	}
	// ParseMonetary: asset, nil amount, negative amount
	if pm := fn(c, pkgMachine, "", "ParseMonetary"); pm != nil {
		i := pm.Pkg.TypesInfo
		va := callsTo(i, pm.Decl.Body, named("ValidateAsset"))
		c.Check(len(va) == 1 && errLeaves(i, pm.Decl.Body, va[0]), "DOM/value-sources", declKey(pm)+":asset", pos(c, pm.Decl), "ValidateAsset", "ParseMonetary does not validate the asset")
		neg, nilc := false, false
		ast.Inspect(pm.Decl.Body, func(n ast.Node) bool {
			is, ok := n.(*ast.IfStmt)
			if !ok || !astx.Terminates(i, is.Body.List) {
				return true
			}
			r, _ := is.Body.List[len(is.Body.List)-1].(*ast.ReturnStmt)
			if r == nil || isErrorReturn(i, pm.Decl.Body, r) != 1 {
				return true
			}
			s := types.ExprString(is.Cond)
			if strings.HasSuffix(s, ".Amount.Ltz()") {
				neg = true
			}
			if strings.HasSuffix(s, ".Amount == nil") {
				nilc = true
			}
			return true
		})
		c.Check(neg, "DOM/value-sources", declKey(pm)+":negative", pos(c, pm.Decl), "negative amount rejected", "ParseMonetary accepts a negative amount")
		c.Check(nilc, "DOM/value-sources", declKey(pm)+":nil", pos(c, pm.Decl), "nil amount rejected", "ParseMonetary accepts a nil amount")
	}
	// validators use the anchored regexps
	for _, v := range []struct{ rel, re, fn, user string }{{"pkg/assets", "Regexp", "IsValid", "ValidateAsset"}, {"pkg/accounts", "Regexp", "ValidateAddress", "ValidateAccountAddress"}} {
		pk := c.Prog().Pkg(v.rel)
		if pk == nil {
			c.Unknown("DOM/value-sources", v.rel+":package", "", "package not loaded")
			continue
		}
		anch := false
		for _, f := range pk.Syntax {
			ast.Inspect(f, func(n ast.Node) bool {
				vs, ok := n.(*ast.ValueSpec)
				if !ok || len(vs.Names) != 1 || vs.Names[0].Name != v.re || len(vs.Values) != 1 {
					return true
				}
				if call, ok := vs.Values[0].(*ast.CallExpr); ok && len(call.Args) == 1 {
					if s, ok := astx.ConstString(pk.TypesInfo, call.Args[0]); ok {
						anch = strings.HasPrefix(s, "^") && strings.HasSuffix(s, "$") && !strings.HasSuffix(s, `\$`)
					}
				}
				return true
			})
		}
		c.Check(anch, "DOM/value-sources", v.rel+"."+v.re+":anchored", "", "^…$", v.rel+"."+v.re+" is not anchored at both ends: a string merely containing a valid "+strings.TrimPrefix(v.rel, "pkg/")+" passes validation")
		// the machine-side validator uses that regexp
		if u := fn(c, pkgMachine, "", v.user); u != nil {
			uses := false
			ast.Inspect(u.Decl.Body, func(n ast.Node) bool {
				if se, ok := n.(*ast.SelectorExpr); ok {
					if o := u.Pkg.TypesInfo.Uses[se.Sel]; o != nil && o.Pkg() != nil && strings.HasSuffix(o.Pkg().Path(), v.rel) && (o.Name() == v.re || o.Name() == v.fn) {
						uses = true
					}
				}
				return true
			})
			// an error is returned exactly when the pattern does not match: every error return sits
			// on the negative side of the match test, every nil return on its positive side
			ui := u.Pkg.TypesInfo
			isMatch := func(e ast.Expr) bool {
				call, ok := ast.Unparen(e).(*ast.CallExpr)
				if !ok {
					return false
				}
				found := false
				ast.Inspect(call.Fun, func(n ast.Node) bool {
					if se, ok := n.(*ast.SelectorExpr); ok {
						if o := ui.Uses[se.Sel]; o != nil && o.Pkg() != nil && strings.HasSuffix(o.Pkg().Path(), v.rel) && (o.Name() == v.re || o.Name() == v.fn) {
							found = true
						}
					}
					return true
				})
				return found
			}
			nErr, nNil, bad, unknown := 0, 0, 0, 0
			ast.Inspect(u.Decl.Body, func(n ast.Node) bool {
				r, ok := n.(*ast.ReturnStmt)
				if !ok {
					return true
				}
				sign := 0
				for _, ft := range astx.FactsAt(ui, u.Decl.Body, r.Pos()) {
					if isMatch(ft.Cond) {
						if ft.Positive {
							sign = 1
						} else {
							sign = -1
						}
					}
				}
				switch isErrorReturn(ui, u.Decl.Body, r) {
				case 1:
					nErr++
					if sign > 0 {
						bad++
					} else if sign == 0 {
						unknown++
					}
				case -1:
					nNil++
					if sign < 0 {
						bad++
					} else if sign == 0 {
						unknown++
					}
				default:
					unknown++
				}
				return true
			})
			failMsg := v.user + " does not reject strings the " + v.rel + " pattern rejects"
			switch {
			case !uses || nErr == 0 || bad > 0:
				c.Fail("DOM/value-sources", declKey(u)+":uses-pattern", pos(c, u.Decl), failMsg)
			case unknown > 0:
				c.Unrecognised("DOM/value-sources", declKey(u)+":uses-pattern", pos(c, u.Decl), "a return of "+v.user+" is not decided by the pattern test in a way the rule reads")
			default:
				c.Pass("DOM/value-sources", declKey(u)+":uses-pattern", pos(c, u.Decl), "error unless "+v.rel+"."+v.re+" matches")
			}
		}
	}
}

// assignedErrChecked: `v, err := call(...)` followed by `if err != nil { return … }`.
func assignedErrChecked(info *types.Info, body *ast.BlockStmt, call *ast.CallExpr) bool {
	ok := false
	ast.Inspect(body, func(n ast.Node) bool {
		blk, isB := n.(*ast.BlockStmt)
		if !isB {
			return true
		}
		for i, st := range blk.List {
			as, isA := st.(*ast.AssignStmt)
			if !isA || len(as.Rhs) != 1 || ast.Unparen(as.Rhs[0]) != call || i+1 >= len(blk.List) {
				continue
			}
			if is, isIf := blk.List[i+1].(*ast.IfStmt); isIf && len(errorCondVars(info, is.Cond)) > 0 && astx.Terminates(info, is.Body.List) {
				ok = true
			}
		}
		return true
	})
	return ok
}

func rulePostingsValidate(c *core.Ctx) {
	d := fn(c, pkgCore, "Postings", "Validate")
	if d == nil {
		return
	}
	info := d.Pkg.TypesInfo
	key := declKey(d)
	var loop *ast.RangeStmt
	ast.Inspect(d.Decl.Body, func(n ast.Node) bool {
		if r, ok := n.(*ast.RangeStmt); ok && loop == nil {
			loop = r
		}
		return true
	})
	if loop == nil {
		c.Fail("DOM/postings-validate", key+":loop", pos(c, d.Decl), "Postings.Validate does not range over the postings")
		return
	}
	pv := ""
	switch {
	case loop.Value != nil && !isBlankIdent(loop.Value):
		pv = types.ExprString(loop.Value)
	case loop.Key != nil && !isBlankIdent(loop.Key):
		pv = types.ExprString(loop.X) + "[" + types.ExprString(loop.Key) + "]"
	default:
		c.Fail("DOM/postings-validate", key+":loop", pos(c, d.Decl), "Postings.Validate does not look at the postings it ranges over")
		return
	}
	want := map[string]string{
		"$p.Amount == nil":                        "nil amount",
		"$p.Amount.Cmp(Zero) < 0":                 "negative amount",
		"!accounts.ValidateAddress($p.Source)":      "invalid source",
		"!accounts.ValidateAddress($p.Destination)": "invalid destination",
		"!assets.IsValid($p.Asset)":                 "invalid asset",
	}
	// every error return rejects the postings satisfying the (single) positive condition it sits
	// under — an `if`, an `if a || b`, or the case of a tagless switch — in the loop body or in a
	// same-package helper the loop hands the posting to and whose error it returns
	got := map[string]bool{}
	opaque := false // the posting is handed to something this rule does not read
	var esc ast.Node
	ix := index(c)
	var scan func(fnBody, body *ast.BlockStmt, pvText string, inHelper bool, depth int)
	scan = func(fnBody, body *ast.BlockStmt, pvText string, inHelper bool, depth int) {
		isPV := func(e ast.Expr) bool {
			e = ast.Unparen(e)
			if u, ok := e.(*ast.UnaryExpr); ok && u.Op == token.AND {
				e = u.X
			}
			return types.ExprString(e) == pvText
		}
		// helper calls: `err := h(pv)` (statement or if-init) followed by `if err != nil { return …, err }`
		follow := func(call *ast.CallExpr, errObj types.Object, after []ast.Stmt, ifst *ast.IfStmt) bool {
			f := astx.Callee(info, call)
			if f == nil || depth >= 2 {
				return false
			}
			hd := ix.Decls[f]
			if hd == nil || hd.Decl.Body == nil || hd.Pkg != d.Pkg || hd.Decl.Type.Params == nil {
				return false
			}
			param, k := "", 0
			for _, fl := range hd.Decl.Type.Params.List {
				for _, nm := range fl.Names {
					if k < len(call.Args) && isPV(call.Args[k]) {
						param = nm.Name
					}
					k++
				}
			}
			if param == "" {
				return false
			}
			// the error is returned when non-nil
			propagated := false
			check := func(st *ast.IfStmt) {
				be, ok := ast.Unparen(st.Cond).(*ast.BinaryExpr)
				if !ok || be.Op != token.NEQ || !astx.IsNilExpr(info, be.Y) {
					return
				}
				id, ok := ast.Unparen(be.X).(*ast.Ident)
				if !ok || info.ObjectOf(id) != errObj || len(st.Body.List) == 0 {
					return
				}
				if r, ok := st.Body.List[len(st.Body.List)-1].(*ast.ReturnStmt); ok {
					if lr := lastResult(r); lr != nil && !astx.IsNilExpr(info, lr) {
						propagated = true
					}
				}
			}
			if ifst != nil {
				check(ifst)
			}
			for _, st := range after {
				if is, ok := st.(*ast.IfStmt); ok && is.Init == nil {
					check(is)
					break
				}
			}
			if !propagated {
				return false
			}
			scan(hd.Decl.Body, hd.Decl.Body, param, true, depth+1)
			return true
		}
		errCallOf := func(st ast.Stmt) (*ast.CallExpr, types.Object) {
			as, ok := st.(*ast.AssignStmt)
			if !ok || len(as.Rhs) != 1 || len(as.Lhs) < 1 {
				return nil, nil
			}
			call, ok := ast.Unparen(as.Rhs[0]).(*ast.CallExpr)
			if !ok {
				return nil, nil
			}
			id, ok := as.Lhs[len(as.Lhs)-1].(*ast.Ident)
			if !ok {
				return nil, nil
			}
			return call, info.ObjectOf(id)
		}
		followed := map[*ast.CallExpr]bool{}
		for i, st := range body.List {
			if call, obj := errCallOf(st); call != nil && obj != nil {
				if follow(call, obj, body.List[i+1:], nil) {
					followed[call] = true
				}
			}
			if is, ok := st.(*ast.IfStmt); ok && is.Init != nil {
				if call, obj := errCallOf(is.Init); call != nil && obj != nil {
					if follow(call, obj, nil, is) {
						followed[call] = true
					}
				}
			}
		}
		// any other same-package call taking the posting is not read
		ast.Inspect(body, func(n ast.Node) bool {
			call, ok := n.(*ast.CallExpr)
			if !ok || followed[call] {
				return true
			}
			f := astx.Callee(info, call)
			if f == nil || f.Pkg() != d.Obj.Pkg() {
				return true
			}
			for _, a := range call.Args {
				if isPV(a) {
					opaque = true
				}
			}
			return true
		})
		ast.Inspect(body, func(n ast.Node) bool {
			if _, isLit := n.(*ast.FuncLit); isLit {
				return false
			}
			switch x := n.(type) {
			case *ast.BranchStmt:
				if !inHelper || x.Tok == token.GOTO {
					esc = x
				}
				return true
			case *ast.ReturnStmt:
				cls := isErrorReturn(info, fnBody, x)
				if cls != 1 {
					// a success return: in the loop it skips later postings, in a helper (other
					// than as its last statement) it skips later checks
					last := len(body.List) > 0 && body.List[len(body.List)-1] == ast.Stmt(x)
					if !(inHelper && last && cls == -1) {
						esc = x
					}
					return true
				}
				r := x
				var cond ast.Expr
				for _, st := range body.List {
					switch v := st.(type) {
					case *ast.IfStmt:
						if v.Body.Pos() <= r.Pos() && r.End() <= v.Body.End() && v.Init == nil {
							cond = v.Cond
						}
					case *ast.SwitchStmt:
						if v.Tag != nil || v.Init != nil {
							continue
						}
						for _, cl := range v.Body.List {
							cc := cl.(*ast.CaseClause)
							if cc.Pos() <= r.Pos() && r.End() <= cc.End() && len(cc.List) >= 1 {
								cond = cc.List[0]
								for _, e := range cc.List[1:] {
									cond = &ast.BinaryExpr{X: cond, Op: token.LOR, Y: e}
								}
							}
						}
					}
				}
				if cond != nil {
					for _, dj := range splitOr(cond) {
						got[normCond(replaceIdent(types.ExprString(dj), pvText, "$p"))] = true
					}
				}
			}
			return true
		})
	}
	scan(d.Decl.Body, loop.Body, pv, false, 0)
	for cond, what := range want {
		k := key + ":" + strings.ReplaceAll(what, " ", "-")
		if !got[normCond(cond)] && opaque {
			c.Unrecognised("DOM/postings-validate", k, pos(c, loop), "Postings.Validate hands the posting to a helper this rule does not read; whether a posting with "+what+" is rejected is not decided")
			continue
		}
		c.Check(got[normCond(cond)], "DOM/postings-validate", k, pos(c, loop), what+" rejected", "Postings.Validate does not reject a posting with "+what)
	}
	// no way out of the loop other than the error returns
	c.Check(esc == nil && astx.IsNilExpr(info, loop.Key) == false, "DOM/postings-validate", key+":every-posting", pos(c, loop), "all postings visited, all checks applied", "Postings.Validate can leave its loop (or a check helper) early (break/continue/success return): later postings or checks are skipped")
}

// replaceIdent replaces the expression text old by new in s wherever it stands as a whole operand
// (not preceded by '.', a letter, digit or '_', and not followed by a letter, digit or '_').
func replaceIdent(s, old, new string) string {
	if old == "" {
		return s
	}
	isW := func(b byte) bool {
		return b == '_' || (b >= '0' && b <= '9') || (b >= 'a' && b <= 'z') || (b >= 'A' && b <= 'Z')
	}
	var sb strings.Builder
	for i := 0; i < len(s); {
		if strings.HasPrefix(s[i:], old) {
			before := i == 0 || !(isW(s[i-1]) || s[i-1] == '.')
			j := i + len(old)
			after := j >= len(s) || !isW(s[j])
			if before && after {
				sb.WriteString(new)
				i = j
				continue
			}
		}
		sb.WriteByte(s[i])
		i++
	}
	return sb.String()
}

func splitOr(e ast.Expr) []ast.Expr {
	if be, ok := ast.Unparen(e).(*ast.BinaryExpr); ok && be.Op == token.LOR {
		return append(splitOr(be.X), splitOr(be.Y)...)
	}
	return []ast.Expr{e}
}

func normCond(s string) string {
	s = strings.ReplaceAll(s, " ", "")
	s = strings.ReplaceAll(s, "new(big.Int)", "Zero")
	s = strings.ReplaceAll(s, "big.NewInt(0)", "Zero")
	s = strings.ReplaceAll(s, ".Sign()<0", ".Cmp(Zero)<0")
	return s
}

func ruleCommitPaths(c *core.Ctx) {
	var commit *types.Func
	if st := namedType(c, pkgCtrl, "Store"); st != nil {
		if it, ok := st.Underlying().(*types.Interface); ok {
			for i := 0; i < it.NumMethods(); i++ {
				if it.Method(i).Name() == "CommitTransaction" {
					commit = it.Method(i)
				}
			}
		}
	}
	if commit == nil {
		c.Unknown("DOM/commit-paths", "Store.CommitTransaction", "", "method not found")
		return
	}
	n := 0
	for _, s := range index(c).SitesOf(commit) {
		if s.Encl == nil || relPkg(s.Pkg.PkgPath) != pkgCtrl || strings.HasSuffix(c.Prog().Rel(s.Call.Pos()), "_test.go") {
			continue
		}
		recvT := s.Pkg.TypesInfo.TypeOf(recvExpr(s.Call))
		if recvT == nil || astx.RecvTypeName(recvT) != "Store" {
			continue // decorators forwarding the call
		}
		n++
		info := s.Pkg.TypesInfo
		fname := s.Encl.Name.Name
		arg := ""
		if len(s.Call.Args) == 2 {
			arg = strings.TrimPrefix(types.ExprString(s.Call.Args[1]), "&")
		}
		key := enclKey(pkgCtrl, s.Encl) + ":" + arg
		var encl *astx.DeclInfo
		for _, dd := range index(c).Decls {
			if dd.Decl == s.Encl {
				encl = dd
			}
		}
		if encl == nil || len(s.Call.Args) != 2 {
			c.Unrecognised("DOM/commit-paths", key, pos(c, s.Call), "enclosing declaration of the CommitTransaction call not resolved")
			continue
		}
		env := newOriginEnv(c, encl)
		committed := env.origin(s.Call.Args[1])
		switch fname {
		case "createTransaction":
			// the committed transaction is built from the runtime's result
			i := strings.Index(committed, ".WithPostings(")
			switch {
			case strings.HasPrefix(committed, "?"):
				c.Unrecognised("DOM/commit-paths", key, pos(c, s.Call), "committed value not read: "+committed)
			case i < 0:
				c.Fail("DOM/commit-paths", key, pos(c, s.Call), "createTransaction commits postings that are not the numscript runtime's output (committed: "+committed+")")
			default:
				rest := committed[i+len(".WithPostings("):]
				// first argument: <result of a call>.Postings
				argEnd := strings.Index(rest, ".Postings")
				ok := argEnd > 0 && strings.HasSuffix(rest[:argEnd], "#0")
				c.Check(ok, "DOM/commit-paths", key, pos(c, s.Call), "postings = runtime result", "createTransaction commits postings that are not the numscript runtime's output (committed: "+committed+")")
			}
		case "revertTransaction":
			switch {
			case strings.HasPrefix(committed, "?"):
				c.Unrecognised("DOM/commit-paths", key, pos(c, s.Call), "committed value not read: "+committed)
			default:
				c.Check(strings.HasSuffix(committed, ".Reverse()") && strings.Contains(committed, "RevertTransaction("), "DOM/commit-paths", key, pos(c, s.Call), "postings = Reverse() of the stored transaction", "revertTransaction commits a transaction that is not the reversal of the stored one (committed: "+committed+")")
			}
		case "importLog":
			// Postings.Validate on the same payload field dominates, error leaves
			ok := false
			flow := astx.NewFlow(info, astx.InnermostFuncBody(s.Encl, s.Call))
			for _, v := range callsTo(info, s.Encl.Body, methodOn("Postings", "Validate")) {
				if env.origin(recvExpr(v)) == committed+".Postings" && flow.Dominates(v, s.Call) && errLeaves(info, s.Encl.Body, v) {
					ok = true
				}
			}
			// the validation may sit in a helper that is handed the postings
			if !ok {
				ast.Inspect(s.Encl.Body, func(x ast.Node) bool {
					hc, isCall := x.(*ast.CallExpr)
					if !isCall || ok {
						return true
					}
					hf := astx.Callee(info, hc)
					if hf == nil {
						return true
					}
					hd := index(c).Decls[hf]
					if hd == nil || hd.Decl.Body == nil || hd.Obj.Pkg() != encl.Obj.Pkg() || hd == encl {
						return true
					}
					henv := env.forCallee(hc, hd)
					for _, v := range callsTo(hd.Pkg.TypesInfo, hd.Decl.Body, methodOn("Postings", "Validate")) {
						if henv.origin(recvExpr(v)) == committed+".Postings" && flow.Dominates(hc, s.Call) && (errLeaves(info, s.Encl.Body, hc) || assignedErrChecked(info, s.Encl.Body, hc)) {
							ok = true
						}
					}
					return true
				})
			}
			c.Check(ok, "DOM/commit-paths", key, pos(c, s.Call), arg+".Postings.Validate() dominates the commit", "importLog commits "+arg+" from the import stream without validating its postings: every other creation path validates addresses, assets and amounts")
		default:
			// a helper of the three known paths is an unrecognised shape; a new entry point is a finding
			helperOnly := true
			callers := index(c).SitesOf(encl.Obj)
			for _, cs := range callers {
				if cs.Encl == nil {
					helperOnly = false
					continue
				}
				switch cs.Encl.Name.Name {
				case "createTransaction", "revertTransaction", "importLog":
				default:
					helperOnly = false
				}
			}
			if helperOnly && len(callers) > 0 {
				c.Unrecognised("DOM/commit-paths", key, pos(c, s.Call), "CommitTransaction moved into helper "+fname+" of a known path")
			} else {
				c.Fail("DOM/commit-paths", key, pos(c, s.Call), "unclassified CommitTransaction call site in "+fname+": state where its postings come from and how they are validated")
			}
		}
	}
	c.Floor("DOM/commit-paths", "CommitTransaction call sites in the controller", n, 4)
	// Reverse only swaps source and destination
	if r := fn(c, pkgCore, "Postings", "Reverse"); r != nil {
		bad := ast.Node(nil)
		swaps := 0
		ast.Inspect(r.Decl.Body, func(x ast.Node) bool {
			as, ok := x.(*ast.AssignStmt)
			if !ok {
				return true
			}
			for i, l := range as.Lhs {
				se, isS := l.(*ast.SelectorExpr)
				if !isS {
					continue
				}
				switch se.Sel.Name {
				case "Asset", "Amount":
					bad = as
				case "Source", "Destination":
					other := map[string]string{"Source": "Destination", "Destination": "Source"}[se.Sel.Name]
					if len(as.Lhs) == len(as.Rhs) && types.ExprString(as.Rhs[i]) == types.ExprString(se.X)+"."+other {
						swaps++
					} else {
						bad = as
					}
				}
			}
			return true
		})
		c.Shape(bad != nil || swaps == 2, bad == nil && swaps == 2, "DOM/commit-paths", declKey(r)+":swap-only", pos(c, r.Decl), "source ↔ destination only", "Postings.Reverse changes more than the direction of each posting: a reverted transaction may carry values no validation has seen")
	}
}

// addressConversionSites: where a plain string may become a machine.AccountAddress / machine.Asset
// without passing a validator, with the reason each is safe. Any other conversion of a
// non-constant string is a new, unvalidated source of addresses or assets for the VM.
var addressConversionSites = map[string]string{
	"internal/machine.NewValueFromString":                      "the conversion follows ValidateAccountAddress / ValidateAsset on the same string (checked below)",
	"internal/machine/vm.(Machine).ResolveBalances":            "keys read back from the store for accounts the script already named: used to index the balances map only",
	"internal/machine/script/compiler.(parseVisitor).VisitLit": "account literal accepted by the lexer's ACCOUNT rule (DOM/literal-validated)",
}

// ruleAddressConversions (WMC): who may turn a string into an account address or an asset.
func ruleAddressConversions(c *core.Ctx) {
	n := 0
	for _, rel := range []string{pkgMachine, pkgVM, pkgProgram, pkgCompiler, pkgCtrl} {
		pk := c.Prog().Pkg(rel)
		if pk == nil {
			continue
		}
		info := pk.TypesInfo
		for _, f := range pk.Syntax {
			if load.IsGenerated(f) || strings.HasSuffix(c.Prog().Rel(f.Pos()), "_test.go") {
				continue
			}
			for _, dd := range f.Decls {
				fd, ok := dd.(*ast.FuncDecl)
				if !ok || fd.Body == nil {
					continue
				}
				fkey := enclKey(rel, fd)
				if obj := load.FuncObj(pk, fd); obj != nil {
					fkey = astx.FuncKey(obj)
				}
				occ := 0
				ast.Inspect(fd.Body, func(x ast.Node) bool {
					call, ok := x.(*ast.CallExpr)
					if !ok || len(call.Args) != 1 {
						return true
					}
					tv, ok := info.Types[call.Fun]
					if !ok || !tv.IsType() {
						return true
					}
					nt := astx.Named(tv.Type)
					if nt == nil || nt.Obj().Pkg() == nil || !strings.HasSuffix(nt.Obj().Pkg().Path(), pkgMachine) || (nt.Obj().Name() != "AccountAddress" && nt.Obj().Name() != "Asset") {
						return true
					}
					at := info.Types[call.Args[0]]
					if at.Value != nil {
						return true // constant
					}
					if st := info.TypeOf(call.Args[0]); st == nil || astx.Named(st) == nt {
						return true // already of that type
					}
					occ++
					n++
					key := fmt.Sprintf("%s:%s#%d", fkey, nt.Obj().Name(), occ)
					if why, ok := addressConversionSites[fkey]; ok {
						c.Pass("WMC/address-conversions", key, pos(c, call), "allowed: "+why)
						return true
					}
					c.Fail("WMC/address-conversions", key, pos(c, call), "a string is converted to machine."+nt.Obj().Name()+" here without going through the validating constructor (NewValueFromString / the lexer rule): a value the patterns reject (metadata content, request variable) can reach a committed posting")
					return true
				})
			}
		}
	}
	c.Floor("WMC/address-conversions", "string → AccountAddress/Asset conversions", n, 4)
	// inside NewValueFromString the validation precedes the conversion
	if d := fn(c, pkgMachine, "", "NewValueFromString"); d != nil {
		info := d.Pkg.TypesInfo
		for _, v := range []string{"ValidateAccountAddress", "ValidateAsset"} {
			calls := callsTo(info, d.Decl.Body, named(v))
			ok := len(calls) >= 1
			for _, call := range calls {
				ok = ok && (errLeaves(info, d.Decl.Body, call) || assignedErrChecked(info, d.Decl.Body, call))
			}
			c.Check(ok, "WMC/address-conversions", declKey(d)+":"+v, pos(c, d.Decl), v+" and its error returned before the value is built", "NewValueFromString no longer validates (or ignores the verdict of) "+v+": every variable and metadata value of that type enters the VM unchecked")
		}
	}
}

func isBlankIdent(e ast.Expr) bool {
	id, ok := e.(*ast.Ident)
	return ok && id.Name == "_"
}

// nestedInArm: call sits inside a nested block of one of the arm's statements (under a further
// condition or loop) rather than in a statement of the arm itself (or in the init/condition of an
// `if` of the arm).
func nestedInArm(arm []ast.Stmt, call *ast.CallExpr) bool {
	in := func(x ast.Node) bool { return x != nil && x.Pos() <= call.Pos() && call.End() <= x.End() }
	for _, st := range arm {
		if !in(st) {
			continue
		}
		switch v := st.(type) {
		case *ast.IfStmt:
			return !(in(v.Init) || in(v.Cond))
		case *ast.AssignStmt, *ast.ExprStmt, *ast.DeclStmt, *ast.ReturnStmt:
			return false
		default:
			return true
		}
	}
	return false
}

// coreText renders e with type conversions removed and single-definition locals replaced by
// their definitions: `AccountAddress(data)`, `addr` (addr := AccountAddress(data)) and `data` all
// render as "data".
func coreText(info *types.Info, body *ast.BlockStmt, e ast.Expr) string {
	for i := 0; i < 6; i++ {
		e = ast.Unparen(e)
		if call, ok := e.(*ast.CallExpr); ok && len(call.Args) == 1 {
			if tv, ok := info.Types[call.Fun]; ok && tv.IsType() {
				e = call.Args[0]
				continue
			}
		}
		if _, ok := e.(*ast.Ident); ok {
			if def := resolveLocal(info, body, e); def != e {
				e = def
				continue
			}
		}
		break
	}
	return types.ExprString(e)
}

// sameCoreValue: what val validates is what alloc stores (the Inner of the constant it allocates).
func sameCoreValue(info *types.Info, body *ast.BlockStmt, val, alloc *ast.CallExpr) bool {
	if len(val.Args) != 1 || len(alloc.Args) != 1 {
		return true
	}
	lit, ok := ast.Unparen(alloc.Args[0]).(*ast.CompositeLit)
	if !ok {
		return true
	}
	for _, el := range lit.Elts {
		if kv, ok := el.(*ast.KeyValueExpr); ok && types.ExprString(kv.Key) == "Inner" {
			return coreText(info, body, val.Args[0]) == coreText(info, body, kv.Value)
		}
	}
	return true
}
