package rules

import (
	"fmt"
	"go/ast"
	"go/token"
	"go/types"
	"strings"

	"ledgerlint/internal/astx"
	"ledgerlint/internal/core"
)

func init() {
	addBreakers("C09",
		Breaker{Name: "write-transactions-default-to-repeatable-read", File: "internal/storage/ledger/store.go",
			Old: "func (store *Store) BeginTX(ctx context.Context, options *sql.TxOptions) (*Store, *bun.Tx, error) {\n", New: "func (store *Store) BeginTX(ctx context.Context, options *sql.TxOptions) (*Store, *bun.Tx, error) {\n\tif options == nil {\n\t\toptions = &sql.TxOptions{Isolation: sql.LevelRepeatableRead}\n\t}\n", Expect: "ISO/read-committed"},
	)
	addBreakers("C06",
		Breaker{Name: "unbounded-take-not-tracked", File: "internal/machine/vm/machine.go",
			Old: "\tif accBalance, ok := m.Balances[account]; ok {\n\t\tif balance, ok := accBalance[mon.Asset]; ok {\n\t\t\taccBalance[mon.Asset] = balance.Sub(mon.Amount)\n\t\t}\n\t}\n\n\treturn &machine.Funding{\n\t\tAsset: mon.Asset,", New: "\treturn &machine.Funding{\n\t\tAsset: mon.Asset,", Expect: "FLOW/vm-balances"},
		Breaker{Name: "credit-not-tracked", File: "internal/machine/vm/machine.go",
			Old: "\t\t\t\taccBalance[funding.Asset] = balance.Add(part.Amount)\n", New: "\t\t\t\t_ = balance.Add(part.Amount)\n", Expect: "FLOW/vm-balances"},
	)
	addBreakers("C08",
		Breaker{Name: "log-sequence-cached", File: "internal/storage/bucket/default_bucket.go",
			Old: "create sequence \"{{.Bucket}}\".\"log_id_{{.ID}}\" owned by \"{{.Bucket}}\".logs.id;", New: "create sequence \"{{.Bucket}}\".\"log_id_{{.ID}}\" cache 32 owned by \"{{.Bucket}}\".logs.id;", Expect: "SEQ/creation"},
	)
}

// ruleReadCommitted: the write path relies on READ COMMITTED — a statement issued after a lock
// was obtained (advisory lock before the hash trigger reads the previous log; FOR UPDATE on
// balances) must see what the previous holder committed. Store.BeginTX therefore hands the
// caller's options to the driver unchanged, and the write path passes nil (the default level).
func ruleReadCommitted(c *core.Ctx) {
	d := fn(c, pkgStore, "Store", "BeginTX")
	if d == nil {
		return
	}
	info := d.Pkg.TypesInfo
	key := declKey(d)
	var optObj types.Object
	for _, p := range d.Decl.Type.Params.List {
		if strings.HasSuffix(types.ExprString(p.Type), "TxOptions") && len(p.Names) == 1 {
			optObj = info.ObjectOf(p.Names[0])
		}
	}
	if optObj == nil {
		c.Unknown("ISO/read-committed", key+":options-param", pos(c, d.Decl), "no *sql.TxOptions parameter")
		return
	}
	reassigned := ast.Node(nil)
	ast.Inspect(d.Decl.Body, func(n ast.Node) bool {
		switch x := n.(type) {
		case *ast.AssignStmt:
			for _, l := range x.Lhs {
				if id := astx.RootIdent(l); id != nil && info.ObjectOf(id) == optObj {
					reassigned = x
				}
			}
		}
		return true
	})
	forwarded := false
	for _, call := range callsTo(info, d.Decl.Body, named("BeginTx")) {
		if len(call.Args) == 2 {
			if id, ok := ast.Unparen(call.Args[1]).(*ast.Ident); ok && info.ObjectOf(id) == optObj {
				forwarded = true
			}
		}
	}
	c.Check(reassigned == nil && forwarded, "ISO/read-committed", key+":options-forwarded", pos(c, d.Decl), "db.BeginTx(ctx, options) with the caller's options untouched", "Store.BeginTX changes or replaces the transaction options (for instance a default isolation level above READ COMMITTED): statements issued after the per-ledger lock or the balance row locks were obtained would read a snapshot taken before the previous holder committed — two logs chain from the same predecessor, two writers spend the same balance")
	// callers on the write path
	ix := index(c)
	n := 0
	for _, s := range ix.Sites {
		if s.Callee == nil || s.Callee.Name() != "BeginTX" || s.Encl == nil || len(s.Call.Args) != 2 {
			continue
		}
		rel := relPkg(s.Pkg.PkgPath)
		if rel != pkgCtrl && rel != pkgSysCtrl && rel != pkgBulk {
			continue
		}
		if strings.HasSuffix(c.Prog().Rel(s.Call.Pos()), "_test.go") || strings.Contains(c.Prog().Rel(s.Call.Pos()), "_generated") {
			continue
		}
		n++
		arg := s.Call.Args[1]
		ok := astx.IsNilExpr(s.Pkg.TypesInfo, arg)
		if !ok {
			// forwarding a parameter is the decorator case
			if id, isID := ast.Unparen(arg).(*ast.Ident); isID {
				for _, p := range s.Encl.Type.Params.List {
					for _, nm := range p.Names {
						if s.Pkg.TypesInfo.ObjectOf(nm) == s.Pkg.TypesInfo.ObjectOf(id) {
							ok = true
						}
					}
				}
			}
		}
		c.Check(ok, "ISO/read-committed", fmt.Sprintf("%s:BeginTX#%d", enclKey(rel, s.Encl), n), pos(c, s.Call), "BeginTX(ctx, nil) or the caller's options", "a write-path transaction is opened with explicit options ("+types.ExprString(arg)+"): anything above READ COMMITTED breaks the lock-then-read pattern the hash chain and the balance check rely on")
	}
	c.Floor("ISO/read-committed", "BeginTX call sites on the write path", n, 5)
}

// ruleVMBalanceTracking: every way funds leave or enter an account during execution updates the
// machine's running balance when the account is tracked, so that a later bounded use of the same
// account is checked against what is really left.
func ruleVMBalanceTracking(c *core.Ctx) {
	type spec struct {
		name string
		op   string // method applied to the old balance
		arg  string // suffix of the operand
		what string
	}
	for _, sp := range []spec{
		{"withdrawAlways", "Sub", ".Amount", "an unbounded take lowers the tracked balance by the amount"},
		{"credit", "Add", ".Amount", "a credit raises the tracked balance by each part"},
		{"repay", "Add", ".Amount", "a repayment raises the tracked balance by each part"},
	} {
		d := fn(c, pkgVM, "Machine", sp.name)
		if d == nil {
			c.Fail("FLOW/vm-balances", pkgVM+".(Machine)."+sp.name+":declared", "", "Machine."+sp.name+" not found")
			continue
		}
		info := d.Pkg.TypesInfo
		// aliases of m.Balances[...]
		alias := map[types.Object]bool{}
		ast.Inspect(d.Decl.Body, func(n ast.Node) bool {
			as, ok := n.(*ast.AssignStmt)
			if !ok || len(as.Rhs) != 1 {
				return true
			}
			if ix, ok := ast.Unparen(as.Rhs[0]).(*ast.IndexExpr); ok && strings.HasSuffix(astx.SelectorPath(ix.X), ".Balances") {
				if id, ok := as.Lhs[0].(*ast.Ident); ok {
					alias[info.ObjectOf(id)] = true
				}
			}
			return true
		})
		ok := false
		ast.Inspect(d.Decl.Body, func(n ast.Node) bool {
			as, isA := n.(*ast.AssignStmt)
			if !isA || len(as.Lhs) != 1 || len(as.Rhs) != 1 {
				return true
			}
			ix, isIx := as.Lhs[0].(*ast.IndexExpr)
			if !isIx {
				return true
			}
			root := astx.RootIdent(ix.X)
			if root == nil || !(alias[info.ObjectOf(root)] || strings.Contains(astx.SelectorPath(ix.X), ".Balances")) {
				return true
			}
			call, isC := ast.Unparen(as.Rhs[0]).(*ast.CallExpr)
			if !isC || len(call.Args) != 1 {
				return true
			}
			if f := astx.Callee(info, call); f != nil && f.Name() == sp.op && strings.HasSuffix(astx.SelectorPath(call.Args[0]), sp.arg) {
				ok = true
			}
			return true
		})
		// no part of the funding is skipped, except for the two reasons that mean "not tracked":
		// the world account and an account without a balance entry
		if sp.name != "withdrawAlways" {
			ast.Inspect(d.Decl.Body, func(n ast.Node) bool {
				br, isB := n.(*ast.BranchStmt)
				if !isB {
					return true
				}
				okSkip := false
				for _, f := range xfactsAt(info, d.Decl.Body, br.Pos()) {
					if be, isBin := f.Cond.(*ast.BinaryExpr); isBin && f.Positive && be.Op == token.EQL && (isWorldConst(info, be.X) || isWorldConst(info, be.Y)) {
						okSkip = true
					}
					if id, isId := f.Cond.(*ast.Ident); isId && !f.Positive && isCommaOkOfBalances(info, d.Decl.Body, id) {
						okSkip = true
					}
				}
				c.Check(okSkip, "FLOW/vm-balances", declKey(d)+":no-part-skipped", pos(c, br), "parts skipped only for world / untracked accounts", "Machine."+sp.name+" skips a funding part for another reason than `world` or an untracked account: the running balance misses that part (for instance a posting from an account to itself), and a later bounded take fails or overdraws")
				return true
			})
		}
		c.Check(ok, "FLOW/vm-balances", declKey(d)+":tracks", pos(c, d.Decl), sp.what, "Machine."+sp.name+" no longer updates the running balance (m.Balances[account][asset] = old."+sp.op+"(amount)): an account used both without and with a bound in one script is checked against a stale balance and can be overdrawn beyond its allowance")
	}
}

// isCommaOkOfBalances: id is the boolean of a comma-ok lookup in the machine's balances
// (`x, ok := m.Balances[acct]` or a lookup in an alias of such an entry).
func isCommaOkOfBalances(info *types.Info, body *ast.BlockStmt, id *ast.Ident) bool {
	obj := info.ObjectOf(id)
	found := false
	ast.Inspect(body, func(n ast.Node) bool {
		as, ok := n.(*ast.AssignStmt)
		if !ok || len(as.Lhs) != 2 || len(as.Rhs) != 1 {
			return true
		}
		l, ok := as.Lhs[1].(*ast.Ident)
		if !ok || info.ObjectOf(l) != obj {
			return true
		}
		if _, isIx := ast.Unparen(as.Rhs[0]).(*ast.IndexExpr); isIx {
			found = true
		}
		return true
	})
	return found
}
