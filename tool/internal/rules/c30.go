package rules

import (
	"fmt"
	"go/ast"
	"go/token"
	"go/types"
	"sort"
	"strings"

	"ledgerlint/internal/astx"
	"ledgerlint/internal/core"
)

func init() {
	register("C30", checkC30)
	addBreakers("C30",
		Breaker{Name: "pattern-not-marshalled", File: "internal/chart.go",
			Old: "\tif s.Pattern != nil {\n\t\tout[PATTERN_KEY] = *s.Pattern\n\t}\n", New: "", Expect: "KEYS/chart"},
		Breaker{Name: "metadata-not-unmarshalled", File: "internal/chart.go",
			Old: "\t\t\terr := json.Unmarshal(value, &account.Metadata)\n\t\t\tif err != nil {\n\t\t\t\treturn fmt.Errorf(\"invalid default metadata: %v\", err)\n\t\t\t}\n", New: "\t\t\tvar ignored map[string]ChartAccountMetadata\n\t\t\terr := json.Unmarshal(value, &ignored)\n\t\t\tif err != nil {\n\t\t\t\treturn fmt.Errorf(\"invalid default metadata: %v\", err)\n\t\t\t}\n", Expect: "KEYS/chart"},
		Breaker{Name: "label-keeps-dollar", File: "internal/chart.go",
			Old: "\t\t\t\t\tLabel:        key[1:],", New: "\t\t\t\t\tLabel:        key,", Expect: "KEYS/chart"},
		Breaker{Name: "self-never-emitted", File: "internal/chart.go",
			Old: "\t\tif len(s.FixedSegments) > 0 || s.VariableSegment != nil {\n\t\t\tout[SELF_KEY] = map[string]any{}\n\t\t}\n", New: "", Expect: "KEYS/chart"},
		Breaker{Name: "self-emitted-only-with-fixed-children", File: "internal/chart.go",
			Old: "\t\tif len(s.FixedSegments) > 0 || s.VariableSegment != nil {\n\t\t\tout[SELF_KEY]", New: "\t\tif len(s.FixedSegments) > 0 {\n\t\t\tout[SELF_KEY]", Expect: "KEYS/chart"},
		Breaker{Name: "leaf-not-account-on-read", File: "internal/chart.go",
			Old: "\tisAccount = isAccount || isLeaf\n", New: "\tisAccount = isAccount && isLeaf\n", Expect: "KEYS/chart"},
		Breaker{Name: "variable-segment-marshalled-without-dollar", File: "internal/chart.go",
			Old: "\t\tkey := fmt.Sprintf(\"$%v\", s.VariableSegment.Label)", New: "\t\tkey := fmt.Sprintf(\"%v\", s.VariableSegment.Label)", Expect: "KEYS/chart"},
		Breaker{Name: "variable-segment-loses-pattern-on-marshal", File: "internal/chart.go",
			Old: "\t\tserialized, err := s.VariableSegment.MarshalJSON()", New: "\t\tserialized, err := s.VariableSegment.ChartSegment.MarshalJSON()", Expect: "KEYS/chart"},
		Breaker{Name: "vardecl-default-key-renamed", File: "internal/queries/variables.go",
			Old: "\t\tDefault any    `json:\"default,omitempty\"`\n\t}{", New: "\t\tDefault any    `json:\"defaultValue,omitempty\"`\n\t}{", Expect: "KEYS/pairs"},
		Breaker{Name: "queries-column-not-stored", File: "internal/schema.go",
			Old: "`json:\"queries,omitempty\" bun:\"queries\"`", New: "`json:\"queries,omitempty\" bun:\"-\"`", Expect: "KEYS/schema-storage"},
		Breaker{Name: "schema-insert-restricted-columns", File: "internal/storage/ledger/schema.go",
			Old: "\t\tModel(schema).\n\t\tValue(\"ledger\", \"?\", s.ledger.Name).", New: "\t\tModel(schema).\n\t\tExcludeColumn(\"transactions\").\n\t\tValue(\"ledger\", \"?\", s.ledger.Name).", Expect: "KEYS/schema-storage"},
		Breaker{Name: "default-metadata-json-key-differs", File: "internal/chart.go",
			Old: "\tDefault *string `json:\"default,omitempty\"`", New: "\tDefault *string `json:\"-\"`", Expect: "KEYS/chart"},
	)
}

func checkC30(c *core.Ctx) {
	c.Decide("writer/reader agreement of the chart's hand-written JSON codec: the property keys the marshalers emit (.pattern, .self, .metadata, .rules) are the keys the unmarshalers recognise; every struct field the marshalers read is assigned by the unmarshalers; a variable segment is written as `$`+label through the marshaler that also writes its pattern and read back as label = key without the `$`; `.self` is written exactly for an account that has children and a node without children is read back as an account; default metadata values carry a JSON name; every type of the schema with a custom MarshalJSON has an UnmarshalJSON (and vice versa) whose anonymous wire structs use the same keys; the schema's three documents are bun columns that exist as jsonb in the catalog after all migrations and are written and read without column restriction")
	c.NotDecided("that the decoded chart classifies every address like the original (the matching algorithm itself); JSON encoding of map ordering and of regular-expression text")
	ruleChartCodec(c)
	ruleCodecPairs(c)
	ruleSchemaStorage(c)
	ruleFreshDecodeTarget(c)
	ruleImportSchemaVerbatim(c)
	ruleChartLookupFixedFinal(c)
}

// constKeyName resolves an expression to the name of a package-level string constant.
func constKeyName(info *types.Info, e ast.Expr) string {
	if id, ok := ast.Unparen(e).(*ast.Ident); ok {
		if k, ok := info.Uses[id].(*types.Const); ok && k.Parent() == k.Pkg().Scope() {
			return k.Name()
		}
	}
	return ""
}

func ruleChartCodec(c *core.Ctx) {
	marsh := []*astx.DeclInfo{fn(c, pkgCore, "ChartSegment", "marshalJsonObject"), fn(c, pkgCore, "ChartSegment", "MarshalJSON"), fn(c, pkgCore, "ChartVariableSegment", "MarshalJSON"), fn(c, pkgCore, "ChartOfAccounts", "MarshalJSON")}
	unm := []*astx.DeclInfo{fn(c, pkgCore, "ChartSegment", "UnmarshalJSON"), fn(c, pkgCore, "ChartOfAccounts", "UnmarshalJSON")}
	for _, d := range append(append([]*astx.DeclInfo{}, marsh...), unm...) {
		if d == nil {
			return
		}
	}
	info := marsh[0].Pkg.TypesInfo
	// 1. keys
	written := map[string]bool{}
	var marshScope []*astx.DeclInfo
	for _, d := range marsh {
		marshScope = append(marshScope, fnScope(c, d, 1)...)
	}
	for _, d := range marshScope {
		ast.Inspect(d.Decl.Body, func(n ast.Node) bool {
			as, ok := n.(*ast.AssignStmt)
			if !ok {
				return true
			}
			for _, l := range as.Lhs {
				if ix, ok := l.(*ast.IndexExpr); ok {
					if k := constKeyName(info, ix.Index); k != "" {
						written[k] = true
					}
				}
			}
			return true
		})
	}
	read := map[string]bool{}
	inScope(fnScope(c, unm[0], 1), func(ud *astx.DeclInfo) {
		ast.Inspect(ud.Decl.Body, func(n ast.Node) bool {
			switch x := n.(type) {
			case *ast.BinaryExpr:
				if x.Op == token.EQL {
					if k := constKeyName(info, x.Y); k != "" {
						read[k] = true
					}
					if k := constKeyName(info, x.X); k != "" {
						read[k] = true
					}
				}
			case *ast.CaseClause:
				for _, e := range x.List {
					if k := constKeyName(info, e); k != "" {
						read[k] = true
					}
				}
			case *ast.IndexExpr:
				if k := constKeyName(info, x.Index); k != "" {
					read[k] = true
				}
			}
			return true
		})
	})
	all := map[string]bool{}
	for k := range written {
		all[k] = true
	}
	for k := range read {
		all[k] = true
	}
	var keys []string
	for k := range all {
		if k == "PROPERTY_PREFIX" {
			continue
		}
		keys = append(keys, k)
	}
	sort.Strings(keys)
	c.Floor("KEYS/chart", "property keys of the chart codec", len(keys), 4)
	for _, k := range keys {
		if k == "RULES_KEY" && !written[k] {
			// rules are an empty struct today; the marshaler's arm is still required
		}
		c.Check(written[k] && read[k], "KEYS/chart", "key:"+k, pos(c, unm[0].Decl), "written and recognised", "chart property key "+k+" is "+map[bool]string{true: "written", false: "not written"}[written[k]]+" by the marshalers and "+map[bool]string{true: "recognised", false: "not recognised"}[read[k]]+" by the unmarshaler: a chart changes meaning when stored and read back")
	}
	// 2. fields read by the marshalers are assigned by the unmarshalers
	chartTypes := map[string]bool{"ChartSegment": true, "ChartVariableSegment": true, "ChartAccount": true}
	fieldOf := func(se *ast.SelectorExpr) string {
		sel, ok := info.Selections[se]
		if !ok || sel.Kind() != types.FieldVal {
			return ""
		}
		f, _ := sel.Obj().(*types.Var)
		if f == nil || f.Embedded() {
			return ""
		}
		// owner = the struct type that declares the field
		for name := range chartTypes {
			if nt := namedType(c, pkgCore, name); nt != nil {
				if st, ok := nt.Underlying().(*types.Struct); ok {
					for i := 0; i < st.NumFields(); i++ {
						if st.Field(i) == f {
							return name + "." + f.Name()
						}
					}
				}
			}
		}
		return ""
	}
	readFields := map[string]bool{}
	for _, d := range marsh {
		ast.Inspect(d.Decl.Body, func(n ast.Node) bool {
			if se, ok := n.(*ast.SelectorExpr); ok {
				if f := fieldOf(se); f != "" {
					readFields[f] = true
				}
			}
			return true
		})
	}
	assigned := map[string]bool{}
	for _, d := range unm {
		ast.Inspect(d.Decl.Body, func(n ast.Node) bool {
			switch x := n.(type) {
			case *ast.AssignStmt:
				for _, l := range x.Lhs {
					if se, ok := l.(*ast.SelectorExpr); ok {
						if f := fieldOf(se); f != "" {
							assigned[f] = true
						}
					}
				}
			case *ast.UnaryExpr:
				if x.Op == token.AND {
					if se, ok := x.X.(*ast.SelectorExpr); ok {
						if f := fieldOf(se); f != "" {
							assigned[f] = true
						}
					}
				}
			case *ast.CompositeLit:
				if t := info.TypeOf(x); t != nil && chartTypes[astx.RecvTypeName(t)] {
					for _, el := range x.Elts {
						if kv, ok := el.(*ast.KeyValueExpr); ok {
							if id, ok := kv.Key.(*ast.Ident); ok {
								if f, ok := info.ObjectOf(id).(*types.Var); ok && !f.Embedded() {
									assigned[astx.RecvTypeName(t)+"."+f.Name()] = true
								}
							}
						}
					}
				}
			}
			return true
		})
	}
	var fl []string
	for f := range readFields {
		fl = append(fl, f)
	}
	sort.Strings(fl)
	c.Floor("KEYS/chart", "chart fields read by the marshalers", len(fl), 6)
	for _, f := range fl {
		c.Check(assigned[f], "KEYS/chart", "field:"+f, pos(c, unm[0].Decl), "assigned by the unmarshaler", "field "+f+" is read by the chart marshalers but never assigned by the unmarshalers: it is lost when a stored schema is read back")
	}
	// 3. `$`+label round trip, through the variable segment's own marshaler
	mo := marsh[0]
	// each part: +1 as required, -1 positively wrong, 0 not in a shape the rule reads
	dollar, own, label := 0, 0, 0
	set := func(v *int, ok bool) {
		if !ok {
			*v = -1
		} else if *v == 0 {
			*v = 1
		}
	}
	isLabel := func(e ast.Expr) bool { return strings.HasSuffix(astx.SelectorPath(e), ".VariableSegment.Label") }
	ast.Inspect(mo.Decl.Body, func(n ast.Node) bool {
		is, ok := n.(*ast.IfStmt)
		if !ok {
			return true
		}
		if be, isBin := ast.Unparen(is.Cond).(*ast.BinaryExpr); !isBin || be.Op != token.NEQ || canonPath(mo, be.X) != "recv.VariableSegment" || !astx.IsNilExpr(info, be.Y) {
			return true
		}
		ast.Inspect(is.Body, func(y ast.Node) bool {
			switch v := y.(type) {
			case *ast.BinaryExpr:
				// "$" + label
				if v.Op == token.ADD && isLabel(v.Y) {
					pre, isConst := constStr(info, v.X)
					set(&dollar, isConst && pre == "$")
				}
			case *ast.CallExpr:
				if f, args, ok := sprintfShape(info, v); ok && len(args) == 1 && strings.HasSuffix(args[0], ".VariableSegment.Label") {
					set(&dollar, strings.HasPrefix(f, "$%") && strings.Count(f, "%") == 1)
				}
				cf := astx.Callee(info, v)
				if cf == nil {
					return true
				}
				if cf.Name() == "MarshalJSON" {
					if p := canonPath(mo, recvExpr(v)); p == "recv.VariableSegment" {
						set(&own, true)
					} else if strings.HasPrefix(p, "recv.VariableSegment.") {
						set(&own, false)
					}
					return true
				}
				// handed to a helper that marshals what it is given
				if hd := index(c).Decls[cf]; hd != nil && hd.Decl.Body != nil && hd.Obj.Pkg() == mo.Obj.Pkg() {
					if len(callsTo(hd.Pkg.TypesInfo, hd.Decl.Body, named("MarshalJSON"))) > 0 {
						for _, a := range v.Args {
							if p := canonPath(mo, a); p == "recv.VariableSegment" {
								set(&own, true)
							} else if strings.HasPrefix(p, "recv.VariableSegment.") && !strings.HasSuffix(p, ".Label") {
								set(&own, false)
							}
						}
					}
				}
			}
			return true
		})
		return true
	})
	ast.Inspect(unm[0].Decl.Body, func(n ast.Node) bool {
		cl, ok := n.(*ast.CompositeLit)
		if !ok || astx.RecvTypeName(info.TypeOf(cl)) != "ChartVariableSegment" {
			return true
		}
		v := fieldOfCompositeLit(cl, "Label")
		if v == nil {
			return true
		}
		se, isSlice := ast.Unparen(v).(*ast.SliceExpr)
		if !isSlice {
			set(&label, false) // the key is stored with its `$`
			return true
		}
		lowOK := false
		if se.Low != nil && se.High == nil {
			if tv, ok := info.Types[se.Low]; ok && tv.Value != nil && tv.Value.ExactString() == "1" {
				lowOK = true
			}
		}
		prefixed := false
		for _, ft := range xfactsAt(info, unm[0].Decl.Body, cl.Pos()) {
			call, isCall := ft.Cond.(*ast.CallExpr)
			if !isCall || !ft.Positive || len(call.Args) != 2 {
				continue
			}
			if cf := astx.Callee(info, call); cf != nil && cf.Name() == "HasPrefix" && types.ExprString(call.Args[0]) == types.ExprString(se.X) {
				if pre, isConst := constStr(info, call.Args[1]); isConst && pre == "$" {
					prefixed = true
				}
			}
		}
		set(&label, lowOK && prefixed)
		return true
	})
	vsMsg := "a variable segment is not written as `$`+label through ChartVariableSegment.MarshalJSON (which carries the pattern) and read back as the key without its `$`"
	switch {
	case dollar < 0 || own < 0 || label < 0:
		c.Fail("KEYS/chart", "variable-segment-key", pos(c, mo.Decl), fmt.Sprintf("%s (key=`$`+label:%d own-marshaler:%d label=key[1:]:%d)", vsMsg, dollar, own, label))
	case dollar > 0 && own > 0 && label > 0:
		c.Pass("KEYS/chart", "variable-segment-key", pos(c, mo.Decl), "`$`+label written by the variable segment's own marshaler; label = key[1:] when the key starts with `$`")
	default:
		c.Unrecognised("KEYS/chart", "variable-segment-key", pos(c, mo.Decl), fmt.Sprintf("variable segment codec not in a shape the rule reads (key=`$`+label:%d own-marshaler:%d label=key[1:]:%d)", dollar, own, label))
	}
	// 4. .self discipline
	okSelfW := false
	ast.Inspect(mo.Decl.Body, func(n ast.Node) bool {
		as, ok := n.(*ast.AssignStmt)
		if !ok || len(as.Lhs) != 1 {
			return true
		}
		ix, ok := as.Lhs[0].(*ast.IndexExpr)
		if !ok || constKeyName(info, ix.Index) != "SELF_KEY" {
			return true
		}
		fs := factStrings(info, mo.Decl.Body, as.Pos())
		both := false
		for _, f := range fs {
			if strings.HasPrefix(f, "+") && strings.Contains(f, "len(s.FixedSegments) > 0") && strings.Contains(f, "s.VariableSegment != nil") && strings.Contains(f, "||") {
				both = true
			}
		}
		okSelfW = both && hasFact(fs, "s.Account != nil", true)
		return true
	})
	okSelfR, okLeaf, okLeafFalse := false, false, false
	ast.Inspect(unm[0].Decl.Body, func(n ast.Node) bool {
		as, ok := n.(*ast.AssignStmt)
		if !ok || len(as.Lhs) != 1 || len(as.Rhs) != 1 {
			return true
		}
		l, r := types.ExprString(as.Lhs[0]), types.ExprString(as.Rhs[0])
		fs := factStrings(info, unm[0].Decl.Body, as.Pos())
		switch {
		case l == "isAccount" && r == "true":
			okSelfR = hasFact(fs, "key == SELF_KEY", true)
		case l == "isAccount" && (r == "isAccount || isLeaf" || r == "isLeaf || isAccount"):
			// unconditional: only the early-return facts about err may hold here
			okLeaf = true
			for _, f := range fs {
				if !strings.HasPrefix(f[1:], "err ") {
					okLeaf = false
				}
			}
		case l == "isLeaf" && r == "false":
			okLeafFalse = hasFact(fs, "isSubsegment", true)
		}
		return true
	})
	c.Check(okSelfW && okSelfR && okLeaf && okLeafFalse, "KEYS/chart", "self-discipline", pos(c, mo.Decl), ".self written iff account with children; read: account iff .self or no children", fmt.Sprintf("[written-guard=%v read-self=%v leaf-rule=%v leaf-reset=%v] ", okSelfW, okSelfR, okLeaf, okLeafFalse)+"the `.self` marker is not written exactly for an account that has children, or a node is not read back as an account exactly when it carries `.self` or has no children: an account with sub-accounts stops (or a pure prefix starts) being an account after a round trip")
	// 5. default metadata carries a JSON name
	okTag := false
	if nt := namedType(c, pkgCore, "ChartAccountMetadata"); nt != nil {
		if st, ok := nt.Underlying().(*types.Struct); ok {
			for i := 0; i < st.NumFields(); i++ {
				if st.Field(i).Name() == "Default" {
					name := strings.Split(reflectTag(st.Tag(i), "json"), ",")[0]
					okTag = name != "-"
				}
			}
		}
	}
	c.Check(okTag, "KEYS/chart", "metadata-default-tag", "", "ChartAccountMetadata.Default is encoded", "ChartAccountMetadata.Default is excluded from JSON: chart default metadata disappears when the schema is stored")
}

// ruleCodecPairs: custom codecs of the schema's types come in pairs with equal wire keys.
func ruleCodecPairs(c *core.Ctx) {
	type tn struct{ rel, name string }
	n := 0
	for _, t := range []tn{{pkgCore, "ChartOfAccounts"}, {pkgCore, "ChartSegment"}, {pkgQueries, "VarDecl"}} {
		m := fn(c, t.rel, t.name, "MarshalJSON")
		u := fn(c, t.rel, t.name, "UnmarshalJSON")
		n++
		c.Check(m != nil && u != nil, "KEYS/pairs", t.name+":pair", "", "MarshalJSON and UnmarshalJSON", t.name+" has only one of MarshalJSON / UnmarshalJSON")
		if m == nil || u == nil {
			continue
		}
		// anonymous wire structs: compare json names
		wire := func(d *astx.DeclInfo) map[string]bool {
			out := map[string]bool{}
			ast.Inspect(d.Decl.Body, func(x ast.Node) bool {
				st, ok := x.(*ast.StructType)
				if !ok {
					return true
				}
				for _, f := range st.Fields.List {
					if f.Tag == nil {
						continue
					}
					name := strings.Split(reflectTag(strings.Trim(f.Tag.Value, "`"), "json"), ",")[0]
					if name != "" && name != "-" {
						out[name] = true
					}
				}
				return true
			})
			return out
		}
		mw, uw := wire(m), wire(u)
		if len(mw) == 0 && len(uw) == 0 {
			continue
		}
		var diff []string
		for k := range mw {
			if !uw[k] {
				diff = append(diff, k+" (written only)")
			}
		}
		for k := range uw {
			if !mw[k] {
				diff = append(diff, k+" (read only)")
			}
		}
		sort.Strings(diff)
		c.Check(len(diff) == 0, "KEYS/pairs", t.name+":wire-keys", pos(c, m.Decl), "same JSON keys both ways", t.name+"'s marshaler and unmarshaler disagree on JSON keys: "+strings.Join(diff, ", "))
	}
	c.Floor("KEYS/pairs", "custom codecs of schema types", n, 3)
}

func ruleSchemaStorage(c *core.Ctx) {
	nt := namedType(c, pkgCore, "Schema")
	if nt == nil {
		c.Unknown("KEYS/schema-storage", "Schema", "", "type not found")
		return
	}
	cols := map[string]string{}
	for _, bf := range bunFields(nt, 0) {
		cols[bf.Column] = bf.Field
	}
	tb := c.Catalog().Tables["schemas"]
	for _, want := range []string{"chart", "transactions", "queries", "version", "created_at"} {
		_, has := cols[want]
		inCat := tb != nil && tb.Col(want) != nil
		okType := true
		if inCat && (want == "chart" || want == "transactions" || want == "queries") {
			okType = tb.Col(want).Type == "jsonb"
		}
		c.Check(has && inCat && okType, "KEYS/schema-storage", "column:"+want, "", "bun column present in table schemas", "schema document `"+want+"` is not a bun column of ledger.Schema backed by a column of table schemas after all migrations: it is lost when the schema is stored")
	}
	// SchemaData's fields all carry a bun column
	if sd := namedType(c, pkgCore, "SchemaData"); sd != nil {
		if st, ok := sd.Underlying().(*types.Struct); ok {
			for i := 0; i < st.NumFields(); i++ {
				col := strings.Split(reflectTag(st.Tag(i), "bun"), ",")[0]
				c.Check(col != "" && col != "-", "KEYS/schema-storage", "field:SchemaData."+st.Field(i).Name(), "", "stored", "SchemaData."+st.Field(i).Name()+" has no bun column: it is dropped on insert")
			}
		}
	}
	// insert and select use the whole model
	m := bunModel(c, pkgStore)
	for _, name := range []string{"InsertSchema", "FindSchema"} {
		d := fn(c, pkgStore, "Store", name)
		if d == nil {
			continue
		}
		ok := false
		for _, s := range stmtsIn(m, d) {
			whole := true
			hasModel := false
			for _, cl := range s.Clauses {
				switch cl.Method {
				case "Model":
					hasModel = true
				case "Column", "ExcludeColumn", "ColumnExpr":
					whole = false
				}
			}
			if hasModel && whole {
				ok = true
			}
		}
		c.Check(ok, "KEYS/schema-storage", declKey(d)+":whole-model", pos(c, d.Decl), "Model(schema) without column restriction", name+" does not write/read every column of the schema model")
	}
}
