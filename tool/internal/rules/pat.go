package rules

import (
	"go/ast"
	"go/types"
	"regexp"
	"strings"
)

// matchPat matches an expression text (spaces removed) against a pattern in which `$name` stands
// for any identifier or selector path; every occurrence of the same `$name` must be the same
// text. It returns the bindings. Shape rules use it so that renaming locals does not matter.
func matchPat(text, pat string) (map[string]string, bool) {
	text = nospace(text)
	pat = nospace(pat)
	var names []string
	re := regexp.MustCompile(`\$[a-zA-Z]+`)
	var sb strings.Builder
	sb.WriteString("^")
	last := 0
	for _, loc := range re.FindAllStringIndex(pat, -1) {
		sb.WriteString(regexp.QuoteMeta(pat[last:loc[0]]))
		sb.WriteString(`([A-Za-z_][A-Za-z0-9_]*(?:\.[A-Za-z_][A-Za-z0-9_]*)*)`)
		names = append(names, pat[loc[0]+1:loc[1]])
		last = loc[1]
	}
	sb.WriteString(regexp.QuoteMeta(pat[last:]))
	sb.WriteString("$")
	m := regexp.MustCompile(sb.String()).FindStringSubmatch(text)
	if m == nil {
		return nil, false
	}
	b := map[string]string{}
	for i, n := range names {
		if prev, ok := b[n]; ok && prev != m[i+1] {
			return nil, false
		}
		b[n] = m[i+1]
	}
	return b, true
}

// resolveLocal follows a plain identifier to the single expression it is defined from in body
// (`x := e` / `var x = e`), one step; other expressions are returned unchanged.
func resolveLocal(info *types.Info, body *ast.BlockStmt, e ast.Expr) ast.Expr {
	id, ok := ast.Unparen(e).(*ast.Ident)
	if !ok {
		return e
	}
	obj := info.ObjectOf(id)
	if obj == nil {
		return e
	}
	var defs []ast.Expr
	ast.Inspect(body, func(n ast.Node) bool {
		switch x := n.(type) {
		case *ast.AssignStmt:
			if len(x.Lhs) == len(x.Rhs) {
				for i, l := range x.Lhs {
					if lid, ok := l.(*ast.Ident); ok && info.ObjectOf(lid) == obj {
						defs = append(defs, x.Rhs[i])
					}
				}
			}
		case *ast.ValueSpec:
			for i, nm := range x.Names {
				if info.ObjectOf(nm) == obj && i < len(x.Values) {
					defs = append(defs, x.Values[i])
				}
			}
		}
		return true
	})
	if len(defs) == 1 {
		return defs[0]
	}
	return e
}

// splitAnd returns the conjuncts of e (e itself when it is not a conjunction).
func splitAnd(e ast.Expr) []ast.Expr {
	if be, ok := ast.Unparen(e).(*ast.BinaryExpr); ok && be.Op.String() == "&&" {
		return append(splitAnd(be.X), splitAnd(be.Y)...)
	}
	return []ast.Expr{e}
}
