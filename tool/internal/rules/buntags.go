package rules

import (
	"go/types"
	"reflect"
	"strings"
)

// bunTableOfType finds the `bun:"table:NAME"` tag of the BaseModel embedded in a model type
// (through pointers, slices and embedded structs).
func bunTableOfType(t types.Type, depth int) string {
	if t == nil || depth > 6 {
		return ""
	}
	switch x := t.(type) {
	case *types.Pointer:
		return bunTableOfType(x.Elem(), depth+1)
	case *types.Slice:
		return bunTableOfType(x.Elem(), depth+1)
	case *types.Named:
		return bunTableOfType(x.Underlying(), depth+1)
	case *types.Alias:
		return bunTableOfType(types.Unalias(x), depth+1)
	case *types.Struct:
		for i := 0; i < x.NumFields(); i++ {
			f := x.Field(i)
			tag := reflect.StructTag(x.Tag(i)).Get("bun")
			if f.Name() == "BaseModel" {
				parts := strings.Split(tag, ",")
				for _, part := range parts {
					if strings.HasPrefix(part, "table:") {
						return strings.TrimPrefix(part, "table:")
					}
				}
				if len(parts) > 0 && parts[0] != "" && !strings.Contains(parts[0], ":") {
					return parts[0]
				}
			}
			if f.Embedded() {
				if tn := bunTableOfType(f.Type(), depth+1); tn != "" {
					return tn
				}
			}
		}
	}
	return ""
}

// BunField describes a struct field mapped to a column.
type BunField struct {
	Field  string
	Column string
	Type   string // type: option
	Opts   []string
	GoType types.Type
}

// bunFields lists the column mapping of a model struct (embedded structs flattened).
func bunFields(t types.Type, depth int) []BunField {
	var out []BunField
	if t == nil || depth > 6 {
		return nil
	}
	switch x := t.(type) {
	case *types.Pointer:
		return bunFields(x.Elem(), depth+1)
	case *types.Named:
		return bunFields(x.Underlying(), depth+1)
	case *types.Alias:
		return bunFields(types.Unalias(x), depth+1)
	case *types.Struct:
		for i := 0; i < x.NumFields(); i++ {
			f := x.Field(i)
			tag := reflect.StructTag(x.Tag(i)).Get("bun")
			if f.Name() == "BaseModel" || tag == "-" {
				continue
			}
			parts := strings.Split(tag, ",")
			if f.Embedded() && (tag == "" || hasOpt(parts, "extend")) {
				out = append(out, bunFields(f.Type(), depth+1)...)
				continue
			}
			bf := BunField{Field: f.Name(), GoType: f.Type()}
			if len(parts) > 0 {
				bf.Column = parts[0]
			}
			for _, p := range parts[1:] {
				if strings.HasPrefix(p, "type:") {
					bf.Type = strings.TrimPrefix(p, "type:")
				} else {
					bf.Opts = append(bf.Opts, p)
				}
			}
			if bf.Column == "" {
				continue
			}
			out = append(out, bf)
		}
	}
	return out
}

func hasOpt(parts []string, opt string) bool {
	for _, p := range parts {
		if p == opt {
			return true
		}
	}
	return false
}
