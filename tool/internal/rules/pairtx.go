package rules

import (
	"fmt"
	"go/ast"
	"go/token"
	"go/types"
	"strings"

	"ledgerlint/internal/astx"
	"ledgerlint/internal/core"
)

// txCallOn matches a Commit/Rollback call whose receiver is the variable obj.
func txCallOn(info *types.Info, call *ast.CallExpr, obj types.Object, names ...string) bool {
	f := astx.Callee(info, call)
	if f == nil {
		return false
	}
	okName := false
	for _, n := range names {
		if f.Name() == n {
			okName = true
		}
	}
	if !okName {
		return false
	}
	r := recvExpr(call)
	if r == nil {
		return false
	}
	id, ok := ast.Unparen(r).(*ast.Ident)
	return ok && info.Uses[id] == obj
}

// containsTxEnd reports whether node n ends the transaction held by obj on every way through it:
// a direct Commit/Rollback call, a defer of Rollback, or an immediately invoked / deferred
// function literal that defers or calls Rollback/Commit.
func containsTxEnd(info *types.Info, n ast.Node, obj types.Object) bool {
	found := false
	var visit func(x ast.Node, inLit bool) bool
	visit = func(x ast.Node, inLit bool) bool {
		if found {
			return false
		}
		switch v := x.(type) {
		case *ast.FuncLit:
			return false // handled at the call that invokes it
		case *ast.DeferStmt:
			if txCallOn(info, v.Call, obj, "Rollback", "Commit") {
				found = true
				return false
			}
			if fl, ok := v.Call.Fun.(*ast.FuncLit); ok {
				ast.Inspect(fl.Body, func(y ast.Node) bool {
					if c, ok := y.(*ast.CallExpr); ok && txCallOn(info, c, obj, "Rollback", "Commit") {
						found = true
					}
					return !found
				})
			}
			return false
		case *ast.CallExpr:
			if txCallOn(info, v, obj, "Commit", "Rollback") || txEndWrapperCall(info, v, obj, 0) {
				found = true
				return false
			}
			if fl, ok := ast.Unparen(v.Fun).(*ast.FuncLit); ok {
				// immediately invoked literal: covered when it defers the rollback or when all its exits are covered
				for _, st := range fl.Body.List {
					if ds, ok := st.(*ast.DeferStmt); ok {
						if containsTxEnd(info, ds, obj) {
							found = true
							return false
						}
					}
				}
			}
		}
		return true
	}
	ast.Inspect(n, func(x ast.Node) bool { return visit(x, false) })
	return found
}

// txWrapIx is the call index used to summarise same-module wrappers ("a function that ends the
// transaction it is handed on every path counts as ending it"); set by the rules that use PAIR.
var txWrapIx *astx.Index

// txEndWrapperCall reports whether call hands obj to a function of the repository that commits or
// rolls back that parameter on every path to each of its exits (a rollback-and-log helper).
func txEndWrapperCall(info *types.Info, call *ast.CallExpr, obj types.Object, depth int) bool {
	if txWrapIx == nil || depth > 2 {
		return false
	}
	f := astx.Callee(info, call)
	if f == nil {
		return false
	}
	d := txWrapIx.Decls[f]
	if d == nil || d.Decl.Body == nil || d.Decl.Type.Params == nil {
		return false
	}
	var params []types.Object
	for _, fl := range d.Decl.Type.Params.List {
		for _, nm := range fl.Names {
			params = append(params, d.Pkg.TypesInfo.ObjectOf(nm))
		}
		if len(fl.Names) == 0 {
			params = append(params, nil)
		}
	}
	for i, a := range call.Args {
		id, ok := ast.Unparen(a).(*ast.Ident)
		if !ok || info.Uses[id] != obj || i >= len(params) || params[i] == nil {
			continue
		}
		p := params[i]
		flow := astx.NewFlow(d.Pkg.TypesInfo, d.Decl.Body)
		stop := func(n ast.Node) bool { return containsTxEndDepth(d.Pkg.TypesInfo, n, p, depth+1) }
		all := true
		for _, e := range flow.Exits() {
			if flow.PathAvoiding(nil, e, stop) {
				all = false
			}
		}
		if all && len(flow.Exits()) > 0 {
			return true
		}
	}
	return false
}

func containsTxEndDepth(info *types.Info, n ast.Node, obj types.Object, depth int) bool {
	found := false
	ast.Inspect(n, func(x ast.Node) bool {
		if found {
			return false
		}
		switch v := x.(type) {
		case *ast.FuncLit:
			return false
		case *ast.CallExpr:
			if txCallOn(info, v, obj, "Commit", "Rollback") || txEndWrapperCall(info, v, obj, depth) {
				found = true
			}
		}
		return !found
	})
	return found
}

type beginSite struct {
	Assign *ast.AssignStmt
	Call   *ast.CallExpr
	TxVar  types.Object
	ErrVar types.Object
}

func findBegins(info *types.Info, body *ast.BlockStmt, callee string) []beginSite {
	var out []beginSite
	ast.Inspect(body, func(n ast.Node) bool {
		as, ok := n.(*ast.AssignStmt)
		if !ok || len(as.Rhs) != 1 || len(as.Lhs) < 2 {
			return true
		}
		call, ok := as.Rhs[0].(*ast.CallExpr)
		if !ok {
			return true
		}
		f := astx.Callee(info, call)
		if f == nil || f.Name() != callee {
			return true
		}
		b := beginSite{Assign: as, Call: call}
		if id, ok := as.Lhs[0].(*ast.Ident); ok {
			b.TxVar = info.ObjectOf(id)
		} else if se, ok := as.Lhs[0].(*ast.SelectorExpr); ok {
			// cp.store, tx, err = ctrl.store.BeginTX(...): constructor style, not a PAIR site
			_ = se
			return true
		}
		if id, ok := as.Lhs[len(as.Lhs)-1].(*ast.Ident); ok {
			b.ErrVar = info.ObjectOf(id)
		}
		if b.TxVar != nil {
			out = append(out, b)
		}
		return true
	})
	return out
}

// rulePair (PAIR): on every path from a successful BeginTX to a function exit there is a
// Commit or a Rollback of the returned value; Commit is never reachable from an error
// branch and, where the function knows a dry-run flag, only on its negative side.
func rulePair(c *core.Ctx, d *astx.DeclInfo) int {
	info := d.Pkg.TypesInfo
	key := declKey(d)
	begins := findBegins(info, d.Decl.Body, "BeginTX")
	// literals invoked inside d are analysed as their own flow when they contain the begin
	flowFor := func(n ast.Node) (*astx.Flow, *ast.BlockStmt) {
		body := d.Decl.Body
		ast.Inspect(d.Decl.Body, func(x ast.Node) bool {
			if fl, ok := x.(*ast.FuncLit); ok && fl.Body.Pos() <= n.Pos() && n.End() <= fl.Body.End() {
				body = fl.Body
			}
			return true
		})
		return astx.NewFlow(info, body), body
	}
	for bi, b := range begins {
		bkey := fmt.Sprintf("%s:begin#%d", key, bi)
		flow, body := flowFor(b.Assign)
		// the error check right after BeginTX
		exempt := func(p token.Pos) bool { return false }
		if b.ErrVar != nil {
			done := false
			ast.Inspect(body, func(n ast.Node) bool {
				if done {
					return false
				}
				// only the statement that directly follows the BeginTX assignment counts
				if as, ok := n.(*ast.AssignStmt); ok && as.Pos() > b.Assign.End() {
					for _, l := range as.Lhs {
						if id, ok := l.(*ast.Ident); ok && info.ObjectOf(id) == b.ErrVar {
							done = true
							return false
						}
					}
				}
				is, ok := n.(*ast.IfStmt)
				if !ok || is.Pos() < b.Assign.End() {
					return true
				}
				done = true
				if be, ok := ast.Unparen(is.Cond).(*ast.BinaryExpr); ok && be.Op == token.NEQ && astx.IsNilExpr(info, be.Y) {
					if id, ok := be.X.(*ast.Ident); ok && info.Uses[id] == b.ErrVar {
						// first such check after the begin, with nothing assigning err in between
						prev := exempt
						body := is.Body
						exempt = func(p token.Pos) bool { return prev(p) || (body.Pos() <= p && p < body.End()) }
						return false
					}
				}
				return true
			})
		}
		var assume []astx.Assumption
		for _, f := range astx.FactsAt(info, d.Decl.Body, b.Call.Pos()) {
			switch ast.Unparen(f.Cond).(type) {
			case *ast.Ident, *ast.SelectorExpr:
				assume = append(assume, astx.Assumption{Cond: types.ExprString(ast.Unparen(f.Cond)), Value: f.Positive})
			}
		}
		stop := func(n ast.Node) bool { return containsTxEnd(info, n, b.TxVar) }
		bad := 0
		for _, e := range flow.Exits() {
			var p token.Pos
			if e.Return != nil {
				p = e.Return.Pos()
			} else {
				p = body.End() - 1
			}
			if p < b.Assign.Pos() && !inLoopWith(body, b.Assign, p) {
				continue
			}
			if e.Return != nil && exempt(p) {
				continue
			}
			if flow.PathAvoidingAssuming(b.Assign, e, stop, assume) {
				bad++
				c.Fail("PAIR/tx-closed", fmt.Sprintf("%s:exit-without-commit-or-rollback", bkey), posOf(c, p),
					"a path from a successful BeginTX reaches this exit without Commit or Rollback of the returned value: the SQL transaction (and its locks) would be left open")
			}
		}
		if bad == 0 {
			c.Pass("PAIR/tx-closed", bkey+":all-exits", pos(c, b.Assign), fmt.Sprintf("%d exits checked, every path from BeginTX passes Commit or Rollback", len(flow.Exits())))
		}
		// Commit conditions
		commits := 0
		ast.Inspect(d.Decl.Body, func(n ast.Node) bool {
			call, ok := n.(*ast.CallExpr)
			if !ok || !txCallOn(info, call, b.TxVar, "Commit") {
				return true
			}
			commits++
			facts := astx.FactsAt(info, d.Decl.Body, call.Pos())
			ckey := fmt.Sprintf("%s:commit#%d", bkey, commits)
			// not inside an error branch
			inErr := false
			for _, f := range facts {
				if be, ok := ast.Unparen(f.Cond).(*ast.BinaryExpr); ok && be.Op == token.NEQ && f.Positive && astx.IsNilExpr(info, be.Y) {
					if t := info.TypeOf(be.X); t != nil && types.Identical(t, types.Universe.Lookup("error").Type()) {
						inErr = true
					}
				}
			}
			c.Check(!inErr, "PAIR/commit-on-success", ckey+":not-in-error-branch", pos(c, call), "Commit outside any err != nil branch", "Commit is reached inside an `err != nil` branch: a failed operation would be made durable")
			// dry-run flag
			if dr := dryRunExpr(info, d.Decl); dr != "" {
				neg := false
				for _, f := range facts {
					if types.ExprString(ast.Unparen(f.Cond)) == dr && !f.Positive {
						neg = true
					}
				}
				c.Check(neg, "PAIR/commit-on-success", ckey+":not-dry-run", pos(c, call), "Commit only when !"+dr, "Commit is not guarded by the negative side of "+dr+": a dry run would be committed")
			}
			return true
		})
		// error branches after begin must not fall through towards Commit
		ast.Inspect(body, func(n ast.Node) bool {
			is, ok := n.(*ast.IfStmt)
			if !ok || is.Pos() < b.Assign.End() {
				return true
			}
			be, ok := ast.Unparen(is.Cond).(*ast.BinaryExpr)
			if !ok || be.Op != token.NEQ || !astx.IsNilExpr(info, be.Y) {
				return true
			}
			t := info.TypeOf(be.X)
			if t == nil || !types.Identical(t, types.Universe.Lookup("error").Type()) {
				return true
			}
			if isRollbackErrIdiom(info, is) {
				return true
			}
			if !astx.Terminates(info, is.Body.List) {
				// may the flow continue to a Commit?
				reaches := false
				ast.Inspect(body, func(x ast.Node) bool {
					if call, ok := x.(*ast.CallExpr); ok && call.Pos() > is.End() && txCallOn(info, call, b.TxVar, "Commit") {
						reaches = true
					}
					return true
				})
				c.Check(!reaches, "PAIR/commit-on-success", fmt.Sprintf("%s:error-branch-falls-through:%s", bkey, types.ExprString(be.X)), pos(c, is),
					"", "this error branch does not leave the function, so control continues towards Commit with a failed operation")
			}
			return true
		})
	}
	return len(begins)
}

func inLoopWith(body *ast.BlockStmt, a ast.Node, p token.Pos) bool {
	in := false
	ast.Inspect(body, func(n ast.Node) bool {
		switch l := n.(type) {
		case *ast.ForStmt, *ast.RangeStmt:
			if l.Pos() <= a.Pos() && a.End() <= l.End() && l.Pos() <= p && p < l.End() {
				in = true
			}
		}
		return true
	})
	return in
}

// isRollbackErrIdiom: `if rollbackErr := x.Rollback(ctx); rollbackErr != nil { log }`.
func isRollbackErrIdiom(info *types.Info, is *ast.IfStmt) bool {
	as, ok := is.Init.(*ast.AssignStmt)
	if !ok || len(as.Rhs) != 1 {
		return false
	}
	call, ok := as.Rhs[0].(*ast.CallExpr)
	if !ok {
		return false
	}
	f := astx.Callee(info, call)
	return f != nil && f.Name() == "Rollback"
}

// dryRunExpr finds the dry-run flag the function can see: a parameter named dryRun, or a
// parameter with a DryRun field (parameters.DryRun).
func dryRunExpr(info *types.Info, fd *ast.FuncDecl) string {
	if fd.Type.Params == nil {
		return ""
	}
	for _, f := range fd.Type.Params.List {
		for _, nm := range f.Names {
			if strings.EqualFold(nm.Name, "dryRun") {
				return nm.Name
			}
			t := info.TypeOf(f.Type)
			if t == nil {
				continue
			}
			if st, ok := t.Underlying().(*types.Struct); ok {
				for i := 0; i < st.NumFields(); i++ {
					if st.Field(i).Name() == "DryRun" {
						return nm.Name + ".DryRun"
					}
				}
			}
		}
	}
	return ""
}

// pairFunctions lists the functions that open a transaction and must close it.
var pairFunctions = []struct{ rel, recv, name string }{
	{pkgCtrl, "logProcessor", "forgeLog"},
	{pkgCtrl, "logProcessor", "runTx"},
	{pkgCtrl, "DefaultController", "Import"},
	{pkgSysCtrl, "controllerFacade", "handleState"},
	{pkgBulk, "Bulker", "Run"},
}

func rulePairAll(c *core.Ctx) {
	txWrapIx = index(c)
	n := 0
	for _, pf := range pairFunctions {
		if d := fn(c, pf.rel, pf.recv, pf.name); d != nil {
			n += rulePair(c, d)
		}
	}
	// completeness: any other function that calls BeginTX and keeps the result in a local must be listed
	ix := index(c)
	listed := map[string]bool{}
	for _, pf := range pairFunctions {
		listed[pf.rel+"."+pf.recv+"."+pf.name] = true
	}
	for obj, d := range ix.Decls {
		if d.Decl.Body == nil {
			continue
		}
		rel := relPkg(d.Pkg.PkgPath)
		k := rel + "." + loadRecv(d) + "." + obj.Name()
		if listed[k] || strings.HasPrefix(rel, "internal/storage/") || strings.HasPrefix(rel, "pkg/") || strings.HasPrefix(rel, "cmd") {
			continue
		}
		if bs := findBegins(d.Pkg.TypesInfo, d.Decl.Body, "BeginTX"); len(bs) > 0 {
			// wrappers hand the transaction to their caller (the value is part of a return
			// statement): ownership moves, nothing to close here
			owner := false
			for _, b := range bs {
				if !escapesByReturn(d, b.TxVar) {
					owner = true
				}
			}
			if owner {
				n += rulePair(c, d)
			}
		}
	}
	c.Floor("PAIR/tx-closed", "BeginTX sites in transaction-owning functions", n, 5)
}

func escapesByReturn(d *astx.DeclInfo, obj types.Object) bool {
	esc := false
	ast.Inspect(d.Decl.Body, func(n ast.Node) bool {
		r, ok := n.(*ast.ReturnStmt)
		if !ok {
			return true
		}
		for _, e := range r.Results {
			ast.Inspect(e, func(x ast.Node) bool {
				if id, ok := x.(*ast.Ident); ok && d.Pkg.TypesInfo.Uses[id] == obj {
					esc = true
				}
				return true
			})
		}
		return true
	})
	return esc
}

func loadRecv(d *astx.DeclInfo) string {
	if d.Decl.Recv == nil || len(d.Decl.Recv.List) == 0 {
		return ""
	}
	return astx.RecvTypeName(d.Pkg.TypesInfo.TypeOf(d.Decl.Recv.List[0].Type))
}
