package rules

import (
	"fmt"
	"go/ast"
	"go/token"
	"go/types"
	"strings"

	"ledgerlint/internal/astx"
	"ledgerlint/internal/core"
)

func init() {
	register("C29", checkC29)
	addBreakers("C29",
		Breaker{Name: "unknown-schema-version-ignored", File: "internal/controller/ledger/log_process.go",
			Old: "\t\t\t\treturn nil, nil, newErrSchemaNotFound(parameters.SchemaVersion, latestVersion)\n", New: "\t\t\t\t_ = latestVersion\n\t\t\t\tschema = nil\n\t\t\t} else {\n\t\t\t\treturn nil, nil, err\n", Expect: "DOM/schema-lookup"},
		Breaker{Name: "strict-missing-version-accepted", File: "internal/controller/ledger/log_process.go",
			Old: "\t\t\t\tif lp.schemaEnforcementMode == SchemaEnforcementStrict {\n\t\t\t\t\treturn nil, nil, newErrSchemaNotSpecified(*latestVersion)\n\t\t\t\t} else {", New: "\t\t\t\tif lp.schemaEnforcementMode == SchemaEnforcementStrict && parameters.DryRun {\n\t\t\t\t\treturn nil, nil, newErrSchemaNotSpecified(*latestVersion)\n\t\t\t\t} else {", Expect: "GUARD/strict"},
		Breaker{Name: "audit-rejects-missing-version", File: "internal/controller/ledger/log_process.go",
			Old: "\t\t\t\tif lp.schemaEnforcementMode == SchemaEnforcementStrict {\n\t\t\t\t\treturn nil, nil, newErrSchemaNotSpecified(*latestVersion)\n\t\t\t\t} else {", New: "\t\t\t\tif lp.schemaEnforcementMode != \"\" {\n\t\t\t\t\treturn nil, nil, newErrSchemaNotSpecified(*latestVersion)\n\t\t\t\t} else {", Expect: "GUARD/strict"},
		Breaker{Name: "strict-validation-failure-logged-only", File: "internal/controller/ledger/log_process.go",
			Old: "\t\t\tif lp.schemaEnforcementMode == SchemaEnforcementStrict {\n\t\t\t\treturn nil, nil, err\n\t\t\t} else {", New: "\t\t\tif lp.schemaEnforcementMode == SchemaEnforcementStrict && false {\n\t\t\t\treturn nil, nil, err\n\t\t\t} else {", Expect: "GUARD/strict"},
		Breaker{Name: "validation-after-insert", File: "internal/controller/ledger/log_process.go",
			Old: "\terr = store.InsertLog(ctx, &log)\n\tif err != nil {\n\t\treturn nil, nil, fmt.Errorf(\"failed to insert log: %w\", err)\n\t}\n", New: "", Old2: "\tlog.SchemaVersion = parameters.SchemaVersion\n", New2: "\tlog.SchemaVersion = parameters.SchemaVersion\n\terr = store.InsertLog(ctx, &log)\n\tif err != nil {\n\t\treturn nil, nil, fmt.Errorf(\"failed to insert log: %w\", err)\n\t}\n", Expect: "DOM/validate-before-insert"},
		Breaker{Name: "audit-missing-template-rejected", File: "internal/controller/ledger/controller_default.go",
			Old: "\t\t} else if template, ok := schema.SchemaData.Transactions[parameters.Input.Template]; ok {", New: "\t\t}\n\t\tif template, ok := schema.SchemaData.Transactions[parameters.Input.Template]; ok {", Expect: "GUARD/strict"},
		Breaker{Name: "strict-missing-template-accepted", File: "internal/controller/ledger/controller_default.go",
			Old: "\t\t\tif ctrl.schemaEnforcementMode == SchemaEnforcementStrict {\n\t\t\t\treturn nil, err\n\t\t\t}\n\t\t\ttrace.SpanFromContext(ctx).SetAttributes(attribute.String(\"schema_validation_failed\", err.Error()))", New: "\t\t\ttrace.SpanFromContext(ctx).SetAttributes(attribute.String(\"schema_validation_failed\", err.Error()))", Expect: "GUARD/strict"},
		Breaker{Name: "template-script-not-used", File: "internal/controller/ledger/controller_default.go",
			Old: "\t\t\tparameters.Input.Plain = template.Script\n", New: "\t\t\tif parameters.Input.Plain == \"\" {\n\t\t\t\tparameters.Input.Plain = template.Script\n\t\t\t}\n", Expect: "DOM/template"},
		Breaker{Name: "chart-checks-source-only", File: "internal/chart.go",
			Old: "\t_, err = c.FindAccountSchema(posting.Destination)\n\tif err != nil {\n\t\treturn err\n\t}\n", New: "", Expect: "SHAPE/chart-validation"},
		Breaker{Name: "chart-checks-first-posting-only", File: "internal/log.go",
			Old: "\t\terr := schema.Chart.ValidatePosting(posting)\n\t\tif err != nil {\n\t\t\treturn err\n\t\t}\n\t}\n\treturn nil", New: "\t\terr := schema.Chart.ValidatePosting(posting)\n\t\tif err != nil {\n\t\t\treturn err\n\t\t}\n\t\tbreak\n\t}\n\treturn nil", Expect: "SHAPE/chart-validation"},
		Breaker{Name: "transactions-need-no-schema", File: "internal/log.go",
			Old: "func (p CreatedTransaction) NeedsSchema() bool {\n\treturn true\n}", New: "func (p CreatedTransaction) NeedsSchema() bool {\n\treturn false\n}", Expect: "SHAPE/chart-validation"},
		Breaker{Name: "default-metadata-from-other-account", File: "internal/transaction.go",
			Old: "\t\t\taccountSchema, _ := schema.Chart.FindAccountSchema(address)", New: "\t\t\taccountSchema, _ := schema.Chart.FindAccountSchema(accountsToUpsert[0])", Expect: "SHAPE/default-metadata"},
		Breaker{Name: "defaults-override-existing", File: "internal/storage/ledger/accounts.go",
			Old: "d.default_metadata || d.metadata", New: "d.metadata || d.default_metadata", Expect: "SQLS/metadata-merge"},
		Breaker{Name: "schema-not-forwarded-to-upsert", File: "internal/controller/ledger/controller_default.go",
			Old: "\terr = ctrl.upsertTransactionAccounts(ctx, store, schema, &transaction, accountMetadata)", New: "\terr = ctrl.upsertTransactionAccounts(ctx, store, nil, &transaction, accountMetadata)", Expect: "SHAPE/default-metadata"},
	)
}

func checkC29(c *core.Ctx) {
	c.Decide("runLog: a named schema version is looked up before the operation and a miss ends the write with ErrSchemaNotFound; with no version, a payload that needs a schema on a ledger that has one is refused exactly in strict mode; the log is validated against the schema before InsertLog and a failure ends the write exactly in strict mode; strict-guard rule: on the write path every return of a schema-validation / schema-not-specified error is guarded either by `mode == strict` or by the client having named a template, and every strict test guards such a return (audit mode never rejects what it should only report); createTransaction: on a schema with templates a request without template is refused in strict mode, a named template replaces the script unconditionally, a template on a schema without templates is refused; CreatedTransaction needs a schema and validates source and destination of every posting against the chart; chart default metadata is computed from the schema passed down by runLog/importLog for the very account being upserted and is applied only in the insert arm as default || explicit")
	c.NotDecided("which addresses a chart accepts (FindAccountSchema's matching, C30); that rejected writes leave no effect (rollback: C07)")
	ruleSchemaLookup(c)
	ruleStrictGuards(c)
	ruleValidateBeforeInsert(c)
	ruleTemplateResolution(c)
	ruleChartValidationShape(c)
	ruleDefaultMetadata(c)
	ruleMetadataMerge(c)
	ruleChartLookupFixedFinal(c)
}

// factStrings renders the branch facts holding at pos as "+cond" / "-cond".
func factStrings(info *types.Info, body *ast.BlockStmt, p token.Pos) []string {
	var out []string
	var add func(e ast.Expr, positive bool, depth int)
	add = func(e ast.Expr, positive bool, depth int) {
		e = ast.Unparen(e)
		s := types.ExprString(e)
		if positive {
			out = append(out, "+"+s)
		} else {
			out = append(out, "-"+s)
		}
		if depth >= 2 {
			return
		}
		// a boolean local defined once (`hasMore := a && b`) stands for its definition
		if id, ok := e.(*ast.Ident); ok {
			def := resolveLocal(info, body, id)
			if def != ast.Expr(id) {
				if t := info.TypeOf(def); t != nil {
					if b, ok := t.Underlying().(*types.Basic); ok && b.Info()&types.IsBoolean != 0 {
						if be, ok := ast.Unparen(def).(*ast.BinaryExpr); ok && ((be.Op == token.LAND && positive) || (be.Op == token.LOR && !positive)) {
							add(be.X, positive, depth+1)
							add(be.Y, positive, depth+1)
						} else if u, ok := ast.Unparen(def).(*ast.UnaryExpr); ok && u.Op == token.NOT {
							add(u.X, !positive, depth+1)
						} else {
							add(def, positive, depth+1)
						}
					}
				}
			}
		}
	}
	for _, f := range astx.FactsAt(info, body, p) {
		add(f.Cond, f.Positive, 0)
	}
	return out
}

func hasFact(fs []string, sub string, positive bool) bool {
	sign := "-"
	if positive {
		sign = "+"
	}
	for _, f := range fs {
		if strings.HasPrefix(f, sign) && strings.Contains(f[1:], sub) {
			return true
		}
	}
	return false
}

// isStrictFact: the fact says the enforcement mode is strict.
func strictFact(fs []string) bool {
	for _, f := range fs {
		body := f[1:]
		if !strings.Contains(body, "schemaEnforcementMode") || !strings.Contains(body, "SchemaEnforcementStrict") {
			continue
		}
		if strings.Contains(body, "&&") || strings.Contains(body, "||") {
			continue // compound conditions are not the plain mode test
		}
		if strings.HasPrefix(f, "+") && strings.Contains(body, "==") {
			return true
		}
		if strings.HasPrefix(f, "-") && strings.Contains(body, "!=") {
			return true
		}
	}
	return false
}

func ruleSchemaLookup(c *core.Ctx) {
	d := fn(c, pkgCtrl, "logProcessor", "runLog")
	if d == nil {
		return
	}
	info := d.Pkg.TypesInfo
	key := declKey(d)
	find := callsTo(info, d.Decl.Body, named("FindSchema"))
	var fnCall *ast.CallExpr
	ast.Inspect(d.Decl.Body, func(n ast.Node) bool {
		if call, ok := n.(*ast.CallExpr); ok {
			if isParamFuncCall(d, call) {
				fnCall = call
			}
		}
		return true
	})
	if len(find) != 1 || fnCall == nil {
		// the lookup was moved (helper, different structure): nothing wrong was seen
		c.Unrecognised("DOM/schema-lookup", key+":shape", pos(c, d.Decl), "runLog no longer has one FindSchema call and one call of the operation callback in its own body; the lookup obligations (miss ends the write, schema handed to the operation) are not evaluated")
		return
	}
	fs := factStrings(info, d.Decl.Body, find[0].Pos())
	c.Check(hasFact(fs, `SchemaVersion != ""`, true), "DOM/schema-lookup", key+":when-version-named", pos(c, find[0]), "FindSchema under SchemaVersion != \"\"", "FindSchema is not called exactly when the request names a schema version")
	// its error branch terminates; the not-found arm returns ErrSchemaNotFound
	var errIf *ast.IfStmt
	ast.Inspect(d.Decl.Body, func(n ast.Node) bool {
		blk, ok := n.(*ast.BlockStmt)
		if !ok {
			return true
		}
		for i, st := range blk.List {
			if as, ok := st.(*ast.AssignStmt); ok && len(as.Rhs) == 1 && ast.Unparen(as.Rhs[0]) == ast.Expr(find[0]) && i+1 < len(blk.List) {
				if is, ok := blk.List[i+1].(*ast.IfStmt); ok && len(errorCondVars(info, is.Cond)) > 0 {
					errIf = is
				}
			}
		}
		return true
	})
	okErr := errIf != nil && astx.Terminates(info, errIf.Body.List)
	notFound := false
	if errIf != nil {
		for _, call := range callsTo(info, errIf.Body, named("newErrSchemaNotFound")) {
			cf := factStrings(info, d.Decl.Body, call.Pos())
			if hasFact(cf, "ErrNotFound", true) {
				notFound = true
			}
		}
	}
	c.Check(okErr && notFound, "DOM/schema-lookup", key+":miss-ends-write", pos(c, find[0]), "lookup error leaves runLog; not found → ErrSchemaNotFound", "a write naming a schema version that does not exist is not ended with ErrSchemaNotFound before the operation runs")
	// the schema handed to fn is the looked-up one
	okArg := len(fnCall.Args) >= 3 && types.ExprString(fnCall.Args[2]) == "schema"
	okAssign := false
	ast.Inspect(d.Decl.Body, func(n ast.Node) bool {
		if as, ok := n.(*ast.AssignStmt); ok && len(as.Rhs) == 1 && ast.Unparen(as.Rhs[0]) == ast.Expr(find[0]) && len(as.Lhs) == 2 && types.ExprString(as.Lhs[0]) == "schema" {
			okAssign = true
		}
		return true
	})
	c.Check(okArg && okAssign && astx.NewFlow(info, d.Decl.Body).Reachable(find[0], fnCall), "DOM/schema-lookup", key+":schema-to-operation", pos(c, fnCall), "fn(ctx, store, schema, …)", "the operation callback does not receive the schema runLog looked up")
}

// ruleStrictGuards: both directions, over runLog and createTransaction.
func ruleStrictGuards(c *core.Ctx) {
	ctors := map[string]bool{"newErrSchemaValidationError": true, "newErrSchemaNotSpecified": true}
	n, strictTests := 0, 0
	var strictScope []*astx.DeclInfo
	seenScope := map[*astx.DeclInfo]bool{}
	for _, root := range []*astx.DeclInfo{fn(c, pkgCtrl, "logProcessor", "runLog"), fn(c, pkgCtrl, "DefaultController", "createTransaction")} {
		// helpers extracted from the two functions are part of the write path too
		for _, dd := range fnScope(c, root, 1) {
			if !seenScope[dd] {
				seenScope[dd] = true
				strictScope = append(strictScope, dd)
			}
		}
	}
	for _, d := range strictScope {
		if d == nil {
			continue
		}
		info := d.Pkg.TypesInfo
		key := declKey(d)
		// error variables defined from a schema error constructor
		errVars := map[types.Object]bool{}
		ast.Inspect(d.Decl.Body, func(x ast.Node) bool {
			as, ok := x.(*ast.AssignStmt)
			if !ok || len(as.Lhs) != 1 || len(as.Rhs) != 1 {
				return true
			}
			if call, ok := ast.Unparen(as.Rhs[0]).(*ast.CallExpr); ok {
				if f := astx.Callee(info, call); f != nil && ctors[f.Name()] {
					if id, ok := as.Lhs[0].(*ast.Ident); ok {
						errVars[info.ObjectOf(id)] = true
					}
				}
			}
			return true
		})
		// a schema violation that is built must be returned on some path (strict mode): building it
		// and only logging it means strict mode accepts the write
		for ev := range errVars {
			returned := false
			ast.Inspect(d.Decl.Body, func(x ast.Node) bool {
				if r, ok := x.(*ast.ReturnStmt); ok && len(r.Results) > 0 && usesObj(info, r.Results[len(r.Results)-1], ev) {
					returned = true
				}
				return true
			})
			c.Check(returned, "GUARD/strict", fmt.Sprintf("%s:built-violation-returned:%s", key, ev.Name()), pos(c, d.Decl), "a built schema violation is returned under strict mode", "a schema violation is constructed in "+d.Obj.Name()+" but never returned: strict mode accepts the write it must refuse")
		}
		occ := 0
		ast.Inspect(d.Decl.Body, func(x ast.Node) bool {
			if _, ok := x.(*ast.FuncLit); ok {
				return false
			}
			r, ok := x.(*ast.ReturnStmt)
			if !ok || len(r.Results) == 0 {
				return true
			}
			last := ast.Unparen(r.Results[len(r.Results)-1])
			is := false
			what := ""
			if call, ok := last.(*ast.CallExpr); ok {
				if f := astx.Callee(info, call); f != nil && ctors[f.Name()] {
					is, what = true, f.Name()
				}
			}
			if id, ok := last.(*ast.Ident); ok && errVars[info.ObjectOf(id)] {
				is, what = true, "err"
			}
			if !is {
				return true
			}
			occ++
			n++
			fs := factStrings(info, d.Decl.Body, r.Pos())
			named := hasFact(fs, `Template == ""`, false) || hasFact(fs, `Template != ""`, true)
			c.Check(strictFact(fs) || named, "GUARD/strict", fmt.Sprintf("%s:reject#%d", key, occ), pos(c, r), "rejection guarded by mode == strict (or by a template the client named)", "a schema violation ("+what+") is returned on a path that is not restricted to strict mode: audit mode must report the violation and accept the write. Branch facts: "+strings.Join(fs, ", "))
			return true
		})
		// converse: every plain strict test guards a rejecting return
		ast.Inspect(d.Decl.Body, func(x ast.Node) bool {
			is, ok := x.(*ast.IfStmt)
			if !ok {
				return true
			}
			s := types.ExprString(is.Cond)
			if !strings.Contains(s, "schemaEnforcementMode") {
				return true
			}
			strictTests++
			plain := strictFact([]string{"+" + s})
			rejects := false
			if astx.Terminates(info, is.Body.List) {
				if r, ok := is.Body.List[len(is.Body.List)-1].(*ast.ReturnStmt); ok && isErrorReturn(info, d.Decl.Body, r) != -1 {
					rejects = true
				}
			}
			c.Check(plain && rejects, "GUARD/strict", fmt.Sprintf("%s:strict-test#%d", key, strictTests), pos(c, is), "`mode == strict` → return the violation", "a test of the schema enforcement mode is not the plain `== SchemaEnforcementStrict` guarding a rejection: strict mode would accept (or audit mode reject) the violation. Condition: "+s)
			return true
		})
	}
	c.FloorShape("GUARD/strict", "schema-violation returns on the write path", n, 4)
	c.FloorShape("GUARD/strict", "enforcement-mode tests", strictTests, 3)
	// the not-specified rejection additionally needs: payload needs a schema, a schema exists
	if d := fn(c, pkgCtrl, "logProcessor", "runLog"); d != nil {
		info := d.Pkg.TypesInfo
		for _, call := range callsTo(info, d.Decl.Body, named("newErrSchemaNotSpecified")) {
			fs := factStrings(info, d.Decl.Body, call.Pos())
			ok := hasFact(fs, "NeedsSchema()", true) && hasFact(fs, "latestVersion != nil", true) && (hasFact(fs, `SchemaVersion != ""`, false) || hasFact(fs, `SchemaVersion == ""`, true))
			c.Check(ok, "GUARD/strict", declKey(d)+":not-specified-when", pos(c, call), "no version ∧ payload needs schema ∧ ledger has a schema", "ErrSchemaNotSpecified is not raised exactly for a schema-needing payload without version on a ledger that has a schema")
		}
	}
}

func ruleValidateBeforeInsert(c *core.Ctx) {
	d := fn(c, pkgCtrl, "logProcessor", "runLog")
	if d == nil {
		return
	}
	info := d.Pkg.TypesInfo
	key := declKey(d)
	val := callsTo(info, d.Decl.Body, named("ValidateWithSchema"))
	ins := callsTo(info, d.Decl.Body, named("InsertLog"))
	if len(val) != 1 || len(ins) != 1 {
		c.Unrecognised("DOM/validate-before-insert", key+":shape", pos(c, d.Decl), "runLog no longer holds one ValidateWithSchema and one InsertLog call in its own body; the order obligation is not evaluated")
		return
	}
	// top-level statements: `if schema != nil { … validate … }` before the statement holding InsertLog
	vi, ii := -1, -1
	var vIf *ast.IfStmt
	for i, st := range d.Decl.Body.List {
		if st.Pos() <= val[0].Pos() && val[0].End() <= st.End() {
			vi = i
			vIf, _ = st.(*ast.IfStmt)
		}
		if st.Pos() <= ins[0].Pos() && ins[0].End() <= st.End() {
			ii = i
		}
	}
	schemaNonNil := false
	if vIf != nil {
		if be, isBin := ast.Unparen(vIf.Cond).(*ast.BinaryExpr); isBin && be.Op == token.NEQ && astx.IsNilExpr(info, be.Y) {
			if t := info.TypeOf(be.X); t != nil && astx.RecvTypeName(t) == "Schema" {
				schemaNonNil = true
			}
		}
	}
	ok := vi >= 0 && ii > vi && vIf != nil && schemaNonNil && vIf.Else == nil
	c.Check(ok, "DOM/validate-before-insert", key+":order", pos(c, val[0]), "if schema != nil { ValidateWithSchema } precedes InsertLog", "the log is not validated against the schema (whenever there is one) before it is inserted")
	// the validated value is the log that is inserted, carrying the operation's output
	okLog := false
	if rid, isId := ast.Unparen(recvExpr(val[0])).(*ast.Ident); isId && len(ins[0].Args) == 2 {
		if ue, isU := ast.Unparen(ins[0].Args[1]).(*ast.UnaryExpr); isU && ue.Op == token.AND {
			if aid, isId := ast.Unparen(ue.X).(*ast.Ident); isId && info.ObjectOf(aid) == info.ObjectOf(rid) {
				okLog = true
			}
		}
	}
	c.Check(okLog, "DOM/validate-before-insert", key+":same-log", pos(c, ins[0]), "log validated = log inserted", "the log validated against the schema is not the log that is inserted")
}

func ruleTemplateResolution(c *core.Ctx) {
	d := fn(c, pkgCtrl, "DefaultController", "createTransaction")
	if d == nil {
		return
	}
	info := d.Pkg.TypesInfo
	key := declKey(d)
	// parameters.Input.Plain = template.Script under: schema has templates ∧ template found, and unconditionally there
	var asg *ast.AssignStmt
	ast.Inspect(d.Decl.Body, func(n ast.Node) bool {
		if as, ok := n.(*ast.AssignStmt); ok && len(as.Lhs) == 1 && len(as.Rhs) == 1 && strings.HasSuffix(types.ExprString(as.Lhs[0]), ".Input.Plain") && strings.HasSuffix(types.ExprString(as.Rhs[0]), ".Script") {
			asg = as
		}
		return true
	})
	ok := false
	if asg != nil {
		fs := factStrings(info, d.Decl.Body, asg.Pos())
		// what must not happen: the replacement depending on the request's own script or runtime
		// (e.g. "only when the request has no script"); any other guard structure is accepted
		extra := 0
		for _, f := range fs {
			b := f[1:]
			if strings.Contains(b, ".Plain") || strings.Contains(b, "Input.Script") || strings.Contains(b, ".Runtime") || strings.Contains(b, ".Vars") {
				extra++
			}
		}
		ok = extra == 0
		if !ok {
			c.Fail("DOM/template", key+":script-from-template", pos(c, asg), "the template's script does not replace the request's script unconditionally once the template is found. Branch facts: "+strings.Join(fs, ", "))
		}
	}
	if ok {
		c.Pass("DOM/template", key+":script-from-template", pos(c, asg), "Plain = template.Script whenever the template is found")
	} else if asg == nil {
		c.Unrecognised("DOM/template", key+":script-from-template", pos(c, d.Decl), "no `Input.Plain = template.Script` assignment in createTransaction's own body (moved to a helper?)")
	}
	// the assignment precedes parsing
	parse := callsTo(info, d.Decl.Body, named("Parse"))
	if asg != nil && len(parse) == 1 {
		c.Check(asg.Pos() < parse[0].Pos() && strings.HasSuffix(types.ExprString(parse[0].Args[0]), ".Input.Plain"), "DOM/template", key+":before-parse", pos(c, parse[0]), "template resolved before the script is parsed", "the script is parsed before the template is resolved")
	}
	// a template on a schema without templates is refused
	refused := false
	ast.Inspect(d.Decl.Body, func(n ast.Node) bool {
		r, ok := n.(*ast.ReturnStmt)
		if !ok || isErrorReturn(info, d.Decl.Body, r) != 1 {
			return true
		}
		fs := factStrings(info, d.Decl.Body, r.Pos())
		if hasFact(fs, `Template != ""`, true) && hasFact(fs, "len(schema.Transactions) > 0", false) {
			refused = true
		}
		return true
	})
	c.Check(refused, "DOM/template", key+":template-without-definitions", pos(c, d.Decl), "template named but none defined → error", "a request naming a template on a schema without transaction templates is not refused")
}

func ruleChartValidationShape(c *core.Ctx) {
	// NeedsSchema constant per payload
	want := map[string]string{"CreatedTransaction": "true", "RevertedTransaction": "true", "SavedMetadata": "true", "DeletedMetadata": "true", "InsertedSchema": "false"}
	for typ, v := range want {
		d := fn(c, pkgCore, typ, "NeedsSchema")
		if d == nil {
			c.Fail("SHAPE/chart-validation", typ+".NeedsSchema:declared", "", typ+" has no NeedsSchema method")
			continue
		}
		got := ""
		if len(d.Decl.Body.List) == 1 {
			if r, ok := d.Decl.Body.List[0].(*ast.ReturnStmt); ok && len(r.Results) == 1 {
				got = types.ExprString(r.Results[0])
			}
		}
		c.Check(got == v, "SHAPE/chart-validation", typ+".NeedsSchema", pos(c, d.Decl), "returns "+v, typ+".NeedsSchema returns "+got+", expected "+v+": in strict mode writes of this kind would no longer require a schema version")
	}
	// CreatedTransaction.ValidateWithSchema: every posting, through ValidatePosting, error returned
	if d := fn(c, pkgCore, "CreatedTransaction", "ValidateWithSchema"); d != nil {
		info := d.Pkg.TypesInfo
		var loop *ast.RangeStmt
		ast.Inspect(d.Decl.Body, func(n ast.Node) bool {
			if r, ok := n.(*ast.RangeStmt); ok && loop == nil {
				loop = r
			}
			return true
		})
		ok := false
		if loop != nil && strings.HasSuffix(types.ExprString(loop.X), ".Transaction.Postings") && loop.Value != nil {
			calls := callsTo(info, loop.Body, named("ValidatePosting"))
			esc := false
			ast.Inspect(loop.Body, func(n ast.Node) bool {
				switch x := n.(type) {
				case *ast.BranchStmt:
					esc = true
				case *ast.ReturnStmt:
					if isErrorReturn(info, d.Decl.Body, x) == -1 {
						esc = true
					}
				}
				return true
			})
			ok = len(calls) == 1 && len(calls[0].Args) == 1 && types.ExprString(calls[0].Args[0]) == types.ExprString(loop.Value) && !esc && (errLeaves(info, d.Decl.Body, calls[0]) || assignedErrChecked(info, d.Decl.Body, calls[0]))
		}
		c.Check(ok, "SHAPE/chart-validation", declKey(d)+":every-posting", pos(c, d.Decl), "ValidatePosting on every posting, error returned", "CreatedTransaction.ValidateWithSchema does not run the chart validation on every posting of the transaction")
	}
	// ValidatePosting: source and destination
	if d := fn(c, pkgCore, "ChartOfAccounts", "ValidatePosting"); d != nil {
		info := d.Pkg.TypesInfo
		got := map[string]bool{}
		for _, call := range callsTo(info, d.Decl.Body, named("FindAccountSchema")) {
			if len(call.Args) == 1 && (assignedErrChecked(info, d.Decl.Body, call) || errLeaves(info, d.Decl.Body, call)) {
				got[types.ExprString(call.Args[0])] = true
			}
		}
		p := "posting"
		if len(d.Decl.Type.Params.List) == 1 && len(d.Decl.Type.Params.List[0].Names) == 1 {
			p = d.Decl.Type.Params.List[0].Names[0].Name
		}
		c.Check(got[p+".Source"] && got[p+".Destination"], "SHAPE/chart-validation", declKey(d)+":both-sides", pos(c, d.Decl), "source and destination looked up, errors returned", "ChartOfAccounts.ValidatePosting does not check both the source and the destination against the chart")
	}
}

func ruleDefaultMetadata(c *core.Ctx) {
	d := fn(c, pkgCore, "Transaction", "AccountsWithDefaultMetadata")
	if d == nil {
		return
	}
	info := d.Pkg.TypesInfo
	key := declKey(d)
	// the literal {Account{Address: A}, DefaultMetadata: V}: V comes from DefaultMetadata() of the
	// chart entry found for that same A (directly, or through a helper that is handed A)
	state := 0 // +1 ok, -1 wrong, 0 not read
	set := func(ok bool) {
		if !ok {
			state = -1
		} else if state == 0 {
			state = 1
		}
	}
	sameVar := func(x, y ast.Expr) bool {
		a, okA := ast.Unparen(x).(*ast.Ident)
		b, okB := ast.Unparen(y).(*ast.Ident)
		return okA && okB && info.ObjectOf(a) != nil && info.ObjectOf(a) == info.ObjectOf(b)
	}
	schemaGuarded := func(di *astx.DeclInfo, body *ast.BlockStmt, find *ast.CallExpr) bool {
		root := astx.RootIdent(recvExpr(find))
		if root == nil {
			return false
		}
		for _, ft := range astx.FactsAt(di.Pkg.TypesInfo, body, find.Pos()) {
			be, ok := ast.Unparen(ft.Cond).(*ast.BinaryExpr)
			if !ok || !astx.IsNilExpr(di.Pkg.TypesInfo, be.Y) {
				continue
			}
			if id, ok := ast.Unparen(be.X).(*ast.Ident); ok && di.Pkg.TypesInfo.ObjectOf(id) == di.Pkg.TypesInfo.ObjectOf(root) {
				if (be.Op == token.NEQ && ft.Positive) || (be.Op == token.EQL && !ft.Positive) {
					return true
				}
			}
		}
		return false
	}
	ast.Inspect(d.Decl.Body, func(n ast.Node) bool {
		cl, isCL := n.(*ast.CompositeLit)
		if !isCL {
			return true
		}
		v := fieldOfCompositeLit(cl, "DefaultMetadata")
		if v == nil {
			return true
		}
		var addr ast.Expr
		ast.Inspect(cl, func(m ast.Node) bool {
			if x, ok := m.(*ast.CompositeLit); ok && x != cl {
				if a := fieldOfCompositeLit(x, "Address"); a != nil {
					addr = a
				}
			}
			return true
		})
		if addr == nil {
			return true
		}
		if !mayFlowFromCall(c, d, v, func(f *types.Func) bool { return f.Name() == "DefaultMetadata" }, nil, 0, map[types.Object]bool{}) {
			set(false)
			return true
		}
		// the lookup that feeds V
		decided := false
		for _, find := range callsTo(info, d.Decl.Body, named("FindAccountSchema")) {
			if len(find.Args) != 1 {
				continue
			}
			decided = true
			set(sameVar(find.Args[0], addr) && schemaGuarded(d, d.Decl.Body, find))
		}
		if !decided {
			if hc, ok := ast.Unparen(v).(*ast.CallExpr); ok {
				if hf := astx.Callee(info, hc); hf != nil {
					if hd := index(c).Decls[hf]; hd != nil && hd.Decl.Body != nil && hd.Obj.Pkg() == d.Obj.Pkg() {
						// which parameter of the helper receives the address
						pi := -1
						for i, a := range hc.Args {
							if sameVar(a, addr) {
								pi = i
							}
						}
						for _, find := range callsTo(hd.Pkg.TypesInfo, hd.Decl.Body, named("FindAccountSchema")) {
							if len(find.Args) != 1 {
								continue
							}
							decided = true
							set(pi >= 0 && canonPath(hd, find.Args[0]) == fmt.Sprintf("p%d", pi) && schemaGuarded(hd, hd.Decl.Body, find))
						}
					}
				}
			}
		}
		return true
	})
	msgDM := "the default metadata attached to an account is not the chart's default for that very address (or is computed without a schema)"
	switch state {
	case 1:
		c.Pass("SHAPE/default-metadata", key+":same-account", pos(c, d.Decl), "defaults of account X come from the chart entry matching X")
	case -1:
		c.Fail("SHAPE/default-metadata", key+":same-account", pos(c, d.Decl), msgDM)
	default:
		c.Unrecognised("SHAPE/default-metadata", key+":same-account", pos(c, d.Decl), "the construction of AccountWithDefaultMetadata is not in a shape the rule reads")
	}
	// callers pass the schema they were given: createTransaction (runLog's schema) and importLog (FindSchema(log.SchemaVersion))
	up := fn(c, pkgCtrl, "DefaultController", "upsertTransactionAccounts")
	if up == nil {
		return
	}
	fwd := callsTo(up.Pkg.TypesInfo, up.Decl.Body, named("AccountsWithDefaultMetadata"))
	c.Check(len(fwd) == 1 && len(fwd[0].Args) == 2 && strings.HasPrefix(canonPath(up, fwd[0].Args[0]), "p") && isParamObj(up, up.Pkg.TypesInfo.ObjectOf(astx.RootIdent(fwd[0].Args[0]))), "SHAPE/default-metadata", declKey(up)+":forwards-schema", pos(c, up.Decl), "schema forwarded", "upsertTransactionAccounts does not forward the schema to AccountsWithDefaultMetadata")
	n := 0
	for _, s := range index(c).SitesOf(up.Obj) {
		if s.Encl == nil || strings.HasSuffix(c.Prog().Rel(s.Call.Pos()), "_test.go") {
			continue
		}
		n++
		arg := ""
		okArg := false
		if len(s.Call.Args) >= 3 {
			arg = types.ExprString(s.Call.Args[2])
			okArg = !astx.IsNilExpr(s.Pkg.TypesInfo, s.Call.Args[2])
		}
		c.Check(okArg, "SHAPE/default-metadata", enclKey(pkgCtrl, s.Encl)+":passes-schema", pos(c, s.Call), "schema passed", "the schema of the write is not handed to upsertTransactionAccounts ("+arg+"): accounts declared by the chart are created without their default metadata")
	}
	c.Floor("SHAPE/default-metadata", "upsertTransactionAccounts call sites", n, 2)
}
