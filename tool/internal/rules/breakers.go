package rules

import (
	"bytes"
	"fmt"
	"os"
	"os/exec"
	"path/filepath"
	"sort"
	"strings"
	"sync"

	"ledgerlint/internal/core"
)

// Breaker is a small source edit that breaks one rule instance while still compiling. The
// thorough tier applies each one through an overlay (nothing under /repo is touched) in a
// child process and requires the named rule to fire: the checker is tested both ways on
// every thorough run.
type Breaker struct {
	Name   string
	File   string // repository-relative
	Old    string // must occur exactly once in File (else the breaker is reported stale and skipped)
	New    string
	Expect string // substring that must appear in the child's report (rule id or key)
	// optional second edit in the same file
	Old2, New2 string
}

var breakers = map[string][]Breaker{}

func addBreakers(prop string, bs ...Breaker) { breakers[prop] = append(breakers[prop], bs...) }

type BreakerResult struct {
	Name    string `json:"name"`
	Status  string `json:"status"` // fired | silent | stale | build-error
	Expect  string `json:"expect"`
	Excerpt string `json:"excerpt,omitempty"`
}

// RunBreakers executes the breakers of the context's property and records the outcome.
func RunBreakers(c *core.Ctx, self string) []BreakerResult {
	bs := breakers[c.Property]
	if f := os.Getenv("LEDGERLINT_BREAKER"); f != "" {
		var sel []Breaker
		for _, b := range bs {
			if strings.Contains(b.Name, f) {
				sel = append(sel, b)
			}
		}
		bs = sel
	}
	if len(bs) == 0 {
		return nil
	}
	results := make([]BreakerResult, len(bs))
	scratch, err := os.MkdirTemp("", "ledgerlint-breakers-")
	if err != nil {
		c.Notes = append(c.Notes, "self-test skipped: "+err.Error())
		return nil
	}
	defer os.RemoveAll(scratch)
	sem := make(chan struct{}, 4)
	var wg sync.WaitGroup
	for i, b := range bs {
		wg.Add(1)
		go func(i int, b Breaker) {
			defer wg.Done()
			sem <- struct{}{}
			defer func() { <-sem }()
			res := BreakerResult{Name: b.Name, Expect: b.Expect}
			defer func() { results[i] = res }()
			path := filepath.Join(c.RepoDir, b.File)
			src, err := os.ReadFile(path)
			if err != nil || strings.Count(string(src), b.Old) != 1 {
				res.Status = "stale"
				return
			}
			mut := strings.Replace(string(src), b.Old, b.New, 1)
			if b.Old2 != "" {
				if strings.Count(mut, b.Old2) != 1 {
					res.Status = "stale"
					return
				}
				mut = strings.Replace(mut, b.Old2, b.New2, 1)
			}
			mf := filepath.Join(scratch, fmt.Sprintf("b%d_%s", i, filepath.Base(b.File)))
			if err := os.WriteFile(mf, []byte(mut), 0o644); err != nil {
				res.Status = "stale"
				return
			}
			cmd := exec.Command(self, "check", "--property", c.Property, "--tier", "quick", "--repo", c.RepoDir, "--verif", c.VerifDir, "--no-evidence", "--overlay", path+"="+mf)
			cmd.Env = append(os.Environ(), "LEDGERLINT_SCRATCH="+filepath.Join(scratch, fmt.Sprintf("ev%d", i)))
			var out bytes.Buffer
			cmd.Stdout = &out
			cmd.Stderr = &out
			_ = cmd.Run()
			text := out.String()
			switch {
			case strings.Contains(text, "go load failed") || strings.Contains(text, "type-check errors"):
				res.Status = "build-error"
				res.Excerpt = firstLines(text, 3)
			case strings.Contains(text, "VIOLATION property=") && strings.Contains(text, b.Expect):
				res.Status = "fired"
				for _, l := range strings.Split(text, "\n") {
					if strings.Contains(l, b.Expect) {
						res.Excerpt = l
						break
					}
				}
			default:
				res.Status = "silent"
				res.Excerpt = firstLines(text, 3)
			}
		}(i, b)
	}
	wg.Wait()
	sort.SliceStable(results, func(i, j int) bool { return results[i].Name < results[j].Name })
	fired := 0
	for _, r := range results {
		if r.Status == "fired" {
			fired++
		} else {
			fmt.Printf("self-test: breaker %q is %s (expected %q to fire)\n", r.Name, r.Status, r.Expect)
		}
	}
	c.Stats["selftest_breakers_run"] = len(results)
	c.Stats["selftest_breakers_fired"] = fired
	fmt.Printf("self-test: %d/%d breakers fired\n", fired, len(results))
	return results
}

func firstLines(s string, n int) string {
	lines := strings.Split(strings.TrimSpace(s), "\n")
	if len(lines) > n {
		lines = lines[:n]
	}
	return strings.Join(lines, " ⏎ ")
}
