package rules

import (
	"fmt"
	"go/ast"
	"go/constant"
	"go/token"
	"go/types"
	"strings"

	"ledgerlint/internal/astx"
	"ledgerlint/internal/bunq"
	"ledgerlint/internal/core"
)

// xfact is a branch fact as an expression, after expanding single-definition boolean locals.
type xfact struct {
	Cond     ast.Expr
	Positive bool
}

// xfactsAt returns the facts known at p inside body (astx.FactsAt) with boolean locals replaced
// by their definitions, so that `differs := a != b; if differs {…}` reads like `if a != b {…}`.
func xfactsAt(info *types.Info, body *ast.BlockStmt, p token.Pos) []xfact {
	var out []xfact
	var add func(e ast.Expr, positive bool, depth int)
	add = func(e ast.Expr, positive bool, depth int) {
		e = ast.Unparen(e)
		out = append(out, xfact{e, positive})
		if depth >= 2 {
			return
		}
		if id, ok := e.(*ast.Ident); ok {
			def := resolveLocal(info, body, id)
			if def == ast.Expr(id) {
				return
			}
			t := info.TypeOf(def)
			if t == nil {
				return
			}
			if b, ok := t.Underlying().(*types.Basic); !ok || b.Info()&types.IsBoolean == 0 {
				return
			}
			switch x := ast.Unparen(def).(type) {
			case *ast.BinaryExpr:
				if (x.Op == token.LAND && positive) || (x.Op == token.LOR && !positive) {
					add(x.X, positive, depth+1)
					add(x.Y, positive, depth+1)
					return
				}
				if x.Op == token.NEQ {
					add(&ast.BinaryExpr{X: x.X, Op: token.EQL, Y: x.Y}, !positive, depth+1)
					return
				}
			case *ast.UnaryExpr:
				if x.Op == token.NOT {
					add(x.X, !positive, depth+1)
					return
				}
			}
			add(def, positive, depth+1)
		}
	}
	for _, f := range astx.FactsAt(info, body, p) {
		add(f.Cond, f.Positive, 0)
	}
	return out
}

// scopeFacts returns the facts known at a call found in a scope rooted at root: the facts inside
// the function holding the call, plus, when that function is a helper, the facts at its single
// call site in root. ok is false when the helper is called from several places or not from root
// directly (the facts are then incomplete).
func scopeFacts(root *astx.DeclInfo, sc scopedCall) (facts []xfact, ok bool) {
	info := sc.D.Pkg.TypesInfo
	facts = xfactsAt(info, sc.D.Decl.Body, sc.Call.Pos())
	if sc.D == root {
		return facts, true
	}
	sites := callsTo(root.Pkg.TypesInfo, root.Decl.Body, func(f *types.Func) bool { return f == sc.D.Obj || f.Origin() == sc.D.Obj })
	if len(sites) != 1 {
		return facts, false
	}
	return append(facts, xfactsAt(root.Pkg.TypesInfo, root.Decl.Body, sites[0].Pos())...), true
}

// errNamesOfFacts lists the error sentinels (errors.Is/As targets) tested by facts of the given sign.
func errNamesOfFacts(info *types.Info, facts []xfact, positive bool) []string {
	var out []string
	for _, f := range facts {
		if f.Positive == positive {
			out = append(out, errNamesOfCase(info, f.Cond)...)
		}
	}
	return out
}

func anyHasSuffix(list []string, suffix string) bool {
	for _, s := range list {
		if strings.HasSuffix(s, suffix) {
			return true
		}
	}
	return false
}

// factsOpaque reports whether some fact calls a function declared in the repository: the rule
// cannot see through such a predicate.
func factsOpaque(c *core.Ctx, info *types.Info, facts []xfact) bool {
	ix := index(c)
	opaque := false
	for _, f := range facts {
		ast.Inspect(f.Cond, func(n ast.Node) bool {
			if call, ok := n.(*ast.CallExpr); ok {
				if fo := astx.Callee(info, call); fo != nil {
					if d := ix.Decls[fo]; d != nil {
						opaque = true
					} else if d := ix.Decls[fo.Origin()]; d != nil {
						opaque = true
					}
				}
			}
			return true
		})
	}
	return opaque
}

// constBool evaluates e (through single-definition locals) to a boolean constant.
func constBool(info *types.Info, body *ast.BlockStmt, e ast.Expr) (val, known bool) {
	e = resolveLocal(info, body, e)
	if tv, ok := info.Types[ast.Unparen(e)]; ok && tv.Value != nil && tv.Value.Kind() == constant.Bool {
		return constant.BoolVal(tv.Value), true
	}
	return false, false
}

// constStr evaluates e to a string constant (named constants included).
func constStr(info *types.Info, e ast.Expr) (string, bool) {
	if tv, ok := info.Types[ast.Unparen(e)]; ok && tv.Value != nil && tv.Value.Kind() == constant.String {
		return constant.StringVal(tv.Value), true
	}
	return "", false
}

// resultObjs returns the objects a call's results are assigned to (`a, b, err := call(…)`), nil
// entries for blanks and non-identifiers.
func resultObjs(info *types.Info, body *ast.BlockStmt, call *ast.CallExpr) []types.Object {
	var out []types.Object
	ast.Inspect(body, func(n ast.Node) bool {
		as, ok := n.(*ast.AssignStmt)
		if !ok || len(as.Rhs) != 1 || ast.Unparen(as.Rhs[0]) != ast.Expr(call) {
			return true
		}
		for _, l := range as.Lhs {
			if id, ok := l.(*ast.Ident); ok && id.Name != "_" {
				out = append(out, info.ObjectOf(id))
			} else {
				out = append(out, nil)
			}
		}
		return false
	})
	return out
}

func usesObj(info *types.Info, e ast.Expr, obj types.Object) bool {
	if obj == nil || e == nil {
		return false
	}
	found := false
	ast.Inspect(e, func(n ast.Node) bool {
		if id, ok := n.(*ast.Ident); ok && info.Uses[id] == obj {
			found = true
		}
		return !found
	})
	return found
}

// isEmptyStringTest recognises the fact "path is a non-empty string" in its usual spellings and
// returns the tested expression: -(x == ""), +(x != ""), +(len(x) > 0), -(len(x) == 0), +(len(x) != 0).
func nonEmptyStringFact(info *types.Info, f xfact) (ast.Expr, bool) {
	be, ok := ast.Unparen(f.Cond).(*ast.BinaryExpr)
	if !ok {
		return nil, false
	}
	x, y := ast.Unparen(be.X), ast.Unparen(be.Y)
	isEmpty := func(e ast.Expr) bool { s, ok := constStr(info, e); return ok && s == "" }
	isZero := func(e ast.Expr) bool {
		tv, ok := info.Types[e]
		return ok && tv.Value != nil && tv.Value.Kind() == constant.Int && constant.Sign(tv.Value) == 0
	}
	lenArg := func(e ast.Expr) ast.Expr {
		if call, ok := e.(*ast.CallExpr); ok && len(call.Args) == 1 {
			if id, ok := call.Fun.(*ast.Ident); ok && id.Name == "len" {
				return call.Args[0]
			}
		}
		return nil
	}
	switch {
	case be.Op == token.EQL && !f.Positive, be.Op == token.NEQ && f.Positive:
		if isEmpty(y) {
			return x, true
		}
		if isEmpty(x) {
			return y, true
		}
		if a := lenArg(x); a != nil && isZero(y) {
			return a, true
		}
	case be.Op == token.GTR && f.Positive:
		if a := lenArg(x); a != nil && isZero(y) {
			return a, true
		}
	}
	return nil, false
}

// isErrNilTest: `e == nil` / `e != nil` with e of type error.
func isErrNilTest(info *types.Info, e ast.Expr) bool {
	be, ok := ast.Unparen(e).(*ast.BinaryExpr)
	if !ok || (be.Op != token.EQL && be.Op != token.NEQ) {
		return false
	}
	x, y := be.X, be.Y
	if astx.IsNilExpr(info, x) {
		x, y = y, x
	}
	if !astx.IsNilExpr(info, y) {
		return false
	}
	t := info.TypeOf(x)
	return t != nil && types.Identical(t, types.Universe.Lookup("error").Type())
}

// isZeroConst: the integer constant 0, or a fresh big.Int (`new(big.Int)`, `big.NewInt(0)`).
func isZeroConst(info *types.Info, e ast.Expr) bool {
	e = ast.Unparen(e)
	if tv, ok := info.Types[e]; ok && tv.Value != nil && tv.Value.Kind() == constant.Int {
		return constant.Sign(tv.Value) == 0
	}
	return false
}

// isErrNilTestLoose: `x == nil` on any nilable, used to skip the `==` twin FactsAt adds for `!=`.
func isErrNilTestLoose(info *types.Info, be *ast.BinaryExpr) bool {
	return astx.IsNilExpr(info, be.X) || astx.IsNilExpr(info, be.Y)
}

// canonPath renders a selector path with the receiver's name replaced by "recv" and parameter
// names by "p<i>", so that rules do not depend on how a function names them.
func canonPath(d *astx.DeclInfo, e ast.Expr) string {
	p := astx.SelectorPath(e)
	if p == "" {
		return ""
	}
	root := astx.RootIdent(e)
	if root == nil {
		return p
	}
	obj := d.Pkg.TypesInfo.ObjectOf(root)
	if obj == nil {
		return p
	}
	rest := strings.TrimPrefix(p, root.Name)
	if d.Decl.Recv != nil && len(d.Decl.Recv.List) == 1 && len(d.Decl.Recv.List[0].Names) == 1 && d.Pkg.TypesInfo.ObjectOf(d.Decl.Recv.List[0].Names[0]) == obj {
		return "recv" + rest
	}
	i := 0
	if d.Decl.Type.Params != nil {
		for _, fl := range d.Decl.Type.Params.List {
			for _, nm := range fl.Names {
				if d.Pkg.TypesInfo.ObjectOf(nm) == obj {
					return fmt.Sprintf("p%d%s", i, rest)
				}
				i++
			}
			if len(fl.Names) == 0 {
				i++
			}
		}
	}
	return p
}

// isParamFuncCall: call of a function-typed parameter of d (`fn(...)`).
func isParamFuncCall(d *astx.DeclInfo, call *ast.CallExpr) bool {
	id, ok := ast.Unparen(call.Fun).(*ast.Ident)
	if !ok {
		return false
	}
	return isParamObj(d, d.Pkg.TypesInfo.ObjectOf(id))
}

func isParamObj(d *astx.DeclInfo, obj types.Object) bool {
	if obj == nil || d.Decl.Type.Params == nil {
		return false
	}
	for _, fl := range d.Decl.Type.Params.List {
		for _, nm := range fl.Names {
			if d.Pkg.TypesInfo.ObjectOf(nm) == obj {
				return true
			}
		}
	}
	return false
}

// mayFlowFromCall reports whether the value of e may come (through local definitions, type
// assertions, conversions, the pass-through functions named in through, and the results of
// same-package helpers) from a call satisfying isSrc. It is a may-analysis over all definitions
// of each local: the rules use its negation ("no such call can reach this value") as positive
// evidence of a violation.
func mayFlowFromCall(c *core.Ctx, d *astx.DeclInfo, e ast.Expr, isSrc func(*types.Func) bool, through map[string]bool, depth int, seen map[types.Object]bool) bool {
	if e == nil || depth > 6 {
		return false
	}
	info := d.Pkg.TypesInfo
	switch v := ast.Unparen(e).(type) {
	case *ast.TypeAssertExpr:
		return mayFlowFromCall(c, d, v.X, isSrc, through, depth+1, seen)
	case *ast.StarExpr:
		return mayFlowFromCall(c, d, v.X, isSrc, through, depth+1, seen)
	case *ast.UnaryExpr:
		return mayFlowFromCall(c, d, v.X, isSrc, through, depth+1, seen)
	case *ast.CallExpr:
		f := astx.Callee(info, v)
		if f == nil {
			if len(v.Args) == 1 {
				if tv, ok := info.Types[v.Fun]; ok && tv.IsType() {
					return mayFlowFromCall(c, d, v.Args[0], isSrc, through, depth+1, seen)
				}
			}
			return false
		}
		if isSrc(f) {
			return true
		}
		if through[f.Name()] {
			for _, a := range v.Args {
				if mayFlowFromCall(c, d, a, isSrc, through, depth+1, seen) {
					return true
				}
			}
			return false
		}
		ix := index(c)
		dd := ix.Decls[f]
		if dd == nil {
			dd = ix.Decls[f.Origin()]
		}
		if dd != nil && dd.Decl.Body != nil && dd.Obj.Pkg() == d.Obj.Pkg() && dd != d {
			found := false
			ast.Inspect(dd.Decl.Body, func(n ast.Node) bool {
				if _, ok := n.(*ast.FuncLit); ok {
					return false
				}
				if r, ok := n.(*ast.ReturnStmt); ok {
					for _, res := range r.Results {
						if mayFlowFromCall(c, dd, res, isSrc, through, depth+1, map[types.Object]bool{}) {
							found = true
						}
					}
				}
				return !found
			})
			return found
		}
		return false
	case *ast.Ident:
		obj := info.ObjectOf(v)
		if obj == nil || seen[obj] {
			return false
		}
		seen[obj] = true
		found := false
		ast.Inspect(d.Decl.Body, func(n ast.Node) bool {
			if found {
				return false
			}
			switch x := n.(type) {
			case *ast.AssignStmt:
				for i, l := range x.Lhs {
					id, ok := l.(*ast.Ident)
					if !ok || info.ObjectOf(id) != obj {
						continue
					}
					if len(x.Lhs) == len(x.Rhs) {
						found = found || mayFlowFromCall(c, d, x.Rhs[i], isSrc, through, depth+1, seen)
					} else if len(x.Rhs) == 1 {
						found = found || mayFlowFromCall(c, d, x.Rhs[0], isSrc, through, depth+1, seen)
					}
				}
			case *ast.ValueSpec:
				for i, nm := range x.Names {
					if info.ObjectOf(nm) == obj && i < len(x.Values) {
						found = found || mayFlowFromCall(c, d, x.Values[i], isSrc, through, depth+1, seen)
					}
				}
			}
			return true
		})
		return found
	}
	return false
}

// scopedStmt is a bun statement found in a function scope (the function or a helper it calls).
type scopedStmt struct {
	D *astx.DeclInfo
	S *bunq.Statement
}

// stmtsInScope returns the statements built in d or in the same-package helpers it calls (up to
// depth), so that moving a statement into a helper does not hide it from the rule about d.
func stmtsInScope(c *core.Ctx, m *bunq.Model, d *astx.DeclInfo, depth int) []scopedStmt {
	var out []scopedStmt
	for _, sd := range fnScope(c, d, depth) {
		for _, s := range m.Stmts {
			if s.Encl == sd.Decl {
				out = append(out, scopedStmt{sd, s})
			}
		}
	}
	return out
}

// callSiteIn returns the (first) call of helper sd inside d, nil when sd is d or is not called
// from d directly.
func callSiteIn(d, sd *astx.DeclInfo) *ast.CallExpr {
	if sd == d {
		return nil
	}
	for _, site := range callsTo(d.Pkg.TypesInfo, d.Decl.Body, func(f *types.Func) bool { return f == sd.Obj || f.Origin() == sd.Obj }) {
		return site
	}
	return nil
}

// rootPosOf maps a position inside sd to the position, in d, at which it takes effect: itself
// when sd is d, the helper's call site otherwise (NoPos when the helper is not called from d).
func rootPosOf(d, sd *astx.DeclInfo, p token.Pos) token.Pos {
	if sd == d {
		return p
	}
	if site := callSiteIn(d, sd); site != nil {
		return site.Pos()
	}
	return token.NoPos
}

// scopeFactsAtPos: the facts holding at p inside sd, plus those at sd's call site in d.
func scopeFactsAtPos(d, sd *astx.DeclInfo, p token.Pos) []astx.Fact {
	fs := astx.FactsAt(sd.Pkg.TypesInfo, sd.Decl.Body, p)
	if site := callSiteIn(d, sd); site != nil {
		fs = append(fs, astx.FactsAt(d.Pkg.TypesInfo, d.Decl.Body, site.Pos())...)
	}
	return fs
}

// onceEach reports whether each named callee is called exactly once in d's own body (what the
// rules keyed on d read their facts from). When it is not, it records the obligation itself:
// a callee that is no longer called anywhere in d or its direct helpers is a violation (msg);
// calls that were moved into a helper or duplicated are an unrecognised shape.
func onceEach(c *core.Ctx, d *astx.DeclInfo, rule, key, msg string, names ...string) bool {
	info := d.Pkg.TypesInfo
	all := true
	for _, n := range names {
		if len(callsTo(info, d.Decl.Body, named(n))) != 1 {
			all = false
		}
	}
	if all {
		return true
	}
	scope := fnScope(c, d, 1)
	var gone []string
	renamed := false
	for _, n := range names {
		if len(scopeCalls(scope, named(n))) == 0 {
			gone = append(gone, n)
			if !ast.IsExported(n) && !declExists(c, relPkg(d.Pkg.PkgPath), n) {
				renamed = true
			}
		}
	}
	if len(gone) > 0 && !renamed {
		c.Fail(rule, key, pos(c, d.Decl), msg+" (no call of "+strings.Join(gone, ", ")+")")
	} else {
		c.Unrecognised(rule, key, pos(c, d.Decl), "the calls "+strings.Join(names, ", ")+" are no longer made once each in "+d.Obj.Name()+" itself (moved into a helper or duplicated): the rule is not evaluated")
	}
	return false
}

// declExists reports whether the repository package rel still declares a function or method
// called name. Rules that treat "X is never called" as a violation first make sure X still
// exists: when it was renamed or inlined, the absence of calls by that name proves nothing and
// the obligation is an unrecognised shape.
func declExists(c *core.Ctx, rel, name string) bool {
	for obj, d := range index(c).Decls {
		if obj.Name() == name && relPkg(d.Pkg.PkgPath) == rel && !strings.HasSuffix(c.Prog().Rel(d.Decl.Pos()), "_test.go") {
			return true
		}
	}
	return false
}

// failOrGone records a violation, or an unrecognised shape when the function the rule looks for
// (an unexported helper of rel) no longer exists under that name.
func failOrGone(c *core.Ctx, rel, name, rule, key, at, msg string) {
	if declExists(c, rel, name) {
		c.Fail(rule, key, at, msg)
	} else {
		c.Unrecognised(rule, key, at, "function "+name+" no longer exists in "+rel+" (renamed or inlined): "+msg+" — not evaluated")
	}
}

// constInt: the integer constant value of e, if it has one.
func constInt(info *types.Info, e ast.Expr) (int64, bool) {
	tv, ok := info.Types[e]
	if !ok || tv.Value == nil || tv.Value.Kind() != constant.Int {
		return 0, false
	}
	return constant.Int64Val(tv.Value)
}
