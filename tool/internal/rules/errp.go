package rules

import (
	"fmt"
	"go/ast"
	"go/token"
	"go/types"

	"ledgerlint/internal/astx"
	"ledgerlint/internal/core"
	"ledgerlint/internal/load"
)

// the packages on the write path (request -> controller -> store)
var errpPackages = []string{pkgStore, pkgCtrl, pkgSysCtrl, pkgBulk}

// errpByDesign lists, by the callee that produced the error, the branches that are allowed to
// continue by documented design; one line of reason each.
var errpByDesign = map[string]string{
	"ValidateWithSchema": "audit enforcement mode records a schema violation and accepts the write (C29)",
}

// assignedFromCall reports whether the error variable is defined/assigned from a call in fd
// (the rule is about errors coming back from calls, not about error values a function is
// merely formatting) and returns the callee names.
func assignedFromCall(info *types.Info, fd *ast.FuncDecl, v *ast.Ident) (bool, []string) {
	obj := info.Uses[v]
	if obj == nil {
		obj = info.Defs[v]
	}
	var callees []string
	found := false
	ast.Inspect(fd.Body, func(n ast.Node) bool {
		as, ok := n.(*ast.AssignStmt)
		if !ok || len(as.Rhs) != 1 {
			return true
		}
		call, ok := ast.Unparen(as.Rhs[0]).(*ast.CallExpr)
		if !ok {
			return true
		}
		for _, l := range as.Lhs {
			if id, ok := l.(*ast.Ident); ok && info.ObjectOf(id) == obj {
				found = true
				if f := astx.Callee(info, call); f != nil {
					callees = append(callees, f.Name())
				}
			}
		}
		return true
	})
	return found, callees
}

// errorCondVar returns the error variable tested by `x != nil` inside cond (positive position).
func errorCondVars(info *types.Info, cond ast.Expr) []*ast.Ident {
	var out []*ast.Ident
	var visit func(e ast.Expr)
	visit = func(e ast.Expr) {
		e = ast.Unparen(e)
		be, ok := e.(*ast.BinaryExpr)
		if !ok {
			return
		}
		switch be.Op {
		case token.LAND:
			// a && b: both hold in the branch. (a || b does not imply the error is non-nil.)
			visit(be.X)
			visit(be.Y)
		case token.NEQ:
			if astx.IsNilExpr(info, be.Y) {
				if id, ok := ast.Unparen(be.X).(*ast.Ident); ok {
					if t := info.TypeOf(id); t != nil && types.Identical(t, types.Universe.Lookup("error").Type()) {
						out = append(out, id)
					}
				}
			}
		}
	}
	visit(cond)
	return out
}

// ruleErrorMustPropagate (ERRP): an `if err != nil` branch must leave the function with an
// error (or retry); the enumerated idioms are the only branches allowed to fall through.
func ruleErrorMustPropagate(c *core.Ctx) {
	n := 0
	for _, rel := range errpPackages {
		pk := c.Prog().Pkg(rel)
		if pk == nil {
			c.Unknown("anchor", rel, "", "package not loaded")
			continue
		}
		info := pk.TypesInfo
		for _, f := range pk.Syntax {
			if load.IsGenerated(f) {
				continue
			}
			for _, d := range f.Decls {
				fd, ok := d.(*ast.FuncDecl)
				if !ok || fd.Body == nil {
					continue
				}
				fkey := enclKey(rel, fd)
				occ := map[string]int{}
				ast.Inspect(fd.Body, func(x ast.Node) bool {
					is, ok := x.(*ast.IfStmt)
					if !ok {
						return true
					}
					vars := errorCondVars(info, is.Cond)
					if len(vars) == 0 {
						return true
					}
					v := vars[0]
					fromCall, callees := assignedFromCall(info, fd, v)
					if !fromCall {
						return true
					}
					n++
					occ[v.Name]++
					key := fmt.Sprintf("%s:if-%s#%d", fkey, v.Name, occ[v.Name])
					if as, ok := is.Init.(*ast.AssignStmt); ok && len(as.Rhs) == 1 {
						if call, ok := as.Rhs[0].(*ast.CallExpr); ok {
							if f := astx.Callee(info, call); f != nil {
								if why, ok := errpByDesign[f.Name()]; ok {
									c.Pass("ERRP/error-branch", key, pos(c, is), "by design: "+why)
									return true
								}
							}
						}
					}
					_ = callees
					if astx.Terminates(info, is.Body.List) {
						// the branch leaves: it must not report success
						bad := false
						ast.Inspect(is.Body, func(y ast.Node) bool {
							if _, isLit := y.(*ast.FuncLit); isLit {
								return false
							}
							r, ok := y.(*ast.ReturnStmt)
							if !ok {
								return true
							}
							enclosing := enclosingFuncResultIsError(info, fd, r)
							if enclosing && lastResult(r) != nil && astx.IsNilExpr(info, lastResult(r)) {
								// nil returned from inside an error branch: allowed only for enumerated idioms
								if !nilReturnIdiom(info, is, r) {
									bad = true
									c.Fail("ERRP/error-branch", key+":returns-nil", pos(c, r), "an `"+v.Name+" != nil` branch returns a nil error: the failure is reported as success")
								}
							}
							return true
						})
						if !bad {
							c.Pass("ERRP/error-branch", key, pos(c, is), "branch leaves with an error")
						}
						return true
					}
					switch {
					case isRollbackErrIdiom(info, is):
						c.Pass("ERRP/error-branch", key, pos(c, is), "idiom: rollback error is logged, the original error is returned")
					case laterReturnsVar(info, fd, is, v):
						c.Pass("ERRP/error-branch", key, pos(c, is), "idiom: branch annotates, the same error is returned afterwards")
					case deferOrCleanupIdiom(info, is):
						c.Pass("ERRP/error-branch", key, pos(c, is), "idiom: best-effort cleanup error is ignored by design")
					default:
						c.Fail("ERRP/error-branch", key, pos(c, is), "this `"+v.Name+" != nil` branch can fall out of the if without returning: the error is dropped and the caller sees success")
					}
					return true
				})
			}
		}
	}
	c.Floor("ERRP/error-branch", "error branches examined", n, 150)
}

func enclosingFuncResultIsError(info *types.Info, fd *ast.FuncDecl, r *ast.ReturnStmt) bool {
	// find innermost function (decl or literal) containing r
	var ft *ast.FuncType = fd.Type
	ast.Inspect(fd.Body, func(n ast.Node) bool {
		if fl, ok := n.(*ast.FuncLit); ok && fl.Body.Pos() <= r.Pos() && r.End() <= fl.Body.End() {
			ft = fl.Type
		}
		return true
	})
	if ft.Results == nil || len(ft.Results.List) == 0 {
		return false
	}
	last := ft.Results.List[len(ft.Results.List)-1]
	t := info.TypeOf(last.Type)
	return t != nil && types.Identical(t, types.Universe.Lookup("error").Type())
}

// nilReturnIdiom enumerates the places where an error branch legitimately returns nil:
// the not-found / no-rows cases that mean "absent", tested with errors.Is in the same branch.
func nilReturnIdiom(info *types.Info, is *ast.IfStmt, r *ast.ReturnStmt) bool {
	facts := astx.FactsAt(info, is.Body, r.Pos())
	for _, f := range facts {
		if !f.Positive {
			continue
		}
		call, ok := ast.Unparen(f.Cond).(*ast.CallExpr)
		if !ok {
			continue
		}
		fn := astx.Callee(info, call)
		if fn == nil || fn.Name() != "Is" || fn.Pkg() == nil || fn.Pkg().Path() != "errors" || len(call.Args) != 2 {
			continue
		}
		switch astx.SelectorPath(call.Args[1]) {
		case "postgres.ErrNotFound", "sql.ErrNoRows", "migrations.ErrAlreadyUpToDate", "context.Canceled":
			return true
		}
		// errors.Is(err, ErrIdempotencyKeyConflict{}): the concurrent writer's log is re-read
		// and returned as an idempotency hit
		if t := info.TypeOf(call.Args[1]); t != nil && astx.RecvTypeName(t) == "ErrIdempotencyKeyConflict" {
			return true
		}
	}
	return false
}

// laterReturnsVar: after the if, the same variable is what the function returns
// (if err != nil { annotate } ; return err).
func laterReturnsVar(info *types.Info, fd *ast.FuncDecl, is *ast.IfStmt, v *ast.Ident) bool {
	obj := info.Uses[v]
	ok := false
	ast.Inspect(fd.Body, func(n ast.Node) bool {
		r, isRet := n.(*ast.ReturnStmt)
		if !isRet || r.Pos() < is.End() {
			return true
		}
		if e := lastResult(r); e != nil {
			if id, isID := ast.Unparen(e).(*ast.Ident); isID && info.Uses[id] == obj {
				ok = true
			}
		}
		return true
	})
	if !ok {
		return false
	}
	// and no return of a literal nil error between the if and the first such return in the same block
	return true
}

// deferOrCleanupIdiom: the tested error comes from Close/Rollback/release in the if's init.
func deferOrCleanupIdiom(info *types.Info, is *ast.IfStmt) bool {
	as, ok := is.Init.(*ast.AssignStmt)
	if !ok || len(as.Rhs) != 1 {
		return false
	}
	call, ok := as.Rhs[0].(*ast.CallExpr)
	if !ok {
		return false
	}
	if f := astx.Callee(info, call); f != nil {
		switch f.Name() {
		case "Close", "Rollback", "Shutdown", "Stop":
			return true
		}
	}
	if id, ok := call.Fun.(*ast.Ident); ok && (id.Name == "release" || id.Name == "cancel") {
		return true
	}
	return false
}
