package rules

import (
	"encoding/json"
	"fmt"
	"go/ast"
	"go/types"
	"os"
	"path/filepath"
	"sort"
	"strings"

	"ledgerlint/internal/astx"
	"ledgerlint/internal/core"
	"ledgerlint/internal/load"
)

// The rules name the functions they are anchored in. A maintainer may rename a function without
// changing what it does; to keep such a rename from looking like "the anchor is gone" (or like a
// new, unlisted caller), the functions of the tree the rules were confirmed on are recorded in
// /verif/anchors.json (name, parameter and result types, callees), and a function that has
// disappeared is looked for among the functions that have appeared: same package and receiver,
// same parameter and result types, similar set of callees, unambiguously. A match is a rename,
// and the tree is analysed with the function under its recorded name (the identifier is rewritten
// in an overlay; nothing else changes, positions keep their lines). Every rename applied is
// printed and recorded in the evidence.

type anchorEntry struct {
	Sig     string   `json:"sig"`
	Callees []string `json:"callees"`
}

type anchorFile struct {
	Note       string                 `json:"note"`
	Functions  map[string]anchorEntry `json:"functions"` // key: rel|recv|name
	Migrations []string               `json:"migrations"`
}

func fingerprint(c *core.Ctx) map[string]anchorEntry {
	out := map[string]anchorEntry{}
	for _, pk := range c.Prog().RepoPackages() {
		rel := relPkg(pk.PkgPath)
		for _, f := range pk.Syntax {
			if load.IsGenerated(f) || strings.HasSuffix(c.Prog().Rel(f.Pos()), "_test.go") {
				continue
			}
			for _, dd := range f.Decls {
				fd, ok := dd.(*ast.FuncDecl)
				if !ok || fd.Body == nil {
					continue
				}
				obj := load.FuncObj(pk, fd)
				if obj == nil {
					continue
				}
				sig, _ := obj.Type().(*types.Signature)
				if sig == nil {
					continue
				}
				var ps, rs []string
				qual := func(p *types.Package) string { return p.Name() }
				for i := 0; i < sig.Params().Len(); i++ {
					ps = append(ps, types.TypeString(sig.Params().At(i).Type(), qual))
				}
				for i := 0; i < sig.Results().Len(); i++ {
					rs = append(rs, types.TypeString(sig.Results().At(i).Type(), qual))
				}
				set := map[string]bool{}
				ast.Inspect(fd.Body, func(n ast.Node) bool {
					if call, ok := n.(*ast.CallExpr); ok {
						if cf := astx.Callee(pk.TypesInfo, call); cf != nil {
							set[cf.Name()] = true
						} else if se, ok := call.Fun.(*ast.SelectorExpr); ok {
							set[se.Sel.Name] = true
						}
					}
					return true
				})
				var callees []string
				for k := range set {
					if k != obj.Name() {
						callees = append(callees, k)
					}
				}
				sort.Strings(callees)
				key := rel + "|" + load.RecvName(fd) + "|" + obj.Name()
				out[key] = anchorEntry{Sig: "(" + strings.Join(ps, ",") + ")(" + strings.Join(rs, ",") + ")", Callees: callees}
			}
		}
	}
	return out
}

// WriteAnchors records the functions of the current tree as the baseline for rename detection.
func WriteAnchors(c *core.Ctx, verifDir string) error {
	var migs []string
	if ents, err := os.ReadDir(filepath.Join(c.RepoDir, "internal/storage/bucket/migrations")); err == nil {
		for _, e := range ents {
			if e.IsDir() {
				migs = append(migs, e.Name())
			}
		}
	}
	sort.Strings(migs)
	af := anchorFile{Migrations: migs, Note: "functions of the tree the rules were confirmed on; used only to recognise a renamed function (same package/receiver, same parameter and result types, similar callees) so that it is analysed under the name the rules know", Functions: fingerprint(c)}
	b, err := json.MarshalIndent(af, "", " ")
	if err != nil {
		return err
	}
	return os.WriteFile(filepath.Join(verifDir, "anchors.json"), b, 0o644)
}

func jaccard(a, b []string) float64 {
	if len(a) == 0 && len(b) == 0 {
		return 1
	}
	sa := map[string]bool{}
	for _, x := range a {
		sa[x] = true
	}
	inter := 0
	sb := map[string]bool{}
	for _, x := range b {
		sb[x] = true
		if sa[x] {
			inter++
		}
	}
	union := len(sa)
	for x := range sb {
		if !sa[x] {
			union++
		}
	}
	return float64(inter) / float64(union)
}

// NormaliseRenames detects renamed functions against /verif/anchors.json and, when there are any,
// reloads the program with the renamed identifiers rewritten to their recorded names. It returns
// the renames applied ("rel.(recv).new -> old").
func NormaliseRenames(c *core.Ctx, verifDir string) []string {
	b, err := os.ReadFile(filepath.Join(verifDir, "anchors.json"))
	if err != nil {
		return nil
	}
	var base anchorFile
	if json.Unmarshal(b, &base) != nil || len(base.Functions) == 0 {
		return nil
	}
	if len(base.Migrations) > 0 {
		BaselineMigrations = map[string]bool{}
		for _, m := range base.Migrations {
			BaselineMigrations[m] = true
		}
	}
	cur := fingerprint(c)
	type cand struct {
		key string
		e   anchorEntry
	}
	var added []cand
	for k, e := range cur {
		if _, ok := base.Functions[k]; !ok {
			added = append(added, cand{k, e})
		}
	}
	sort.Slice(added, func(i, j int) bool { return added[i].key < added[j].key })
	var removed []string
	for k := range base.Functions {
		if _, ok := cur[k]; !ok {
			removed = append(removed, k)
		}
	}
	sort.Strings(removed)
	prefix := func(k string) string { return k[:strings.LastIndex(k, "|")+1] }
	name := func(k string) string { return k[strings.LastIndex(k, "|")+1:] }
	// old key -> new key, one to one
	match := map[string]string{}
	taken := map[string]bool{}
	for _, r := range removed {
		be := base.Functions[r]
		best, bestScore, second := "", -1.0, -1.0
		for _, a := range added {
			if prefix(a.key) != prefix(r) || a.e.Sig != be.Sig || taken[a.key] {
				continue
			}
			s := jaccard(be.Callees, a.e.Callees)
			if s > bestScore {
				second = bestScore
				best, bestScore = a.key, s
			} else if s > second {
				second = s
			}
		}
		if best != "" && bestScore >= 0.5 && bestScore-second >= 0.2 {
			match[r] = best
			taken[best] = true
		}
	}
	if len(match) == 0 {
		return nil
	}
	// rewrite the identifiers
	type edit struct {
		off, end int
		text     string
	}
	edits := map[string][]edit{}
	var applied []string
	prog := c.Prog()
	for oldKey, newKey := range match {
		parts := strings.Split(newKey, "|")
		rel, recv, newName := parts[0], parts[1], parts[2]
		oldName := name(oldKey)
		pk := prog.Pkg(rel)
		if pk == nil {
			continue
		}
		var target *types.Func
		for _, f := range pk.Syntax {
			for _, dd := range f.Decls {
				if fd, ok := dd.(*ast.FuncDecl); ok && fd.Name.Name == newName && load.RecvName(fd) == recv {
					target = load.FuncObj(pk, fd)
				}
			}
		}
		if target == nil {
			continue
		}
		// the old name must be free in the package (no other declaration took it)
		if pk.Types.Scope().Lookup(oldName) != nil && recv == "" {
			continue
		}
		// a method whose old name still resolves on the receiver (promoted through an embedded
		// field) was not merely renamed: callers of the old name now reach the promoted method
		if recv != "" {
			if tn, ok := pk.Types.Scope().Lookup(recv).(*types.TypeName); ok {
				if o, _, _ := types.LookupFieldOrMethod(types.NewPointer(tn.Type()), true, pk.Types, oldName); o != nil {
					continue
				}
			}
		}
		n := 0
		for _, upk := range prog.RepoPackages() {
			for _, f := range upk.Syntax {
				file := prog.Fset.File(f.Pos())
				if file == nil {
					continue
				}
				ast.Inspect(f, func(x ast.Node) bool {
					id, ok := x.(*ast.Ident)
					if !ok || id.Name != newName {
						return true
					}
					o := upk.TypesInfo.ObjectOf(id)
					fo, isF := o.(*types.Func)
					if !isF || (fo != target && fo.Origin() != target) {
						return true
					}
					edits[file.Name()] = append(edits[file.Name()], edit{file.Offset(id.Pos()), file.Offset(id.End()), oldName})
					n++
					return true
				})
			}
		}
		if n > 0 {
			r := recv
			if r != "" {
				r = "(" + r + ")."
			}
			applied = append(applied, fmt.Sprintf("%s.%s%s -> %s", rel, r, newName, oldName))
		}
	}
	if len(applied) == 0 {
		return nil
	}
	files := map[string][]byte{}
	for path, es := range edits {
		src, err := c.ReadFile(path)
		if err != nil {
			return nil
		}
		sort.Slice(es, func(i, j int) bool { return es[i].off > es[j].off })
		for _, e := range es {
			if e.off < 0 || e.end > len(src) || e.off > e.end {
				return nil
			}
			src = append(append(append([]byte{}, src[:e.off]...), []byte(e.text)...), src[e.end:]...)
		}
		files[path] = src
	}
	sort.Strings(applied)
	c.ReloadWithOverlay(files)
	for _, a := range applied {
		fmt.Printf("NOTE renamed-function: %s (analysed under its recorded name)\n", a)
	}
	c.Notes = append(c.Notes, "renamed functions analysed under their recorded names: "+strings.Join(applied, "; "))
	return applied
}
