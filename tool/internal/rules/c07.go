package rules

import (
	"ledgerlint/internal/core"
)

func init() {
	register("C07", checkC07)
	addBreakers("C07",
		Breaker{Name: "upsert-accounts-on-controller-store", File: "internal/controller/ledger/controller_default.go",
			Old: "err := store.UpsertAccounts(\n\t\tctx,\n\t\taccountsToUpsert...,", New: "err := ctrl.store.UpsertAccounts(\n\t\tctx,\n\t\taccountsToUpsert...,", Expect: "TXH/store-call"},
		Breaker{Name: "commit-transaction-on-controller-store", File: "internal/controller/ledger/controller_default.go",
			Old: "err = store.CommitTransaction(ctx, &reversedTx)", New: "err = ctrl.store.CommitTransaction(ctx, &reversedTx)", Expect: "TXH/store-call"},
		Breaker{Name: "runlog-gets-outer-store", File: "internal/controller/ledger/log_process.go",
			Old: "log, output, err := lp.runLog(ctx, txStore, parameters, fn)", New: "log, output, err := lp.runLog(ctx, store, parameters, fn)", Expect: "TXH/callback-chain"},
		Breaker{Name: "insert-transaction-on-package-level-db", File: "internal/storage/ledger/transactions.go",
			Old: "query := store.db.NewInsert().", New: "query := rootDB.NewInsert().",
			Old2: "func (store *Store) InsertTransaction(", New2: "var rootDB bun.IDB\n\nfunc (store *Store) InsertTransaction(", Expect: "TXH/statement-handle"},
		Breaker{Name: "dry-run-commits", File: "internal/controller/ledger/log_process.go",
			Old: "\tif parameters.DryRun {\n\t\tif rollbackErr := txStore.Rollback(ctx); rollbackErr != nil {\n\t\t\tlogging.FromContext(ctx).Errorf(\"failed to rollback transaction: %v\", rollbackErr)\n\t\t}\n\t\treturn log, output, false, nil\n\t}\n", New: "", Expect: "PAIR/commit-on-success"},
		Breaker{Name: "forgelog-error-path-without-rollback", File: "internal/controller/ledger/log_process.go",
			Old: "\tlog, output, err := lp.runLog(ctx, txStore, parameters, fn)\n\tif err != nil {\n\t\tif rollbackErr := txStore.Rollback(ctx); rollbackErr != nil {\n\t\t\tlogging.FromContext(ctx).Errorf(\"failed to rollback transaction: %v\", rollbackErr)\n\t\t}\n", New: "\tlog, output, err := lp.runLog(ctx, txStore, parameters, fn)\n\tif err != nil {\n", Expect: "PAIR/tx-closed"},
		Breaker{Name: "bulk-error-return-leaves-tx-open", File: "internal/api/bulking/bulker.go",
			Old: "if rollbackErr := ctrl.Rollback(ctx); rollbackErr != nil {", New: "if rollbackErr := ctx.Err(); rollbackErr != nil {", Expect: "PAIR/tx-closed"},
		Breaker{Name: "revert-swallows-balance-error", File: "internal/controller/ledger/controller_default.go",
			Old: "\tbalances, err := store.GetBalances(ctx, bq)\n\tif err != nil {\n\t\treturn nil, fmt.Errorf(\"failed to get balances: %w\", err)\n\t}", New: "\tbalances, err := store.GetBalances(ctx, bq)\n\tif err != nil {\n\t\tlogging.FromContext(ctx).Errorf(\"failed to get balances: %v\", err)\n\t}", Expect: "ERRP/error-branch"},
		Breaker{Name: "insertlog-drops-other-constraints-again", File: "internal/storage/ledger/logs.go",
			Old: "\t\t\t\t\treturn fmt.Errorf(\"inserting log: %w\", err)\n\t\t\t\tdefault:", New: "\t\t\t\tdefault:", Expect: "ERRP/error-branch"},
		Breaker{Name: "import-commits-in-error-branch", File: "internal/controller/ledger/controller_default.go",
			Old: "return fmt.Errorf(\"importing log %d: %w\", *log.ID, err)", New: "_ = store.Commit(ctx)\n\t\t\t\treturn fmt.Errorf(\"importing log %d: %w\", *log.ID, err)", Expect: "PAIR/commit-on-success"},
	)
}

func checkC07(c *core.Ctx) {
	c.Decide("every write/lock method of the ledger store (derived from the storage package) is invoked, in all other packages, only on a transaction-scoped store (a callback parameter, a BeginTX result, or an adapter built from one); runLog receives the BeginTX result and hands its own store to the operation; every statement of storage/ledger is built on the store's db field (the field BeginTX swaps) or newScopedSelect; in forgeLog, runTx, Import, handleState and Bulker.Run every path from a successful BeginTX to an exit passes Commit or Rollback, Commit is outside error branches and on the non-dry-run side; no `err != nil` branch in storage/controller/bulk code falls through or returns nil outside the enumerated idioms")
	c.Decide("no event for a failed or dry-run write: the C31 event rules (listener calls only through handleEvent, queued inside a transaction and drained only after the inner Commit returned nil, cleared on Rollback, skipped on error and on DryRun) are obligations of this property too")
	c.NotDecided("that Postgres undoes a rolled-back transaction; behaviour when Rollback itself fails")
	c.Trust("database/sql + bun transaction semantics; class-hierarchy call resolution inside the module (no reflection-based store calls)")
	ruleTxHandleOwnership(c)
	ruleStatementHandle(c)
	rulePairAll(c)
	ruleErrorMustPropagate(c)
	ruleEventsDecorator(c)
	ruleCommitResultPropagated(c)
	// an atomic bulk is rolled back on the failure of any element: the failure must be recorded
	// whatever the other options are (C32's rule, an obligation here too)
	ruleBulkFailureRecorded(c)
}
