package rules

import (
	"fmt"
	"go/ast"
	"go/token"
	"go/types"
	"reflect"
	"regexp"
	"sort"
	"strings"

	"ledgerlint/internal/astx"
	"ledgerlint/internal/core"
	"ledgerlint/internal/sqlfe"
)

func init() {
	register("C09", checkC09)
	register("C10", checkC10)
	register("C34", checkC34)
	addBreakers("C09",
		Breaker{Name: "hash-lock-removed", File: "internal/storage/ledger/logs.go",
			Old: "\t\t\t\t_, err := store.db.NewRaw(`select pg_advisory_xact_lock(?)`, store.ledger.ID).Exec(ctx)\n\t\t\t\tif err != nil {\n\t\t\t\t\treturn postgres.ResolveError(err)\n\t\t\t\t}\n", New: "", Expect: "LOCK/log-insert"},
		Breaker{Name: "hash-lock-after-insert", File: "internal/storage/ledger/logs.go",
			Old: "if store.ledger.HasFeature(features.FeatureHashLogs, \"SYNC\") {\n\t\t\t\t_, err := store.db.NewRaw(`select pg_advisory_xact_lock(?)`, store.ledger.ID).Exec(ctx)", New: "if store.ledger.HasFeature(features.FeatureHashLogs, \"SYNC\") && log.ID != nil {\n\t\t\t\t_, err := store.db.NewRaw(`select pg_advisory_xact_lock(?)`, store.ledger.ID).Exec(ctx)", Expect: "LOCK/log-insert"},
		Breaker{Name: "hash-lock-key-constant", File: "internal/storage/ledger/logs.go",
			Old: "store.db.NewRaw(`select pg_advisory_xact_lock(?)`, store.ledger.ID)", New: "store.db.NewRaw(`select pg_advisory_xact_lock(?)`, len(store.ledger.Name))", Expect: "LOCK/log-insert"},
		Breaker{Name: "predecessor-not-scoped-to-ledger", File: "internal/storage/bucket/migrations/37-clean-database/up.sql",
			Old: "\tselect hash into previousHash\n\tfrom logs\n\twhere ledger = new.ledger\n\torder by id desc", New: "\tselect hash into previousHash\n\tfrom logs\n\torder by id desc", Expect: "HASH/predecessor"},
		Breaker{Name: "predecessor-oldest-instead-of-latest", File: "internal/storage/bucket/migrations/37-clean-database/up.sql",
			Old: "\twhere ledger = new.ledger\n\torder by id desc\n\tlimit 1;", New: "\twhere ledger = new.ledger\n\torder by id\n\tlimit 1;", Expect: "HASH/predecessor"},
		Breaker{Name: "hash-trigger-after-insert", File: "internal/storage/bucket/default_bucket.go",
			Old: "\t\tcreate trigger \"set_log_hash_{{.ID}}\"\n\t\tbefore insert", New: "\t\tcreate trigger \"set_log_hash_{{.ID}}\"\n\t\tafter insert", Expect: "HASH/trigger"},
	)
	addBreakers("C10",
		Breaker{Name: "sql-hash-key-order-changed", File: "internal/storage/bucket/migrations/37-clean-database/up.sql",
			Old: "\t\t'\"type\":\"' || new.type || '\",' ||\n\t\t'\"data\":' || encode(new.memento, 'escape') || ',' ||", New: "\t\t'\"data\":' || encode(new.memento, 'escape') || ',' ||\n\t\t'\"type\":\"' || new.type || '\",' ||", Expect: "HASH/keys"},
		Breaker{Name: "go-hash-struct-field-renamed", File: "internal/log.go",
			Old: "IdempotencyKey string    `json:\"idempotencyKey\"`\n\t\tID             int       `json:\"id\"`", New: "IdempotencyKey string    `json:\"ik\"`\n\t\tID             int       `json:\"id\"`", Expect: "HASH/keys"},
		Breaker{Name: "sql-hash-drops-trailing-newline", File: "internal/storage/bucket/migrations/37-clean-database/up.sql",
			Old: "else '\"' || encode(previousHash::bytea, 'base64')::bytea || E'\"\\n' || marshalledAsJSON::bytea\n\t\t\tend || E'\\n', 'sha256'::text", New: "else '\"' || encode(previousHash::bytea, 'base64')::bytea || E'\"\\n' || marshalledAsJSON::bytea\n\t\t\tend, 'sha256'::text", Expect: "HASH/framing"},
		Breaker{Name: "sql-hash-previous-hex", File: "internal/storage/bucket/migrations/37-clean-database/up.sql",
			Old: "encode(previousHash::bytea, 'base64')::bytea", New: "encode(previousHash::bytea, 'hex')::bytea", Expect: "HASH/framing"},
		Breaker{Name: "go-hash-memento-bypassed", File: "internal/log.go",
			Old: "\tif hv, ok := payload.(Memento); ok {\n\t\tpayload = hv.GetMemento()\n\t}\n\n\tif err := enc.Encode(struct {", New: "\tif hv, ok := payload.(Memento); ok {\n\t\t_ = hv.GetMemento()\n\t}\n\n\tif err := enc.Encode(struct {", Expect: "HASH/memento"},
		Breaker{Name: "stored-memento-is-full-payload", File: "internal/storage/ledger/logs.go",
			Old: "\t\t\t\tmementoObject = memento.GetMemento()\n", New: "\t\t\t\t_ = memento.GetMemento()\n", Expect: "HASH/memento"},
	)
	addBreakers("C34",
		Breaker{Name: "block-select-unordered", File: "internal/storage/bucket/migrations/38-logs-async-hash-procedure/up.sql",
			Old: "\t\twhere id > previous_block.max_log_id and ledger = _ledger\n\t\torder by id\n", New: "\t\twhere id > previous_block.max_log_id and ledger = _ledger\n", Expect: "SQLS/create-block"},
		Breaker{Name: "block-select-other-ledgers", File: "internal/storage/bucket/migrations/38-logs-async-hash-procedure/up.sql",
			Old: "where id > previous_block.max_log_id and ledger = _ledger", New: "where id > previous_block.max_log_id", Expect: "SQLS/create-block"},
		Breaker{Name: "block-range-inclusive", File: "internal/storage/bucket/migrations/38-logs-async-hash-procedure/up.sql",
			Old: "where id > previous_block.max_log_id and ledger = _ledger", New: "where id >= previous_block.max_log_id and ledger = _ledger", Expect: "SQLS/create-block"},
		Breaker{Name: "blocks-pk-without-ledger", File: "internal/storage/bucket/migrations/53-fix-logs-blocks-pkey-collision/up.sql",
			Old: "alter table logs_blocks add primary key (ledger, previous);", New: "alter table logs_blocks add primary key (previous);", Expect: "CAT/logs-blocks"},
		Breaker{Name: "worker-selects-sync-ledgers", File: "internal/storage/worker_async_block.go",
			Old: "query.Match(fmt.Sprintf(\"features[%s]\", features.FeatureHashLogs), \"ASYNC\")", New: "query.Match(fmt.Sprintf(\"features[%s]\", features.FeatureHashLogs), \"SYNC\")", Expect: "DOM/block-worker"},
	)
}

// ---------------- Go side of the hash ----------------

type hashField struct {
	Key       string
	GoType    string
	OmitEmpty bool
}

func goHashFields(c *core.Ctx) ([]hashField, *astx.DeclInfo) {
	d := fn(c, pkgCore, "Log", "ComputeHash")
	if d == nil {
		return nil, nil
	}
	info := d.Pkg.TypesInfo
	var out []hashField
	ast.Inspect(d.Decl.Body, func(n ast.Node) bool {
		cl, ok := n.(*ast.CompositeLit)
		if !ok || out != nil {
			return true
		}
		st, ok := cl.Type.(*ast.StructType)
		if !ok {
			return true
		}
		for _, f := range st.Fields.List {
			tag := ""
			if f.Tag != nil {
				tag = reflect.StructTag(strings.Trim(f.Tag.Value, "`")).Get("json")
			}
			parts := strings.Split(tag, ",")
			hf := hashField{Key: parts[0], GoType: types.TypeString(info.TypeOf(f.Type), func(p *types.Package) string { return p.Name() })}
			for _, p := range parts[1:] {
				if p == "omitempty" {
					hf.OmitEmpty = true
				}
			}
			out = append(out, hf)
		}
		return false
	})
	return out, d
}

// ---------------- SQL side of the hash ----------------

type sqlHashField struct {
	Key   string
	Value string // canonical value expression ("" for literal-only)
	Const string // literal value when the value is part of the string literal
	Cond  string // condition under which the field is appended ("" = always)
}

type sqlHash struct {
	Func      string
	Origin    string
	Fields    []sqlHashField
	Row       string // the row variable (new / r)
	Framing   string // canonical digest argument
	PrevQuery *sqlfe.Stmt
}

var keyRe = regexp.MustCompile(`"([A-Za-z]+)":`)

// flattenConcat lists the operands of a || chain.
func flattenConcat(n *sqlfe.Node) []*sqlfe.Node {
	n = sqlfe.Unparen(n)
	if n.Op == "bin" && n.Text == "||" {
		return append(flattenConcat(n.Args[0]), flattenConcat(n.Args[1])...)
	}
	return []*sqlfe.Node{n}
}

func fieldsOfConcat(ops []*sqlfe.Node, cond string) []sqlHashField {
	var out []sqlHashField
	var cur *sqlHashField
	for _, op := range ops {
		if op.Op == "str" {
			locs := keyRe.FindAllStringSubmatchIndex(op.Text, -1)
			for i, loc := range locs {
				key := op.Text[loc[2]:loc[3]]
				out = append(out, sqlHashField{Key: key, Cond: cond})
				cur = &out[len(out)-1]
				end := len(op.Text)
				if i+1 < len(locs) {
					end = locs[i+1][0]
				}
				rest := strings.Trim(op.Text[loc[1]:end], `," }`)
				if rest != "" {
					cur.Const = rest
				}
			}
			continue
		}
		if cur != nil {
			if cur.Value != "" {
				cur.Value += " || "
			}
			cur.Value += sqlfe.Canon(op)
		}
	}
	return out
}

// installedLogHash resolves the function the per-ledger hash trigger executes and extracts
// the JSON it hashes, inlining compute_hash-style helpers it delegates to.
func installedLogHash(c *core.Ctx) *sqlHash {
	return c.Cache("installedLogHash", func() any {
		ls := ledgerSetups(c)
		cat := c.Catalog()
		var trig *sqlfe.Trigger
		for _, t := range ls.Cat.Triggers {
			if t.Table == "logs" && t.Cond == "HASH_LOGS=SYNC" {
				trig = t
			}
		}
		if trig == nil {
			c.Fail("HASH/trigger", "ledgerSetups:logs-hash-trigger", "", "ledgerSetups installs no trigger on logs under HASH_LOGS=SYNC: no hash would be computed")
			return (*sqlHash)(nil)
		}
		c.Check(trig.Timing == "before" && len(trig.Events) == 1 && trig.Events[0] == "insert", "HASH/trigger", "ledgerSetups:"+trig.Name+":timing", trig.Origin, "before insert", fmt.Sprintf("the hash trigger fires %s %v; it must be BEFORE INSERT to set new.hash", trig.Timing, trig.Events))
		f := cat.Functions[trig.Func]
		if f == nil {
			c.Fail("HASH/trigger", "sql:"+trig.Func+":exists", trig.Origin, "the hash trigger executes "+trig.Func+"() which does not exist after all migrations")
			return (*sqlHash)(nil)
		}
		for _, o := range f.Opaque {
			c.Unknown("HASH/keys", "sql:"+trig.Func+":unparsed", f.Origin, o)
		}
		h := &sqlHash{Func: trig.Func, Origin: f.Origin, Row: "new"}
		c.Notes = append(c.Notes, fmt.Sprintf("installed hash function: %s as last defined at %s (definition history %v)", trig.Func, f.Origin, cat.FuncHistory[trig.Func]))
		body := f
		// delegation: new.hash = helper(previousHash, new)
		for _, st := range f.Stmts {
			if st.Kind == "assign" && st.Table == "new.hash" {
				e := sqlfe.Unparen(st.Set[0].Expr)
				if e.Op == "call" {
					if g := cat.Functions[sqlfe.LastPart(e.Text)]; g != nil {
						body = g
						h.Row = "r"
						h.Func = trig.Func + " -> " + g.Name
						h.Origin = g.Origin
					}
				}
			}
		}
		for _, st := range body.Stmts {
			switch st.Kind {
			case "select":
				if len(st.Into) == 1 && len(st.Cols) == 1 {
					if len(st.From) > 0 {
						h.PrevQuery = st
						continue
					}
					ops := flattenConcat(st.Cols[0].Expr)
					if len(ops) > 3 {
						h.Fields = append(h.Fields, fieldsOfConcat(ops, "")...)
					}
				}
			case "assign":
				e := st.Set[0].Expr
				if strings.EqualFold(st.Table, "marshalledasjson") {
					ops := flattenConcat(e)
					if len(ops) > 1 && sqlfe.Canon(ops[0]) == "marshalledasjson" {
						h.Fields = append(h.Fields, fieldsOfConcat(ops[1:], "conditional")...)
					}
				}
				if st.Table == "new.hash" || strings.HasPrefix(st.Table, "return") {
					sqlfe.Walk(e, func(y *sqlfe.Node) bool { return true })
				}
			}
		}
		// predecessor query lives in the trigger function even when hashing is delegated
		if h.PrevQuery == nil {
			for _, st := range f.Stmts {
				if st.Kind == "select" && len(st.Into) == 1 && len(st.From) > 0 {
					h.PrevQuery = st
				}
			}
		}
		// framing: the digest call
		for _, st := range body.AllStmts() {
			for _, it := range st.Cols {
				sqlfe.Walk(it.Expr, func(y *sqlfe.Node) bool {
					if y.Op == "call" && sqlfe.LastPart(y.Text) == "digest" && len(y.Args) == 2 {
						h.Framing = sqlfe.Canon(y.Args[0])
					}
					return true
				})
			}
		}
		// conditional appends guarded by `if <row>.col is not null` are found token-wise
		bt := sqlfe.Join(body.BodyToks)
		for i := range h.Fields {
			if h.Fields[i].Cond == "conditional" {
				col := ""
				if m := regexp.MustCompile(`if (\w+) \. (\w+) is not null then`).FindStringSubmatch(bt); m != nil {
					col = m[1] + "." + m[2]
				}
				h.Fields[i].Cond = col + " is not null"
			}
		}
		return h
	}).(*sqlHash)
}

// ruleHashAgreement (HASH): ordered key list and per-field encoding class of the Go hashing
// struct versus the SQL function the installed trigger executes.
func ruleHashAgreement(c *core.Ctx) {
	gf, d := goHashFields(c)
	sh := installedLogHash(c)
	if gf == nil || sh == nil || d == nil {
		return
	}
	var gk, sk []string
	for _, f := range gf {
		k := f.Key
		if f.OmitEmpty {
			k += "?"
		}
		gk = append(gk, k)
	}
	for _, f := range sh.Fields {
		k := f.Key
		if f.Cond != "" {
			k += "?"
		}
		sk = append(sk, k)
	}
	c.Floor("HASH/keys", "fields of the Go hashing struct", len(gf), 6)
	c.Floor("HASH/keys", "fields hashed by the installed SQL function", len(sh.Fields), 5)
	// common prefix must agree in order; report missing/extra keys individually
	n := len(gk)
	if len(sk) < n {
		n = len(sk)
	}
	for i := 0; i < n; i++ {
		c.Check(gk[i] == sk[i], "HASH/keys", fmt.Sprintf("position:%d", i+1), sh.Origin, gk[i], fmt.Sprintf("field %d of the hashed JSON is %q in Go (Log.ComputeHash) but %q in SQL (%s): the two hashes differ for every log", i+1, gk[i], sk[i], sh.Func))
	}
	for i := n; i < len(gk); i++ {
		c.Fail("HASH/keys", "missing-in-sql:"+strings.TrimSuffix(gk[i], "?"), sh.Origin, fmt.Sprintf("Go hashes field %q but the function the trigger actually executes (%s, last defined at %s) does not: the hashes differ whenever that field is set", gk[i], sh.Func, sh.Origin))
	}
	for i := n; i < len(sk); i++ {
		c.Fail("HASH/keys", "missing-in-go:"+strings.TrimSuffix(sk[i], "?"), pos(c, d.Decl), fmt.Sprintf("SQL hashes field %q but Log.ComputeHash does not", sk[i]))
	}
	// per-field encoding
	sql := map[string]sqlHashField{}
	for _, f := range sh.Fields {
		sql[f.Key] = f
	}
	enum := c.Catalog().Enums["log_type"]
	for _, f := range gf {
		s, ok := sql[f.Key]
		if !ok {
			continue
		}
		key := "encoding:" + f.Key
		row := sh.Row + "."
		switch f.Key {
		case "type":
			plain := enum != nil
			if enum != nil {
				for _, v := range enum.Values {
					if !regexp.MustCompile(`^[A-Z_]+$`).MatchString(v) {
						plain = false
					}
				}
			}
			c.Check(s.Value == row+"type" && plain, "HASH/encoding", key, sh.Origin, "enum label, needs no JSON escaping", fmt.Sprintf("SQL hashes type as %q; expected the raw enum label (labels are plain ASCII words: %v)", s.Value, plain))
		case "data":
			c.Check(s.Value == "encode("+row+"memento, 'escape')", "HASH/encoding", key, sh.Origin, "memento bytes written by Go, text-escaped and cast back to bytea", "SQL hashes data as "+s.Value+"; expected encode(<row>.memento, 'escape') (the escape text is turned back into the original bytes by the ::bytea cast)")
		case "date":
			c.Check(strings.Contains(s.Value, "to_json("+row+"date::timestamp)") && strings.HasSuffix(s.Value, "'Z'") == false, "HASH/encoding", key, sh.Origin, "to_json(date::timestamp) + Z (equality of the rendering with Go's RFC3339 is not decided)", "SQL hashes date as "+s.Value)
		case "idempotencyKey":
			// Go: encoding/json string (quotes, backslash, <, >, &, control and invalid UTF-8 are escaped); SQL: raw text
			escaped := strings.Contains(s.Value, "to_json") || strings.Contains(s.Value, "quote")
			c.Check(escaped, "HASH/encoding", key, sh.Origin, "JSON-escaped on both sides", fmt.Sprintf("Go writes the idempotency key as a JSON string (escaping \", \\, <, >, & and control characters) but SQL concatenates the raw column (%s): the hashes differ for any key containing such a character, and a backslash makes the ::bytea cast fail or change bytes", s.Value))
		case "id":
			c.Check(s.Const == "0", "HASH/encoding", key, sh.Origin, "constant 0", "SQL hashes id as "+s.Const+s.Value)
		case "hash":
			c.Check(s.Const == "null", "HASH/encoding", key, sh.Origin, "constant null", "SQL hashes hash as "+s.Const+s.Value)
		case "schemaVersion":
			escaped := strings.Contains(s.Value, "to_json")
			c.Check(f.OmitEmpty == (s.Cond != "") && escaped, "HASH/encoding", key, sh.Origin, "omitted when empty, JSON-escaped", fmt.Sprintf("schemaVersion: Go omitempty=%v, SQL condition %q, SQL value %s (raw concatenation is not JSON-escaped)", f.OmitEmpty, s.Cond, s.Value))
		}
	}
	// framing
	want := `case[(previoushash is null); marshalledasjson::bytea; else ((('"' || encode(previoushash::bytea, 'base64')::bytea) || '"` + "\n" + `') || marshalledasjson::bytea)]`
	fr := strings.ReplaceAll(sh.Framing, "previous_hash", "previoushash")
	okFr := strings.HasPrefix(fr, "(") && strings.Contains(fr, want) && strings.HasSuffix(fr, "|| '\n')")
	c.Check(okFr, "HASH/framing", "sql:"+sh.Func, sh.Origin, "sha256( [\"<base64 previous hash>\"\\n] <json> \\n )", "the digest argument is "+sh.Framing+"; Go hashes json(previous hash)+\"\\n\" (when there is a predecessor) followed by the JSON object and \"\\n\"")
	// Go framing: enc.Encode(previous.Hash) under previous != nil, then the struct
	info := d.Pkg.TypesInfo
	encPrev := false
	for _, call := range callsTo(info, d.Decl.Body, named("Encode")) {
		if len(call.Args) == 1 && canonPath(d, call.Args[0]) == "p0.Hash" {
			for _, f := range astx.FactsAt(info, d.Decl.Body, call.Pos()) {
				if be, isBin := ast.Unparen(f.Cond).(*ast.BinaryExpr); isBin && !f.Positive && be.Op == token.EQL && canonPath(d, be.X) == "p0" && astx.IsNilExpr(info, be.Y) {
					encPrev = true
				}
			}
		}
	}
	c.Check(encPrev, "HASH/framing", "go:previous-hash-first", pos(c, d.Decl), "json(previous.Hash) first when there is a predecessor", "Log.ComputeHash no longer prefixes the predecessor's hash")
}

// ruleMemento: the bytes stored in logs.memento are json.Marshal of the same memento object
// ComputeHash hashes.
func ruleMemento(c *core.Ctx) {
	d := fn(c, pkgCore, "Log", "ComputeHash")
	s := fn(c, pkgStore, "Store", "InsertLog")
	if d == nil || s == nil {
		return
	}
	isMemento := func(f *types.Func) bool { return f.Name() == "GetMemento" }
	// the value hashed as `data` may come from GetMemento()
	{
		var dataVals []ast.Expr
		inScope(fnScope(c, d, 1), func(sd *astx.DeclInfo) {
			ast.Inspect(sd.Decl.Body, func(n ast.Node) bool {
				if kv, ok := n.(*ast.KeyValueExpr); ok {
					if k, isK := kv.Key.(*ast.Ident); isK && k.Name == "Data" && sd == d {
						dataVals = append(dataVals, kv.Value)
					}
				}
				return true
			})
		})
		if len(dataVals) == 0 {
			c.Unrecognised("HASH/memento", "go:ComputeHash-hashes-memento", pos(c, d.Decl), "no `Data:` field in the struct ComputeHash encodes")
		} else {
			ok := true
			for _, v := range dataVals {
				ok = ok && mayFlowFromCall(c, d, v, isMemento, nil, 0, map[types.Object]bool{})
			}
			c.Check(ok, "HASH/memento", "go:ComputeHash-hashes-memento", pos(c, d.Decl), "payload = GetMemento() when available", "Log.ComputeHash hashes the full payload instead of its memento")
		}
	}
	// both sides must produce the same bytes for the memento: the stored column is written by
	// json.Marshal (default escaping), so the hashing encoder must keep the defaults too
	{
		di := d.Pkg.TypesInfo
		var opts []string
		ast.Inspect(d.Decl.Body, func(n ast.Node) bool {
			if call, ok := n.(*ast.CallExpr); ok {
				if f := astx.Callee(di, call); f != nil && f.Pkg() != nil && f.Pkg().Path() == "encoding/json" && (f.Name() == "SetEscapeHTML" || f.Name() == "SetIndent") {
					opts = append(opts, f.Name())
				}
			}
			return true
		})
		c.Check(len(opts) == 0, "HASH/memento", "go:ComputeHash-encoder-defaults", pos(c, d.Decl), "json.Encoder with default escaping and no indentation", "Log.ComputeHash changes the encoder's defaults ("+strings.Join(opts, ", ")+") while the memento column Postgres hashes is written by json.Marshal with the defaults: the two sides hash different bytes for any text containing <, > or &")
	}
	// the stored memento column is json.Marshal of a value that may come from GetMemento()
	{
		var memVals []ast.Expr
		ast.Inspect(s.Decl.Body, func(n ast.Node) bool {
			if cl, ok := n.(*ast.CompositeLit); ok {
				if v := fieldOfCompositeLit(cl, "Memento"); v != nil {
					memVals = append(memVals, v)
				}
			}
			return true
		})
		if len(memVals) == 0 {
			c.Unrecognised("HASH/memento", "go:InsertLog-stores-memento", pos(c, s.Decl), "no `Memento:` field written in InsertLog")
		} else {
			ok := true
			for _, v := range memVals {
				ok = ok && mayFlowFromCall(c, s, v, isMemento, map[string]bool{"Marshal": true}, 0, map[types.Object]bool{})
			}
			c.Check(ok, "HASH/memento", "go:InsertLog-stores-memento", pos(c, s.Decl), "logs.memento = json.Marshal(GetMemento())", "the memento column no longer holds json.Marshal of the payload's memento: SQL would hash different bytes than Go")
		}
	}
}

func rulePredecessor(c *core.Ctx) {
	sh := installedLogHash(c)
	if sh == nil {
		return
	}
	q := sh.PrevQuery
	if q == nil {
		c.Fail("HASH/predecessor", "sql:"+sh.Func+":query", sh.Origin, "the hash function does not read the predecessor's hash")
		return
	}
	var conj []string
	for _, cj := range sqlfe.Conjuncts(q.Where) {
		conj = append(conj, sqlfe.Canon(cj))
	}
	tab := ""
	if len(q.From) == 1 {
		tab = sqlfe.NormName(q.From[0].Table)
	}
	ordered := len(q.OrderBy) == 1 && q.OrderBy[0].Desc && q.Limit != nil && sqlfe.Canon(q.Limit) == "1"
	ordCol := ""
	if len(q.OrderBy) == 1 {
		ordCol = sqlfe.Canon(q.OrderBy[0].Expr)
	}
	// the order key must be unique per ledger and exist in the final table
	uniq := false
	if t := c.Catalog().Tables["logs"]; t != nil && t.Col(ordCol) != nil {
		for _, ix := range c.Catalog().Indexes {
			if ix.Table == "logs" && ix.Unique && len(ix.Cols) > 0 && ix.Cols[len(ix.Cols)-1] == ordCol {
				uniq = true
			}
		}
	}
	c.Check(tab == "logs" && eqStrings(conj, []string{"(ledger = new.ledger)"}) && ordered && uniq, "HASH/predecessor", "sql:"+sh.Func, sh.Origin, "latest log of the same ledger by a unique key",
		fmt.Sprintf("the predecessor is read as `from %s where %v order by %s desc=%v limit 1` (order key unique/existing=%v); it must be the latest log of new.ledger by a unique, existing key — otherwise two logs can chain from the same predecessor or from another ledger's log", tab, conj, ordCol, ordered, uniq))
}

// hashLockGuards: the HASH_LOGS values under which InsertLog takes the per-ledger lock.
func ruleLogInsertLock(c *core.Ctx) []string {
	d := fn(c, pkgStore, "Store", "InsertLog")
	if d == nil {
		return nil
	}
	m := bunModel(c, pkgStore)
	info := d.Pkg.TypesInfo
	key := declKey(d)
	var locks, inserts []int
	var vals []string
	stmts := stmtsInScope(c, m, d, 1)
	okLock := false
	for i, ss := range stmts {
		s := ss.S
		if s.Kind == "raw" && strings.Contains(strings.ToLower(s.RawText), "pg_advisory_xact_lock") {
			locks = append(locks, i)
			facts := scopeFactsAtPos(d, ss.D, s.Pos())
			ff := astx.FeatureFacts(info, facts)
			for k, v := range ff {
				if v && strings.HasPrefix(k, "HASH_LOGS=") {
					vals = append(vals, strings.TrimPrefix(k, "HASH_LOGS="))
				}
			}
			others := 0
			for _, f := range facts {
				if astx.AsFeatureTest(info, f.Cond) == nil && !isErrNilTest(info, f.Cond) {
					others++
				}
			}
			keyArg := ""
			if len(s.RawArgs) == 1 {
				keyArg = argKind(s.RawArgs[0])
			}
			onDB := s.Handle != nil && strings.HasSuffix(astx.SelectorPath(s.Handle), ".db")
			okLock = others == 0 && keyArg == "ledger.ID" && onDB && s.Terminal == "Exec"
			c.Check(okLock, "LOCK/log-insert", key+":lock-statement", posOf(c, s.Pos()), "pg_advisory_xact_lock(<ledger id>) on store.db, under the feature test only", fmt.Sprintf("the per-ledger transaction lock must be taken on the store's db with the ledger id as key and depend on nothing but the HASH_LOGS test (key=%q on-db=%v extra-conditions=%d executed=%v)", keyArg, onDB, others, s.Terminal == "Exec"))
		}
		if s.Kind == "insert" {
			inserts = append(inserts, i)
		}
	}
	if len(locks) == 0 && len(inserts) >= 1 {
		c.Fail("LOCK/log-insert", key+":statements", pos(c, d.Decl), "InsertLog takes no pg_advisory_xact_lock before inserting the log row")
		return vals
	}
	if len(locks) != 1 || len(inserts) != 1 {
		c.Unrecognised("LOCK/log-insert", key+":statements", pos(c, d.Decl), fmt.Sprintf("expected one lock statement and one insert in InsertLog and its helpers (found %d and %d)", len(locks), len(inserts)))
		return vals
	}
	lk, in := stmts[locks[0]], stmts[inserts[0]]
	lp, ip := rootPosOf(d, lk.D, lk.S.Pos()), rootPosOf(d, in.D, in.S.Pos())
	before := lp != token.NoPos && ip != token.NoPos && lp < ip
	// lock error leaves the function
	leaves := false
	if site := callSiteIn(d, lk.D); site != nil {
		leaves = errLeaves(info, d.Decl.Body, site) || assignedErrChecked(info, d.Decl.Body, site)
	} else {
		ast.Inspect(d.Decl.Body, func(n ast.Node) bool {
			is, ok := n.(*ast.IfStmt)
			if ok && is.End() > lk.S.Pos() && is.Pos() < ip && len(errorCondVars(info, is.Cond)) > 0 && astx.Terminates(info, is.Body.List) {
				leaves = true
			}
			return true
		})
	}
	c.Check(before && leaves, "LOCK/log-insert", key+":lock-before-insert", pos(c, d.Decl), "lock, error returns, then insert", "the lock must be taken (and its error returned) before the log row is inserted")
	sort.Strings(vals)
	return vals
}

// ================= C09 =================

func checkC09(c *core.Ctx) {
	c.Decide("under HASH_LOGS=SYNC InsertLog takes pg_advisory_xact_lock(<ledger id>) on the store's db before inserting and returns its error; ledgerSetups installs a BEFORE INSERT trigger on logs for the ledger that executes a function existing after all migrations; that function reads as predecessor the latest log of the same ledger by a unique existing key; the JSON it hashes has the same ordered keys and per-field encoding as Log.ComputeHash and the same framing (shared with C10)")
	c.NotDecided("advisory-lock semantics and linearity under real concurrency; byte-exact date rendering")
	c.Trust("pg_advisory_xact_lock serialises transactions holding the same key")
	vals := ruleLogInsertLock(c)
	c.Check(eqStrings(vals, []string{"SYNC"}) || len(vals) > 1 && stmtMayRead(vals, "SYNC"), "LOCK/log-insert", "guard-covers-SYNC", "", "lock taken when HASH_LOGS=SYNC", fmt.Sprintf("the lock is taken under HASH_LOGS ∈ %v; it must cover SYNC (the trigger reads the previous log)", vals))
	installedLogHash(c)
	rulePredecessor(c)
	ruleHashAgreement(c)
	ruleMemento(c)
	ruleReadCommitted(c)
}

// ================= C10 =================

func checkC10(c *core.Ctx) {
	c.Decide("the function the per-ledger hash trigger really executes (resolved through ledgerSetups and the folded catalog, helpers inlined) hashes a JSON object whose ordered key list, optional fields and per-field encoding class equal those of the struct Log.ComputeHash encodes; the framing (base64 of the previous hash in quotes + newline, object, newline) agrees; logs.memento holds json.Marshal of the same memento ComputeHash hashes")
	c.NotDecided("byte-exact rendering of dates and of non-ASCII text by Postgres; the SQL cannot be executed here")
	c.Trust("encoding/json escaping rules; Postgres encode(…, 'escape') / ::bytea round trip")
	ruleHashAgreement(c)
	ruleMemento(c)
	// the two sides agree only if SQL chains on the log Go chains on (the latest log of the
	// ledger), and that log is the same for both only while writers are serialised until commit
	rulePredecessor(c)
	ruleLogInsertLock(c)
}

// ================= C34 =================

func checkC34(c *core.Ctx) {
	c.Decide("create_block reads the logs of one ledger with id greater than the previous block's max id, ordered by id, chains previous_block.hash and records (previous, from, to); logs_blocks is keyed by (ledger, previous); the worker processes exactly the ledgers with HASH_LOGS=ASYNC; lock coverage: for every HASH_LOGS value that has an order-dependent consumer (SYNC: the hash trigger; ASYNC: create_block's `id > previous max`), InsertLog must take the per-ledger transaction lock before inserting")
	c.NotDecided("actual block contents and the interleavings themselves")
	c.Trust("a log whose id is below an already-built block's max id is never picked up by `id > max` again")
	ruleBlockWorkerLoop(c)
	// blocks cover id ranges in the order they are built: an import may not insert a log below an
	// id that is already there (C12/C16's rule, an obligation here too)
	ruleImportIDOrder(c)
	cat := c.Catalog()
	f := cat.Functions["create_block"]
	if f == nil {
		c.Fail("SQLS/create-block", "sql:create_block:exists", "", "create_block() does not exist after all migrations")
	} else {
		var sel *sqlfe.Stmt
		for _, st := range f.AllStmts() {
			if st.Kind == "select" && len(st.From) == 1 && sqlfe.NormName(st.From[0].Table) == "logs" && st.Limit != nil {
				sel = st
			}
		}
		ok := false
		detail := "no select over logs with a limit"
		if sel != nil {
			var conj []string
			for _, cj := range sqlfe.Conjuncts(sel.Where) {
				conj = append(conj, sqlfe.Canon(cj))
			}
			sort.Strings(conj)
			ord := len(sel.OrderBy) == 1 && sqlfe.Canon(sel.OrderBy[0].Expr) == "id" && !sel.OrderBy[0].Desc
			ok = eqStrings(conj, []string{"(_ledger = ledger)", "(id > previous_block.max_log_id)"}) && ord
			detail = fmt.Sprintf("where %v, ordered by id asc=%v", conj, ord)
		}
		c.Check(ok, "SQLS/create-block", "sql:create_block:log-range", f.Origin, "logs of _ledger with id > previous max, order by id, limit", "create_block selects its logs with "+detail+"; expected `where id > previous_block.max_log_id and ledger = _ledger order by id limit max_block_size`")
		var ins *sqlfe.Stmt
		for _, st := range f.Stmts {
			if st.Kind == "insert" && sqlfe.NormName(st.Table) == "logs_blocks" {
				ins = st
			}
		}
		okIns := false
		if ins != nil && len(ins.Values) == 1 {
			vals := map[string]string{}
			for i, col := range ins.Columns {
				if i < len(ins.Values[0]) {
					vals[col] = sqlfe.Canon(ins.Values[0][i])
				}
			}
			okIns = vals["ledger"] == "_ledger" && vals["previous"] == "previous_block.block_id" && vals["from_id"] == "previous_block.max_log_id" && vals["to_id"] == "max_log_id" && vals["hash"] == "hash"
		}
		c.Check(okIns, "SQLS/create-block", "sql:create_block:block-row", f.Origin, "(ledger, previous block id, from = previous max, to = new max, hash)", "the block row is not recorded as (ledger=_ledger, previous=previous_block.block_id, from_id=previous_block.max_log_id, to_id=max_log_id, hash)")
		chain := strings.Contains(sqlfe.Join(f.BodyToks), "coalesce ( previous_block . hash")
		c.Check(chain, "SQLS/create-block", "sql:create_block:chains-previous-hash", f.Origin, "digest(previous_block.hash || …)", "the block hash no longer includes the previous block's hash")
	}
	if t := cat.Tables["logs_blocks"]; t != nil {
		c.Check(eqStrings(t.PK, []string{"ledger", "previous"}), "CAT/logs-blocks", "primary-key", t.Origin, "(ledger, previous)", fmt.Sprintf("logs_blocks is keyed by %v; (ledger, previous) is what keeps two blocks of one ledger from sharing a predecessor while letting ledgers of a bucket be independent", t.PK))
	} else {
		c.Fail("CAT/logs-blocks", "exists", "", "table logs_blocks does not exist after all migrations")
	}
	// lock coverage
	consumers := map[string]string{}
	if sh := installedLogHash(c); sh != nil && sh.PrevQuery != nil {
		consumers["SYNC"] = "the hash trigger reads the previous log"
	}
	// the worker's ledger filter
	if d := fn(c, pkgStorageTop, "AsyncBlockRunner", "run"); d != nil {
		info := d.Pkg.TypesInfo
		for _, call := range callsTo(info, d.Decl.Body, named("Match")) {
			if len(call.Args) == 2 {
				ev := newEval(d)
				k, _ := ev.Eval(call.Args[0])
				v, ok := astx.ConstString(info, call.Args[1])
				if len(k) == 1 && k[0] == "features[HASH_LOGS]" && ok {
					consumers[v] = "create_block selects logs with id > the previous block's max id, in id order"
					// the ledgers whose logs are to be covered by blocks are the ASYNC ones
					c.Check(v == "ASYNC", "DOM/block-worker", declKey(d)+":ledger-filter", pos(c, call), "the worker builds blocks for the ledgers with HASH_LOGS=ASYNC", fmt.Sprintf("the block worker selects the ledgers with HASH_LOGS=%s: the logs of the HASH_LOGS=ASYNC ledgers are never put in a block", v))
				}
			}
		}
	}
	vals := ruleLogInsertLock(c)
	c.Floor("LOCK/coverage", "HASH_LOGS values with an order-dependent consumer", len(consumers), 2)
	for _, v := range sqlfe.SortedKeys(consumers) {
		c.Check(stmtMayRead(vals, v), "LOCK/coverage", "HASH_LOGS="+v, "", "InsertLog takes the per-ledger lock", fmt.Sprintf("with HASH_LOGS=%s %s, which assumes logs become visible in id order; InsertLog takes the per-ledger lock only for %v, so a log with a lower id can commit after a block (or a hash) already passed it", v, consumers[v], vals))
	}
}
