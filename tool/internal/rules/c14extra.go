package rules

import (
	"fmt"
	"go/ast"
	"go/types"
	"sort"
	"strings"

	"ledgerlint/internal/astx"
	"ledgerlint/internal/core"
	"ledgerlint/internal/load"
	"ledgerlint/internal/sqlfe"
)

func init() {
	addBreakers("C14",
		Breaker{Name: "error-chain-cut-in-retry-loop", File: "internal/controller/ledger/log_process.go",
			Old: "\t\t\t\treturn nil, nil, false, fmt.Errorf(\"unexpected error while forging log: %w\", err)", New: "\t\t\t\treturn nil, nil, false, fmt.Errorf(\"unexpected error while forging log: %s\", err)", Expect: "WRAP/error-chain"},
		Breaker{Name: "bucket-wide-unique-reference", File: "internal/storage/bucket/migrations/14-transaction-reference-index/up.sql",
			Old: "transactions_reference2 on \"{{.Schema}}\".transactions (ledger, reference) where reference <> '';", New: "transactions_reference2 on \"{{.Schema}}\".transactions (ledger, reference) where reference <> '';\ncreate unique index transactions_reference_lookup on \"{{.Schema}}\".transactions (reference) where reference <> '';", Expect: "CAT/unique-scope"},
	)
}

// ruleUniqueContinuity: once a unique constraint exists, no migration file may leave the schema
// without it if a later file brings it back — during an upgrade the bucket is live between files.
func ruleUniqueContinuity(c *core.Ctx, rule string, tables ...string) {
	snaps := c.Catalog().UniqueSnapshots
	c.Floor(rule, "migration snapshots", len(snaps), 40)
	want := map[string]bool{}
	for _, t := range tables {
		want[t] = true
	}
	keys := map[string]bool{}
	for _, s := range snaps {
		for k := range s.Keys {
			if len(want) == 0 || want[k[:strings.IndexByte(k, '(')]] {
				keys[k] = true
			}
		}
	}
	var ks []string
	for k := range keys {
		ks = append(ks, k)
	}
	sort.Strings(ks)
	for _, k := range ks {
		first := -1
		gapFrom, gapTo := "", ""
		for i, s := range snaps {
			if s.Keys[k] {
				if first < 0 {
					first = i
				}
				if gapFrom != "" && gapTo == "" {
					gapTo = s.File
				}
				continue
			}
			if first >= 0 && gapFrom == "" {
				gapFrom = s.File
			}
		}
		if gapFrom != "" && gapTo != "" {
			c.Fail(rule, "continuity:"+k, gapFrom, fmt.Sprintf("the unique constraint %s is dropped by %s and only re-created by %s: while a live bucket is being upgraded there is a window without the constraint, duplicates can be committed (and the re-creation then fails)", k, gapFrom, gapTo))
		} else {
			c.Pass(rule, "continuity:"+k, "", "never absent between two migrations that have it")
		}
	}
}

// ruleUniqueScope: a unique constraint on a table shared by the ledgers of a bucket must include
// the ledger column, otherwise one ledger's rows restrict another's.
func ruleUniqueScope(c *core.Ctx, rule string, tables ...string) {
	cat := c.Catalog()
	want := map[string]bool{}
	for _, t := range tables {
		want[t] = true
	}
	n := 0
	for _, name := range sqlfe.SortedKeys(cat.Indexes) {
		ix := cat.Indexes[name]
		if !ix.Unique {
			continue
		}
		if len(want) > 0 && !want[ix.Table] {
			continue
		}
		tb := cat.Tables[ix.Table]
		if tb == nil || tb.Col("ledger") == nil {
			continue
		}
		// surrogate keys drawn from a bucket-wide sequence carry no user value: unique across the
		// bucket by construction and harmless
		surrogate := len(ix.Cols) > 0
		for _, col := range ix.Cols {
			cc := tb.Col(col)
			if cc == nil || !(strings.Contains(strings.ToLower(cc.Type), "serial") || strings.Contains(strings.ToLower(cc.Default), "nextval")) {
				surrogate = false
			}
		}
		if surrogate {
			continue
		}
		n++
		has := false
		for _, col := range ix.Cols {
			if col == "ledger" {
				has = true
			}
		}
		c.Check(has, rule, "scope:"+sqlfe.UniqueKey(ix), ix.Origin, "unique per ledger (ledger column in the key)", fmt.Sprintf("unique index %s on %s%v does not include the ledger column: the constraint holds across all ledgers of the bucket, so a value used in one ledger is refused in another", name, ix.Table, ix.Cols))
	}
	c.Floor(rule, "unique indexes on bucket tables", n, 2)
}

// wrapAllow: fmt.Errorf calls that deliberately flatten an error (the text is user-facing and no
// caller matches on the cause); one reason each.
var wrapAllow = map[string]string{}

// ruleErrorChainKept: on the write path every fmt.Errorf that embeds an error uses %w, so that the
// API layer's errors.Is / errors.As still recognise conflicts, validation errors and missing
// resources after any number of wrappers.
func ruleErrorChainKept(c *core.Ctx) {
	errT := types.Universe.Lookup("error").Type().Underlying().(*types.Interface)
	n := 0
	// the controller and storage packages are where the typed errors the handlers match on are
	// produced and relayed (bulking and the system controller flatten begin/commit/lock failures,
	// which no handler matches on)
	for _, rel := range []string{pkgCtrl, pkgStore, pkgCommon} {
		pk := c.Prog().Pkg(rel)
		if pk == nil {
			continue
		}
		info := pk.TypesInfo
		for _, f := range pk.Syntax {
			if load.IsGenerated(f) {
				continue
			}
			for _, dd := range f.Decls {
				fd, ok := dd.(*ast.FuncDecl)
				if !ok || fd.Body == nil {
					continue
				}
				fkey := enclKey(rel, fd)
				occ := 0
				ast.Inspect(fd.Body, func(x ast.Node) bool {
					call, ok := x.(*ast.CallExpr)
					if !ok {
						return true
					}
					cal := astx.Callee(info, call)
					if cal == nil || cal.Pkg() == nil || cal.Pkg().Path() != "fmt" || cal.Name() != "Errorf" || len(call.Args) < 2 {
						return true
					}
					format, ok := astx.ConstString(info, call.Args[0])
					if !ok {
						return true
					}
					errArgs := 0
					for _, a := range call.Args[1:] {
						if t := info.TypeOf(a); t != nil && types.Implements(t, errT) {
							errArgs++
						}
					}
					if errArgs == 0 {
						return true
					}
					occ++
					n++
					key := fmt.Sprintf("%s:errorf#%d", fkey, occ)
					if why, ok := wrapAllow[fkey]; ok {
						c.Pass("WRAP/error-chain", key, pos(c, call), "allowed: "+why)
						return true
					}
					c.Check(strings.Count(format, "%w") >= 1, "WRAP/error-chain", key, pos(c, call), "%w keeps the cause", fmt.Sprintf("fmt.Errorf(%q, …) embeds an error without %%w: the cause is flattened to text, errors.Is/As in the API layer no longer recognise it, and a conflict or validation error is answered as 500", format))
					return true
				})
			}
		}
	}
	c.Floor("WRAP/error-chain", "fmt.Errorf calls embedding an error on the write path", n, 40)
}

// ruleReferenceReachesStore: the reference a client gives is the one stored (and therefore the one
// the unique index sees). In createTransaction the committed transaction takes it from
// parameters.Input.Reference, and nothing on the way replaces the request (or the RunScript that
// holds the reference) with a value that lost it.
func ruleReferenceReachesStore(c *core.Ctx) {
	d := fn(c, pkgCtrl, "DefaultController", "createTransaction")
	if d == nil {
		return
	}
	info := d.Pkg.TypesInfo
	key := declKey(d)
	env := newOriginEnv(c, d)
	var committed string
	for _, call := range callsTo(info, d.Decl.Body, named("CommitTransaction")) {
		if len(call.Args) == 2 {
			committed = env.origin(call.Args[1])
		}
	}
	switch {
	case committed == "" || strings.HasPrefix(committed, "?"):
		c.Unrecognised("DOM/reference-stored", key+":with-reference", pos(c, d.Decl), "the committed transaction is not built in a way the rule reads")
	default:
		i := strings.Index(committed, ".WithReference(")
		ok := false
		if i >= 0 {
			rest := committed[i+len(".WithReference("):]
			if j := strings.Index(rest, ")"); j >= 0 && strings.HasSuffix(rest[:j], ".Reference") && strings.HasPrefix(rest[:j], "param:") {
				ok = true
			}
		}
		c.Check(ok, "DOM/reference-stored", key+":with-reference", pos(c, d.Decl), "WithReference(parameters.Input.Reference)", "the transaction createTransaction commits does not carry the request's reference (committed: "+committed+"): the row is stored without it and the unique index cannot refuse a second use of the reference")
	}
	// nothing replaces the request's RunScript (or the reference itself) on the way
	n := 0
	ast.Inspect(d.Decl.Body, func(x ast.Node) bool {
		as, ok := x.(*ast.AssignStmt)
		if !ok {
			return true
		}
		for i, l := range as.Lhs {
			p := canonPath(d, l)
			if !strings.HasPrefix(p, "p") || !(strings.HasSuffix(p, ".Input") || strings.HasSuffix(p, ".Input.RunScript") || strings.HasSuffix(p, ".Reference")) {
				continue
			}
			n++
			keeps := false
			if i < len(as.Rhs) {
				if cl, isLit := ast.Unparen(as.Rhs[i]).(*ast.CompositeLit); isLit {
					if v := fieldOfCompositeLit(cl, "Reference"); v != nil && strings.HasSuffix(astx.SelectorPath(v), ".Reference") {
						keeps = true
					}
				} else if strings.HasSuffix(astx.SelectorPath(as.Rhs[i]), ".Reference") {
					keeps = true
				}
			}
			c.Check(keeps, "DOM/reference-stored", fmt.Sprintf("%s:request-replaced#%d", key, n), pos(c, as), "the replacement keeps the reference", "createTransaction replaces "+types.ExprString(l)+" with a value that does not carry the request's reference: requests taking this path (e.g. template-based ones) are stored with an empty reference and a reused reference is accepted")
		}
		return true
	})
}
