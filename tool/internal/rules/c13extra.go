package rules

import (
	"fmt"
	"go/ast"
	"go/token"
	"go/types"
	"strings"

	"ledgerlint/internal/astx"
	"ledgerlint/internal/core"
)

func init() {
	addBreakers("C13",
		Breaker{Name: "operation-mutates-request-metadata", File: "internal/controller/ledger/controller_default.go",
			Old: "\tfinalMetadata := result.Metadata\n\tif finalMetadata == nil {\n\t\tfinalMetadata = metadata.Metadata{}\n\t}\n\tfor k, v := range parameters.Input.Metadata {", New: "\tfinalMetadata := parameters.Input.Metadata\n\tif finalMetadata == nil {\n\t\tfinalMetadata = metadata.Metadata{}\n\t}\n\tfor k, v := range result.Metadata {", Expect: "ALIAS/request-input"},
		Breaker{Name: "ik-lookup-drops-hash-column", File: "internal/storage/ledger/logs.go",
			Old: "\t\t\t\tColumn(\"*\").\n\t\t\t\tWhere(\"idempotency_key = ?\", key).", New: "\t\t\t\tColumn(\"id\", \"type\", \"date\", \"data\", \"hash\", \"idempotency_key\", \"schema_version\").\n\t\t\t\tWhere(\"idempotency_key = ?\", key).", Expect: "SQLS/ik-lookup"},
	)
}

// forgeLogCallbacks returns the functions passed as the operation to logProcessor.forgeLog.
func forgeLogCallbacks(c *core.Ctx) []*astx.DeclInfo {
	fl := fn(c, pkgCtrl, "logProcessor", "forgeLog")
	if fl == nil {
		return nil
	}
	ix := index(c)
	var out []*astx.DeclInfo
	seen := map[*types.Func]bool{}
	for _, s := range ix.SitesOf(fl.Obj) {
		if len(s.Call.Args) != 4 {
			continue
		}
		if se, ok := ast.Unparen(s.Call.Args[3]).(*ast.SelectorExpr); ok {
			if f, ok := s.Pkg.TypesInfo.Uses[se.Sel].(*types.Func); ok && !seen[f] {
				seen[f] = true
				if d := ix.Decls[f]; d != nil {
					out = append(out, d)
				}
			}
		}
	}
	return out
}

// ruleRequestInputNotMutated: the idempotency hash stamped on the log is computed from
// parameters.Input after the operation ran, so the operation must not write through any map or
// slice of the request (directly or through a local alias): otherwise the stored hash no longer
// matches the request and an identical replay is refused as "different input".
func ruleRequestInputNotMutated(c *core.Ctx) {
	cbs := forgeLogCallbacks(c)
	c.Floor("ALIAS/request-input", "operations passed to forgeLog", len(cbs), 7)
	for _, d := range cbs {
		info := d.Pkg.TypesInfo
		key := declKey(d)
		// the parameters parameter
		var param types.Object
		for _, p := range d.Decl.Type.Params.List {
			for _, nm := range p.Names {
				if t := info.TypeOf(p.Type); t != nil && strings.HasPrefix(astx.RecvTypeName(t), "Parameters") {
					param = info.ObjectOf(nm)
				}
			}
		}
		if param == nil {
			c.Unknown("ALIAS/request-input", key+":parameters", pos(c, d.Decl), "no Parameters[...] parameter found")
			continue
		}
		rootsInInput := func(e ast.Expr) bool {
			// parameters.Input.<…>
			p := astx.SelectorPath(e)
			id := astx.RootIdent(e)
			return id != nil && info.ObjectOf(id) == param && strings.Contains(p, ".Input")
		}
		isRefType := func(e ast.Expr) bool {
			t := info.TypeOf(e)
			if t == nil {
				return false
			}
			switch t.Underlying().(type) {
			case *types.Map, *types.Slice, *types.Pointer:
				return true
			}
			return false
		}
		// aliases: locals assigned (without copying) from a map/slice/pointer inside parameters.Input
		alias := map[types.Object]bool{}
		changed := true
		for changed {
			changed = false
			ast.Inspect(d.Decl.Body, func(n ast.Node) bool {
				as, ok := n.(*ast.AssignStmt)
				if !ok || len(as.Lhs) != len(as.Rhs) {
					return true
				}
				for i, r := range as.Rhs {
					r = ast.Unparen(r)
					src := false
					if isRefType(r) {
						if rootsInInput(r) {
							src = true
						} else if id, ok := r.(*ast.Ident); ok && alias[info.ObjectOf(id)] {
							src = true
						} else if ix, ok := r.(*ast.IndexExpr); ok {
							if id := astx.RootIdent(ix.X); id != nil && (alias[info.ObjectOf(id)] || rootsInInput(ix.X)) {
								src = true
							}
						}
					}
					if !src {
						continue
					}
					if l, ok := as.Lhs[i].(*ast.Ident); ok {
						if o := info.ObjectOf(l); o != nil && !alias[o] && o != param {
							alias[o] = true
							changed = true
						}
					}
				}
				return true
			})
		}
		writes := 0
		report := func(at ast.Node, what string) {
			writes++
			c.Fail("ALIAS/request-input", fmt.Sprintf("%s:write#%d", key, writes), pos(c, at), "the operation writes through the request's own data ("+what+"): the idempotency hash stamped on the log is computed from parameters.Input after the operation ran, so an identical replay no longer matches the stored hash and is refused as a different input")
		}
		targetsInput := func(e ast.Expr) bool {
			ix, ok := ast.Unparen(e).(*ast.IndexExpr)
			if !ok {
				return false
			}
			if rootsInInput(ix.X) {
				return true
			}
			if id := astx.RootIdent(ix.X); id != nil && alias[info.ObjectOf(id)] {
				return true
			}
			return false
		}
		ast.Inspect(d.Decl.Body, func(n ast.Node) bool {
			switch x := n.(type) {
			case *ast.AssignStmt:
				for _, l := range x.Lhs {
					if targetsInput(l) {
						report(x, types.ExprString(l))
					}
				}
			case *ast.IncDecStmt:
				if targetsInput(x.X) {
					report(x, types.ExprString(x.X))
				}
			case *ast.CallExpr:
				if id, ok := x.Fun.(*ast.Ident); ok && (id.Name == "delete" || id.Name == "clear") && len(x.Args) >= 1 {
					if _, isB := info.Uses[id].(*types.Builtin); isB {
						a := x.Args[0]
						if rootsInInput(a) {
							report(x, id.Name+"("+types.ExprString(a)+")")
						} else if aid := astx.RootIdent(a); aid != nil && alias[info.ObjectOf(aid)] {
							report(x, id.Name+"("+types.ExprString(a)+")")
						}
					}
				}
			}
			return true
		})
		if writes == 0 {
			c.Pass("ALIAS/request-input", key+":no-write", pos(c, d.Decl), fmt.Sprintf("no write through parameters.Input (%d local aliases followed)", len(alias)))
		}
	}
}

// ruleIKLookupColumns: the statement behind ReadLogWithIdempotencyKey must read the stored
// idempotency hash (and everything else the hit is answered from).
func ruleIKLookupColumns(c *core.Ctx) {
	d := fn(c, pkgStore, "Store", "ReadLogWithIdempotencyKey")
	if d == nil {
		return
	}
	m := bunModel(c, pkgStore)
	n := 0
	for _, s := range stmtsIn(m, d) {
		if s.Kind != "select" {
			continue
		}
		n++
		cols := map[string]bool{}
		restricted := false
		for _, cl := range s.Clauses {
			switch cl.Method {
			case "Column", "ColumnExpr":
				restricted = true
				for _, a := range cl.Args {
					if v, ok := astx.ConstString(d.Pkg.TypesInfo, a); ok {
						cols[strings.TrimSpace(v)] = true
					}
				}
				for _, alt := range cl.SQL {
					for _, part := range strings.Split(alt, ",") {
						cols[strings.TrimSpace(part)] = true
					}
				}
			case "ExcludeColumn":
				restricted = true
				cols["<exclusion>"] = true
			}
		}
		ok := !restricted || cols["*"]
		if !ok {
			ok = true
			for _, need := range []string{"id", "type", "date", "data", "idempotency_key", "idempotency_hash", "hash", "schema_version"} {
				if !cols[need] {
					ok = false
				}
			}
			if cols["<exclusion>"] {
				ok = false
			}
		}
		c.Check(ok, "SQLS/ik-lookup", declKey(d)+":columns", pos(c, d.Decl), "selects * (or at least the stored idempotency hash and the log's content)", "the idempotency-key lookup does not read idempotency_hash and the log content: a key reused with a different input is no longer refused (the stored hash looks empty), or the replayed answer is incomplete")
	}
	c.Floor("SQLS/ik-lookup", "select statements in ReadLogWithIdempotencyKey", n, 1)
}

// ruleScriptTextDeterministic (DET): the Numscript text TxToScriptData produces for a postings
// request is part of the input the idempotency hash is computed on (and of the stored log). It
// must be the same text for the same request: nothing order-sensitive may be done while ranging
// over a map, unless what is collected is sorted before it is used.
func ruleScriptTextDeterministic(c *core.Ctx) {
	d := fn(c, pkgCtrl, "", "TxToScriptData")
	if d == nil {
		return
	}
	info := d.Pkg.TypesInfo
	key := declKey(d)
	n := 0
	ast.Inspect(d.Decl.Body, func(x ast.Node) bool {
		rs, ok := x.(*ast.RangeStmt)
		if !ok {
			return true
		}
		t := info.TypeOf(rs.X)
		if t == nil {
			return true
		}
		if _, isMap := t.Underlying().(*types.Map); !isMap {
			return true
		}
		n++
		rkey := fmt.Sprintf("%s:range-over-map#%d", key, n)
		var bad []string
		ast.Inspect(rs.Body, func(y ast.Node) bool {
			switch v := y.(type) {
			case *ast.CallExpr:
				if f := astx.Callee(info, v); f != nil {
					switch f.Name() {
					case "WriteString", "WriteByte", "WriteRune", "Write", "Fprintf", "Fprint", "Fprintln":
						bad = append(bad, "writes to the output ("+f.Name()+")")
					}
				}
			case *ast.AssignStmt:
				if v.Tok == token.ADD_ASSIGN {
					if tt := info.TypeOf(v.Lhs[0]); tt != nil {
						if b, isB := tt.Underlying().(*types.Basic); isB && b.Info()&types.IsString != 0 {
							bad = append(bad, "concatenates onto a string")
						}
					}
				}
				if len(v.Lhs) == 1 && len(v.Rhs) == 1 {
					if call, isCall := v.Rhs[0].(*ast.CallExpr); isCall {
						if id, isID := call.Fun.(*ast.Ident); isID && id.Name == "append" {
							if l, isL := v.Lhs[0].(*ast.Ident); isL {
								obj := info.ObjectOf(l)
								sorted := false
								for _, sc := range callsTo(info, d.Decl.Body, func(f *types.Func) bool {
									return f.Pkg() != nil && (f.Pkg().Path() == "sort" || f.Pkg().Path() == "slices") && (strings.HasPrefix(f.Name(), "Sort") || f.Name() == "Strings" || f.Name() == "Slice" || f.Name() == "SliceStable" || f.Name() == "Ints")
								}) {
									if sc.Pos() > rs.End() && len(sc.Args) >= 1 && usesObj(info, sc.Args[0], obj) {
										sorted = true
									}
								}
								if !sorted {
									bad = append(bad, "appends to "+l.Name+", which is not sorted afterwards")
								}
							}
						}
					}
				}
			}
			return true
		})
		c.Check(len(bad) == 0, "DET/script-text", rkey, pos(c, rs), "map iteration only fills maps or collects values that are sorted before use", "while ranging over a map TxToScriptData "+strings.Join(bad, "; ")+": the generated script text — and with it the idempotency hash of the same postings request — changes from one call to the next, so an identical replay is rejected as a different input")
		return true
	})
	c.Floor("DET/script-text", "ranges over maps in TxToScriptData", n, 2)
}
