package rules

import (
	"fmt"
	"go/types"
	"sort"
	"strings"

	"golang.org/x/tools/go/packages"

	"ledgerlint/internal/astx"
	"ledgerlint/internal/bunq"
	"ledgerlint/internal/core"
	"ledgerlint/internal/load"
	"ledgerlint/internal/sqlfe"
)

// Writer is one statement that writes a bucket table.
type Writer struct {
	Table  string
	Kind   string   // insert | update | delete | upsert
	Cols   []string // assigned columns (update / on conflict do update); nil for plain insert/delete
	Assign map[string]*sqlfe.Node
	Origin string // "go:<func key>" or "sql:<function>"
	Pos    string
	Stmt   *bunq.Statement
	SQL    *sqlfe.Stmt
	// Opaque: the statement's target table could not be determined (any who-may-write rule is undecided).
	Opaque string
	// ColsOpaque: the table is known but the assigned columns are not (column rules on that table are undecided).
	ColsOpaque string
}

// sqlExecutors are the functions that execute SQL text which is not a Go constant but is
// analysed by another front-end; one line of reason each.
var sqlExecutors = map[string]string{
	"internal/storage/bucket.(DefaultBucket).AddLedger": "executes the ledgerSetups templates: analysed by the ledgerSetups front-end (ledgerSetupObjects)",
	"internal/storage/bucket.CollectMigrations":         "executes the embedded migration files: analysed by the migration catalog",
}

// allBunModel is the statement model over every repository package.
func allBunModel(c *core.Ctx) *bunq.Model {
	return c.Cache("bun:all", func() any {
		var pkgs []*packages.Package
		for _, pk := range c.Prog().RepoPackages() {
			pkgs = append(pkgs, pk)
		}
		setBunqResolver(c)
		m := bunq.Build(pkgs)
		c.Stats["bun_statements_all_packages"] = len(m.Stmts)
		c.Stats["direct_sql_exec_calls"] = len(m.ExecCalls)
		return m
	}).(*bunq.Model)
}

func sqlWriters(s *sqlfe.Stmt, origin, pos string) []Writer {
	var out []Writer
	for _, sub := range sqlfe.SubStmts(s) {
		switch sub.Kind {
		case "insert":
			w := Writer{Table: sqlfe.NormName(sub.Table), Kind: "insert", Origin: origin, Pos: pos, SQL: sub}
			if sub.OnConflict != nil && !sub.OnConflict.DoNothing {
				w.Kind = "upsert"
				w.Assign = map[string]*sqlfe.Node{}
				for _, a := range sub.OnConflict.Set {
					w.Cols = append(w.Cols, sqlfe.LastPart(a.Col))
					w.Assign[sqlfe.LastPart(a.Col)] = a.Expr
				}
			}
			out = append(out, w)
		case "update":
			w := Writer{Table: sqlfe.NormName(sub.Table), Kind: "update", Origin: origin, Pos: pos, SQL: sub, Assign: map[string]*sqlfe.Node{}}
			for _, a := range sub.Set {
				w.Cols = append(w.Cols, sqlfe.LastPart(a.Col))
				w.Assign[sqlfe.LastPart(a.Col)] = a.Expr
			}
			out = append(out, w)
		case "delete":
			out = append(out, Writer{Table: sqlfe.NormName(sub.Table), Kind: "delete", Origin: origin, Pos: pos, SQL: sub})
		}
	}
	return out
}

// tableWriters lists every statement (Go builders in all repository packages, direct
// Exec calls, and the bodies of the SQL functions that exist after all migrations) that
// writes a table.
func tableWriters(c *core.Ctx) []Writer {
	return c.Cache("writers", func() any {
		var out []Writer
		m := allBunModel(c)
		p := c.Prog()
		for _, s := range m.Stmts {
			origin := "go:" + enclKey(relPkg(s.Pkg.PkgPath), s.Encl)
			at := p.Rel(s.Pos())
			switch s.Kind {
			case "insert", "update", "delete":
				if s.RootKind == "param" || s.RootKind == "call" || s.RootKind == "unknown" {
					continue
				}
				tabs := s.Tables()
				w := Writer{Kind: s.Kind, Origin: origin, Pos: at, Stmt: s}
				if len(tabs) == 0 {
					// bun falls back to the model's table: resolve through the Model(...) argument type tag
					w.Table = modelTable(s)
				} else {
					w.Table = tabs[0]
				}
				if w.Table == "" || strings.HasPrefix(w.Table, "(") || strings.Contains(w.Table, "{{go:") {
					w.Opaque = "table not resolved"
				}
				if sets := s.ClausesNamed("Set"); len(sets) > 0 {
					w.Assign = map[string]*sqlfe.Node{}
					for _, cl := range sets {
						for _, alt := range cl.SQL {
							a, err := sqlfe.ParseAssign(alt)
							if err != nil {
								w.ColsOpaque = fmt.Sprintf("Set clause %q not parsed: %v", alt, err)
								continue
							}
							col := sqlfe.LastPart(a.Col)
							w.Cols = append(w.Cols, col)
							w.Assign[col] = a.Expr
						}
						if cl.Opaque || !cl.HasSQL {
							w.ColsOpaque = "Set clause with unknown text"
						}
					}
					if s.Kind == "insert" {
						w.Kind = "upsert"
					}
				}
				w.Cols = dedupStrings(w.Cols)
				out = append(out, w)
			case "raw":
				if s.Raw == nil {
					if s.RawText == "" || looksLikeWrite(s.RawText) {
						out = append(out, Writer{Kind: "raw", Origin: origin, Pos: at, Stmt: s, Opaque: fmt.Sprintf("raw SQL not parsed: %v", s.RawErr)})
					}
					continue
				}
				for _, w := range sqlWriters(s.Raw, origin, at) {
					w.Stmt = s
					out = append(out, w)
				}
			}
		}
		for _, e := range m.ExecCalls {
			origin := "go:" + enclKey(relPkg(e.Pkg.PkgPath), e.Encl)
			at := p.Rel(e.Call.Pos())
			if !e.HasSQL {
				if _, known := sqlExecutors[strings.TrimPrefix(origin, "go:")]; known {
					continue
				}
				if execAllowedByCallers(c, load.FuncObj(e.Pkg, e.Encl), 0) {
					continue
				}
				out = append(out, Writer{Kind: "raw", Origin: origin, Pos: at, Opaque: "SQL text of direct Exec/Query call is not a constant"})
				continue
			}
			for _, txt := range e.SQL {
				if !looksLikeWrite(txt) {
					continue
				}
				// template scripts (ledgerSetups) and multi-statement texts: split
				toks, _ := sqlfe.Lex(txt)
				for _, st := range sqlfe.SplitStatements(toks) {
					if len(st) == 0 {
						continue
					}
					switch st[0].Text {
					case "insert", "update", "delete", "with":
						ps, err := sqlfe.ParseStmt(st)
						if err != nil {
							out = append(out, Writer{Kind: "raw", Origin: origin, Pos: at, Opaque: "direct SQL not parsed: " + err.Error()})
							continue
						}
						out = append(out, sqlWriters(ps, origin, at)...)
					}
				}
			}
		}
		cat := c.Catalog()
		for _, name := range sqlfe.SortedKeys(cat.Functions) {
			f := cat.Functions[name]
			for _, s := range f.Stmts {
				if s.Kind == "assign" {
					continue
				}
				out = append(out, sqlWriters(s, "sql:"+name, f.Origin)...)
			}
			for _, o := range f.Opaque {
				out = append(out, Writer{Kind: "raw", Origin: "sql:" + name, Pos: f.Origin, Opaque: "statement of SQL function not parsed: " + o})
			}
		}
		// one-shot data statements of migrations added after the tree the rules were confirmed on:
		// the existing migrations are history (they ran, or will run, on data the current code no
		// longer produces), a new one rewrites the data the properties are about
		if BaselineMigrations != nil {
			nNew := 0
			for _, dw := range cat.DataWrites {
				mig := migrationName(dw.File)
				if mig == "" || BaselineMigrations[mig] {
					continue
				}
				nNew++
				origin := "sql:migration:" + mig
				if dw.Stmt == nil {
					out = append(out, Writer{Kind: "raw", Origin: origin, Pos: dw.Origin, Opaque: fmt.Sprintf("data statement of a new migration not parsed: %v", dw.Err)})
					continue
				}
				out = append(out, sqlWriters(dw.Stmt, origin, dw.Origin)...)
			}
			c.Stats["new_migration_data_statements"] = nNew
		}
		sort.SliceStable(out, func(i, j int) bool {
			if out[i].Table != out[j].Table {
				return out[i].Table < out[j].Table
			}
			return out[i].Origin < out[j].Origin
		})
		c.Stats["table_writers_found"] = len(out)
		return out
	}).([]Writer)
}

func looksLikeWrite(txt string) bool {
	toks, _ := sqlfe.Lex(txt)
	for _, t := range toks {
		if t.Is("insert") || t.Is("update") || t.Is("delete") || t.Is("truncate") {
			return true
		}
	}
	return false
}

func dedupStrings(a []string) []string {
	seen := map[string]bool{}
	var out []string
	for _, s := range a {
		if !seen[s] {
			seen[s] = true
			out = append(out, s)
		}
	}
	return out
}

// modelTable resolves the table of a statement from the bun tag of its Model argument type.
func modelTable(s *bunq.Statement) string {
	for _, cl := range s.ClausesNamed("Model") {
		if len(cl.Args) != 1 {
			continue
		}
		t := s.Pkg.TypesInfo.TypeOf(cl.Args[0])
		if tn := bunTableOfType(t, 0); tn != "" {
			return tn
		}
	}
	return ""
}

// writersOf filters writers by table.
func writersOf(ws []Writer, table string) []Writer {
	var out []Writer
	for _, w := range ws {
		if w.Table == table {
			out = append(out, w)
		}
	}
	return out
}

// opaqueWriters are the write statements whose target could not be determined; any
// who-may-write rule must treat them as undecided.
func opaqueWriters(ws []Writer) []Writer {
	var out []Writer
	for _, w := range ws {
		if w.Opaque != "" {
			out = append(out, w)
		}
	}
	return out
}

// execAllowedByCallers: an unexported helper that executes SQL text it is handed, all of whose
// callers are listed executors (a piece of AddLedger moved into a function), is covered by the
// same front-end as they are.
func execAllowedByCallers(c *core.Ctx, f *types.Func, depth int) bool {
	if f == nil || f.Exported() || depth > 2 {
		return false
	}
	n := 0
	for _, s := range index(c).SitesOf(f) {
		if s.Encl == nil || strings.HasSuffix(c.Prog().Rel(s.Call.Pos()), "_test.go") {
			continue
		}
		n++
		caller := load.FuncObj(s.Pkg, s.Encl)
		if caller == nil {
			return false
		}
		if _, ok := sqlExecutors[astx.FuncKey(caller)]; ok {
			continue
		}
		if !execAllowedByCallers(c, caller, depth+1) {
			return false
		}
	}
	return n > 0
}

// BaselineMigrations: the migrations of the tree the rules were confirmed on (from
// /verif/anchors.json; nil when the file is absent). Set by NormaliseRenames.
var BaselineMigrations map[string]bool

// migrationName extracts "<n>-<name>" from a path or origin under …/migrations/.
func migrationName(origin string) string {
	i := strings.Index(origin, "migrations/")
	if i < 0 {
		return ""
	}
	rest := origin[i+len("migrations/"):]
	if j := strings.IndexByte(rest, '/'); j >= 0 {
		return rest[:j]
	}
	return ""
}
