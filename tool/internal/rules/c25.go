package rules

import (
	"fmt"
	"go/ast"
	"go/token"
	"go/types"
	"strings"

	"ledgerlint/internal/astx"
	"ledgerlint/internal/core"
)

func init() {
	register("C25", checkC25)
	addBreakers("C25",
		Breaker{Name: "swap-source-destination", File: "internal/controller/ledger/numscript.go",
			Old: "\t\t\tdest, ok := accountsToVars[p.Destination]", New: "\t\t\tdest, ok := accountsToVars[p.Source]", Expect: "SHAPE/tx-to-script"},
		Breaker{Name: "skip-zero-amount-postings", File: "internal/controller/ledger/numscript.go",
			Old: "\t\tm := fmt.Sprintf(\"[%s %s]\", p.Amount.String(), p.Asset)\n\t\tmon, ok := monetaryToVars[m]", New: "\t\tif p.Amount.Sign() == 0 {\n\t\t\tcontinue\n\t\t}\n\t\tm := fmt.Sprintf(\"[%s %s]\", p.Amount.String(), p.Asset)\n\t\tmon, ok := monetaryToVars[m]", Expect: "SHAPE/tx-to-script"},
		Breaker{Name: "monetary-keyed-by-amount-only", File: "internal/controller/ledger/numscript.go",
			Old: "\t\tmon := fmt.Sprintf(\"[%s %s]\", p.Amount.String(), p.Asset)\n", New: "\t\tmon := fmt.Sprintf(\"[%s]\", p.Amount.String())\n", Old2: "\t\tm := fmt.Sprintf(\"[%s %s]\", p.Amount.String(), p.Asset)\n", New2: "\t\tm := fmt.Sprintf(\"[%s]\", p.Amount.String())\n", Expect: "SHAPE/tx-to-script"},
		Breaker{Name: "world-source-emitted-as-destination", File: "internal/controller/ledger/numscript.go",
			Old: "\t\tif p.Source == ledger.WORLD {\n\t\t\tsb.WriteString(\"\\tsource = @world\\n\")", New: "\t\tif p.Destination == ledger.WORLD {\n\t\t\tsb.WriteString(\"\\tsource = @world\\n\")", Expect: "SHAPE/tx-to-script"},
		Breaker{Name: "account-var-value-from-other-side", File: "internal/controller/ledger/numscript.go",
			Old: "\t\t\t\taccountsToVars[p.Destination] = variable{\n\t\t\t\t\tname:  fmt.Sprintf(\"va%d\", i),\n\t\t\t\t\tvalue: p.Destination,", New: "\t\t\t\taccountsToVars[p.Destination] = variable{\n\t\t\t\t\tname:  fmt.Sprintf(\"va%d\", i),\n\t\t\t\t\tvalue: p.Source,", Expect: "SHAPE/tx-to-script"},
		Breaker{Name: "account-var-names-collide", File: "internal/controller/ledger/numscript.go",
			Old: "\t\t\t\t\tvalue: p.Destination,\n\t\t\t\t}\n\t\t\t\ti++\n", New: "\t\t\t\t\tvalue: p.Destination,\n\t\t\t\t}\n", Expect: "SHAPE/tx-to-script"},
		Breaker{Name: "force-ignored-for-source", File: "internal/controller/ledger/numscript.go",
			Old: "\t\t\tif allowUnboundedOverdrafts {\n\t\t\t\tsb.WriteString(\" allowing unbounded overdraft\")\n\t\t\t}\n", New: "\t\t\tif allowUnboundedOverdrafts && len(txData.Postings) == 1 {\n\t\t\t\tsb.WriteString(\" allowing unbounded overdraft\")\n\t\t\t}\n", Expect: "SHAPE/tx-to-script"},
		Breaker{Name: "postings-sorted-before-emission", File: "internal/controller/ledger/numscript.go",
			Old: "\tsb.WriteString(\"vars {\\n\")\n", New: "\tsort.Slice(txData.Postings, func(a, b int) bool { return txData.Postings[a].Source < txData.Postings[b].Source })\n\tsb.WriteString(\"vars {\\n\")\n", Expect: "SHAPE/tx-to-script"},
		Breaker{Name: "v2-force-not-forwarded", File: "internal/api/bulking/elements.go",
			Old: "runScript = ledgercontroller.TxToScriptData(txData, req.Force)", New: "runScript = ledgercontroller.TxToScriptData(txData, false)", Expect: "DOM/postings-request"},
		Breaker{Name: "v2-validate-error-ignored", File: "internal/api/bulking/elements.go",
			Old: "\tif _, err := req.Postings.Validate(); err != nil {\n\t\treturn nil, err\n\t}\n", New: "\t_, _ = req.Postings.Validate()\n", Expect: "DOM/postings-request"},
		Breaker{Name: "v1-validate-removed", File: "internal/api/v1/controllers_transactions_create.go",
			Old: "\t\tif _, err := payload.Postings.Validate(); err != nil {\n\t\t\tapi.BadRequest(w, common.ErrValidation, err)\n\t\t\treturn\n\t\t}\n\t\ttxData := ledger.TransactionData{", New: "\t\ttxData := ledger.TransactionData{", Expect: "DOM/postings-request"},
		Breaker{Name: "txdata-postings-truncated", File: "internal/api/bulking/elements.go",
			Old: "\t\t\tPostings:  req.Postings,\n", New: "\t\t\tPostings:  req.Postings[:1],\n", Expect: "DOM/postings-request"},
		Breaker{Name: "query-force-dropped", File: "internal/api/v2/controllers_transactions_create.go",
			Old: "payload.Force = payload.Force || api.QueryParamBool(r, \"force\")", New: "_ = api.QueryParamBool(r, \"force\")", Expect: "DOM/postings-request"},
	)
}

func checkC25(c *core.Ctx) {
	c.Decide("TxToScriptData renders the request's postings structurally one-to-one: the emission loop ranges over txData.Postings itself (never reordered or rewritten, no skipping branch), emits exactly one `send` per iteration whose monetary variable is keyed by (amount, asset) of that posting with value \"<asset> <amount>\", whose source clause is @world exactly when p.Source is world and otherwise the variable bound to p.Source, likewise for destination, variable names are unique, every variable is exported in vars, and the unbounded-overdraft clause is written on every non-world source exactly when the force flag is set; both API entry points validate the postings (error leaves the handler) before rendering, pass the submitted postings slice unchanged, and v2/bulk forward Force (query parameter included)")
	c.NotDecided("that compiling and executing the rendered script yields those postings and the insufficient-funds verdict (numscript semantics; C22/C26 territory)")
	ruleTxToScriptShape(c)
	rulePostingsRequestCallers(c)
	// "fails with insufficient funds iff applying the postings in order would overdraw": the VM's
	// running balance must see every debit and credit, self-postings included (shared with C06)
	ruleVMBalanceTracking(c)
	ruleRuntimeResultUnfiltered(c)
}

// loopVarSel matches `<v>.<field>` for the given loop variable object.
func loopVarSel(info *types.Info, e ast.Expr, v types.Object) (string, bool) {
	s, ok := ast.Unparen(e).(*ast.SelectorExpr)
	if !ok {
		return "", false
	}
	id, ok := s.X.(*ast.Ident)
	if !ok || info.ObjectOf(id) != v {
		return "", false
	}
	return s.Sel.Name, true
}

func isWorldConst(info *types.Info, e ast.Expr) bool {
	if s, ok := astx.ConstString(info, e); ok && s == "world" {
		return true
	}
	return false
}

// sprintfShape returns the constant format and the canonical text of the remaining arguments.
func sprintfShape(info *types.Info, e ast.Expr) (string, []string, bool) {
	call, ok := ast.Unparen(e).(*ast.CallExpr)
	if !ok {
		return "", nil, false
	}
	f := astx.Callee(info, call)
	if f == nil || f.Pkg() == nil || f.Pkg().Path() != "fmt" || f.Name() != "Sprintf" || len(call.Args) == 0 {
		return "", nil, false
	}
	format, ok := astx.ConstString(info, call.Args[0])
	if !ok {
		return "", nil, false
	}
	var args []string
	for _, a := range call.Args[1:] {
		args = append(args, types.ExprString(a))
	}
	return format, args, true
}

func writeStringArgs(info *types.Info, n ast.Node) []ast.Expr {
	var out []ast.Expr
	ast.Inspect(n, func(x ast.Node) bool {
		call, ok := x.(*ast.CallExpr)
		if !ok {
			return true
		}
		if f := astx.Callee(info, call); f != nil && f.Name() == "WriteString" && len(call.Args) == 1 {
			out = append(out, call.Args[0])
		}
		return true
	})
	return out
}

// writtenText: the constant text (or Sprintf format) of a WriteString argument.
func writtenText(info *types.Info, e ast.Expr) (string, []string) {
	if s, ok := astx.ConstString(info, e); ok {
		return s, nil
	}
	if f, args, ok := sprintfShape(info, e); ok {
		return f, args
	}
	return "", nil
}

func ruleTxToScriptShape(c *core.Ctx) {
	d := fn(c, pkgCtrl, "", "TxToScriptData")
	if d == nil {
		return
	}
	info := d.Pkg.TypesInfo
	key := declKey(d)
	fail := func(sub, why string, at ast.Node) {
		c.Fail("SHAPE/tx-to-script", key+":"+sub, pos(c, at), why)
	}
	pass := func(sub, what string, at ast.Node) {
		c.Pass("SHAPE/tx-to-script", key+":"+sub, pos(c, at), what)
	}
	params := d.Decl.Type.Params.List
	if len(params) != 2 || len(params[0].Names) != 1 || len(params[1].Names) != 1 {
		fail("signature", "TxToScriptData(txData, allowUnboundedOverdrafts) signature changed", d.Decl)
		return
	}
	txObj := info.ObjectOf(params[0].Names[0])
	forceObj := info.ObjectOf(params[1].Names[0])
	isTxPostings := func(e ast.Expr) bool {
		s, ok := ast.Unparen(e).(*ast.SelectorExpr)
		if !ok || s.Sel.Name != "Postings" {
			return false
		}
		id, ok := s.X.(*ast.Ident)
		return ok && info.ObjectOf(id) == txObj
	}

	// 1. txData.Postings is only ever ranged over
	var loops []*ast.RangeStmt
	otherUse := ast.Node(nil)
	ast.Inspect(d.Decl.Body, func(n ast.Node) bool {
		if r, ok := n.(*ast.RangeStmt); ok && isTxPostings(r.X) {
			loops = append(loops, r)
			ast.Inspect(r.Body, func(m ast.Node) bool {
				if e, ok := m.(ast.Expr); ok && isTxPostings(e) {
					otherUse = m
				}
				return true
			})
			return false
		}
		if e, ok := n.(ast.Expr); ok && isTxPostings(e) {
			otherUse = n
		}
		return true
	})
	// nested uses inside the loops still need visiting for the remaining checks, done below
	if otherUse != nil {
		fail("postings-only-ranged", "txData.Postings is used outside a `for range txData.Postings` (sorted, sliced, indexed or rewritten): the rendered sends may no longer be the submitted list in the submitted order", otherUse)
	} else {
		pass("postings-only-ranged", "txData.Postings only appears as a range operand", d.Decl)
	}
	// any assignment to a field of txData other than Metadata defaulting
	ast.Inspect(d.Decl.Body, func(n ast.Node) bool {
		as, ok := n.(*ast.AssignStmt)
		if !ok {
			return true
		}
		for _, l := range as.Lhs {
			if s, ok := l.(*ast.SelectorExpr); ok {
				if id, ok := s.X.(*ast.Ident); ok && info.ObjectOf(id) == txObj && s.Sel.Name != "Metadata" {
					fail("txdata-rewritten:"+s.Sel.Name, "TxToScriptData assigns txData."+s.Sel.Name, as)
				}
			}
		}
		return true
	})

	var emit *ast.RangeStmt
	var collect []*ast.RangeStmt
	for _, r := range loops {
		isEmit := false
		for _, a := range writeStringArgs(info, r.Body) {
			if t, _ := writtenText(info, a); strings.HasPrefix(strings.TrimSpace(t), "send") {
				isEmit = true
			}
		}
		if isEmit {
			if emit != nil {
				fail("one-emission-loop", "two loops emit `send` statements: postings would be recorded twice", r)
				return
			}
			emit = r
		} else {
			collect = append(collect, r)
		}
	}
	unrec := func(why string) {
		c.Unrecognised("SHAPE/tx-to-script", key+":rendering", pos(c, d.Decl), why+" — the per-posting rendering obligations (send per posting, monetary key, account variables, source/destination clauses, overdraft clause, exported variables) are not evaluated")
	}
	if emit == nil || len(collect) == 0 {
		unrec("TxToScriptData no longer has one collecting loop and one emitting loop over txData.Postings")
		return
	}
	pv, _ := emit.Value.(*ast.Ident)
	if pv == nil {
		unrec("the emission loop has no value variable")
		return
	}
	p := info.ObjectOf(pv)
	// skeleton: the emitting loop decides source and destination with two `if p.X == world`
	// statements of its own, and the collecting loop(s) fill the variable maps in place (not
	// through helpers or closures). Otherwise the rendering was restructured: nothing is read off.
	{
		worldIfs := 0
		for _, st := range emit.Body.List {
			if is, ok := st.(*ast.IfStmt); ok {
				if be, ok := ast.Unparen(is.Cond).(*ast.BinaryExpr); ok && be.Op == token.EQL && isWorldConst(info, be.Y) {
					if _, ok := loopVarSel(info, be.X, p); ok {
						worldIfs++
					}
				}
			}
		}
		inPlace := 0
		for _, cl := range collect {
			lv, _ := cl.Value.(*ast.Ident)
			if lv == nil {
				continue
			}
			lobj := info.ObjectOf(lv)
			ast.Inspect(cl.Body, func(n ast.Node) bool {
				if _, isLit := n.(*ast.FuncLit); isLit {
					return false
				}
				as, ok := n.(*ast.AssignStmt)
				if !ok || len(as.Lhs) != 1 || len(as.Rhs) != 1 {
					return true
				}
				if ix, ok := as.Lhs[0].(*ast.IndexExpr); ok {
					if _, isCL := as.Rhs[0].(*ast.CompositeLit); isCL {
						if _, isSide := loopVarSel(info, ix.Index, lobj); isSide {
							inPlace++
						} else if _, isID := ix.Index.(*ast.Ident); isID {
							inPlace++
						}
					}
				}
				return true
			})
		}
		if worldIfs != 2 || inPlace < 3 {
			unrec(fmt.Sprintf("the rendering of TxToScriptData was restructured (world tests in the emitting loop: %d, in-place variable registrations: %d)", worldIfs, inPlace))
			return
		}
	}

	// 2. no skipping in the emission loop
	skip := ast.Node(nil)
	ast.Inspect(emit.Body, func(n ast.Node) bool {
		switch x := n.(type) {
		case *ast.FuncLit:
			return false
		case *ast.BranchStmt:
			skip = x
		case *ast.ReturnStmt:
			skip = x
		}
		return true
	})
	if skip != nil {
		fail("emit-no-skip", "the emission loop contains a continue/break/goto/return: some submitted postings are not rendered", skip)
	} else {
		pass("emit-no-skip", "no continue/break/return in the emission loop", emit)
	}
	// exactly one send per iteration, at the top level of the loop body
	sends := 0
	var sendArgs []string
	for _, st := range emit.Body.List {
		es, ok := st.(*ast.ExprStmt)
		if !ok {
			continue
		}
		for _, a := range writeStringArgs(info, es) {
			if t, args := writtenText(info, a); strings.HasPrefix(strings.TrimSpace(t), "send") {
				sends++
				sendArgs = args
			}
		}
	}
	nested := 0
	for _, a := range writeStringArgs(info, emit.Body) {
		if t, _ := writtenText(info, a); strings.HasPrefix(strings.TrimSpace(t), "send") {
			nested++
		}
	}
	c.Check(sends == 1 && nested == 1, "SHAPE/tx-to-script", key+":one-send-per-posting", pos(c, emit), "one unconditional send per iteration", "the emission loop does not write exactly one unconditional `send` per posting")

	// 3. monetary variable: keyed by (amount, asset) of the loop posting, both loops alike
	wantKeyArgs := func(v string) []string { return []string{v + ".Amount.String()", v + ".Asset"} }
	monKeyOK := func(loop *ast.RangeStmt) (format string, good bool, mapObj types.Object, at ast.Node) {
		lv, _ := loop.Value.(*ast.Ident)
		if lv == nil {
			return "", false, nil, loop
		}
		// find `x := fmt.Sprintf(...)` whose result indexes a map
		var keyVar types.Object
		ast.Inspect(loop.Body, func(n ast.Node) bool {
			as, ok := n.(*ast.AssignStmt)
			if !ok || len(as.Lhs) != 1 || len(as.Rhs) != 1 {
				return true
			}
			f, args, isS := sprintfShape(info, as.Rhs[0])
			id, isID := as.Lhs[0].(*ast.Ident)
			if !isS || !isID || !strings.HasPrefix(f, "[") {
				return true
			}
			format = f
			at = as
			want := wantKeyArgs(lv.Name)
			good = len(args) == 2 && args[0] == want[0] && args[1] == want[1] && strings.Count(f, "%s") == 2
			keyVar = info.ObjectOf(id)
			return true
		})
		if keyVar == nil {
			return "", false, nil, loop
		}
		ast.Inspect(loop.Body, func(n ast.Node) bool {
			ix, isIx := n.(*ast.IndexExpr)
			if !isIx {
				return true
			}
			if id, isID := ix.Index.(*ast.Ident); isID && info.ObjectOf(id) == keyVar {
				if m := astx.RootIdent(ix.X); m != nil {
					mapObj = info.ObjectOf(m)
				}
			}
			return true
		})
		return
	}
	ef, eok, emap, eat := monKeyOK(emit)
	okMon := eok && emap != nil
	for _, cl := range collect {
		cf, cok, cmap, _ := monKeyOK(cl)
		if cmap == nil {
			continue
		}
		okMon = okMon && cok && cf == ef && cmap == emap
	}
	c.Check(okMon, "SHAPE/tx-to-script", key+":monetary-key", pos(c, eat), "key [amount asset] of the loop posting, same in both loops", "the monetary variable of a send is not keyed by (p.Amount, p.Asset) of the posting being rendered, identically when collected and when emitted: two different postings can share one monetary variable")
	// the send line names the variable found with that key
	okSendVar := len(sendArgs) == 1 && strings.HasSuffix(sendArgs[0], ".name")
	c.Check(okSendVar, "SHAPE/tx-to-script", key+":send-uses-monetary-var", pos(c, emit), "send $<var.name>", "the send statement does not use the looked-up monetary variable's name")
	// the stored value is "<asset> <amount>"
	okVal := false
	for _, cl := range collect {
		lv, _ := cl.Value.(*ast.Ident)
		ast.Inspect(cl.Body, func(n ast.Node) bool {
			as, ok := n.(*ast.AssignStmt)
			if !ok || len(as.Lhs) != 1 || len(as.Rhs) != 1 {
				return true
			}
			ix, isIx := as.Lhs[0].(*ast.IndexExpr)
			if !isIx || astx.RootIdent(ix.X) == nil || info.ObjectOf(astx.RootIdent(ix.X)) != emap {
				return true
			}
			cl, isCL := as.Rhs[0].(*ast.CompositeLit)
			if !isCL {
				return true
			}
			if v := fieldOfCompositeLit(cl, "value"); v != nil {
				f, args, isS := sprintfShape(info, v)
				okVal = isS && f == "%s %s" && len(args) == 2 && lv != nil && args[0] == lv.Name+".Asset" && args[1] == lv.Name+".Amount.String()"
			}
			return true
		})
	}
	c.Check(okVal, "SHAPE/tx-to-script", key+":monetary-value", pos(c, d.Decl), "value \"<asset> <amount>\" from the same posting", "the monetary variable's value is not \"<p.Asset> <p.Amount>\" of the posting that created it")

	// 4. account variables: key == value, guarded by != world, unique names
	sides := map[string]bool{}
	var accMap types.Object
	for _, cl := range collect {
		lv, _ := cl.Value.(*ast.Ident)
		if lv == nil {
			continue
		}
		lobj := info.ObjectOf(lv)
		ast.Inspect(cl.Body, func(n ast.Node) bool {
			blk, ok := n.(*ast.BlockStmt)
			if !ok {
				return true
			}
			for i, st := range blk.List {
				as, ok := st.(*ast.AssignStmt)
				if !ok || len(as.Lhs) != 1 || len(as.Rhs) != 1 {
					continue
				}
				ix, isIx := as.Lhs[0].(*ast.IndexExpr)
				cl, isCL := as.Rhs[0].(*ast.CompositeLit)
				if !isIx || !isCL {
					continue
				}
				side, isSide := loopVarSel(info, ix.Index, lobj)
				if !isSide || (side != "Source" && side != "Destination") {
					continue
				}
				if m := astx.RootIdent(ix.X); m != nil {
					accMap = info.ObjectOf(m)
				}
				v := fieldOfCompositeLit(cl, "value")
				vs, _ := loopVarSel(info, v, lobj)
				okKV := v != nil && vs == side
				// name from a counter incremented in the same block
				okName := false
				if nm := fieldOfCompositeLit(cl, "name"); nm != nil {
					if _, args, isS := sprintfShape(info, nm); isS && len(args) == 1 {
						for _, later := range blk.List[i+1:] {
							if inc, ok := later.(*ast.IncDecStmt); ok && inc.Tok == token.INC && types.ExprString(inc.X) == args[0] {
								okName = true
							}
						}
					}
				}
				// guarded by side != world
				okGuard := false
				for _, f := range astx.FactsAt(info, d.Decl.Body, as.Pos()) {
					if be, ok := ast.Unparen(f.Cond).(*ast.BinaryExpr); ok {
						s1, is1 := loopVarSel(info, be.X, lobj)
						if is1 && s1 == side && isWorldConst(info, be.Y) && ((be.Op == token.NEQ && f.Positive) || (be.Op == token.EQL && !f.Positive)) {
							okGuard = true
						}
					}
				}
				sides[side] = true
				c.Check(okKV && okName && okGuard, "SHAPE/tx-to-script", key+":account-var:"+side, pos(c, as), "accountsToVars[p."+side+"] = {unique name, value p."+side+"} when not world", "the account variable registered for p."+side+" does not carry p."+side+" as its value under a fresh name (value from the same side, counter incremented, world excluded)")
			}
			return true
		})
	}
	c.Check(sides["Source"] && sides["Destination"], "SHAPE/tx-to-script", key+":account-vars-both-sides", pos(c, d.Decl), "both sides registered", "account variables are not registered for both p.Source and p.Destination")

	// 5. source/destination clauses of the emitted send
	found := map[string]bool{}
	for _, st := range emit.Body.List {
		is, ok := st.(*ast.IfStmt)
		if !ok {
			continue
		}
		be, ok := ast.Unparen(is.Cond).(*ast.BinaryExpr)
		if !ok || be.Op != token.EQL || !isWorldConst(info, be.Y) {
			continue
		}
		side, ok := loopVarSel(info, be.X, p)
		if !ok {
			continue
		}
		kw := strings.ToLower(side)
		// then-branch: "<kw> = @world"
		okThen := false
		for _, a := range writeStringArgs(info, is.Body) {
			t, _ := writtenText(info, a)
			if strings.Contains(t, kw+" = @world") {
				okThen = true
			}
			for _, other := range []string{"source", "destination"} {
				if other != kw && strings.Contains(t, other+" =") {
					okThen = false
				}
			}
		}
		// else-branch: lookup accountsToVars[p.<side>] and write "<kw> = $%s" with its name
		okElse := false
		okForce := side != "Source"
		if eb, ok := is.Else.(*ast.BlockStmt); ok {
			lookup := false
			ast.Inspect(eb, func(n ast.Node) bool {
				if ix, ok := n.(*ast.IndexExpr); ok {
					if s2, ok := loopVarSel(info, ix.Index, p); ok && astx.RootIdent(ix.X) != nil && info.ObjectOf(astx.RootIdent(ix.X)) == accMap {
						lookup = s2 == side
						if s2 != side {
							lookup = false
							return false
						}
					}
				}
				return true
			})
			wrote := false
			for _, st2 := range eb.List {
				es, ok := st2.(*ast.ExprStmt)
				if !ok {
					continue
				}
				for _, a := range writeStringArgs(info, es) {
					t, args := writtenText(info, a)
					if strings.Contains(t, kw+" = $%s") && len(args) == 1 && strings.HasSuffix(args[0], ".name") {
						wrote = true
					}
				}
			}
			okElse = lookup && wrote
			if side == "Source" {
				// the overdraft clause: `if allowUnboundedOverdrafts { WriteString(" allowing unbounded overdraft") }` at the top of the else block
				for _, st2 := range eb.List {
					is2, ok := st2.(*ast.IfStmt)
					if !ok || is2.Else != nil {
						continue
					}
					id, ok := ast.Unparen(is2.Cond).(*ast.Ident)
					if !ok || info.ObjectOf(id) != forceObj {
						continue
					}
					for _, a := range writeStringArgs(info, is2.Body) {
						if t, _ := writtenText(info, a); strings.Contains(t, "allowing unbounded overdraft") {
							okForce = true
						}
					}
				}
				// and nowhere else
				n := 0
				for _, a := range writeStringArgs(info, d.Decl.Body) {
					if t, _ := writtenText(info, a); strings.Contains(t, "overdraft") {
						n++
					}
				}
				okForce = okForce && n == 1
			}
		}
		found[side] = true
		c.Check(okThen && okElse, "SHAPE/tx-to-script", key+":clause:"+kw, pos(c, is), kw+" = @world iff p."+side+" is world, else the variable bound to p."+side, "the `"+kw+"` clause of the rendered send is not @world exactly when p."+side+" is world and otherwise the variable registered for p."+side)
		if side == "Source" {
			c.Check(okForce, "SHAPE/tx-to-script", key+":force-clause", pos(c, is), "`allowing unbounded overdraft` on every non-world source iff the flag", "the unbounded-overdraft clause is not written on every non-world source exactly when allowUnboundedOverdrafts is set: a forced request could still fail with insufficient funds (or an unforced one overdraw)")
		}
	}
	c.Check(found["Source"] && found["Destination"], "SHAPE/tx-to-script", key+":clauses-both", pos(c, emit), "source and destination clauses", "the emission loop does not render both a source and a destination clause from the posting")

	// 6. every variable is exported with its value
	exported := 0
	ast.Inspect(d.Decl.Body, func(n ast.Node) bool {
		r, ok := n.(*ast.RangeStmt)
		if !ok || r.Value == nil {
			return true
		}
		m := astx.RootIdent(r.X)
		if m == nil || (info.ObjectOf(m) != accMap && info.ObjectOf(m) != emap) {
			return true
		}
		vn := types.ExprString(r.Value)
		for _, st := range r.Body.List {
			if as, ok := st.(*ast.AssignStmt); ok && len(as.Lhs) == 1 && len(as.Rhs) == 1 {
				if ix, ok := as.Lhs[0].(*ast.IndexExpr); ok && types.ExprString(ix.Index) == vn+".name" && types.ExprString(as.Rhs[0]) == vn+".value" {
					exported++
				}
			}
		}
		return true
	})
	c.Check(exported == 2, "SHAPE/tx-to-script", key+":vars-exported", pos(c, d.Decl), "vars[v.name] = v.value for both maps", "account or monetary variables are not all exported into Script.Vars with their values")
	// 7. the returned RunScript carries timestamp, reference and metadata of the request
	okRet := false
	ast.Inspect(d.Decl.Body, func(n ast.Node) bool {
		r, ok := n.(*ast.ReturnStmt)
		if !ok || len(r.Results) != 1 {
			return true
		}
		if cl, ok := r.Results[0].(*ast.CompositeLit); ok {
			okRet = true
			for _, f := range []string{"Timestamp", "Metadata", "Reference"} {
				v := fieldOfCompositeLit(cl, f)
				if v == nil || types.ExprString(v) != params[0].Names[0].Name+"."+f {
					okRet = false
				}
			}
		}
		return true
	})
	c.Check(okRet, "SHAPE/tx-to-script", key+":carries-request-fields", pos(c, d.Decl), "Timestamp, Metadata, Reference from txData", "the RunScript does not carry the request's timestamp, metadata and reference")
}

func rulePostingsRequestCallers(c *core.Ctx) {
	d := fn(c, pkgCtrl, "", "TxToScriptData")
	if d == nil {
		return
	}
	sites := index(c).SitesOf(d.Obj)
	n := 0
	for _, s := range sites {
		if strings.HasSuffix(c.Prog().Rel(s.Call.Pos()), "_test.go") || s.Encl == nil {
			continue
		}
		n++
		info := s.Pkg.TypesInfo
		key := enclKey(relPkg(s.Pkg.PkgPath), s.Encl)
		flow := astx.NewFlow(info, s.Encl.Body)
		// Validate dominates and its error leaves the function
		var val *ast.CallExpr
		for _, v := range callsTo(info, s.Encl.Body, methodOn("Postings", "Validate")) {
			if flow.Dominates(v, s.Call) {
				val = v
			}
		}
		okVal := false
		var recvText string
		if val != nil {
			recvText = types.ExprString(recvExpr(val))
			ast.Inspect(s.Encl.Body, func(n ast.Node) bool {
				if is, ok := n.(*ast.IfStmt); ok && is.Init != nil && is.Init.Pos() <= val.Pos() && val.End() <= is.Init.End() {
					if len(errorCondVars(info, is.Cond)) > 0 && astx.Terminates(info, is.Body.List) {
						okVal = true
					}
				}
				return true
			})
		}
		c.Check(okVal, "DOM/postings-request", key+":validate-first", pos(c, s.Call), "Postings.Validate dominates TxToScriptData, failure leaves", "the postings are rendered into a script without a dominating Postings.Validate whose error ends the request")
		// txData.Postings is the validated slice, unchanged
		okSame := false
		if id, ok := ast.Unparen(s.Call.Args[0]).(*ast.Ident); ok {
			obj := info.ObjectOf(id)
			ast.Inspect(s.Encl.Body, func(n ast.Node) bool {
				as, ok := n.(*ast.AssignStmt)
				if !ok || len(as.Lhs) != 1 || len(as.Rhs) != 1 {
					return true
				}
				if l, ok := as.Lhs[0].(*ast.Ident); ok && info.ObjectOf(l) == obj {
					if cl, ok := as.Rhs[0].(*ast.CompositeLit); ok {
						if v := fieldOfCompositeLit(cl, "Postings"); v != nil && types.ExprString(v) == recvText {
							okSame = true
						}
					}
				}
				return true
			})
		}
		c.Check(okSame, "DOM/postings-request", key+":same-postings", pos(c, s.Call), "TransactionData.Postings is the validated request slice", "the TransactionData handed to TxToScriptData does not carry the validated request postings as submitted")
		// force
		arg := types.ExprString(s.Call.Args[1])
		switch relPkg(s.Pkg.PkgPath) {
		case pkgAPIv1:
			isFalse := arg == "false"
			if tv, ok := info.Types[s.Call.Args[1]]; ok && tv.Value != nil && tv.Value.String() == "false" {
				isFalse = true // a named constant
			}
			c.Check(isFalse, "DOM/postings-request", key+":force", pos(c, s.Call), "v1 has no force", "v1 postings requests must not allow unbounded overdrafts")
		default:
			c.Check(strings.HasSuffix(arg, ".Force"), "DOM/postings-request", key+":force", pos(c, s.Call), "Force forwarded", "the request's force flag is not forwarded to TxToScriptData: a forced postings request can fail with insufficient funds")
		}
	}
	c.Floor("DOM/postings-request", "TxToScriptData call sites", n, 2)
	// v2: the query parameter is OR-ed into payload.Force before ToCore
	if h := fn(c, pkgAPIv2, "", "createTransaction"); h != nil {
		info := h.Pkg.TypesInfo
		var asg *ast.AssignStmt
		ast.Inspect(h.Decl.Body, func(n ast.Node) bool {
			as, ok := n.(*ast.AssignStmt)
			if !ok || len(as.Lhs) != 1 || len(as.Rhs) != 1 {
				return true
			}
			if strings.HasSuffix(types.ExprString(as.Lhs[0]), ".Force") {
				if be, ok := ast.Unparen(as.Rhs[0]).(*ast.BinaryExpr); ok && be.Op == token.LOR {
					txt := types.ExprString(be)
					if strings.Contains(txt, types.ExprString(as.Lhs[0])) && strings.Contains(txt, `"force"`) {
						asg = as
					}
				}
			}
			return true
		})
		tc := callsTo(info, h.Decl.Body, methodOn("TransactionRequest", "ToCore"))
		ok := asg != nil && len(tc) == 1 && astx.NewFlow(info, h.Decl.Body).Dominates(asg, tc[0])
		c.Check(ok, "DOM/postings-request", declKey(h)+":query-force", pos(c, h.Decl), "payload.Force ||= ?force before ToCore", "the ?force query parameter is not merged into the payload before ToCore")
	}
}
