package rules

import (
	"fmt"
	"sort"
	"strings"

	"ledgerlint/internal/core"
	"ledgerlint/internal/sqlfe"
)

func init() {
	register("C17", checkC17)
	addBreakers("C17",
		Breaker{Name: "accounts-pit-metadata-join-unguarded", File: "internal/storage/ledger/resource_accounts.go",
			Old: `if h.store.ledger.HasFeature(features.FeatureAccountMetadataHistory, "SYNC") && opts.PIT != nil && !opts.PIT.IsZero() {`, New: `if opts.PIT != nil && !opts.PIT.IsZero() {`, Expect: "FEAT/metadata-history"},
		Breaker{Name: "tx-metadata-merge-reversed", File: "internal/storage/ledger/transactions.go",
			Old: `Set("metadata = metadata || ?", m).`, New: `Set("metadata = ? || metadata", m).`, Expect: "SQLS/metadata-merge"},
		Breaker{Name: "account-metadata-replaced", File: "internal/storage/ledger/accounts.go",
			Old: `Set("metadata = accounts.metadata || excluded.metadata").`, New: `Set("metadata = excluded.metadata").`, Expect: "SQLS/metadata-merge"},
		Breaker{Name: "default-metadata-overrides-explicit", File: "internal/storage/ledger/accounts.go",
			Old: "d.default_metadata || d.metadata,", New: "d.metadata || d.default_metadata,", Expect: "SQLS/metadata-merge"},
		Breaker{Name: "default-metadata-applied-on-update", File: "internal/storage/ledger/accounts.go",
			Old: "metadata = a.metadata || d.metadata,", New: "metadata = d.default_metadata || a.metadata || d.metadata,", Expect: "SQLS/metadata-merge"},
		Breaker{Name: "history-dated-with-insertion-date", File: "internal/storage/bucket/migrations/44-fix-seq-scan-in-plpgsql/up.sql",
			Old: "), 1), new.updated_at, new.metadata);", New: "), 1), new.inserted_at, new.metadata);", Expect: "SQLS/history-trigger"},
		Breaker{Name: "history-revision-not-incremented", File: "internal/storage/bucket/migrations/11-make-stateless/up.sql",
			Old: "\t\tselect revision + 1\n\t\tfrom accounts_metadata", New: "\t\tselect revision\n\t\tfrom accounts_metadata", Expect: "SQLS/history-trigger"},
		Breaker{Name: "tx-metadata-update-without-updated-at", File: "internal/storage/ledger/transactions.go",
			Old: "\t\t\tif at.IsZero() {\n\t\t\t\tupdateQuery = updateQuery.Set(\"updated_at = \" + store.GetPrefixedRelationName(\"transaction_date\") + \"()\")\n\t\t\t} else {\n\t\t\t\tupdateQuery = updateQuery.Set(\"updated_at = ?\", at)\n\t\t\t}\n\n\t\t\ttx, modified, err = store.updateTxWithRetrieve(ctx, id, updateQuery)\n\n\t\t\treturn nil, postgres.ResolveError(err)",
			New: "\t\t\t_ = at\n\t\t\ttx, modified, err = store.updateTxWithRetrieve(ctx, id, updateQuery)\n\n\t\t\treturn nil, postgres.ResolveError(err)", Expect: "EXH/metadata-writers-date"},
	)
}

func checkC17(c *core.Ctx) {
	c.Decide("transactions_metadata / accounts_metadata are populated only under their *_METADATA_HISTORY=SYNC feature (derived from ledgerSetups -> trigger -> final function body) and every Go reader of either table is guarded by that same feature; metadata writes are `existing || new` (new wins), deletes `metadata - key`, chart default metadata enters only the insert arm as `default || explicit`; the history trigger functions copy new.metadata dated new.updated_at (update) / new.timestamp, new.insertion_date (insert) with revision = last + 1 per (ledger, id); every UPDATE that assigns metadata also assigns updated_at (the date the history trigger stamps)")
	c.NotDecided("the value a point-in-time read returns; commit order of concurrent metadata writes")
	c.Trust("Postgres jsonb || and - semantics; triggers fire per ledgerSetups")
	ruleFeatureConsumers(c, "FEAT/metadata-history", func(t string) bool { return t == "transactions_metadata" || t == "accounts_metadata" })
	ruleMetadataMerge(c)
	ruleHistoryTriggers(c)
	ruleMetadataWritersDate(c)
	// "a read at time t returns the metadata as it was at t": the bound on the history tables is
	// the inclusive `date <= ?PIT` (temporal predicate typing shared with C05)
	ruleTemporalClauses(c)
	ruleHistoryLatestRevision(c)
}

func ruleMetadataMerge(c *core.Ctx) {
	ws := tableWriters(c)
	n := 0
	for _, t := range []string{"accounts", "transactions"} {
		for _, w := range writersOf(ws, t) {
			key := fmt.Sprintf("%s:%s:%s", t, w.Origin, w.Kind)
			if w.ColsOpaque != "" && (w.Kind == "update" || w.Kind == "upsert") {
				c.Unknown("SQLS/metadata-merge", key, w.Pos, w.ColsOpaque)
				continue
			}
			if e, ok := w.Assign["metadata"]; ok {
				n++
				cn := sqlfe.Canon(stripQual(e, "accounts", "transactions", "a"))
				okForm := false
				switch cn {
				case "(metadata || ?)", "(metadata || excluded.metadata)", "(metadata || d.metadata)", "(metadata - ?)":
					okForm = true
				}
				c.Check(okForm, "SQLS/metadata-merge", key+":metadata", w.Pos, "metadata = "+cn,
					fmt.Sprintf("metadata is assigned %s; the accepted forms are existing || new (new keys win) and metadata - key", cn))
			}
			// plain inserts through raw SQL: the account insert arm
			if w.Kind == "insert" && w.SQL != nil && w.SQL.Source != nil {
				for i, col := range w.SQL.Columns {
					if col != "metadata" || i >= len(w.SQL.Source.Cols) {
						continue
					}
					n++
					cn := sqlfe.Canon(w.SQL.Source.Cols[i].Expr)
					c.Check(cn == "(d.default_metadata || d.metadata)", "SQLS/metadata-merge", key+":insert-arm", w.Pos, "metadata = default || explicit",
						fmt.Sprintf("a new account's metadata is %s; it must be default_metadata || metadata so that explicitly written keys win over chart defaults", cn))
				}
			}
		}
	}
	c.Floor("SQLS/metadata-merge", "metadata assignments", n, 6)
	// default metadata appears nowhere else
	m := bunModel(c, pkgStore)
	uses := 0
	for _, s := range m.Stmts {
		if s.Raw == nil {
			continue
		}
		for _, sub := range sqlfe.SubStmts(s.Raw) {
			for _, a := range sub.Set {
				if strings.Contains(sqlfe.Canon(a.Expr), "default_metadata") {
					uses++
					c.Fail("SQLS/metadata-merge", enclKey(pkgStore, s.Encl)+":default-on-update", posOf(c, s.Pos()), "chart default metadata is applied in an UPDATE arm: defaults must be applied only when the account is first created, never over existing values")
				}
			}
		}
	}
}

func ruleHistoryTriggers(c *core.Ctx) {
	cat := c.Catalog()
	type spec struct {
		fn, table, idCol, srcID, date string
		update                        bool
	}
	specs := []spec{
		{"update_transaction_metadata_history", "transactions_metadata", "transactions_id", "new.id", "new.updated_at", true},
		{"insert_transaction_metadata_history", "transactions_metadata", "transactions_id", "new.id", "new.timestamp", false},
		{"update_account_metadata_history", "accounts_metadata", "accounts_address", "new.address", "new.updated_at", true},
		{"insert_account_metadata_history", "accounts_metadata", "accounts_address", "new.address", "new.insertion_date", false},
	}
	for _, sp := range specs {
		f := cat.Functions[sp.fn]
		key := "sql:" + sp.fn
		if f == nil {
			c.Fail("SQLS/history-trigger", key+":exists", "", "function "+sp.fn+" does not exist after all migrations")
			continue
		}
		var ins *sqlfe.Stmt
		for _, st := range f.Stmts {
			if st.Kind == "insert" && sqlfe.NormName(st.Table) == sp.table {
				ins = st
			}
		}
		if ins == nil || len(ins.Values) != 1 {
			c.Fail("SQLS/history-trigger", key+":insert", f.Origin, "no single-row INSERT into "+sp.table+" in "+sp.fn)
			continue
		}
		// every update writes a revision: nothing conditional stands before the INSERT
		var ctl []string
		for _, tk := range f.BodyToks {
			if tk.Kind != sqlfe.Ident {
				continue
			}
			t := strings.ToLower(tk.Text)
			if t == "insert" {
				break
			}
			switch t {
			case "if", "case", "return", "loop", "while", "for", "exit", "raise", "perform", "execute":
				ctl = append(ctl, t)
			}
		}
		c.Check(len(ctl) == 0, "SQLS/history-trigger", key+":unconditional", f.Origin, "the revision is written for every row the trigger fires on", fmt.Sprintf("%s may leave or branch before it writes the revision (%v precede the INSERT): some changes of the metadata — a deleted key leaves `old.metadata @> new.metadata` true — produce no history row, and a point-in-time read after them still shows the old value", sp.fn, ctl))
		vals := map[string]*sqlfe.Node{}
		for i, col := range ins.Columns {
			if i < len(ins.Values[0]) {
				vals[col] = ins.Values[0][i]
			}
		}
		get := func(col string) string { return sqlfe.Canon(vals[col]) }
		// bigint casts of the id are accepted
		idv := strings.TrimSuffix(get(sp.idCol), "::bigint")
		c.Check(get("ledger") == "new.ledger" && idv == sp.srcID && get("metadata") == "new.metadata", "SQLS/history-trigger", key+":copies-row", f.Origin, "(ledger, id, metadata) copied from the new row",
			fmt.Sprintf("history row is (ledger=%s, %s=%s, metadata=%s); expected (new.ledger, %s, new.metadata)", get("ledger"), sp.idCol, get(sp.idCol), get("metadata"), sp.srcID))
		c.Check(get("date") == sp.date, "SQLS/history-trigger", key+":date", f.Origin, "date = "+sp.date,
			fmt.Sprintf("the revision is dated %s, expected %s: point-in-time metadata reads compare this date with the PIT", get("date"), sp.date))
		if !sp.update {
			c.Check(get("revision") == "1", "SQLS/history-trigger", key+":revision", f.Origin, "first revision is 1", "the first revision is "+get("revision"))
			continue
		}
		// revision = coalesce((select revision + 1 from T where id = new.id and ledger = new.ledger order by revision desc limit 1), 1)
		rv := vals["revision"]
		ok := false
		detail := "not coalesce((select ...), 1)"
		if rv != nil && rv.Op == "call" && rv.Text == "coalesce" && len(rv.Args) == 2 && sqlfe.Canon(rv.Args[1]) == "1" {
			sub := sqlfe.Unparen(rv.Args[0])
			if sub.Op == "sub" && sub.Sub != nil && len(sub.Sub.Cols) == 1 {
				q := sub.Sub
				var conj []string
				for _, cj := range sqlfe.Conjuncts(q.Where) {
					conj = append(conj, strings.ReplaceAll(sqlfe.Canon(stripQual(cj, sp.table)), "::bigint", ""))
				}
				sort.Strings(conj)
				wantConj := []string{"(" + minStr(sp.idCol, sp.srcID) + " = " + maxStr(sp.idCol, sp.srcID) + ")", "(ledger = new.ledger)"}
				sort.Strings(wantConj)
				plus := sqlfe.Canon(q.Cols[0].Expr) == "(1 + revision)"
				ordered := len(q.OrderBy) == 1 && sqlfe.Canon(q.OrderBy[0].Expr) == "revision" && q.OrderBy[0].Desc && q.Limit != nil && sqlfe.Canon(q.Limit) == "1"
				fromOK := len(q.From) == 1 && sqlfe.NormName(q.From[0].Table) == sp.table
				ok = plus && ordered && fromOK && eqStrings(conj, wantConj)
				detail = fmt.Sprintf("select %s from %v where %v order-desc-limit-1=%v", sqlfe.Canon(q.Cols[0].Expr), q.From[0].Table, conj, ordered)
			}
		}
		c.Check(ok, "SQLS/history-trigger", key+":revision", f.Origin, "revision = last revision of this (ledger, id) + 1",
			"the revision number is not `coalesce((select revision + 1 from "+sp.table+" where <id> = new.<id> and ledger = new.ledger order by revision desc limit 1), 1)`: "+detail)
	}
}

func minStr(a, b string) string {
	if a < b {
		return a
	}
	return b
}
func maxStr(a, b string) string {
	if a < b {
		return b
	}
	return a
}

// ruleMetadataWritersDate: sibling agreement — the history triggers date a revision with
// new.updated_at, so every UPDATE that assigns metadata must assign updated_at too.
func ruleMetadataWritersDate(c *core.Ctx) {
	ws := tableWriters(c)
	n := 0
	for _, t := range []string{"accounts", "transactions"} {
		for _, w := range writersOf(ws, t) {
			if w.Kind != "update" && w.Kind != "upsert" {
				continue
			}
			if _, ok := w.Assign["metadata"]; !ok {
				continue
			}
			n++
			_, hasDate := w.Assign["updated_at"]
			c.Check(hasDate, "EXH/metadata-writers-date", fmt.Sprintf("%s:%s:%s", t, w.Origin, w.Kind), w.Pos, "assigns metadata and updated_at together",
				fmt.Sprintf("this UPDATE of %s changes metadata without setting updated_at; the history trigger dates the new revision with new.updated_at, so the revision is stamped with the previous write's date and point-in-time reads between the two writes already see the change", t))
		}
	}
	c.Floor("EXH/metadata-writers-date", "UPDATE statements assigning metadata", n, 5)
}
