package rules

import (
	"fmt"
	"go/ast"
	"go/token"
	"go/types"
	"strings"

	"ledgerlint/internal/astx"
	"ledgerlint/internal/core"
)

func init() {
	register("C21", checkC21)
	addBreakers("C21",
		Breaker{Name: "next-page-skips-boundary-row", File: "internal/storage/common/paginator_column.go",
			Old: "sb = sb.Where(fmt.Sprintf(\"%s >= ?\", paginationColumn), paginationID)", New: "sb = sb.Where(fmt.Sprintf(\"%s > ?\", paginationColumn), paginationID)", Expect: "PAGE/column-window"},
		Breaker{Name: "previous-page-repeats-boundary-row", File: "internal/storage/common/paginator_column.go",
			Old: "sb = sb.Where(fmt.Sprintf(\"%s < ?\", paginationColumn), paginationID)", New: "sb = sb.Where(fmt.Sprintf(\"%s <= ?\", paginationColumn), paginationID)", Expect: "PAGE/column-window"},
		Breaker{Name: "desc-uses-asc-operator", File: "internal/storage/common/paginator_column.go",
			Old: "sb = sb.Where(fmt.Sprintf(\"%s <= ?\", paginationColumn), paginationID)", New: "sb = sb.Where(fmt.Sprintf(\"%s >= ?\", paginationColumn), paginationID)", Expect: "PAGE/column-window"},
		Breaker{Name: "no-lookahead-row", File: "internal/storage/common/paginator_column.go",
			Old: "sb = sb.Limit(int(pageSize) + 1) // Fetch one additional item to find the next token", New: "sb = sb.Limit(int(pageSize))", Expect: "PAGE/column-window"},
		Breaker{Name: "reverse-not-applied-to-order", File: "internal/storage/common/paginator_column.go",
			Old: "\torder := originalOrder\n\tif o.query.Reverse {\n\t\torder = order.Reverse()\n\t}\n\torderExpression := fmt.Sprintf(\"%s %s\", paginationColumn, order)", New: "\torder := originalOrder\n\torderExpression := fmt.Sprintf(\"%s %s\", paginationColumn, order)", Expect: "PAGE/column-window"},
		Breaker{Name: "next-cursor-from-last-kept-row", File: "internal/storage/common/paginator_column.go",
			Old: "\t\t\tcp.PaginationID = paginationIDs[len(paginationIDs)-1]\n\t\t\tnext = &cp", New: "\t\t\tcp.PaginationID = paginationIDs[len(paginationIDs)-2]\n\t\t\tnext = &cp", Expect: "PAGE/column-cursor"},
		Breaker{Name: "lookahead-row-returned", File: "internal/storage/common/paginator_column.go",
			Old: "\tif hasMore {\n\t\tret = ret[:len(ret)-1]\n\t}\n", New: "", Expect: "PAGE/column-cursor"},
		Breaker{Name: "has-more-off-by-one", File: "internal/storage/common/paginator_column.go",
			Old: "hasMore := len(ret) > int(pageSize)", New: "hasMore := len(ret) >= int(pageSize)", Expect: "PAGE/column-cursor"},
		Breaker{Name: "reverse-page-not-reordered", File: "internal/storage/common/paginator_column.go",
			Old: "\tif o.query.Reverse {\n\t\tfor i := 0; i < len(ret)/2; i++ {\n\t\t\tret[i], ret[len(ret)-i-1] = ret[len(ret)-i-1], ret[i]\n\t\t}\n\t}\n", New: "", Expect: "PAGE/column-cursor"},
		Breaker{Name: "offset-advances-by-one-less", File: "internal/storage/common/paginator_offset.go",
			Old: "cp.Offset = o.query.Offset + o.query.PageSize\n", New: "cp.Offset = o.query.Offset + o.query.PageSize - 1\n", Expect: "PAGE/offset"},
		Breaker{Name: "offset-no-lookahead", File: "internal/storage/common/paginator_offset.go",
			Old: "sb = sb.Limit(int(o.query.PageSize) + 1)", New: "sb = sb.Limit(int(o.query.PageSize))", Expect: "PAGE/offset"},
		Breaker{Name: "offset-ignored", File: "internal/storage/common/paginator_offset.go",
			Old: "\tif o.query.Offset > 0 {\n\t\tsb = sb.Offset(int(o.query.Offset))\n\t}\n", New: "", Expect: "PAGE/offset"},
		Breaker{Name: "final-order-differs-from-window-order", File: "internal/storage/common/resource.go",
			Old: "finalQuery = finalQuery.Order(fmt.Sprintf(\"dataset.%s %s\", col, dir))", New: "finalQuery = finalQuery.Order(fmt.Sprintf(\"dataset.%s asc\", col+dir[:0]))", Expect: "PAGE/dispatch"},
		Breaker{Name: "column-paginator-for-unpaginated-type", File: "internal/storage/common/resource.go",
			Old: "\t\tif field.Type.IsPaginated() {\n\t\t\tpaginationQuery = ColumnPaginatedQuery[OptionsType]{", New: "\t\tif field.IsPaginated {\n\t\t\tpaginationQuery = ColumnPaginatedQuery[OptionsType]{", Expect: "PAGE/dispatch"},
	)
}

func checkC21(c *core.Ctx) {
	c.Decide("the window arithmetic of both paginators as code shape: the column paginator fetches pageSize+1 rows ordered by the pagination column in the requested direction (reversed exactly when following a previous cursor) and bounds them by the four-entry table (next, asc: >=) (next, desc: <=) (previous, asc: <) (previous, desc: >) on that same column, only when a pagination id is present; BuildCursor reports more rows exactly when more than pageSize came back, drops the look-ahead row, re-reverses a reversed page, and the next cursor starts at the look-ahead row's id (the previous one at the row before it); the offset paginator orders by the column, skips Offset rows, fetches pageSize+1, advances by exactly pageSize and steps back by pageSize floored at 0; Paginate chooses the column paginator exactly for column types that support it, applies the paginator to the filtered dataset, orders the final query by the paginator's own order expression, and builds the cursor from the scanned rows")
	c.NotDecided("that the sort key is unique and the order total in the generated SQL, row-level results, behaviour under concurrent writes: these need the database")
	ruleColumnWindow(c)
	ruleColumnCursor(c)
	ruleOffsetPaginator(c)
	rulePaginateDispatch(c)
	// "exactly once": a history join that returns one row per revision duplicates the entity
	ruleHistoryLatestRevision(c)
}

func nospace(s string) string { return strings.ReplaceAll(s, " ", "") }

func ruleColumnWindow(c *core.Ctx) {
	d := fn(c, pkgCommon, "columnPaginator", "Paginate")
	if d == nil {
		return
	}
	info := d.Pkg.TypesInfo
	key := declKey(d)
	// look-ahead
	okLimit := false
	for _, call := range callsTo(info, d.Decl.Body, named("Limit")) {
		if len(call.Args) == 1 && nospace(types.ExprString(call.Args[0])) == "int(pageSize)+1" {
			okLimit = len(factsNoErr(factStrings(info, d.Decl.Body, call.Pos()))) == 0
		}
	}
	c.Check(okLimit, "PAGE/column-window", key+":lookahead", pos(c, d.Decl), "Limit(pageSize+1), unconditional", "the column paginator does not fetch exactly one row more than the page size: the end of the listing cannot be told from a full page (pages are dropped or an extra empty page appears)")
	// order
	okOrder := false
	var orderVar types.Object
	for _, call := range callsTo(info, d.Decl.Body, named("Order")) {
		if len(call.Args) != 1 {
			continue
		}
		arg := call.Args[0]
		if id, ok := arg.(*ast.Ident); ok {
			// orderExpression := Sprintf(...)
			ast.Inspect(d.Decl.Body, func(n ast.Node) bool {
				if as, ok := n.(*ast.AssignStmt); ok && len(as.Lhs) == 1 && len(as.Rhs) == 1 {
					if l, ok := as.Lhs[0].(*ast.Ident); ok && info.ObjectOf(l) == info.ObjectOf(id) {
						arg = as.Rhs[0]
					}
				}
				return true
			})
		}
		if f, args, ok := sprintfShape(info, arg); ok && f == "%s %s" && len(args) == 2 && args[0] == "paginationColumn" {
			ast.Inspect(arg, func(n ast.Node) bool {
				if id, ok := n.(*ast.Ident); ok && id.Name == args[1] {
					orderVar = info.ObjectOf(id)
				}
				return true
			})
		}
	}
	if orderVar != nil {
		// order := originalOrder; if o.query.Reverse { order = order.Reverse() }
		init, rev := false, false
		ast.Inspect(d.Decl.Body, func(n ast.Node) bool {
			as, ok := n.(*ast.AssignStmt)
			if !ok || len(as.Lhs) != 1 || len(as.Rhs) != 1 {
				return true
			}
			l, ok := as.Lhs[0].(*ast.Ident)
			if !ok || info.ObjectOf(l) != orderVar {
				return true
			}
			r := types.ExprString(as.Rhs[0])
			fs := factsNoErr(factStrings(info, d.Decl.Body, as.Pos()))
			switch {
			case r == "originalOrder" && len(fs) == 0:
				init = true
			case r == l.Name+".Reverse()" && len(fs) == 1 && fs[0] == "+o.query.Reverse":
				rev = true
			default:
				init = false
			}
			return true
		})
		okOrder = init && rev
	}
	c.Check(okOrder, "PAGE/column-window", key+":order", pos(c, d.Decl), "ORDER BY column, direction reversed iff Reverse", "the column paginator does not order by the pagination column in the requested direction, reversed exactly when a previous cursor is followed")
	// the four bounds
	want := map[string]string{"-rev,asc": ">=", "-rev,desc": "<=", "+rev,asc": "<", "+rev,desc": ">"}
	got := map[string]string{}
	for _, call := range callsTo(info, d.Decl.Body, named("Where")) {
		if len(call.Args) != 2 {
			continue
		}
		f, args, ok := sprintfShape(info, call.Args[0])
		if !ok || len(args) != 1 || args[0] != "paginationColumn" || types.ExprString(call.Args[1]) != "paginationID" {
			got["?"+c.Prog().Rel(call.Pos())] = "unrecognised bound"
			continue
		}
		op := strings.TrimSpace(strings.TrimSuffix(strings.TrimPrefix(f, "%s"), "?"))
		fs := factStrings(info, d.Decl.Body, call.Pos())
		if !hasFact(fs, "o.query.PaginationID != nil", true) {
			got["?"+c.Prog().Rel(call.Pos())] = "bound applied without a pagination id"
			continue
		}
		k := ""
		switch {
		case hasFact(fs, "o.query.Reverse", true):
			k = "+rev"
		case hasFact(fs, "o.query.Reverse", false):
			k = "-rev"
		}
		switch {
		case hasFact(fs, "originalOrder == paginate.OrderAsc", true):
			k += ",asc"
		case hasFact(fs, "originalOrder == paginate.OrderDesc", true):
			k += ",desc"
		}
		got[k] = op
	}
	for k, op := range want {
		c.Check(got[k] == op, "PAGE/column-window", key+":bound:"+k, pos(c, d.Decl), k+" → "+op, fmt.Sprintf("for (%s) the column paginator bounds the window with %q instead of %q: following cursors skips or repeats the boundary row", k, got[k], op))
	}
	for k, v := range got {
		if _, ok := want[k]; !ok {
			c.Fail("PAGE/column-window", key+":bound:"+k, pos(c, d.Decl), "unexpected window bound ("+v+")")
		}
	}
	// paginationID comes from the query's PaginationID
	okID := false
	ast.Inspect(d.Decl.Body, func(n ast.Node) bool {
		if as, ok := n.(*ast.AssignStmt); ok && len(as.Lhs) == 1 && len(as.Rhs) == 1 && types.ExprString(as.Lhs[0]) == "paginationID" {
			if call, ok := as.Rhs[0].(*ast.CallExpr); ok && len(call.Args) == 2 && types.ExprString(call.Args[1]) == "o.query.PaginationID" {
				okID = true
			}
		}
		return true
	})
	c.Check(okID, "PAGE/column-window", key+":bound-value", pos(c, d.Decl), "bound = the cursor's pagination id", "the window bound is not the pagination id carried by the cursor")
}

func factsNoErr(fs []string) []string {
	var out []string
	for _, f := range fs {
		if strings.HasPrefix(f[1:], "err ") {
			continue
		}
		out = append(out, f)
	}
	return out
}

func ruleColumnCursor(c *core.Ctx) {
	d := fn(c, pkgCommon, "columnPaginator", "BuildCursor")
	if d == nil {
		return
	}
	info := d.Pkg.TypesInfo
	key := declKey(d)
	okMore, okTrim, okRev := false, false, false
	okNext, okPrev, okRevNext := false, false, false
	ast.Inspect(d.Decl.Body, func(n ast.Node) bool {
		as, ok := n.(*ast.AssignStmt)
		if !ok || len(as.Lhs) < 1 || len(as.Rhs) < 1 {
			return true
		}
		l, r := types.ExprString(as.Lhs[0]), nospace(types.ExprString(as.Rhs[0]))
		fs := factsNoErr(factStrings(info, d.Decl.Body, as.Pos()))
		switch {
		case l == "hasMore":
			okMore = r == "len(ret)>int(pageSize)" && len(fs) == 0
		case l == "ret" && r == "ret[:len(ret)-1]":
			okTrim = len(fs) == 1 && fs[0] == "+hasMore"
		case l == "cp.PaginationID":
			switch r {
			case "paginationIDs[len(paginationIDs)-1]":
				okNext = hasFact(fs, "hasMore", true) && hasFact(fs, "o.query.Reverse", false)
			case "paginationIDs[len(paginationIDs)-2]":
				okPrev = hasFact(fs, "hasMore", true) && hasFact(fs, "o.query.Reverse", true)
			default:
				okNext, okPrev = false, false
			}
		case l == "cp.Reverse" && r == "false":
			okRevNext = hasFact(fs, "o.query.Reverse", true)
		}
		if len(as.Lhs) == 2 && len(as.Rhs) == 2 {
			// swap inside the reverse loop
			if nospace(types.ExprString(as.Lhs[0])) == "ret[i]" && nospace(types.ExprString(as.Lhs[1])) == "ret[len(ret)-i-1]" && nospace(types.ExprString(as.Rhs[0])) == "ret[len(ret)-i-1]" && nospace(types.ExprString(as.Rhs[1])) == "ret[i]" {
				okRev = hasFact(fs, "o.query.Reverse", true)
			}
		}
		return true
	})
	c.Check(okMore && okTrim, "PAGE/column-cursor", key+":lookahead-dropped", pos(c, d.Decl), "hasMore = len(ret) > pageSize; look-ahead row dropped exactly then", "BuildCursor does not report more rows exactly when more than pageSize rows came back, or does not drop the look-ahead row: a row is returned twice (on this page and as the first of the next) or never")
	c.Check(okNext, "PAGE/column-cursor", key+":next-starts-at-lookahead", pos(c, d.Decl), "next.PaginationID = id of the look-ahead row", "the next cursor does not start at the id of the look-ahead row (inclusive bound): the following page skips or repeats a row")
	c.Check(okPrev && okRevNext, "PAGE/column-cursor", key+":reverse-cursors", pos(c, d.Decl), "on a reversed page: previous = row before the look-ahead, next = the same query un-reversed", "on a page reached through a previous cursor the cursors are not (previous: id before the look-ahead row, next: same query forwards)")
	c.Check(okRev, "PAGE/column-cursor", key+":reverse-reordered", pos(c, d.Decl), "reversed page re-reversed", "a page fetched in reverse direction is not put back in the requested order")
	// ids collected for every fetched row, in order, before trimming
	okIDs := false
	ast.Inspect(d.Decl.Body, func(n ast.Node) bool {
		r, ok := n.(*ast.RangeStmt)
		if !ok || types.ExprString(r.X) != "ret" {
			return true
		}
		for _, st := range r.Body.List {
			if as, ok := st.(*ast.AssignStmt); ok && len(as.Lhs) == 1 && types.ExprString(as.Lhs[0]) == "paginationIDs" && strings.HasPrefix(nospace(types.ExprString(as.Rhs[0])), "append(paginationIDs,") {
				okIDs = true
			}
		}
		return true
	})
	c.Check(okIDs, "PAGE/column-cursor", key+":ids-of-all-rows", pos(c, d.Decl), "one pagination id per fetched row, in order", "pagination ids are not collected for every fetched row in order")
	// the cursor carries ret, HasMore = next != nil
	okCur := false
	ast.Inspect(d.Decl.Body, func(n ast.Node) bool {
		cl, ok := n.(*ast.CompositeLit)
		if !ok {
			return true
		}
		dv, hv := fieldOfCompositeLit(cl, "Data"), fieldOfCompositeLit(cl, "HasMore")
		nv, pv := fieldOfCompositeLit(cl, "Next"), fieldOfCompositeLit(cl, "Previous")
		if dv != nil && hv != nil && nv != nil && pv != nil {
			okCur = types.ExprString(dv) == "ret" && nospace(types.ExprString(hv)) == "next!=nil" && strings.HasSuffix(types.ExprString(nv), "(next)") && strings.HasSuffix(types.ExprString(pv), "(previous)")
		}
		return true
	})
	c.Check(okCur, "PAGE/column-cursor", key+":cursor-fields", pos(c, d.Decl), "Data = ret, HasMore = next != nil, Next/Previous encoded from next/previous", "the returned cursor does not carry the trimmed page with the next/previous queries in their own slots")
}

func ruleOffsetPaginator(c *core.Ctx) {
	d := fn(c, pkgCommon, "OffsetPaginator", "Paginate")
	b := fn(c, pkgCommon, "OffsetPaginator", "BuildCursor")
	if d == nil || b == nil {
		return
	}
	info := d.Pkg.TypesInfo
	key := declKey(d)
	okLimit, okOffset, okOrder := false, false, false
	for _, call := range callsTo(info, d.Decl.Body, named("Limit")) {
		if len(call.Args) == 1 && nospace(types.ExprString(call.Args[0])) == "int(o.query.PageSize)+1" {
			okLimit = true
		}
	}
	for _, call := range callsTo(info, d.Decl.Body, named("Offset")) {
		if len(call.Args) == 1 && nospace(types.ExprString(call.Args[0])) == "int(o.query.Offset)" {
			fs := factsNoErr(factStrings(info, d.Decl.Body, call.Pos()))
			okOffset = true
			for _, f := range fs {
				if !(strings.Contains(f, "o.query.Offset > 0") && f[0] == '+') && !(strings.Contains(f, "math.MaxInt32") && f[0] == '-') {
					okOffset = false
				}
			}
		}
	}
	for _, call := range callsTo(info, d.Decl.Body, named("Order")) {
		if len(call.Args) == 1 {
			arg := call.Args[0]
			if id, ok := arg.(*ast.Ident); ok {
				ast.Inspect(d.Decl.Body, func(n ast.Node) bool {
					if as, ok := n.(*ast.AssignStmt); ok && len(as.Lhs) == 1 && len(as.Rhs) == 1 {
						if l, ok := as.Lhs[0].(*ast.Ident); ok && info.ObjectOf(l) == info.ObjectOf(id) {
							arg = as.Rhs[0]
						}
					}
					return true
				})
			}
			if f, args, ok := sprintfShape(info, arg); ok && f == "%s %s" && len(args) == 2 && args[0] == "paginationColumn" && args[1] == "originalOrder" {
				okOrder = true
			}
		}
	}
	c.Check(okLimit, "PAGE/offset", key+":lookahead", pos(c, d.Decl), "Limit(pageSize+1)", "the offset paginator does not fetch one row more than the page size")
	c.Check(okOffset, "PAGE/offset", key+":offset", pos(c, d.Decl), "Offset(query.Offset) when positive", "the offset paginator does not skip the cursor's offset")
	c.Check(okOrder, "PAGE/offset", key+":order", pos(c, d.Decl), "ORDER BY column direction", "the offset paginator does not order by the requested column and direction")
	bi := b.Pkg.TypesInfo
	bkey := declKey(b)
	okNext, okTrim, okPrev := false, false, false
	ast.Inspect(b.Decl.Body, func(n ast.Node) bool {
		as, ok := n.(*ast.AssignStmt)
		if !ok || len(as.Lhs) != 1 || len(as.Rhs) != 1 {
			return true
		}
		l, r := types.ExprString(as.Lhs[0]), nospace(types.ExprString(as.Rhs[0]))
		fs := factStrings(bi, b.Decl.Body, as.Pos())
		more := false
		for _, f := range fs {
			if f[0] == '+' && nospace(f[1:]) == "len(ret)>int(o.query.PageSize)" {
				more = true
			}
		}
		switch {
		case l == "cp.Offset" && r == "o.query.Offset+o.query.PageSize":
			okNext = more
		case l == "ret" && r == "ret[:len(ret)-1]":
			okTrim = more
		case l == "offset" && r == "int(o.query.Offset)-int(o.query.PageSize)":
			okPrev = hasFact(fs, "o.query.Offset > 0", true)
		}
		return true
	})
	floor := false
	ast.Inspect(b.Decl.Body, func(n ast.Node) bool {
		if is, ok := n.(*ast.IfStmt); ok && nospace(types.ExprString(is.Cond)) == "offset<0" && len(is.Body.List) == 1 {
			if as, ok := is.Body.List[0].(*ast.AssignStmt); ok && types.ExprString(as.Lhs[0]) == "offset" && types.ExprString(as.Rhs[0]) == "0" {
				floor = true
			}
		}
		return true
	})
	c.Check(okNext && okTrim, "PAGE/offset", bkey+":advance", pos(c, b.Decl), "next offset = offset + pageSize when more than pageSize rows; look-ahead dropped", "the offset paginator does not advance by exactly one page (and drop the look-ahead row) when more rows exist: rows are skipped or repeated across pages")
	c.Check(okPrev && floor, "PAGE/offset", bkey+":previous", pos(c, b.Decl), "previous offset = max(0, offset − pageSize)", "the previous cursor of the offset paginator does not step back one page, floored at 0")
}

func rulePaginateDispatch(c *core.Ctx) {
	d := fn(c, pkgCommon, "PaginatedResourceRepository", "Paginate")
	if d == nil {
		return
	}
	info := d.Pkg.TypesInfo
	key := declKey(d)
	// ColumnPaginatedQuery chosen exactly under field.Type.IsPaginated()
	okCol, okOff := false, false
	ast.Inspect(d.Decl.Body, func(n ast.Node) bool {
		as, ok := n.(*ast.AssignStmt)
		if !ok || len(as.Lhs) != 1 || len(as.Rhs) != 1 || types.ExprString(as.Lhs[0]) != "paginationQuery" {
			return true
		}
		cl, ok := as.Rhs[0].(*ast.CompositeLit)
		if !ok {
			return true
		}
		fs := factStrings(info, d.Decl.Body, as.Pos())
		iv := fieldOfCompositeLit(cl, "InitialPaginatedQuery")
		same := iv != nil && types.ExprString(iv) == "v"
		t := types.ExprString(cl.Type)
		switch {
		case strings.HasPrefix(t, "ColumnPaginatedQuery"):
			okCol = same && hasFact(fs, "field.Type.IsPaginated()", true)
		case strings.HasPrefix(t, "OffsetPaginatedQuery"):
			okOff = same && hasFact(fs, "field.Type.IsPaginated()", false)
		}
		return true
	})
	c.Check(okCol && okOff, "PAGE/dispatch", key+":paginator-choice", pos(c, d.Decl), "column paginator iff the column type supports it", "the first page does not choose the column paginator exactly for column types that can be compared with a pagination id (others must use offsets): the window comparison is applied to a type it cannot order")
	// pipeline: buildFilteredDataset → paginator.Paginate → … → Order(paginator.OrderExpression) → Scan → BuildCursor(ret)
	bf := callsTo(info, d.Decl.Body, named("buildFilteredDataset"))
	pg := callsTo(info, d.Decl.Body, methodOn("Paginator", "Paginate"))
	oe := callsTo(info, d.Decl.Body, named("OrderExpression"))
	bc := callsTo(info, d.Decl.Body, named("BuildCursor"))
	sc := callsTo(info, d.Decl.Body, named("Scan"))
	okPipe := len(bf) == 1 && len(pg) == 1 && len(oe) == 1 && len(bc) == 1 && len(sc) == 1
	if okPipe {
		flow := astx.NewFlow(info, d.Decl.Body)
		okPipe = flow.Dominates(bf[0], pg[0]) && flow.Dominates(pg[0], sc[0]) && flow.Dominates(sc[0], bc[0]) &&
			types.ExprString(pg[0].Args[0]) == "finalQuery" && len(bc[0].Args) == 1 && types.ExprString(bc[0].Args[0]) == "ret"
	}
	c.Check(okPipe, "PAGE/dispatch", key+":pipeline", pos(c, d.Decl), "filtered dataset → paginator window → scan → cursor from the scanned rows", "Paginate does not apply the paginator's window to the filtered dataset and build the cursor from the rows it scanned")
	// the final ORDER BY is the paginator's own expression (column and direction)
	okFinal := false
	for _, call := range callsTo(info, d.Decl.Body, named("Order")) {
		if len(call.Args) != 1 {
			continue
		}
		if f, args, ok := sprintfShape(info, call.Args[0]); ok && f == "dataset.%s %s" && len(args) == 2 && args[0] == "col" && args[1] == "dir" {
			// col, dir cut from paginator.OrderExpression()
			ast.Inspect(d.Decl.Body, func(n ast.Node) bool {
				if as, ok := n.(*ast.AssignStmt); ok && len(as.Lhs) == 3 && len(as.Rhs) == 1 && types.ExprString(as.Lhs[0]) == "col" && types.ExprString(as.Lhs[1]) == "dir" {
					if cut, ok := as.Rhs[0].(*ast.CallExpr); ok && len(cut.Args) == 2 && types.ExprString(cut.Args[0]) == "orderExpr" {
						okFinal = true
					}
				}
				return true
			})
		}
	}
	okExpr := false
	ast.Inspect(d.Decl.Body, func(n ast.Node) bool {
		if as, ok := n.(*ast.AssignStmt); ok && len(as.Lhs) == 1 && len(as.Rhs) == 1 && types.ExprString(as.Lhs[0]) == "orderExpr" && ast.Unparen(as.Rhs[0]) == ast.Expr(oe0(oe)) {
			okExpr = true
		}
		return true
	})
	c.Check(okFinal && okExpr, "PAGE/dispatch", key+":final-order", pos(c, d.Decl), "final ORDER BY = paginator.OrderExpression()", "the final query is not ordered by the paginator's own column and direction: the rows arrive in another order than the one the window bounds assume")
	// OrderExpression of the column paginator follows Reverse like Paginate does
	if e := fn(c, pkgCommon, "columnPaginator", "OrderExpression"); e != nil {
		ei := e.Pkg.TypesInfo
		rev := false
		ast.Inspect(e.Decl.Body, func(n ast.Node) bool {
			if as, ok := n.(*ast.AssignStmt); ok && len(as.Lhs) == 1 && len(as.Rhs) == 1 && types.ExprString(as.Rhs[0]) == types.ExprString(as.Lhs[0])+".Reverse()" {
				fs := factStrings(ei, e.Decl.Body, as.Pos())
				rev = len(fs) == 1 && fs[0] == "+o.query.Reverse"
			}
			return true
		})
		okS := false
		ast.Inspect(e.Decl.Body, func(n ast.Node) bool {
			if r, ok := n.(*ast.ReturnStmt); ok && len(r.Results) == 1 {
				if f, args, ok := sprintfShape(ei, r.Results[0]); ok && f == "%s %s" && len(args) == 2 && args[0] == "o.fieldName" && args[1] == "order" {
					okS = true
				}
			}
			return true
		})
		c.Check(rev && okS, "PAGE/dispatch", declKey(e)+":follows-reverse", pos(c, e.Decl), "column, direction reversed iff Reverse", "columnPaginator.OrderExpression does not reverse the direction exactly when a previous cursor is followed")
	}
	_ = token.ADD
}

func oe0(calls []*ast.CallExpr) *ast.CallExpr {
	if len(calls) == 0 {
		return nil
	}
	return calls[0]
}
