package rules

import (
	"fmt"
	"go/ast"
	"go/types"
	"regexp"
	"strings"

	"ledgerlint/internal/astx"
	"ledgerlint/internal/core"
	"ledgerlint/internal/sqlfe"
)

func init() {
	register("C21", checkC21)
	addBreakers("C21",
		Breaker{Name: "offset-window-unordered", File: "internal/storage/common/paginator_offset.go",
			Old: "\tsb = sb.Order(orderExpression)\n", New: "\t_ = orderExpression\n", Expect: "PAGE/offset"},
		Breaker{Name: "group-by-binds-input-column", File: "internal/storage/ledger/resource_volumes.go",
			Old: "\t\tModelTableExpr(\"(?) data\", intermediate).\n\t\tColumn(\"account\", \"asset\").\n", New: "\t\tModelTableExpr(\"(?) data\", intermediate).\n\t\tColumnExpr(\"split_part(account, ':', 1) as account\").\n\t\tColumn(\"asset\").\n", Expect: "SQLS/group-by-alias"},
		Breaker{Name: "next-page-skips-boundary-row", File: "internal/storage/common/paginator_column.go",
			Old: "sb = sb.Where(fmt.Sprintf(\"%s >= ?\", paginationColumn), paginationID)", New: "sb = sb.Where(fmt.Sprintf(\"%s > ?\", paginationColumn), paginationID)", Expect: "PAGE/column-window"},
		Breaker{Name: "previous-page-repeats-boundary-row", File: "internal/storage/common/paginator_column.go",
			Old: "sb = sb.Where(fmt.Sprintf(\"%s < ?\", paginationColumn), paginationID)", New: "sb = sb.Where(fmt.Sprintf(\"%s <= ?\", paginationColumn), paginationID)", Expect: "PAGE/column-window"},
		Breaker{Name: "desc-uses-asc-operator", File: "internal/storage/common/paginator_column.go",
			Old: "sb = sb.Where(fmt.Sprintf(\"%s <= ?\", paginationColumn), paginationID)", New: "sb = sb.Where(fmt.Sprintf(\"%s >= ?\", paginationColumn), paginationID)", Expect: "PAGE/column-window"},
		Breaker{Name: "no-lookahead-row", File: "internal/storage/common/paginator_column.go",
			Old: "sb = sb.Limit(int(pageSize) + 1) // Fetch one additional item to find the next token", New: "sb = sb.Limit(int(pageSize))", Expect: "PAGE/column-window"},
		Breaker{Name: "reverse-not-applied-to-order", File: "internal/storage/common/paginator_column.go",
			Old: "\torder := originalOrder\n\tif o.query.Reverse {\n\t\torder = order.Reverse()\n\t}\n\torderExpression := fmt.Sprintf(\"%s %s\", paginationColumn, order)", New: "\torder := originalOrder\n\torderExpression := fmt.Sprintf(\"%s %s\", paginationColumn, order)", Expect: "PAGE/column-window"},
		Breaker{Name: "next-cursor-from-last-kept-row", File: "internal/storage/common/paginator_column.go",
			Old: "\t\t\tcp.PaginationID = paginationIDs[len(paginationIDs)-1]\n\t\t\tnext = &cp", New: "\t\t\tcp.PaginationID = paginationIDs[len(paginationIDs)-2]\n\t\t\tnext = &cp", Expect: "PAGE/column-cursor"},
		Breaker{Name: "lookahead-row-returned", File: "internal/storage/common/paginator_column.go",
			Old: "\tif hasMore {\n\t\tret = ret[:len(ret)-1]\n\t}\n", New: "", Expect: "PAGE/column-cursor"},
		Breaker{Name: "has-more-off-by-one", File: "internal/storage/common/paginator_column.go",
			Old: "hasMore := len(ret) > int(pageSize)", New: "hasMore := len(ret) >= int(pageSize)", Expect: "PAGE/column-cursor"},
		Breaker{Name: "reverse-page-not-reordered", File: "internal/storage/common/paginator_column.go",
			Old: "\tif o.query.Reverse {\n\t\tfor i := 0; i < len(ret)/2; i++ {\n\t\t\tret[i], ret[len(ret)-i-1] = ret[len(ret)-i-1], ret[i]\n\t\t}\n\t}\n", New: "", Expect: "PAGE/column-cursor"},
		Breaker{Name: "offset-advances-by-one-less", File: "internal/storage/common/paginator_offset.go",
			Old: "cp.Offset = o.query.Offset + o.query.PageSize\n", New: "cp.Offset = o.query.Offset + o.query.PageSize - 1\n", Expect: "PAGE/offset"},
		Breaker{Name: "offset-no-lookahead", File: "internal/storage/common/paginator_offset.go",
			Old: "sb = sb.Limit(int(o.query.PageSize) + 1)", New: "sb = sb.Limit(int(o.query.PageSize))", Expect: "PAGE/offset"},
		Breaker{Name: "offset-ignored", File: "internal/storage/common/paginator_offset.go",
			Old: "\tif o.query.Offset > 0 {\n\t\tsb = sb.Offset(int(o.query.Offset))\n\t}\n", New: "", Expect: "PAGE/offset"},
		Breaker{Name: "final-order-differs-from-window-order", File: "internal/storage/common/resource.go",
			Old: "finalQuery = finalQuery.Order(fmt.Sprintf(\"dataset.%s %s\", col, dir))", New: "finalQuery = finalQuery.Order(fmt.Sprintf(\"dataset.%s asc\", col+dir[:0]))", Expect: "PAGE/dispatch"},
		Breaker{Name: "column-paginator-for-unpaginated-type", File: "internal/storage/common/resource.go",
			Old: "\t\tif field.Type.IsPaginated() {\n\t\t\tpaginationQuery = ColumnPaginatedQuery[OptionsType]{", New: "\t\tif field.IsPaginated {\n\t\t\tpaginationQuery = ColumnPaginatedQuery[OptionsType]{", Expect: "PAGE/dispatch"},
	)
}

func checkC21(c *core.Ctx) {
	c.Decide("the window arithmetic of both paginators as code shape: the column paginator fetches pageSize+1 rows ordered by the pagination column in the requested direction (reversed exactly when following a previous cursor) and bounds them by the four-entry table (next, asc: >=) (next, desc: <=) (previous, asc: <) (previous, desc: >) on that same column, only when a pagination id is present; BuildCursor reports more rows exactly when more than pageSize came back, drops the look-ahead row, re-reverses a reversed page, and the next cursor starts at the look-ahead row's id (the previous one at the row before it); the offset paginator orders by the column, skips Offset rows, fetches pageSize+1, advances by exactly pageSize and steps back by pageSize floored at 0; Paginate chooses the column paginator exactly for column types that support it, applies the paginator to the filtered dataset, orders the final query by the paginator's own order expression, and builds the cursor from the scanned rows")
	c.NotDecided("that the sort key is unique and the order total in the generated SQL, row-level results, behaviour under concurrent writes: these need the database")
	ruleColumnWindow(c)
	ruleColumnCursor(c)
	ruleOffsetPaginator(c)
	rulePaginateDispatch(c)
	// "exactly once": a history join that returns one row per revision duplicates the entity
	ruleHistoryLatestRevision(c)
	// … and a GROUP BY that binds to the input column instead of the projected key returns the
	// key once per underlying row
	ruleGroupByBindsAlias(c)
}

func nospace(s string) string { return strings.ReplaceAll(s, " ", "") }

func factsNoErr(fs []string) []string {
	var out []string
	for _, f := range fs {
		if strings.HasPrefix(f[1:], "err ") {
			continue
		}
		out = append(out, f)
	}
	return out
}

// limitOfPageSize: a LIMIT argument that is visibly derived from a page size (`int(…)`, optionally ±1).
var limitOfPageSize = regexp.MustCompile(`^int\(.+\)([+-]1)?$`)

var boundFormat = regexp.MustCompile(`^%s\s*(>=|<=|<|>|=)\s*\?$`)

// dirFacts reduces the branch facts at a site to (reverse?, order) when they can be read off.
func dirFacts(fs []string) (rev string, ord string) {
	for _, f := range fs {
		body := f[1:]
		pos := f[0] == '+'
		switch {
		case strings.HasSuffix(body, ".Reverse") || body == "reverse" || strings.HasSuffix(body, ".Reverse()"):
			if pos {
				rev = "+rev"
			} else {
				rev = "-rev"
			}
		case strings.Contains(body, "OrderAsc") && strings.Contains(body, "=="):
			if pos {
				ord = "asc"
			}
		case strings.Contains(body, "OrderDesc") && strings.Contains(body, "=="):
			if pos {
				ord = "desc"
			}
		}
	}
	return
}

func ruleColumnWindow(c *core.Ctx) {
	d := fn(c, pkgCommon, "columnPaginator", "Paginate")
	if d == nil {
		return
	}
	key := declKey(d)
	scope := fnScope(c, d, 2)
	// ---- the four bounds -------------------------------------------------------------------
	want := map[string]string{"-rev,asc": ">=", "-rev,desc": "<=", "+rev,asc": "<", "+rev,desc": ">"}
	got := map[string]string{}
	var stray []string
	recognised := false
	for _, sc := range scopeCalls(scope, named("Where")) {
		info := sc.D.Pkg.TypesInfo
		call := sc.Call
		if len(call.Args) != 2 {
			continue
		}
		f, args, ok := sprintfShape(info, resolveLocal(info, sc.D.Decl.Body, call.Args[0]))
		if !ok || len(args) != 1 {
			continue
		}
		m := boundFormat.FindStringSubmatch(f)
		if m == nil {
			continue
		}
		rev, ord := dirFacts(factStrings(info, sc.D.Decl.Body, call.Pos()))
		if rev == "" || ord == "" {
			continue // the direction is decided elsewhere (helper, table…): not a shape we can read
		}
		recognised = true
		k := rev + "," + ord
		if prev, dup := got[k]; dup && prev != m[1] {
			stray = append(stray, k+" twice")
		}
		got[k] = m[1]
	}
	for k, op := range want {
		okDetail := k + " → " + op
		c.Shape(recognised, got[k] == op, "PAGE/column-window", key+":bound:"+k, pos(c, d.Decl), okDetail, fmt.Sprintf("for (%s) the column paginator bounds the window with %q instead of %q: following cursors skips or repeats the boundary row", k, got[k], op))
	}
	if recognised && len(stray) > 0 {
		c.Fail("PAGE/column-window", key+":bound:conflict", pos(c, d.Decl), "conflicting window bounds: "+strings.Join(stray, ", "))
	}
	// ---- look-ahead row ----------------------------------------------------------------------
	limits := scopeCalls(scope, named("Limit"))
	recL, okL := false, false
	for _, sc := range limits {
		info := sc.D.Pkg.TypesInfo
		if len(sc.Call.Args) != 1 {
			continue
		}
		arg := nospace(types.ExprString(resolveLocal(info, sc.D.Decl.Body, sc.Call.Args[0])))
		if _, ok := matchPat(arg, "int($p)+1"); ok {
			recL, okL = true, true
		} else if limitOfPageSize.MatchString(arg) {
			recL = true
		}
	}
	c.Shape(recL, okL, "PAGE/column-window", key+":lookahead", pos(c, d.Decl), "Limit(pageSize+1)", "the column paginator does not fetch exactly one row more than the page size: the end of the listing cannot be told from a full page (pages are dropped or an extra empty page appears)")
	// ---- order follows Reverse -----------------------------------------------------------------
	recO, okO := false, false
	for _, dd := range scope {
		info := dd.Pkg.TypesInfo
		ast.Inspect(dd.Decl.Body, func(n ast.Node) bool {
			as, ok := n.(*ast.AssignStmt)
			if !ok || len(as.Lhs) != 1 || len(as.Rhs) != 1 {
				return true
			}
			if b, ok := matchPat(types.ExprString(as.Rhs[0]), "$o.Reverse()"); ok && b["o"] == types.ExprString(as.Lhs[0]) {
				recO = true
				rev, _ := dirFacts(factStrings(info, dd.Decl.Body, as.Pos()))
				if rev == "+rev" {
					okO = true
				}
			}
			return true
		})
	}
	if !recO {
		// no `order = order.Reverse()` in a shape the rule reads: positive evidence only when
		// nothing in the paginator reverses an order at all
		if len(scopeCalls(scope, named("Reverse"))) == 0 {
			c.Fail("PAGE/column-window", key+":order", pos(c, d.Decl), "the column paginator never reverses the ORDER BY direction: a `previous` cursor (Reverse) walks in the same direction as `next` and returns the wrong rows")
			return
		}
	}
	c.Shape(recO, okO, "PAGE/column-window", key+":order", pos(c, d.Decl), "direction reversed iff Reverse", "the column paginator reverses the ORDER BY direction under another condition than `Reverse`: a previous cursor walks in the wrong direction")
}

func ruleColumnCursor(c *core.Ctx) {
	d := fn(c, pkgCommon, "columnPaginator", "BuildCursor")
	if d == nil {
		return
	}
	info := d.Pkg.TypesInfo
	key := declKey(d)
	if len(d.Decl.Type.Params.List) != 1 || len(d.Decl.Type.Params.List[0].Names) != 1 {
		c.Unrecognised("PAGE/column-cursor", key+":signature", pos(c, d.Decl), "BuildCursor(rows) signature changed")
		return
	}
	ret := d.Decl.Type.Params.List[0].Names[0].Name
	// skeleton: hasMore := len(ret) > int(pageSize)
	var more string
	moreOK := false
	ast.Inspect(d.Decl.Body, func(n ast.Node) bool {
		as, ok := n.(*ast.AssignStmt)
		if !ok || len(as.Lhs) != 1 || len(as.Rhs) != 1 {
			return true
		}
		r := nospace(types.ExprString(as.Rhs[0]))
		if b, ok := matchPat(r, "len("+ret+")>int($p)"); ok && b["p"] != "" {
			more, moreOK = types.ExprString(as.Lhs[0]), true
		} else if _, ok := matchPat(r, "len("+ret+")>=int($p)"); ok {
			more = types.ExprString(as.Lhs[0])
		}
		return true
	})
	skeleton := more != ""
	c.Shape(skeleton, moreOK, "PAGE/column-cursor", key+":has-more", pos(c, d.Decl), "more rows ⇔ len(rows) > pageSize", "BuildCursor does not report more rows exactly when more than pageSize rows came back")
	// trimming under +more
	trim := false
	var idsVar string
	nextOK, prevOK, nextSeen, prevSeen := false, false, false, false
	reRev := false
	ast.Inspect(d.Decl.Body, func(n ast.Node) bool {
		switch x := n.(type) {
		case *ast.AssignStmt:
			if len(x.Lhs) == 1 && len(x.Rhs) == 1 {
				l, r := nospace(types.ExprString(x.Lhs[0])), nospace(types.ExprString(x.Rhs[0]))
				fs := factStrings(info, d.Decl.Body, x.Pos())
				if l == ret && r == ret+"[:len("+ret+")-1]" && hasFact(fs, more, true) {
					trim = true
				}
				if b, ok := matchPat(r, "append($v,$x)"); ok && b["v"] == l {
					// inside a range over ret
					ast.Inspect(d.Decl.Body, func(m ast.Node) bool {
						if rg, ok := m.(*ast.RangeStmt); ok && types.ExprString(rg.X) == ret && rg.Body.Pos() <= x.Pos() && x.End() <= rg.Body.End() {
							idsVar = l
						}
						return true
					})
				}
				if strings.HasSuffix(l, ".PaginationID") && idsVar != "" {
					rev, _ := dirFacts(fs)
					if r == idsVar+"[len("+idsVar+")-1]" {
						nextSeen = true
						if hasFact(fs, more, true) && rev == "-rev" {
							nextOK = true
						}
						if rev == "+rev" {
							prevSeen = true // wrong index for the previous cursor
						}
					}
					if r == idsVar+"[len("+idsVar+")-2]" {
						prevSeen = true
						if hasFact(fs, more, true) && rev == "+rev" {
							prevOK = true
						}
						if rev == "-rev" {
							nextSeen = true // wrong index for the next cursor
						}
					}
				}
			}
			if len(x.Lhs) == 2 && len(x.Rhs) == 2 {
				if _, ok := matchPat(types.ExprString(x.Lhs[0])+","+types.ExprString(x.Lhs[1])+"="+types.ExprString(x.Rhs[0])+","+types.ExprString(x.Rhs[1]), ret+"[$i],"+ret+"[len("+ret+")-$i-1]="+ret+"[len("+ret+")-$i-1],"+ret+"[$i]"); ok {
					if rev, _ := dirFacts(factStrings(info, d.Decl.Body, x.Pos())); rev == "+rev" {
						reRev = true
					}
				}
			}
		case *ast.CallExpr:
			if f := astx.Callee(info, x); f != nil && f.Pkg() != nil && f.Pkg().Path() == "slices" && f.Name() == "Reverse" && len(x.Args) == 1 && types.ExprString(x.Args[0]) == ret {
				if rev, _ := dirFacts(factStrings(info, d.Decl.Body, x.Pos())); rev == "+rev" {
					reRev = true
				}
			}
		}
		return true
	})
	c.Shape(skeleton, trim, "PAGE/column-cursor", key+":lookahead-dropped", pos(c, d.Decl), "look-ahead row dropped exactly when more rows exist", "BuildCursor does not drop the look-ahead row when more rows exist: a row is returned twice (on this page and as the first of the next) or never")
	c.Shape(skeleton && idsVar != "" && nextSeen, nextOK, "PAGE/column-cursor", key+":next-starts-at-lookahead", pos(c, d.Decl), "next.PaginationID = id of the look-ahead row", "the next cursor does not start at the id of the look-ahead row (inclusive bound): the following page skips or repeats a row")
	c.Shape(skeleton && idsVar != "" && prevSeen, prevOK, "PAGE/column-cursor", key+":previous-on-reverse", pos(c, d.Decl), "on a reversed page previous.PaginationID = id before the look-ahead row", "on a page reached through a previous cursor the previous cursor is not built from the row before the look-ahead row: following previous twice skips or repeats a row")
	c.Shape(skeleton, reRev, "PAGE/column-cursor", key+":reverse-reordered", pos(c, d.Decl), "reversed page re-reversed (swap loop or slices.Reverse)", "a page fetched in reverse direction is not put back in the requested order")
	// cursor literal
	var lit *ast.CompositeLit
	ast.Inspect(d.Decl.Body, func(n ast.Node) bool {
		if cl, ok := n.(*ast.CompositeLit); ok && fieldOfCompositeLit(cl, "Data") != nil && fieldOfCompositeLit(cl, "HasMore") != nil {
			lit = cl
		}
		return true
	})
	if lit != nil {
		dv, hv := types.ExprString(fieldOfCompositeLit(lit, "Data")), nospace(types.ExprString(fieldOfCompositeLit(lit, "HasMore")))
		_, okH := matchPat(hv, "$n!=nil")
		c.Check(dv == ret && okH, "PAGE/column-cursor", key+":cursor-fields", pos(c, lit), "Data = rows, HasMore = next != nil", "the returned cursor does not carry the trimmed page, or HasMore is not `next cursor exists`")
	} else {
		c.Unrecognised("PAGE/column-cursor", key+":cursor-fields", pos(c, d.Decl), "cursor literal not found")
	}
}

func ruleOffsetPaginator(c *core.Ctx) {
	d := fn(c, pkgCommon, "OffsetPaginator", "Paginate")
	b := fn(c, pkgCommon, "OffsetPaginator", "BuildCursor")
	if d == nil || b == nil {
		return
	}
	key := declKey(d)
	scope := fnScope(c, d, 1)
	recL, okL := false, false
	for _, sc := range scopeCalls(scope, named("Limit")) {
		if len(sc.Call.Args) != 1 {
			continue
		}
		arg := nospace(types.ExprString(resolveLocal(sc.D.Pkg.TypesInfo, sc.D.Decl.Body, sc.Call.Args[0])))
		if _, ok := matchPat(arg, "int($p)+1"); ok {
			recL, okL = true, true
		} else if limitOfPageSize.MatchString(arg) {
			// int(<something else than the page size itself>) ± 1: the window is not the page size
			// BuildCursor compares the row count with
			recL = true
		}
	}
	c.Shape(recL, okL, "PAGE/offset", key+":lookahead", pos(c, d.Decl), "Limit(pageSize+1)", "the offset paginator does not fetch one row more than the page size")
	recO, okO := false, false
	for _, sc := range scopeCalls(scope, named("Offset")) {
		if len(sc.Call.Args) != 1 {
			continue
		}
		recO = true
		arg := nospace(types.ExprString(resolveLocal(sc.D.Pkg.TypesInfo, sc.D.Decl.Body, sc.Call.Args[0])))
		if bnd, ok := matchPat(arg, "int($o)"); ok && strings.HasSuffix(bnd["o"], "Offset") {
			okO = true
		}
	}
	// the statement that carries OFFSET/LIMIT is ordered: a window over an unordered set is arbitrary
	if len(scopeCalls(scope, named("Limit"))) > 0 && len(scopeCalls(scope, named("Order")))+len(scopeCalls(scope, named("OrderExpr"))) == 0 {
		c.Fail("PAGE/offset", key+":window-ordered", pos(c, d.Decl), "the offset paginator applies OFFSET/LIMIT to a statement it does not order: the pages are windows over an arbitrary row order (rows repeated and skipped across pages), whatever order the outer query gives the rows it received")
	} else {
		c.Pass("PAGE/offset", key+":window-ordered", pos(c, d.Decl), "ORDER BY on the statement carrying OFFSET/LIMIT")
	}
	if !recO {
		c.Fail("PAGE/offset", key+":offset", pos(c, d.Decl), "the offset paginator never applies an OFFSET: every page is the first page")
	} else {
		c.Shape(recO, okO, "PAGE/offset", key+":offset", pos(c, d.Decl), "Offset(query.Offset)", "the offset paginator does not skip the cursor's offset")
	}
	// BuildCursor
	bi := b.Pkg.TypesInfo
	bkey := declKey(b)
	if len(b.Decl.Type.Params.List) != 1 || len(b.Decl.Type.Params.List[0].Names) != 1 {
		c.Unrecognised("PAGE/offset", bkey+":signature", pos(c, b.Decl), "BuildCursor(rows) signature changed")
		return
	}
	ret := b.Decl.Type.Params.List[0].Names[0].Name
	recN, okN, recT, okT, recP, okP := false, false, false, false, false, false
	ast.Inspect(b.Decl.Body, func(n ast.Node) bool {
		as, ok := n.(*ast.AssignStmt)
		if !ok || len(as.Lhs) != 1 || len(as.Rhs) != 1 {
			return true
		}
		l, r := nospace(types.ExprString(as.Lhs[0])), nospace(types.ExprString(as.Rhs[0]))
		fs := factStrings(bi, b.Decl.Body, as.Pos())
		more := false
		for _, f := range fs {
			if f[0] == '+' {
				if _, ok := matchPat(strings.TrimPrefix(f, "+"), "len("+ret+")>int($p)"); ok {
					more = true
				}
				// merged condition `PageSize != 0 && len(ret) > int(PageSize)` is split by the fact engine
			}
		}
		if strings.HasSuffix(l, ".Offset") {
			if bnd, ok := matchPat(r, "$o+$p"); ok && strings.HasSuffix(bnd["o"], "Offset") && strings.HasSuffix(bnd["p"], "PageSize") {
				recN = true
				okN = more
			} else if _, ok := matchPat(r, "$o+$p-1"); ok {
				recN = true
			} else if _, ok := matchPat(r, "$o+$p+1"); ok {
				recN = true
			}
		}
		if l == ret {
			if r == ret+"[:len("+ret+")-1]" {
				recT = true
				okT = more
			}
		}
		// previous: offset - pageSize, floored at zero (if-clamp or builtin max)
		if bnd, ok := matchPat(r, "int($o)-int($p)"); ok && strings.HasSuffix(bnd["o"], "Offset") && strings.HasSuffix(bnd["p"], "PageSize") {
			recP = true
			// floor: a following `if x < 0 { x = 0 }`
			ast.Inspect(b.Decl.Body, func(m ast.Node) bool {
				if is, ok := m.(*ast.IfStmt); ok && nospace(types.ExprString(is.Cond)) == l+"<0" {
					okP = true
				}
				return true
			})
		}
		if bnd, ok := matchPat(r, "max(0,int($o)-int($p))"); ok && strings.HasSuffix(bnd["o"], "Offset") {
			recP, okP = true, true
		}
		if bnd, ok := matchPat(r, "max(int($o)-int($p),0)"); ok && strings.HasSuffix(bnd["o"], "Offset") {
			recP, okP = true, true
		}
		return true
	})
	c.Shape(recN, okN, "PAGE/offset", bkey+":advance", pos(c, b.Decl), "next offset = offset + pageSize when more than pageSize rows came back", "the offset paginator does not advance by exactly one page when more rows exist: rows are skipped or repeated across pages")
	c.Shape(recT, okT, "PAGE/offset", bkey+":lookahead-dropped", pos(c, b.Decl), "look-ahead row dropped when more rows exist", "the offset paginator does not drop its look-ahead row exactly when more rows exist")
	c.Shape(recP, okP, "PAGE/offset", bkey+":previous", pos(c, b.Decl), "previous offset = max(0, offset − pageSize)", "the previous cursor of the offset paginator does not step back one page, floored at 0")
}

func rulePaginateDispatch(c *core.Ctx) {
	d := fn(c, pkgCommon, "PaginatedResourceRepository", "Paginate")
	if d == nil {
		return
	}
	key := declKey(d)
	scope := fnScope(c, d, 2)
	// the column/offset choice: composite literals of the two query types built from the initial query
	recC, okCol, okOff := false, false, false
	var otherFacts []xfact
	inScope(scope, func(dd *astx.DeclInfo) {
		info := dd.Pkg.TypesInfo
		ast.Inspect(dd.Decl.Body, func(n ast.Node) bool {
			cl, ok := n.(*ast.CompositeLit)
			if !ok || fieldOfCompositeLit(cl, "InitialPaginatedQuery") == nil {
				return true
			}
			t := types.ExprString(cl.Type)
			fs := factStrings(info, dd.Decl.Body, cl.Pos())
			var pos, neg bool
			for _, f := range fs {
				if strings.HasSuffix(f[1:], ".Type.IsPaginated()") {
					pos, neg = f[0] == '+', f[0] == '-'
				}
			}
			if !pos && !neg {
				// chosen under some other condition: remember it, to tell a plain field or
				// comparison (positive evidence of a different criterion) from a helper predicate
				for _, ft := range xfactsAt(info, dd.Decl.Body, cl.Pos()) {
					if isErrNilTest(info, ft.Cond) {
						continue
					}
					otherFacts = append(otherFacts, ft)
				}
				return true
			}
			recC = true
			switch {
			case strings.HasPrefix(t, "ColumnPaginatedQuery"):
				okCol = pos
			case strings.HasPrefix(t, "OffsetPaginatedQuery"):
				okOff = neg
			}
			return true
		})
	})
	if !recC && len(otherFacts) > 0 && !factsOpaque(c, d.Pkg.TypesInfo, otherFacts) {
		c.Fail("PAGE/dispatch", key+":paginator-choice", pos(c, d.Decl), "the choice between the column and the offset paginator is not made on the column type's IsPaginated(): the window comparison can be applied to a type it cannot order")
		recC, okCol, okOff = true, true, true // reported above
	}
	c.Shape(recC, okCol && okOff, "PAGE/dispatch", key+":paginator-choice", pos(c, d.Decl), "column paginator iff the column type supports it", "the first page does not choose the column paginator exactly for column types that can be compared with a pagination id (others must use offsets): the window comparison is applied to a type it cannot order")
	// the final ORDER BY is the paginator's own expression
	info := d.Pkg.TypesInfo
	recF, okF := false, false
	for _, call := range callsTo(info, d.Decl.Body, named("Order")) {
		if len(call.Args) != 1 {
			continue
		}
		if f, args, ok := sprintfShape(info, call.Args[0]); ok && strings.HasPrefix(f, "dataset.") {
			recF = true
			okF = f == "dataset.%s %s" && len(args) == 2 && len(callsTo(info, d.Decl.Body, named("OrderExpression"))) == 1
		}
	}
	c.Shape(recF, okF, "PAGE/dispatch", key+":final-order", pos(c, d.Decl), "final ORDER BY = paginator.OrderExpression() (column and direction)", "the final query is not ordered by the paginator's own column and direction: the rows arrive in another order than the one the window bounds assume")
	// pipeline
	bf := callsTo(info, d.Decl.Body, named("buildFilteredDataset"))
	pg := callsTo(info, d.Decl.Body, methodOn("Paginator", "Paginate"))
	bc := callsTo(info, d.Decl.Body, named("BuildCursor"))
	sc := callsTo(info, d.Decl.Body, named("Scan"))
	recP := len(bf) == 1 && len(pg) == 1 && len(bc) == 1 && len(sc) == 1
	okP := false
	if recP {
		flow := astx.NewFlow(info, d.Decl.Body)
		okP = flow.Dominates(bf[0], pg[0]) && flow.Dominates(pg[0], sc[0]) && flow.Dominates(sc[0], bc[0])
	}
	c.Shape(recP, okP, "PAGE/dispatch", key+":pipeline", pos(c, d.Decl), "filtered dataset → paginator window → scan → cursor from the scanned rows", "Paginate does not apply the paginator's window to the filtered dataset and build the cursor from the rows it scanned")
}

// ruleGroupByBindsAlias (SQLS): in PostgreSQL a GROUP BY name that is both an input column and an
// output alias means the input column. A statement that projects `f(x) as x` and groups by `x`
// therefore groups by the untransformed column: the projected key is no longer unique in the
// result (grouped listings return a key once per underlying row, spread over pages).
func ruleGroupByBindsAlias(c *core.Ctx) {
	m := bunModel(c, pkgStore)
	n := 0
	for _, s := range m.Stmts {
		if s.Kind != "select" {
			continue
		}
		groups := map[string]bool{}
		for _, cl := range s.ClausesNamed("Group", "GroupExpr") {
			for _, alt := range cl.SQL {
				for _, part := range strings.Split(alt, ",") {
					toks, err := sqlfe.Lex(strings.TrimSpace(part))
					if err == nil && len(toks) == 1 {
						if name, ok := toks[0].Name(); ok {
							groups[strings.ToLower(name)] = true
						}
					}
				}
			}
		}
		if len(groups) == 0 {
			continue
		}
		for _, cl := range s.ClausesNamed("ColumnExpr") {
			for _, alt := range cl.SQL {
				toks, err := sqlfe.Lex(alt)
				if err != nil || len(toks) < 3 {
					continue
				}
				// trailing `as <alias>`
				last := toks[len(toks)-1]
				alias, ok := last.Name()
				if !ok || !strings.EqualFold(toks[len(toks)-2].Text, "as") {
					continue
				}
				alias = strings.ToLower(alias)
				if !groups[alias] {
					continue
				}
				body := toks[:len(toks)-2]
				if len(body) == 1 {
					continue // `x as x`
				}
				mentions := false
				for i, tk := range body {
					if nm, ok := tk.Name(); ok && strings.ToLower(nm) == alias {
						// not a function name, not a qualified member of something else
						if i+1 < len(body) && body[i+1].IsOp("(") {
							continue
						}
						mentions = true
					}
				}
				n++
				key := fmt.Sprintf("%s:%s:group-by-%s", enclKey(pkgStore, s.Encl), s.Describe(), alias)
				c.Check(!mentions, "SQLS/group-by-alias", key, pos(c, cl.Call), "GROUP BY "+alias+" names the projected key", "this statement projects an expression of the input column `"+alias+"` under the same name and groups by `"+alias+"`: PostgreSQL resolves the GROUP BY name to the input column, so rows are grouped by the untransformed value and the projected key comes back once per underlying row")
			}
		}
	}
	c.Stats["group_by_alias_sites"] = n
}
