package rules

import (
	"fmt"
	"go/ast"
	"go/token"
	"go/types"
	"strings"

	"ledgerlint/internal/astx"
	"ledgerlint/internal/core"
)

// originEnv renders expressions as "where the value comes from", independent of local names and
// of helper extraction: a local is replaced by its definition, a helper's parameter by the
// caller's argument, a call to a single-return helper of the same package by what it returns.
// Results of other calls read `<callee>#<i>(…)`, parameters of the root function `param:<name>`.
// Pointer/address operators are dropped. Unknown shapes render with a leading `?`.
type originEnv struct {
	c     *core.Ctx
	d     *astx.DeclInfo
	info  *types.Info
	bind  map[types.Object]string
	depth int
	busy  map[types.Object]bool
	// parent/bindExpr: the calling environment and the argument expressions bound to this
	// function's parameters, for following a value back to the caller's variable (rootObj)
	parent   *originEnv
	bindExpr map[types.Object]ast.Expr
}

func newOriginEnv(c *core.Ctx, d *astx.DeclInfo) *originEnv {
	return &originEnv{c: c, d: d, info: d.Pkg.TypesInfo, bind: map[types.Object]string{}, busy: map[types.Object]bool{}}
}

// forCallee returns the environment of callee as called by call from e (parameters and receiver
// bound to the origins of the arguments).
func (e *originEnv) forCallee(call *ast.CallExpr, callee *astx.DeclInfo) *originEnv {
	ne := &originEnv{c: e.c, d: callee, info: callee.Pkg.TypesInfo, bind: map[types.Object]string{}, depth: e.depth + 1, busy: map[types.Object]bool{}, parent: e, bindExpr: map[types.Object]ast.Expr{}}
	i := 0
	if callee.Decl.Type.Params != nil {
		for _, fl := range callee.Decl.Type.Params.List {
			for _, nm := range fl.Names {
				if i < len(call.Args) {
					ne.bind[ne.info.ObjectOf(nm)] = e.origin(call.Args[i])
					ne.bindExpr[ne.info.ObjectOf(nm)] = call.Args[i]
				}
				i++
			}
			if len(fl.Names) == 0 {
				i++
			}
		}
	}
	if callee.Decl.Recv != nil && len(callee.Decl.Recv.List) == 1 && len(callee.Decl.Recv.List[0].Names) == 1 {
		if r := recvExpr(call); r != nil {
			ne.bind[ne.info.ObjectOf(callee.Decl.Recv.List[0].Names[0])] = e.origin(r)
		}
	}
	return ne
}

// scopeEnvs returns the environments of d and of the same-package helpers it calls directly
// (each helper once, at its first call site).
func scopeEnvs(c *core.Ctx, d *astx.DeclInfo) []*originEnv { return scopeEnvsDepth(c, d, 1) }

// scopeEnvsDepth is scopeEnvs following helper calls up to depth levels.
func scopeEnvsDepth(c *core.Ctx, d *astx.DeclInfo, depth int) []*originEnv {
	root := newOriginEnv(c, d)
	out := []*originEnv{root}
	ix := index(c)
	seen := map[*types.Func]bool{d.Obj: true}
	frontier := []*originEnv{root}
	for lvl := 0; lvl < depth; lvl++ {
		var next []*originEnv
		for _, cur := range frontier {
			cur := cur
			ast.Inspect(cur.d.Decl.Body, func(n ast.Node) bool {
				call, ok := n.(*ast.CallExpr)
				if !ok {
					return true
				}
				f := astx.Callee(cur.info, call)
				if f == nil || f.Pkg() == nil || f.Pkg() != d.Obj.Pkg() {
					return true
				}
				dd := ix.Decls[f]
				if dd == nil {
					dd = ix.Decls[f.Origin()]
				}
				if dd == nil || dd.Decl.Body == nil || seen[dd.Obj] {
					return true
				}
				seen[dd.Obj] = true
				ne := cur.forCallee(call, dd)
				ne.depth = 0
				out = append(out, ne)
				next = append(next, ne)
				return true
			})
		}
		frontier = next
	}
	return out
}

type localDef struct {
	expr ast.Expr // nil for multi-result calls and ranges
	text string   // rendered origin when expr is nil (ranges, non-call multi-value)
	call *ast.CallExpr // multi-result call defining the variable as its idx-th result (rendered lazily)
	idx  int
	self bool // the definition mentions the variable itself (x = x.With(…), ctx, span := f(ctx))
	pos  token.Pos
}

func (e *originEnv) defsOf(obj types.Object) []localDef {
	var defs []localDef
	mentions := func(x ast.Expr) bool { return usesObj(e.info, x, obj) }
	ast.Inspect(e.d.Decl.Body, func(n ast.Node) bool {
		switch x := n.(type) {
		case *ast.AssignStmt:
			for i, l := range x.Lhs {
				id, ok := l.(*ast.Ident)
				if !ok || e.info.ObjectOf(id) != obj {
					continue
				}
				if len(x.Lhs) == len(x.Rhs) {
					defs = append(defs, localDef{expr: x.Rhs[i], self: mentions(x.Rhs[i]), pos: x.Pos()})
				} else if len(x.Rhs) == 1 {
					if call, ok := ast.Unparen(x.Rhs[0]).(*ast.CallExpr); ok {
						defs = append(defs, localDef{call: call, idx: i, self: mentions(call), pos: x.Pos()})
					} else {
						defs = append(defs, localDef{text: fmt.Sprintf("?%s#%d", types.ExprString(x.Rhs[0]), i), pos: x.Pos()})
					}
				}
			}
		case *ast.ValueSpec:
			for i, nm := range x.Names {
				if e.info.ObjectOf(nm) == obj && i < len(x.Values) {
					defs = append(defs, localDef{expr: x.Values[i], pos: x.Pos()})
				}
			}
		case *ast.RangeStmt:
			for k, l := range []ast.Expr{x.Key, x.Value} {
				if id, ok := l.(*ast.Ident); ok && e.info.ObjectOf(id) == obj {
					if mentions(x.X) || e.busy[obj] {
						defs = append(defs, localDef{text: fmt.Sprintf("range%d(?)", k), self: true, pos: x.Pos()})
					} else {
						e.busy[obj] = true
						defs = append(defs, localDef{text: fmt.Sprintf("range%d(%s)", k, e.origin(x.X)), pos: x.Pos()})
						delete(e.busy, obj)
					}
				}
			}
		}
		return true
	})
	return defs
}

func (e *originEnv) origin(x ast.Expr) string {
	x = ast.Unparen(x)
	switch v := x.(type) {
	case *ast.StarExpr:
		return e.origin(v.X)
	case *ast.UnaryExpr:
		if v.Op == token.AND {
			return e.origin(v.X)
		}
		return v.Op.String() + e.origin(v.X)
	case *ast.BasicLit:
		return v.Value
	case *ast.Ident:
		if tv, ok := e.info.Types[v]; ok && tv.Value != nil {
			return tv.Value.ExactString()
		}
		obj := e.info.ObjectOf(v)
		if obj == nil {
			return v.Name
		}
		if s, ok := e.bind[obj]; ok {
			return s
		}
		vr, isVar := obj.(*types.Var)
		if !isVar {
			return v.Name
		}
		if obj.Parent() == obj.Pkg().Scope() {
			return relPkg(obj.Pkg().Path()) + "." + v.Name
		}
		_ = vr
		if e.busy[obj] {
			return "?" + v.Name
		}
		defs := e.defsOf(obj)
		if len(defs) == 0 {
			return "param:" + v.Name
		}
		// builder pattern: one plain definition, the others rebuild the variable from itself
		var base *localDef
		for i := range defs {
			if !defs[i].self {
				if base != nil {
					return "?" + v.Name
				}
				base = &defs[i]
			}
		}
		if base == nil {
			return "?" + v.Name
		}
		e.busy[obj] = true
		defer delete(e.busy, obj)
		if base.call != nil {
			return fmt.Sprintf("%s#%d", e.callOrigin(base.call, false), base.idx)
		}
		if base.expr == nil {
			return base.text
		}
		return e.origin(base.expr)
	case *ast.SelectorExpr:
		if tv, ok := e.info.Types[v]; ok && tv.Value != nil {
			return tv.Value.ExactString()
		}
		if id, ok := v.X.(*ast.Ident); ok {
			if _, isPkg := e.info.Uses[id].(*types.PkgName); isPkg {
				return id.Name + "." + v.Sel.Name
			}
		}
		return e.origin(v.X) + "." + v.Sel.Name
	case *ast.CallExpr:
		return e.callOrigin(v, true)
	case *ast.IndexExpr:
		return e.origin(v.X) + "[" + e.origin(v.Index) + "]"
	case *ast.BinaryExpr:
		return "(" + e.origin(v.X) + v.Op.String() + e.origin(v.Y) + ")"
	}
	return "?" + nospace(types.ExprString(x))
}

// callOrigin renders a call; with inline set, a call to a same-package helper that has a single
// return statement with one result reads as that result.
func (e *originEnv) callOrigin(call *ast.CallExpr, inline bool) string {
	f := astx.Callee(e.info, call)
	var args []string
	for _, a := range call.Args {
		args = append(args, e.origin(a))
	}
	if f == nil {
		// conversion or call of a function value
		if len(call.Args) == 1 {
			if tv, ok := e.info.Types[call.Fun]; ok && tv.IsType() {
				return e.origin(call.Args[0])
			}
		}
		return "?" + nospace(types.ExprString(call.Fun)) + "(" + strings.Join(args, ",") + ")"
	}
	if inline && e.depth < 2 && f.Pkg() != nil && f.Pkg() == e.d.Obj.Pkg() {
		ix := index(e.c)
		dd := ix.Decls[f]
		if dd == nil {
			dd = ix.Decls[f.Origin()]
		}
		if dd != nil && dd.Decl.Body != nil && dd.Obj != e.d.Obj {
			var rets []*ast.ReturnStmt
			ast.Inspect(dd.Decl.Body, func(n ast.Node) bool {
				if _, ok := n.(*ast.FuncLit); ok {
					return false
				}
				if r, ok := n.(*ast.ReturnStmt); ok {
					rets = append(rets, r)
				}
				return true
			})
			if len(rets) == 1 && len(rets[0].Results) == 1 {
				return e.forCallee(call, dd).origin(rets[0].Results[0])
			}
		}
	}
	if r := recvExpr(call); r != nil {
		if sig, ok := f.Type().(*types.Signature); ok && sig.Recv() != nil {
			return e.origin(r) + "." + f.Name() + "(" + strings.Join(args, ",") + ")"
		}
	}
	return f.Name() + "(" + strings.Join(args, ",") + ")"
}

// calls returns the calls matching m inside the environment's function.
func (e *originEnv) calls(m func(*types.Func) bool) []*ast.CallExpr {
	return callsTo(e.info, e.d.Decl.Body, m)
}

// facts returns the branch facts at p inside the environment's function.
func (e *originEnv) facts(p token.Pos) []xfact { return xfactsAt(e.info, e.d.Decl.Body, p) }

// resolveLit follows x (through &, single-definition locals and single-return helpers of the same
// package) to the composite literal it denotes, with the environment the literal's field values
// are to be read in; nil when x is built some other way.
func (e *originEnv) resolveLit(x ast.Expr) (*ast.CompositeLit, *originEnv) {
	for depth := 0; depth < 6; depth++ {
		switch v := ast.Unparen(x).(type) {
		case *ast.UnaryExpr:
			if v.Op != token.AND {
				return nil, nil
			}
			x = v.X
		case *ast.CompositeLit:
			return v, e
		case *ast.Ident:
			obj := e.info.ObjectOf(v)
			if obj == nil {
				return nil, nil
			}
			var base ast.Expr
			n := 0
			for _, d := range e.defsOf(obj) {
				if !d.self {
					n++
					base = d.expr
				}
			}
			if n != 1 || base == nil {
				return nil, nil
			}
			x = base
		case *ast.CallExpr:
			f := astx.Callee(e.info, v)
			if f == nil || f.Pkg() == nil || f.Pkg() != e.d.Obj.Pkg() || e.depth >= 3 {
				return nil, nil
			}
			ix := index(e.c)
			dd := ix.Decls[f]
			if dd == nil {
				dd = ix.Decls[f.Origin()]
			}
			if dd == nil || dd.Decl.Body == nil || dd.Obj == e.d.Obj {
				return nil, nil
			}
			var rets []*ast.ReturnStmt
			ast.Inspect(dd.Decl.Body, func(n ast.Node) bool {
				if _, ok := n.(*ast.FuncLit); ok {
					return false
				}
				if r, ok := n.(*ast.ReturnStmt); ok {
					rets = append(rets, r)
				}
				return true
			})
			if len(rets) != 1 || len(rets[0].Results) != 1 {
				return nil, nil
			}
			return e.forCallee(v, dd).resolveLit(rets[0].Results[0])
		default:
			return nil, nil
		}
	}
	return nil, nil
}

// rootObj follows x (through &/*, plain copies `a := b` and helper parameters back to the caller's
// argument) to the variable it stands for; nil when x is not a variable.
func (e *originEnv) rootObj(x ast.Expr) types.Object {
	for depth := 0; depth < 8; depth++ {
		switch v := ast.Unparen(x).(type) {
		case *ast.StarExpr:
			x = v.X
			continue
		case *ast.UnaryExpr:
			if v.Op == token.AND {
				x = v.X
				continue
			}
			return nil
		case *ast.Ident:
			obj := e.info.ObjectOf(v)
			if obj == nil {
				return nil
			}
			if arg, ok := e.bindExpr[obj]; ok && e.parent != nil {
				return e.parent.rootObj(arg)
			}
			defs := e.defsOf(obj)
			if len(defs) == 1 && defs[0].expr != nil {
				if _, isID := ast.Unparen(defs[0].expr).(*ast.Ident); isID {
					x = defs[0].expr
					continue
				}
				if u, isU := ast.Unparen(defs[0].expr).(*ast.UnaryExpr); isU && u.Op == token.AND {
					x = defs[0].expr
					continue
				}
			}
			return obj
		default:
			return nil
		}
	}
	return nil
}

// originThroughCallers renders e (an expression of function f) by origin; when the origin is a
// parameter of f and f is an unexported helper, the question is asked at each of f's call sites
// instead (one level), so that a flag computed by the caller and handed down is seen for what it is.
func originThroughCallers(c *core.Ctx, f *types.Func, e ast.Expr) []string {
	ix := index(c)
	d := ix.Decls[f]
	if d == nil && f != nil {
		d = ix.Decls[f.Origin()]
	}
	if d == nil {
		return nil
	}
	env := newOriginEnv(c, d)
	o := env.origin(e)
	if !strings.HasPrefix(o, "param:") || f.Exported() {
		return []string{o}
	}
	var out []string
	for _, s := range ix.SitesOf(d.Obj) {
		if s.Encl == nil || s.EnclObj == nil || strings.HasSuffix(c.Prog().Rel(s.Call.Pos()), "_test.go") {
			continue
		}
		cd := ix.Decls[s.EnclObj]
		if cd == nil {
			cd = ix.Decls[s.EnclObj.Origin()]
		}
		if cd == nil {
			continue
		}
		out = append(out, newOriginEnv(c, cd).forCallee(s.Call, d).origin(e))
	}
	if len(out) == 0 {
		return []string{o}
	}
	return out
}
