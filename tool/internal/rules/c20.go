package rules

import (
	"fmt"
	"go/ast"
	"go/parser"
	"go/token"
	"go/types"
	"sort"
	"strconv"
	"strings"

	"ledgerlint/internal/astx"
	"ledgerlint/internal/core"
	"ledgerlint/internal/load"
)

func init() {
	register("C20", checkC20)
	addBreakers("C20",
		Breaker{Name: "in-values-not-collected-for-lateral", File: "internal/storage/ledger/utils.go",
			Old: "\t\t\tfor _, item := range v {\n\t\t\t\tif address, ok := item.(string); ok {\n\t\t\t\t\taddresses = append(addresses, address)\n\t\t\t\t} else {\n\t\t\t\t\tunknown = true\n\t\t\t\t}\n\t\t\t}\n", New: "", Expect: "DOM/lateral-push"},
		Breaker{Name: "logs-type-in-unrendered", File: "internal/storage/ledger/resource_logs.go",
			Old: "\t\tswitch operator {\n\t\tcase queries.OperatorIn:\n\t\t\treturn \"type IN (?)\", []any{bun.In(value)}, nil\n\t\tdefault:\n\t\t\treturn fmt.Sprintf(\"type %s ?\", common.ConvertOperatorToSQL(operator)), []any{value}, nil\n\t\t}", New: "\t\treturn fmt.Sprintf(\"type %s ?\", common.ConvertOperatorToSQL(operator)), []any{value}, nil", Expect: "EXH/filter-operators"},
		Breaker{Name: "new-field-without-resolver", File: "internal/queries/resources.go",
			Old: "\t\t\"reference\":   NewStringField(),\n", New: "\t\t\"reference\":   NewStringField(),\n\t\t\"template\":    NewStringField(),\n", Expect: "EXH/filter-fields"},
		Breaker{Name: "date-field-gets-like", File: "internal/queries/field.go",
			Old: "func (t TypeDate) Operators() []string {\n\treturn []string{\n\t\tOperatorMatch,", New: "func (t TypeDate) Operators() []string {\n\treturn []string{\n\t\tOperatorMatch,\n\t\tOperatorExists,", Expect: "EXH/filter-operators"},
		Breaker{Name: "convert-operator-drops-lte", File: "internal/storage/common/resource.go",
			Old: "\tcase queries.OperatorLTE:\n\t\treturn \"<=\"\n", New: "", Expect: "EXH/filter-operators"},
		Breaker{Name: "convert-operator-lt-rendered-as-lte", File: "internal/storage/common/resource.go",
			Old: "\tcase queries.OperatorLT:\n\t\treturn \"<\"", New: "\tcase queries.OperatorLT:\n\t\treturn \"<=\"", Expect: "EXH/operator-rendering"},
		Breaker{Name: "leaf-operator-table-misses-in", File: "internal/storage/ledger/utils.go",
			Old: `case "$match", "$gt", "$gte", "$lt", "$lte", "$like", "$exists", "$in":`, New: `case "$match", "$gt", "$gte", "$lt", "$lte", "$like", "$exists":`, Expect: "EXH/leaf-operators"},
		Breaker{Name: "lateral-push-unconditional", File: "internal/storage/ledger/resource_aggregated_balances.go",
			Old: "\t\t\tsubQuery = applyLateralAddressFilter(subQuery, allAddresses, canPushLateral)\n\n\t\t\tret = ret.", New: "\t\t\tsubQuery = applyLateralAddressFilter(subQuery, allAddresses, true)\n\n\t\t\tret = ret.", Expect: "DOM/lateral-push"},
		Breaker{Name: "lateral-push-ignores-safety-in-helper", File: "internal/storage/ledger/utils.go",
			Old: "if len(addresses) > 0 && canPush {", New: "if len(addresses) > 0 {", Expect: "DOM/lateral-push"},
		Breaker{Name: "reverted-filter-inverted", File: "internal/storage/ledger/resource_transactions.go",
			Old: "\t\tif value.(bool) {\n\t\t\tret += \" not\"\n\t\t}", New: "\t\tif !value.(bool) {\n\t\t\tret += \" not\"\n\t\t}", Expect: "SQLS/reverted-filter"},
		Breaker{Name: "source-filter-checks-destinations", File: "internal/storage/ledger/resource_transactions.go",
			Old: "\t\t\treturn filterAccountAddressOnTransactions(value.(string), true, false), nil, nil", New: "\t\t\treturn filterAccountAddressOnTransactions(value.(string), false, true), nil, nil", Expect: "SQLS/address-side"},
	)
}

type filterField struct {
	Name    string
	Kind    string // string, date, numeric, boolean, map[string], map[numeric]
	Aliases []string
}

func checkC20(c *core.Ctx) {
	c.Decide("three-way agreement per resource (accounts, transactions, logs, volumes, aggregated balances, schemas): every field (and alias) of the filter schema has an arm in that resource's ResolveFilter; for every field, every operator its type allows is one the arm can render — an arm that calls ConvertOperatorToSQL supports exactly that function's case labels minus the operators an enclosing operator test peeled off; each comparison operator is rendered as its own SQL operator; the leaf-operator table used to analyse filters equals the leaf operators of the pinned go-libs query parser; the lateral address-filter push is applied only under canPushAddressFilterToLateral; the source/destination/account filters look at the matching side(s) and `reverted` maps true to `is not null`")
	c.NotDecided("that the generated SQL selects exactly the matching rows; semantics of operator-insensitive arms (e.g. $like on an address behaves as $match)")
	c.Trust("go-libs query.Builder calls the resolver with the operator and key it parsed")
	ruleFilterSchemas(c)
	ruleOperatorRendering(c)
	ruleLeafOperators(c)
	ruleLateralPush(c)
	ruleTransactionFilterSides(c)
	rulePartialAddressTerminator(c)
	ruleLateralCollectsEveryAddressValue(c)
	// "with or without a point in time": the columns a filter looks at under a PIT (masked
	// reverted_at, history metadata) are produced by the PIT projection (C05) and by the history
	// triggers (C17); their structure is a necessary condition of filtering exactly
	ruleTemporalClauses(c)
	ruleHistoryTriggers(c)
}

// typeOperators evaluates Type*.Operators() from the source.
func typeOperators(c *core.Ctx) map[string][]string {
	pk := c.Prog().Pkg(pkgQueries)
	info := pk.TypesInfo
	out := map[string][]string{}
	for _, tn := range []struct{ typ, kind string }{{"TypeString", "string"}, {"TypeDate", "date"}, {"TypeNumeric", "numeric"}, {"TypeBoolean", "boolean"}} {
		d := index(c).LookupFunc(pkgQueries, tn.typ, "Operators")
		if d == nil {
			c.Unknown("anchor", pkgQueries+"."+tn.typ+".Operators", "", "not found")
			continue
		}
		ast.Inspect(d.Decl.Body, func(n ast.Node) bool {
			if cl, ok := n.(*ast.CompositeLit); ok {
				for _, e := range cl.Elts {
					if s, ok := astx.ConstString(info, e); ok {
						out[tn.kind] = append(out[tn.kind], s)
					}
				}
			}
			return true
		})
	}
	// TypeMap: append(underlying.Operators(), extra...)
	if d := index(c).LookupFunc(pkgQueries, "TypeMap", "Operators"); d != nil {
		var extra []string
		ast.Inspect(d.Decl.Body, func(n ast.Node) bool {
			if call, ok := n.(*ast.CallExpr); ok {
				if id, ok := call.Fun.(*ast.Ident); ok && id.Name == "append" {
					for _, a := range call.Args[1:] {
						if s, ok := astx.ConstString(info, a); ok {
							extra = append(extra, s)
						}
					}
				}
			}
			return true
		})
		for _, k := range []string{"string", "numeric"} {
			out["map["+k+"]"] = dedupStrings(append(append([]string(nil), out[k]...), extra...))
		}
	}
	return out
}

var fieldCtors = map[string]string{"NewStringField": "string", "NewDateField": "date", "NewNumericField": "numeric", "NewBooleanField": "boolean", "NewStringMapField": "map[string]", "NewNumericMapField": "map[numeric]"}

func schemaFields(c *core.Ctx, schemaVar string) []filterField {
	pk := c.Prog().Pkg(pkgQueries)
	info := pk.TypesInfo
	var out []filterField
	for _, f := range pk.Syntax {
		for _, d := range f.Decls {
			gd, ok := d.(*ast.GenDecl)
			if !ok {
				continue
			}
			for _, sp := range gd.Specs {
				vs, ok := sp.(*ast.ValueSpec)
				if !ok || len(vs.Names) != 1 || vs.Names[0].Name != schemaVar || len(vs.Values) != 1 {
					continue
				}
				ast.Inspect(vs.Values[0], func(n ast.Node) bool {
					kv, ok := n.(*ast.KeyValueExpr)
					if !ok {
						return true
					}
					name, ok := astx.ConstString(info, kv.Key)
					if !ok {
						return true
					}
					ff := filterField{Name: name}
					ast.Inspect(kv.Value, func(y ast.Node) bool {
						call, ok := y.(*ast.CallExpr)
						if !ok {
							return true
						}
						if fn := astx.Callee(info, call); fn != nil {
							if k, ok := fieldCtors[fn.Name()]; ok {
								ff.Kind = k
							}
							if fn.Name() == "WithAliases" {
								for _, a := range call.Args {
									if s, ok := astx.ConstString(info, a); ok {
										ff.Aliases = append(ff.Aliases, s)
									}
								}
							}
						}
						return true
					})
					if ff.Kind != "" {
						out = append(out, ff)
					}
					return false
				})
			}
		}
	}
	return out
}

// filterArm is one arm of a ResolveFilter switch.
type filterArm struct {
	Props    []string // exact property names
	Regexes  []string // "balance[]" / "metadata[]"
	Clause   *ast.CaseClause
	Supports map[string]bool // nil = operator-insensitive (renders any operator the same way)
	Explicit map[string]bool // operators handled by an explicit test
}

func convertOperatorLabels(c *core.Ctx) []string {
	d := fn(c, pkgCommon, "", "ConvertOperatorToSQL")
	if d == nil {
		return nil
	}
	var out []string
	ast.Inspect(d.Decl.Body, func(n ast.Node) bool {
		if cc, ok := n.(*ast.CaseClause); ok {
			for _, e := range cc.List {
				if s, ok := astx.ConstString(d.Pkg.TypesInfo, e); ok {
					out = append(out, s)
				}
			}
		}
		return true
	})
	sort.Strings(out)
	return out
}

func resolveFilterArms(c *core.Ctx, d *astx.DeclInfo, convLabels []string) []filterArm {
	info := d.Pkg.TypesInfo
	var sw *ast.SwitchStmt
	for _, st := range d.Decl.Body.List {
		if s, ok := st.(*ast.SwitchStmt); ok {
			sw = s
		}
	}
	if sw == nil {
		return nil
	}
	var arms []filterArm
	pendingProps := []string{}
	pendingRe := []string{}
	for _, cl := range sw.Body.List {
		cc := cl.(*ast.CaseClause)
		arm := filterArm{Clause: cc}
		for _, e := range cc.List {
			if sw.Tag != nil {
				if s, ok := astx.ConstString(info, e); ok {
					arm.Props = append(arm.Props, s)
				}
				continue
			}
			ast.Inspect(e, func(n ast.Node) bool {
				switch x := n.(type) {
				case *ast.BinaryExpr:
					if x.Op == token.EQL {
						if s, ok := astx.ConstString(info, x.Y); ok && astx.SelectorPath(x.X) == "property" {
							arm.Props = append(arm.Props, s)
						}
					}
				case *ast.CallExpr:
					p := astx.SelectorPath(recvExpr(x))
					if strings.HasSuffix(p, "balanceRegex") {
						arm.Regexes = append(arm.Regexes, "balance[]")
					}
					if strings.HasSuffix(p, "MetadataRegex") {
						arm.Regexes = append(arm.Regexes, "metadata[]")
					}
				}
				return true
			})
		}
		// fallthrough chains: merge into the next arm
		if len(cc.Body) == 1 {
			if br, ok := cc.Body[0].(*ast.BranchStmt); ok && br.Tok == token.FALLTHROUGH {
				pendingProps = append(pendingProps, arm.Props...)
				pendingRe = append(pendingRe, arm.Regexes...)
				continue
			}
		}
		arm.Props = append(pendingProps, arm.Props...)
		arm.Regexes = append(pendingRe, arm.Regexes...)
		pendingProps, pendingRe = nil, nil
		if cc.List == nil {
			continue
		}
		// operator handling inside the arm
		arm.Explicit = map[string]bool{}
		usesConv := false
		ast.Inspect(cc, func(n ast.Node) bool {
			switch x := n.(type) {
			case *ast.CaseClause:
				if x != cc {
					for _, e := range x.List {
						if s, ok := astx.ConstString(info, e); ok && strings.HasPrefix(s, "$") {
							arm.Explicit[s] = true
						}
					}
				}
			case *ast.BinaryExpr:
				if x.Op == token.EQL && astx.SelectorPath(x.X) == "operator" {
					if s, ok := astx.ConstString(info, x.Y); ok {
						arm.Explicit[s] = true
					}
				}
			case *ast.CallExpr:
				if f := astx.Callee(info, x); f != nil && f.Name() == "ConvertOperatorToSQL" {
					usesConv = true
				}
			}
			return true
		})
		if usesConv {
			arm.Supports = map[string]bool{}
			for _, l := range convLabels {
				arm.Supports[l] = true
			}
			for e := range arm.Explicit {
				arm.Supports[e] = true
			}
		}
		arms = append(arms, arm)
	}
	return arms
}

func ruleFilterSchemas(c *core.Ctx) {
	ops := typeOperators(c)
	conv := convertOperatorLabels(c)
	c.Floor("EXH/filter-operators", "operators ConvertOperatorToSQL can render", len(conv), 6)
	pk := c.Prog().Pkg(pkgStore)
	nHandlers, nFields := 0, 0
	for _, f := range pk.Syntax {
		for _, dd := range f.Decls {
			fd, ok := dd.(*ast.FuncDecl)
			if !ok || fd.Name.Name != "Schema" || fd.Recv == nil || fd.Body == nil {
				continue
			}
			recv := load.RecvName(fd)
			schemaVar := ""
			ast.Inspect(fd.Body, func(n ast.Node) bool {
				if r, ok := n.(*ast.ReturnStmt); ok && len(r.Results) == 1 {
					schemaVar = lastSeg(astx.SelectorPath(r.Results[0]))
				}
				return true
			})
			d := index(c).LookupFunc(pkgStore, recv, "ResolveFilter")
			if d == nil || schemaVar == "" {
				c.Unknown("EXH/filter-fields", recv+":anchors", pos(c, fd), "Schema() / ResolveFilter pair not resolved")
				continue
			}
			nHandlers++
			fields := schemaFields(c, schemaVar)
			arms := resolveFilterArms(c, d, conv)
			if len(fields) == 0 || len(arms) == 0 {
				c.Unknown("EXH/filter-fields", recv+":tables", pos(c, d.Decl), fmt.Sprintf("schema %s has %d fields, ResolveFilter has %d arms", schemaVar, len(fields), len(arms)))
				continue
			}
			findArm := func(key string, regex bool) *filterArm {
				for i := range arms {
					if regex {
						for _, r := range arms[i].Regexes {
							if r == key {
								return &arms[i]
							}
						}
					} else {
						for _, p := range arms[i].Props {
							if p == key {
								return &arms[i]
							}
						}
					}
				}
				return nil
			}
			for _, fld := range fields {
				names := append([]string{fld.Name}, fld.Aliases...)
				for _, nm := range names {
					nFields++
					key := fmt.Sprintf("%s:%s", recv, nm)
					var armsFor []*filterArm
					if strings.HasPrefix(fld.Kind, "map[") {
						if a := findArm(nm+"[]", true); a != nil {
							armsFor = append(armsFor, a)
						}
						if a := findArm(nm, false); a != nil {
							armsFor = append(armsFor, a)
						}
					} else if a := findArm(nm, false); a != nil {
						armsFor = append(armsFor, a)
					}
					c.Check(len(armsFor) > 0, "EXH/filter-fields", key, pos(c, d.Decl), "has a ResolveFilter arm", fmt.Sprintf("field %q of %s passes filter validation but %s.ResolveFilter has no arm for it: the request fails with an internal error instead of filtering", nm, schemaVar, recv))
					for _, a := range armsFor {
						if a.Supports == nil {
							c.Pass("EXH/filter-operators", key+":operator-insensitive", pos(c, a.Clause), "arm renders every operator the same way (no operator-dependent code)")
							continue
						}
						var missing []string
						for _, op := range ops[fld.Kind] {
							if !a.Supports[op] {
								missing = append(missing, op)
							}
						}
						c.Check(len(missing) == 0, "EXH/filter-operators", key, pos(c, a.Clause), fmt.Sprintf("operators %v all renderable", ops[fld.Kind]),
							fmt.Sprintf("field %q (%s) allows operators %v; the arm passes the operator to ConvertOperatorToSQL, which has no case for %v and panics (\"unreachable\" → 500) on them", nm, fld.Kind, ops[fld.Kind], missing))
					}
				}
			}
		}
	}
	c.Floor("EXH/filter-fields", "resource handlers with a filter schema", nHandlers, 6)
	c.Floor("EXH/filter-fields", "schema fields and aliases", nFields, 25)
}

func ruleOperatorRendering(c *core.Ctx) {
	d := fn(c, pkgCommon, "", "ConvertOperatorToSQL")
	if d == nil {
		return
	}
	info := d.Pkg.TypesInfo
	want := map[string]string{"$match": "=", "$lt": "<", "$gt": ">", "$lte": "<=", "$gte": ">=", "$like": "like"}
	got := map[string]string{}
	ast.Inspect(d.Decl.Body, func(n ast.Node) bool {
		cc, ok := n.(*ast.CaseClause)
		if !ok || len(cc.Body) != 1 {
			return true
		}
		r, ok := cc.Body[0].(*ast.ReturnStmt)
		if !ok || len(r.Results) != 1 {
			return true
		}
		v, ok := astx.ConstString(info, r.Results[0])
		if !ok {
			return true
		}
		for _, e := range cc.List {
			if s, ok := astx.ConstString(info, e); ok {
				got[s] = v
			}
		}
		return true
	})
	for op, sql := range want {
		c.Check(got[op] == sql, "EXH/operator-rendering", op, pos(c, d.Decl), op+" → "+sql, fmt.Sprintf("operator %s is rendered as %q, expected %q", op, got[op], sql))
	}
}

func ruleLeafOperators(c *core.Ctx) {
	d := fn(c, pkgStore, "", "isLeafOperator")
	if d == nil {
		return
	}
	var mine []string
	ast.Inspect(d.Decl.Body, func(n ast.Node) bool {
		if cc, ok := n.(*ast.CaseClause); ok {
			for _, e := range cc.List {
				if s, ok := astx.ConstString(d.Pkg.TypesInfo, e); ok {
					mine = append(mine, s)
				}
			}
		}
		return true
	})
	sort.Strings(mine)
	// the pinned go-libs query package
	var theirs []string
	found := false
	for path, imp := range d.Pkg.Imports {
		if !strings.HasSuffix(path, "/pkg/query") || !strings.Contains(path, "formancehq/go-libs") {
			continue
		}
		fset := token.NewFileSet()
		for _, gf := range append(imp.GoFiles, imp.CompiledGoFiles...) {
			if !strings.HasSuffix(gf, "expression.go") {
				continue
			}
			f, err := parser.ParseFile(fset, gf, nil, 0)
			if err != nil {
				continue
			}
			ast.Inspect(f, func(n ast.Node) bool {
				fd, ok := n.(*ast.FuncDecl)
				if !ok || fd.Name.Name != "mapMapToExpression" {
					return true
				}
				found = true
				ast.Inspect(fd.Body, func(y ast.Node) bool {
					cc, ok := y.(*ast.CaseClause)
					if !ok {
						return true
					}
					leaf := false
					ast.Inspect(cc, func(z ast.Node) bool {
						if call, ok := z.(*ast.CallExpr); ok {
							if id, ok := call.Fun.(*ast.Ident); ok && id.Name == "parseKeyValue" {
								leaf = true
							}
						}
						return true
					})
					if leaf {
						for _, e := range cc.List {
							if bl, ok := e.(*ast.BasicLit); ok {
								if s, err := strconv.Unquote(bl.Value); err == nil {
									theirs = append(theirs, s)
								}
							}
						}
					}
					return true
				})
				return false
			})
			break
		}
	}
	sort.Strings(theirs)
	theirs = dedupStrings(theirs)
	if !found {
		c.Unknown("EXH/leaf-operators", "go-libs:mapMapToExpression", "", "the leaf-operator list of the pinned go-libs query package could not be read")
		return
	}
	c.Check(eqStrings(mine, theirs), "EXH/leaf-operators", declKey(d), pos(c, d.Decl), strings.Join(mine, ","), fmt.Sprintf("isLeafOperator knows %v but the pinned go-libs query parser accepts leaf operators %v: an address filter under the missing operator is invisible to the lateral-push safety analysis", mine, theirs))
}

func ruleLateralPush(c *core.Ctx) {
	ix := index(c)
	d := fn(c, pkgStore, "", "applyLateralAddressFilter")
	if d == nil {
		return
	}
	// the helper itself applies the filter only when canPush
	okHelper := false
	ast.Inspect(d.Decl.Body, func(n ast.Node) bool {
		if is, ok := n.(*ast.IfStmt); ok {
			s := types.ExprString(is.Cond)
			if strings.Contains(s, "canPush") && len(callsTo(d.Pkg.TypesInfo, is.Body, named("Where"))) == 1 {
				okHelper = true
			}
		}
		return true
	})
	c.Check(okHelper, "DOM/lateral-push", declKey(d)+":guarded-by-canPush", pos(c, d.Decl), "Where(address filter) only if canPush", "applyLateralAddressFilter pushes the address filter into the lateral join without consulting canPush")
	n := 0
	for _, s := range ix.DirectSites(d.Obj) {
		if s.Encl == nil || len(s.Call.Args) != 3 {
			continue
		}
		n++
		ok := true
		origins := originThroughCallers(c, s.EnclObj, s.Call.Args[2])
		if len(origins) == 0 {
			ok = false
		}
		for _, o := range origins {
			if !(strings.HasPrefix(o, "canPushAddressFilterToLateral(") && strings.HasSuffix(strings.TrimSuffix(o, ")"), ".Builder")) {
				ok = false
			}
		}
		c.Check(ok, "DOM/lateral-push", fmt.Sprintf("%s:call#%d", astx.FuncKey(s.EnclObj), n), pos(c, s.Call), "canPush = canPushAddressFilterToLateral(query.Builder)", "the lateral address filter is pushed with a safety flag that does not come from canPushAddressFilterToLateral(query.Builder): filters under $not / mixed $or would lose rows")
	}
	c.Floor("DOM/lateral-push", "applyLateralAddressFilter call sites", n, 4)
	// the safety analysis looks at the client's raw filter keys: it must recognise the address
	// field under every name the schemas accept for it (aliases included)
	if k := fn(c, pkgStore, "", "isAddressKey"); k != nil {
		accepted := map[string]bool{}
		ast.Inspect(k.Decl.Body, func(x ast.Node) bool {
			switch y := x.(type) {
			case *ast.BinaryExpr:
				if y.Op == token.EQL {
					if s, ok := astx.ConstString(k.Pkg.TypesInfo, y.Y); ok {
						accepted[s] = true
					}
				}
			case *ast.CaseClause:
				for _, e := range y.List {
					if s, ok := astx.ConstString(k.Pkg.TypesInfo, e); ok {
						accepted[s] = true
					}
				}
			}
			return true
		})
		m := 0
		for _, sv := range []string{"AccountSchema", "VolumeSchema", "AggregatedBalanceSchema"} {
			for _, fld := range schemaFields(c, sv) {
				if fld.Name != "address" {
					continue
				}
				for _, name := range append([]string{fld.Name}, fld.Aliases...) {
					m++
					c.Check(accepted[name], "DOM/lateral-push", "isAddressKey:"+sv+":"+name, pos(c, k.Decl), "recognised as an address key", "the lateral-push safety analysis does not recognise `"+name+"` (a name "+sv+" accepts for the address field) as an address filter: an address filter under $not or in a mixed $or written with that name is pushed into the lateral join and rows are lost")
				}
			}
		}
		c.Floor("DOM/lateral-push", "address field names across schemas", m, 4)
	} else {
		c.Unknown("DOM/lateral-push", "isAddressKey", "", "function not found")
	}
}

func ruleTransactionFilterSides(c *core.Ctx) {
	d := fn(c, pkgStore, "transactionsResourceHandler", "ResolveFilter")
	if d == nil {
		return
	}
	info := d.Pkg.TypesInfo
	arms := resolveFilterArms(c, d, nil)
	want := map[string][2]string{"account": {"true", "true"}, "source": {"true", "false"}, "destination": {"false", "true"}}
	for _, a := range arms {
		for _, p := range a.Props {
			w, ok := want[p]
			if !ok {
				continue
			}
			got := [2]string{"?", "?"}
			for _, call := range callsTo(info, a.Clause, named("filterAccountAddressOnTransactions")) {
				if len(call.Args) == 3 {
					got = [2]string{astx.ExprString(call.Args[1]), astx.ExprString(call.Args[2])}
				}
			}
			// the $in arm names the matching columns
			cols := map[string]bool{}
			ast.Inspect(a.Clause, func(n ast.Node) bool {
				if bl, ok := n.(*ast.BasicLit); ok && bl.Kind == token.STRING {
					if strings.Contains(bl.Value, "sources") {
						cols["sources"] = true
					}
					if strings.Contains(bl.Value, "destinations") {
						cols["destinations"] = true
					}
				}
				return true
			})
			okIn := cols["sources"] == (w[0] == "true") && cols["destinations"] == (w[1] == "true")
			c.Check(got == w && okIn, "SQLS/address-side", "transactions:"+p, pos(c, a.Clause), fmt.Sprintf("source=%s destination=%s", w[0], w[1]), fmt.Sprintf("the %q filter looks at source=%s destination=%s (IN arm columns %v); expected source=%s destination=%s", p, got[0], got[1], cols, w[0], w[1]))
		}
		for _, p := range a.Props {
			if p != "reverted" {
				continue
			}
			// value true -> "is not null", false -> "is null"; two spellings are read: the text is
			// extended with " not" under the flag, or each side returns its own constant
			isFlag := func(e ast.Expr) bool {
				ta, isTA := ast.Unparen(e).(*ast.TypeAssertExpr)
				if !isTA {
					return false
				}
				t := info.TypeOf(ta.Type)
				b, isB := t.(*types.Basic)
				return isB && b.Kind() == types.Bool
			}
			formA := 0
			ast.Inspect(a.Clause, func(n ast.Node) bool {
				is, isIf := n.(*ast.IfStmt)
				if !isIf {
					return true
				}
				cond, neg := ast.Unparen(is.Cond), false
				if u, isU := cond.(*ast.UnaryExpr); isU && u.Op == token.NOT {
					cond, neg = ast.Unparen(u.X), true
				}
				if !isFlag(cond) {
					return true
				}
				for _, st := range is.Body.List {
					if as, isAs := st.(*ast.AssignStmt); isAs && as.Tok == token.ADD_ASSIGN {
						if s, isS := astx.ConstString(info, as.Rhs[0]); isS && strings.TrimSpace(s) == "not" {
							if neg {
								formA = -1
							} else if formA == 0 {
								formA = 1
							}
						}
					}
				}
				return true
			})
			posOK, negOK, inverted := false, false, false
			ast.Inspect(a.Clause, func(n ast.Node) bool {
				r, isR := n.(*ast.ReturnStmt)
				if !isR || len(r.Results) == 0 {
					return true
				}
				txt, isConst := constStr(info, r.Results[0])
				if !isConst {
					return true
				}
				low := strings.ToLower(strings.Join(strings.Fields(txt), " "))
				hasNot := strings.Contains(low, "is not null")
				hasNull := strings.Contains(low, "is null") || hasNot
				if !hasNull {
					return true
				}
				sign := 0
				for _, ft := range astx.FactsAt(info, &ast.BlockStmt{Lbrace: a.Clause.Pos(), List: a.Clause.Body, Rbrace: a.Clause.End()}, r.Pos()) {
					if isFlag(ft.Cond) {
						if ft.Positive {
							sign = 1
						} else {
							sign = -1
						}
					}
				}
				switch {
				case sign > 0 && hasNot:
					posOK = true
				case sign < 0 && !hasNot:
					negOK = true
				case sign != 0:
					inverted = true
				}
				return true
			})
			failMsg := "the reverted filter no longer maps true to `reverted_at is not null` and false to `is null`"
			switch {
			case formA < 0 || inverted:
				c.Fail("SQLS/reverted-filter", "transactions:reverted", pos(c, a.Clause), failMsg+" (the two sides are swapped)")
			case formA > 0 || (posOK && negOK):
				c.Pass("SQLS/reverted-filter", "transactions:reverted", pos(c, a.Clause), "reverted=true → reverted_at is not null")
			default:
				c.Unrecognised("SQLS/reverted-filter", "transactions:reverted", pos(c, a.Clause), "the reverted filter is not written in a shape the rule reads")
			}
		}
	}
}

// rulePartialAddressTerminator: a partial address `a:b:` (or `a::c`) matches addresses with exactly
// as many segments as it has; only a trailing `...` opens the length. On transactions the match is
// a JSON containment on {"<i>": segment, …, "<n>": null}: the `"<n>": null` entry is what pins the
// length, and it must be there unless the last segment is `...`.
func rulePartialAddressTerminator(c *core.Ctx) {
	d := fn(c, pkgStore, "", "filterAccountAddressOnTransactions")
	if d == nil {
		return
	}
	info := d.Pkg.TypesInfo
	key := declKey(d)
	var term *ast.AssignStmt
	ast.Inspect(d.Decl.Body, func(n ast.Node) bool {
		as, ok := n.(*ast.AssignStmt)
		if !ok || len(as.Lhs) != 1 || len(as.Rhs) != 1 || !astx.IsNilExpr(info, as.Rhs[0]) {
			return true
		}
		if ix, ok := ast.Unparen(as.Lhs[0]).(*ast.IndexExpr); ok && strings.Contains(nospace(types.ExprString(ix.Index)), "len(") {
			term = as
		}
		return true
	})
	if term == nil {
		c.Fail("SQLS/partial-address", key+":length-terminator", pos(c, d.Decl), "the partial-address match on transactions no longer pins the number of segments (`\"<n>\": null`): `users:` also matches `users:alice:wallet`")
		return
	}
	var extra []string
	open := false
	for _, ft := range xfactsAt(info, d.Decl.Body, term.Pos()) {
		be, ok := ft.Cond.(*ast.BinaryExpr)
		isOpen := false
		if ok && (be.Op == token.NEQ || be.Op == token.EQL) {
			if cs, isC := constStr(info, be.Y); isC && cs == "..." {
				isOpen = true
				if (be.Op == token.NEQ && ft.Positive) || (be.Op == token.EQL && !ft.Positive) {
					open = true
				}
			}
		}
		if call, isCall := ft.Cond.(*ast.CallExpr); isCall {
			if f := astx.Callee(info, call); f != nil && f.Name() == "isPartialAddress" {
				continue
			}
		}
		if !isOpen {
			extra = append(extra, types.ExprString(ft.Cond))
		}
	}
	c.Check(open && len(extra) == 0, "SQLS/partial-address", key+":length-terminator", pos(c, term), "length pinned unless the last segment is `...`", fmt.Sprintf("the entry that pins the number of segments is added under another condition than `last segment != \"...\"` (extra conditions: %v): a partial address matches addresses of another length", extra))
}

// ruleLateralCollectsEveryAddressValue: canPushAddressFilterToLateral decides on the filter's JSON
// tree, where an `$in` on the address counts as an address filter like a `$match`. What is then
// pushed into the (inner) lateral join is built from the values collectAddressFilters gathered.
// The two must agree: a value shape the collector drops (the array of an `$in`) is a set of
// addresses the join filters out although the filter selects them (`$or` of a partial `$match`
// and an `$in`).
func ruleLateralCollectsEveryAddressValue(c *core.Ctx) {
	d := fn(c, pkgStore, "", "collectAddressFilters")
	if d == nil {
		return
	}
	info := d.Pkg.TypesInfo
	key := declKey(d)
	var ts *ast.TypeSwitchStmt
	ast.Inspect(d.Decl.Body, func(n ast.Node) bool {
		if x, ok := n.(*ast.TypeSwitchStmt); ok && ts == nil {
			ts = x
		}
		return true
	})
	if ts == nil {
		c.Unrecognised("DOM/lateral-push", key+":every-value-shape", pos(c, d.Decl), "collectAddressFilters does not switch on the type of the filter value")
		return
	}
	handles := func(body []ast.Stmt) bool {
		ok := false
		for _, st := range body {
			ast.Inspect(st, func(n ast.Node) bool {
				switch n.(type) {
				case *ast.AssignStmt, *ast.IncDecStmt, *ast.ReturnStmt:
					ok = true
				}
				return true
			})
		}
		return ok
	}
	// every clause that can receive a non-string value (a slice type, or the default) must do
	// something with it — collect or disable the push-down; and there must be such a clause
	seenOther, ignored := false, false
	for _, cl := range ts.Body.List {
		cc := cl.(*ast.CaseClause)
		other := cc.List == nil
		for _, e := range cc.List {
			if t := info.TypeOf(e); t != nil {
				if _, isSlice := t.Underlying().(*types.Slice); isSlice {
					other = true
				}
			}
		}
		if !other {
			continue
		}
		seenOther = true
		if !handles(cc.Body) {
			ignored = true
		}
	}
	sliceOrDefault := seenOther && !ignored
	leafIn := false
	if l := fn(c, pkgStore, "", "isLeafOperator"); l != nil {
		ast.Inspect(l.Decl.Body, func(n ast.Node) bool {
			if bl, ok := n.(*ast.BasicLit); ok && bl.Value == `"$in"` {
				leafIn = true
			}
			return true
		})
	}
	c.Check(sliceOrDefault || !leafIn, "DOM/lateral-push", key+":every-value-shape", pos(c, ts), "array values of `$in` are collected (or disable the push-down)", "collectAddressFilters ignores address filter values that are not plain strings (the array of an `$in`), while canPushAddressFilterToLateral counts `$in` as an address filter: for `$or[$match address \"users:\", $in address [bank]]` only `users:` is pushed into the inner lateral join and the accounts the `$in` selects are dropped from volumes and aggregated balances")
}
