package rules

import (
	"fmt"
	"go/ast"
	"go/token"
	"go/types"
	"sort"
	"strings"

	"ledgerlint/internal/astx"
	"ledgerlint/internal/core"
	"ledgerlint/internal/load"
)

func init() {
	register("C31", checkC31)
	addBreakers("C31",
		Breaker{Name: "lock-child-forgets-transaction", File: "internal/controller/ledger/controller_with_events.go",
			Old: "\t\tparent:     c,\n\t\thasTx:      c.hasTx,\n", New: "\t\tparent:     c,\n", Expect: "sibling-literals"},
		Breaker{Name: "event-published-on-dry-run", File: "internal/controller/ledger/controller_with_events.go",
			Old: "\tif !parameters.DryRun {\n\t\tc.handleEvent(ctx, func() {\n\t\t\tc.listener.InsertedSchema(ctx, c.ledger.Name, ret.Schema)\n\t\t})\n\t}", New: "\tc.handleEvent(ctx, func() {\n\t\tc.listener.InsertedSchema(ctx, c.ledger.Name, ret.Schema)\n\t})", Expect: "EVT/override"},
		Breaker{Name: "listener-called-directly", File: "internal/controller/ledger/controller_with_events.go",
			Old: "\tif !parameters.DryRun {\n\t\tc.handleEvent(ctx, func() {\n\t\t\tc.listener.CommittedTransactions(ctx, c.ledger.Name, ret.Transaction, ret.AccountMetadata)\n\t\t})\n\t}", New: "\tif !parameters.DryRun {\n\t\tc.listener.CommittedTransactions(ctx, c.ledger.Name, ret.Transaction, ret.AccountMetadata)\n\t}", Expect: "EVT/listener-call"},
		Breaker{Name: "events-fired-before-inner-commit", File: "internal/controller/ledger/controller_with_events.go",
			Old: "\terr := c.Controller.Commit(ctx)\n\tif err != nil {\n\t\treturn err\n\t}\n\n\tfor _, f := range c.atCommit {\n\t\tf()\n\t}\n\n\treturn nil", New: "\tfor _, f := range c.atCommit {\n\t\tf()\n\t}\n\n\treturn c.Controller.Commit(ctx)", Expect: "EVT/commit-drains-after-success"},
		Breaker{Name: "rollback-keeps-queue", File: "internal/controller/ledger/controller_with_events.go",
			Old: "\tc.atCommit = nil\n\n\treturn c.Controller.Rollback(ctx)", New: "\treturn c.Controller.Rollback(ctx)", Expect: "EVT/rollback-clears"},
		Breaker{Name: "handle-event-always-immediate", File: "internal/controller/ledger/controller_with_events.go",
			Old: "\tif !c.hasTx {\n\t\tfn()\n\t\treturn\n\t}", New: "\tif !c.hasTx || c.parent == nil {\n\t\tfn()\n\t\treturn\n\t}", Expect: "EVT/handle-event"},
		Breaker{Name: "begin-tx-child-not-transactional", File: "internal/controller/ledger/controller_with_events.go",
			Old: "\t\tparent:     c,\n\t\thasTx:      true,\n", New: "\t\tparent:     c,\n\t\thasTx:      c.hasTx,\n", Expect: "EVT/begin-tx-child"},
		Breaker{Name: "override-removed", File: "internal/controller/ledger/controller_with_events.go",
			Old: "func (c *ControllerWithEvents) DeleteAccountMetadata(", New: "func (c *ControllerWithEvents) deleteAccountMetadataUnused(", Expect: "EVT/override"},
		Breaker{Name: "event-on-error-path", File: "internal/controller/ledger/controller_with_events.go",
			Old: "\tlog, idempotencyHit, err := c.Controller.SaveAccountMetadata(ctx, parameters)\n\tif err != nil {\n\t\treturn nil, false, err\n\t}", New: "\tlog, idempotencyHit, err := c.Controller.SaveAccountMetadata(ctx, parameters)\n\tif err != nil {\n\t\tlog = nil\n\t}", Expect: "EVT/override"},
		Breaker{Name: "first-write-commits-inner-controller", File: "internal/controller/system/state_tracker.go",
			Old: "\t\tif err := ctrl.Commit(ctx); err != nil {", New: "\t\tif err := tx.Commit(); err != nil {", Expect: "EVT/state-tracker-commit"},
		Breaker{Name: "publish-error-propagates-panic", File: "internal/bus/listener.go",
			Old: "\t\tlogging.FromContext(ctx).Errorf(\"publishing message: %s\", err)\n\t\treturn", New: "\t\tpanic(err)", Expect: "EVT/publish-error"},
	)
}

func checkC31(c *core.Ctx) {
	c.Decide("in ControllerWithEvents every listener invocation sits in a closure handed to handleEvent; handleEvent runs a closure immediately only when the controller is not inside a transaction, otherwise queues it on the transaction root; Commit drains the queue only after the inner Commit returned nil, Rollback clears it; each log-producing Controller method is overridden, returns before handleEvent on error and skips it on DryRun; the BeginTX child is marked transactional with its parent, the LockLedger child carries the mark over (sibling literals agree); every Controller decorator re-wraps itself in BeginTX/LockLedger (DECO); the state tracker commits the first write through the wrapped controller so queued events fire after that commit; a publish failure is logged, not propagated")
	c.NotDecided("exactly-once delivery by the broker; ordering between events of concurrent commits")
	c.Trust("closures queued in atCommit run only through Commit")
	// the state tracker sits above the events decorator and adds nothing event-related: its own
	// completeness is a C11/C12 matter
	ruleDecoratorCompleteness(c, "DECO/events", func(d decorator) bool { return d.Rel == pkgCtrl })
	ruleEventsDecorator(c)
	ruleStateTrackerCommit(c)
	rulePublishError(c)
	// "writes whose commit fails publish nothing": the store's Commit must not turn a failed
	// commit into a success
	ruleCommitResultPropagated(c)
}

// logProducingMethods: methods of Controller whose first result is *ledger.Log.
func logProducingMethods(c *core.Ctx) []string {
	it := controllerIface(c)
	var out []string
	if it == nil {
		return out
	}
	for i := 0; i < it.NumMethods(); i++ {
		m := it.Method(i)
		sig := m.Type().(*types.Signature)
		if sig.Results().Len() > 0 && astx.IsNamed(sig.Results().At(0).Type(), load.Module+"/"+pkgCore, "Log") {
			if _, isPtr := sig.Results().At(0).Type().(*types.Pointer); isPtr {
				out = append(out, m.Name())
			}
		}
	}
	return out
}

// evtRoles identifies the parts of the events decorator by type rather than by name: the queue of
// deferred closures ([]func()), the parent link (*T), the in-transaction flag (bool), the listener
// (interface Listener) and the embedded inner controller.
type evtRoles struct {
	queue, parent, flag, listener, inner string
}

func eventRoles(c *core.Ctx, T string) (evtRoles, bool) {
	var r evtRoles
	nt := namedType(c, pkgCtrl, T)
	if nt == nil {
		return r, false
	}
	st, ok := nt.Underlying().(*types.Struct)
	if !ok {
		return r, false
	}
	for i := 0; i < st.NumFields(); i++ {
		f := st.Field(i)
		switch t := f.Type().(type) {
		case *types.Slice:
			if sig, isFn := t.Elem().Underlying().(*types.Signature); isFn && sig.Params().Len() == 0 && sig.Results().Len() == 0 {
				r.queue = f.Name()
			}
		case *types.Pointer:
			if astx.Named(t.Elem()) == nt {
				r.parent = f.Name()
			}
		case *types.Basic:
			if t.Kind() == types.Bool {
				r.flag = f.Name()
			}
		case *types.Named:
			if t.Obj().Name() == "Listener" {
				r.listener = f.Name()
			}
			if f.Embedded() && t.Obj().Name() == "Controller" {
				r.inner = f.Name()
			}
		}
	}
	return r, r.queue != "" && r.parent != "" && r.flag != "" && r.listener != "" && r.inner != ""
}

// funcParamIndex returns the index of the (single) parameter of type func() of fd, -1 if none.
func funcParamIndex(info *types.Info, fd *ast.FuncDecl) (int, types.Object) {
	idx, i := -1, 0
	var obj types.Object
	if fd.Type.Params == nil {
		return -1, nil
	}
	for _, fl := range fd.Type.Params.List {
		names := len(fl.Names)
		if names == 0 {
			names = 1
		}
		for k := 0; k < names; k++ {
			if sig, ok := info.TypeOf(fl.Type).Underlying().(*types.Signature); ok && sig.Params().Len() == 0 && sig.Results().Len() == 0 {
				if idx >= 0 {
					return -1, nil
				}
				idx = i
				if k < len(fl.Names) {
					obj = info.ObjectOf(fl.Names[k])
				}
			}
			i++
		}
	}
	return idx, obj
}

func ruleEventsDecorator(c *core.Ctx) {
	const T = "ControllerWithEvents"
	pk := c.Prog().Pkg(pkgCtrl)
	info := pk.TypesInfo
	roles, okRoles := eventRoles(c, T)
	if !okRoles {
		c.Unknown("EVT/roles", T, "", fmt.Sprintf("the fields of %s do not have the expected kinds (queue []func(), parent *%s, bool flag, Listener, embedded Controller): %+v", T, T, roles))
		return
	}
	c.PassTrivial("EVT/roles", T, "", fmt.Sprintf("%+v", roles))
	ix := index(c)
	// the methods of T
	var methods []*astx.DeclInfo
	for _, d := range ix.Decls {
		if d.Decl.Body != nil && relPkg(d.Pkg.PkgPath) == pkgCtrl && loadRecv(d) == T && !strings.HasSuffix(c.Prog().Rel(d.Decl.Pos()), "_test.go") {
			methods = append(methods, d)
		}
	}
	sort.Slice(methods, func(i, j int) bool { return methods[i].Decl.Pos() < methods[j].Decl.Pos() })
	recvField := func(d *astx.DeclInfo, e ast.Expr, field string) bool { return canonPath(d, e) == "recv."+field }
	// the dispatcher: the method that appends its func() parameter to the queue
	var disp *astx.DeclInfo
	for _, d := range methods {
		_, pobj := funcParamIndex(info, d.Decl)
		if pobj == nil {
			continue
		}
		ast.Inspect(d.Decl.Body, func(n ast.Node) bool {
			as, ok := n.(*ast.AssignStmt)
			if !ok || len(as.Lhs) != 1 || len(as.Rhs) != 1 || !recvField(d, as.Lhs[0], roles.queue) {
				return true
			}
			if call, ok := as.Rhs[0].(*ast.CallExpr); ok {
				if id, ok := call.Fun.(*ast.Ident); ok && id.Name == "append" && usesObj(info, call, pobj) {
					disp = d
				}
			}
			return true
		})
	}
	if disp == nil {
		c.Fail("EVT/handle-event", T+":dispatcher", "", "no method of "+T+" appends a closure to the commit-time queue "+roles.queue+": events of writes inside a transaction cannot wait for the commit")
		return
	}
	// deferring functions: the dispatcher, and methods that only hand their func() parameter on to one
	type deferring struct {
		d      *astx.DeclInfo
		idx    int
		dryArg int // index of a bool parameter whose truth skips the event, -1 if none
	}
	defers := map[*types.Func]*deferring{}
	di, _ := funcParamIndex(info, disp.Decl)
	defers[disp.Obj] = &deferring{disp, di, -1}
	for changed := true; changed; {
		changed = false
		for _, d := range methods {
			if defers[d.Obj] != nil {
				continue
			}
			idx, pobj := funcParamIndex(info, d.Decl)
			if pobj == nil {
				continue
			}
			passes, other := 0, 0
			var passCall *ast.CallExpr
			ast.Inspect(d.Decl.Body, func(n ast.Node) bool {
				id, ok := n.(*ast.Ident)
				if !ok || info.Uses[id] != pobj {
					return true
				}
				other++
				return true
			})
			for _, call := range callsTo(info, d.Decl.Body, func(f *types.Func) bool { return defers[f] != nil }) {
				df := defers[astx.Callee(info, call)]
				if df.idx < len(call.Args) {
					if id, ok := ast.Unparen(call.Args[df.idx]).(*ast.Ident); ok && info.Uses[id] == pobj {
						passes++
						passCall = call
					}
				}
			}
			if passes == 1 && other == 1 {
				dry := -1
				for _, ft := range astx.FactsAt(info, d.Decl.Body, passCall.Pos()) {
					if p := canonPath(d, ft.Cond); strings.HasPrefix(p, "p") && !strings.Contains(p, ".") && !ft.Positive {
						fmt.Sscanf(p, "p%d", &dry)
					}
				}
				defers[d.Obj] = &deferring{d, idx, dry}
				changed = true
			}
		}
	}
	isDeferCall := func(call *ast.CallExpr) *deferring {
		if f := astx.Callee(info, call); f != nil {
			return defers[f]
		}
		return nil
	}
	// 1. listener calls only inside closures handed to a deferring function
	n := 0
	for _, d := range methods {
		fd := d.Decl
		ast.Inspect(fd.Body, func(x ast.Node) bool {
			call, ok := x.(*ast.CallExpr)
			if !ok {
				return true
			}
			se, ok := call.Fun.(*ast.SelectorExpr)
			if !ok || !recvField(d, se.X, roles.listener) {
				return true
			}
			n++
			inDeferred := false
			ast.Inspect(fd.Body, func(y ast.Node) bool {
				he, ok := y.(*ast.CallExpr)
				if !ok {
					return true
				}
				df := isDeferCall(he)
				if df == nil || df.idx >= len(he.Args) {
					return true
				}
				if fl, ok := ast.Unparen(he.Args[df.idx]).(*ast.FuncLit); ok && fl.Body.Pos() <= call.Pos() && call.End() <= fl.Body.End() {
					inDeferred = true
				}
				return true
			})
			c.Check(inDeferred, "EVT/listener-call", fmt.Sprintf("%s.%s:%s", T, fd.Name.Name, se.Sel.Name), pos(c, call), "inside a closure passed to the event dispatcher",
				"the listener is invoked directly instead of through handleEvent: inside a transaction the event would be published before (or without) the commit")
			return true
		})
	}
	c.Floor("EVT/listener-call", "listener invocations in ControllerWithEvents", n, 7)
	// 2. the dispatcher
	{
		d := disp
		key := declKey(d)
		immediate, queued, delegated := 0, 0, 0
		okImmediate := true
		ast.Inspect(d.Decl.Body, func(x ast.Node) bool {
			switch v := x.(type) {
			case *ast.CallExpr:
				if isParamFuncCall(d, v) {
					immediate++
					only := true
					neg := false
					for _, ft := range astx.FactsAt(info, d.Decl.Body, v.Pos()) {
						if recvField(d, ft.Cond, roles.flag) && !ft.Positive {
							neg = true
						} else {
							only = false
						}
					}
					if !(only && neg) {
						okImmediate = false
					}
				}
				if cf := astx.Callee(info, v); cf != nil && cf == d.Obj && recvField(d, recvExpr(v), roles.parent) {
					delegated++
					// the parent runs the closure at once when it is not transactional: delegate only
					// to a parent that is itself inside the transaction
					okDel := false
					for _, f := range astx.FactsAt(info, d.Decl.Body, v.Pos()) {
						if f.Positive && canonPath(d, f.Cond) == "recv."+roles.parent+"."+roles.flag {
							okDel = true
						}
					}
					c.Check(okDel, "EVT/handle-event", key+":delegation-guard", pos(c, v), "delegates to the parent only when the parent is in the transaction", "handleEvent hands the closure to its parent without checking that the parent is inside the transaction: a non-transactional parent runs it immediately, so the event of a write inside a transaction is published before the commit and survives a rollback")
				}
			case *ast.AssignStmt:
				if len(v.Lhs) == 1 && recvField(d, v.Lhs[0], roles.queue) {
					queued++
				}
			}
			return true
		})
		c.Check(immediate == 1 && okImmediate && queued == 1, "EVT/handle-event", key, pos(c, d.Decl), "immediate only when not in a transaction, otherwise queued (possibly on the parent)",
			fmt.Sprintf("handleEvent must run the closure immediately exactly when !c.hasTx and otherwise append it to atCommit (immediate calls=%d guarded-by-!hasTx-only=%v queue appends=%d parent delegations=%d)", immediate, okImmediate, queued, delegated))
	}
	// 3. Commit / Rollback
	innerCall := func(d *astx.DeclInfo, name string) *ast.CallExpr {
		for _, call := range callsTo(info, d.Decl.Body, named(name)) {
			if recvField(d, recvExpr(call), roles.inner) {
				return call
			}
		}
		return nil
	}
	if d := fn(c, pkgCtrl, T, "Commit"); d != nil {
		key := declKey(d)
		inner := innerCall(d, "Commit")
		// where the queue is drained, seen from Commit
		drainAt := token.NoPos
		for _, sd := range fnScope(c, d, 1) {
			sd := sd
			ast.Inspect(sd.Decl.Body, func(x ast.Node) bool {
				if rs, ok := x.(*ast.RangeStmt); ok && recvField(sd, rs.X, roles.queue) {
					if p := rootPosOf(d, sd, rs.Pos()); p != token.NoPos {
						drainAt = p
					}
				}
				return true
			})
		}
		ok := false
		if inner != nil && drainAt != token.NoPos && inner.End() < drainAt {
			// between them: if err != nil { return err }
			for _, f := range astx.FactsAt(info, d.Decl.Body, drainAt) {
				if isErrNilTest(info, f.Cond) {
					be := ast.Unparen(f.Cond).(*ast.BinaryExpr)
					if (be.Op == token.NEQ && !f.Positive) || (be.Op == token.EQL && f.Positive) {
						ok = true
					}
				}
			}
		}
		c.Check(ok, "EVT/commit-drains-after-success", key, pos(c, d.Decl), "inner Commit, error returns, then the queue runs", "the queued events are not run strictly after a successful inner Commit: an event could be published for a transaction that did not commit")
	}
	if d := fn(c, pkgCtrl, T, "Rollback"); d != nil {
		cleared := false
		for _, sd := range fnScope(c, d, 1) {
			sd := sd
			ast.Inspect(sd.Decl.Body, func(x ast.Node) bool {
				if as, ok := x.(*ast.AssignStmt); ok && len(as.Lhs) == 1 && len(as.Rhs) == 1 && recvField(sd, as.Lhs[0], roles.queue) {
					if astx.IsNilExpr(info, as.Rhs[0]) {
						cleared = true
					}
					if se, ok := ast.Unparen(as.Rhs[0]).(*ast.SliceExpr); ok && se.High != nil && types.ExprString(se.High) == "0" {
						cleared = true
					}
				}
				return true
			})
		}
		c.Check(cleared && innerCall(d, "Rollback") != nil, "EVT/rollback-clears", declKey(d), pos(c, d.Decl), "queue = nil; inner Rollback", "Rollback must drop the queued events and roll the inner controller back")
	}
	// 4. overrides
	for _, m := range logProducingMethods(c) {
		key := fmt.Sprintf("%s.%s", T, m)
		d := index(c).LookupFunc(pkgCtrl, T, m)
		if d == nil {
			c.Fail("EVT/override", key+":declared", "", fmt.Sprintf("%s does not override %s: that write would never publish an event", T, m))
			continue
		}
		inner := innerCall(d, m)
		var hes []*ast.CallExpr
		ast.Inspect(d.Decl.Body, func(x ast.Node) bool {
			if call, ok := x.(*ast.CallExpr); ok && isDeferCall(call) != nil {
				hes = append(hes, call)
			}
			return true
		})
		if inner == nil || len(hes) != 1 {
			c.Fail("EVT/override", key+":shape", pos(c, d.Decl), fmt.Sprintf("%s must call the inner %s once and handleEvent exactly once (found inner=%v, handleEvent calls=%d)", m, m, inner != nil, len(hes)))
			continue
		}
		he := hes[0]
		df := isDeferCall(he)
		facts := astx.FactsAt(info, d.Decl.Body, he.Pos())
		errChecked, notDry := false, false
		for _, f := range facts {
			if isErrNilTest(info, f.Cond) {
				be := ast.Unparen(f.Cond).(*ast.BinaryExpr)
				if (be.Op == token.NEQ && !f.Positive) || (be.Op == token.EQL && f.Positive) {
					errChecked = true
				}
			}
			if strings.HasSuffix(astx.SelectorPath(f.Cond), ".DryRun") && !f.Positive {
				notDry = true
			}
		}
		// the dry-run test may live in the deferring helper: emit(ctx, parameters.DryRun, fn)
		if !notDry && df.dryArg >= 0 && df.dryArg < len(he.Args) && strings.HasSuffix(astx.SelectorPath(he.Args[df.dryArg]), ".DryRun") {
			notDry = true
		}
		c.Check(inner.End() < he.Pos() && errChecked && notDry, "EVT/override", key, pos(c, he), "inner call, error returns, event only when !DryRun",
			fmt.Sprintf("%s publishes its event without (a) the inner call having succeeded (error checked=%v) or (b) the request not being a dry run (guarded=%v)", m, errChecked, notDry))
	}
	c.Floor("EVT/override", "log-producing Controller methods", len(logProducingMethods(c)), 7)
	// 5. BeginTX child
	if d := fn(c, pkgCtrl, T, "BeginTX"); d != nil {
		env := newOriginEnv(c, d)
		state := 0 // +1 ok, -1 wrong, 0 not read
		ast.Inspect(d.Decl.Body, func(x ast.Node) bool {
			r, isRet := x.(*ast.ReturnStmt)
			if !isRet || len(r.Results) == 0 || isErrorReturn(info, d.Decl.Body, r) > 0 {
				return true
			}
			lit, lenv := env.resolveLit(r.Results[0])
			if lit == nil || astx.RecvTypeName(info.TypeOf(lit)) != T {
				return true
			}
			h, p := fieldOfCompositeLit(lit, roles.flag), fieldOfCompositeLit(lit, roles.parent)
			okChild := h != nil && p != nil && lenv.origin(h) == "true" && d.Decl.Recv != nil && len(d.Decl.Recv.List[0].Names) == 1 && lenv.origin(p) == "param:"+d.Decl.Recv.List[0].Names[0].Name
			if okChild {
				if state == 0 {
					state = 1
				}
			} else {
				state = -1
			}
			return true
		})
		switch state {
		case 1:
			c.Pass("EVT/begin-tx-child", declKey(d), pos(c, d.Decl), "child{in-transaction: true, parent: receiver}")
		case -1:
			c.Fail("EVT/begin-tx-child", declKey(d), pos(c, d.Decl), "the controller returned by BeginTX is not marked transactional with its parent: its events would be published immediately")
		default:
			c.Unrecognised("EVT/begin-tx-child", declKey(d), pos(c, d.Decl), "the value BeginTX returns is not built as a "+T+" literal the rule can follow")
		}
	}
}

// ruleStateTrackerCommit: handleState opens the transaction, locks and commits through the
// wrapped controller (so decorators see BeginTX/LockLedger/Commit), and runs the write on the
// locked controller.
func ruleStateTrackerCommit(c *core.Ctx) {
	d := fn(c, pkgSysCtrl, "controllerFacade", "handleState")
	if d == nil {
		return
	}
	info := d.Pkg.TypesInfo
	key := declKey(d)
	begins := findBegins(info, d.Decl.Body, "BeginTX")
	if len(begins) != 1 {
		if len(scopeCalls(fnScope(c, d, 1), named("BeginTX"))) == 0 {
			c.Fail("EVT/state-tracker-commit", key+":begin", pos(c, d.Decl), "handleState no longer opens a transaction through BeginTX")
		} else {
			c.Unrecognised("EVT/state-tracker-commit", key+":begin", pos(c, d.Decl), "handleState does not open exactly one transaction through BeginTX in its own body")
		}
		return
	}
	tx := begins[0].TxVar
	commitOnCtrl := false
	for _, call := range callsTo(info, d.Decl.Body, named("Commit")) {
		if txCallOn(info, call, tx, "Commit") {
			commitOnCtrl = true
		}
	}
	otherCommit := false
	ast.Inspect(d.Decl.Body, func(x ast.Node) bool {
		if call, ok := x.(*ast.CallExpr); ok {
			if se, ok := call.Fun.(*ast.SelectorExpr); ok && se.Sel.Name == "Commit" && !txCallOn(info, call, tx, "Commit") {
				otherCommit = true
			}
		}
		return true
	})
	c.Check(commitOnCtrl && !otherCommit, "EVT/state-tracker-commit", key+":commit-through-controller", pos(c, d.Decl), "ctrl.Commit(ctx) on the BeginTX result", "the first write is not committed through the controller returned by BeginTX (e.g. committed on the raw SQL tx): queued events would never fire, or fire without the commit")
	// withLock(ctx, ctrl, func(ctrl, conn) { ... fn(ctrl) })
	okLock := false
	for _, call := range callsTo(info, d.Decl.Body, named("withLock")) {
		if len(call.Args) == 3 {
			if id, ok := call.Args[1].(*ast.Ident); ok && info.Uses[id] == tx {
				if fl, ok := call.Args[2].(*ast.FuncLit); ok && len(fl.Type.Params.List) >= 1 && len(fl.Type.Params.List[0].Names) == 1 {
					locked := info.Defs[fl.Type.Params.List[0].Names[0]]
					ast.Inspect(fl.Body, func(x ast.Node) bool {
						if cc, ok := x.(*ast.CallExpr); ok {
							if isParamFuncCall(d, cc) && len(cc.Args) == 1 {
								if a, ok := cc.Args[0].(*ast.Ident); ok && info.Uses[a] == locked {
									okLock = true
								}
							}
						}
						return true
					})
				}
			}
		}
	}
	c.Check(okLock, "EVT/state-tracker-commit", key+":write-on-locked-controller", pos(c, d.Decl), "withLock(ctx, <tx controller>, … fn(<locked controller>))", "the first write does not run on the controller locked inside the transaction")
	// in-memory state flips only after a successful, non-dry-run commit
	flip := false
	ast.Inspect(d.Decl.Body, func(x ast.Node) bool {
		as, ok := x.(*ast.AssignStmt)
		if !ok || len(as.Lhs) != 1 || !strings.HasSuffix(astx.SelectorPath(as.Lhs[0]), ".ledger.State") {
			return true
		}
		notDry, afterCommit := false, false
		for _, f := range astx.FactsAt(info, d.Decl.Body, as.Pos()) {
			if id, ok := ast.Unparen(f.Cond).(*ast.Ident); ok && !f.Positive && isParamObj(d, info.ObjectOf(id)) {
				if b, isB := info.TypeOf(id).Underlying().(*types.Basic); isB && b.Kind() == types.Bool {
					notDry = true
				}
			}
			if be, ok := ast.Unparen(f.Cond).(*ast.BinaryExpr); ok && be.Op == token.NEQ && !f.Positive {
				afterCommit = true
			}
		}
		flip = notDry && afterCommit
		return true
	})
	c.Check(flip, "EVT/state-tracker-commit", key+":state-flips-after-commit", pos(c, d.Decl), "c.ledger.State = in-use only after a successful non-dry-run commit", "the in-memory state is marked in-use before the commit succeeded (or on a dry run): the next write would skip the initializing protocol although nothing was committed")
}

func rulePublishError(c *core.Ctx) {
	d := fn(c, pkgBus, "LedgerListener", "publish")
	if d == nil {
		return
	}
	info := d.Pkg.TypesInfo
	ok := false
	ast.Inspect(d.Decl.Body, func(x ast.Node) bool {
		is, isIf := x.(*ast.IfStmt)
		if !isIf || len(errorCondVars(info, is.Cond)) == 0 {
			return true
		}
		panics := false
		ast.Inspect(is.Body, func(y ast.Node) bool {
			if call, isCall := y.(*ast.CallExpr); isCall && astx.IsNoReturnCall(info, call) {
				panics = true
			}
			return true
		})
		ok = !panics
		return true
	})
	sig := d.Obj.Type().(*types.Signature)
	c.Check(ok && sig.Results().Len() == 0, "EVT/publish-error", declKey(d), pos(c, d.Decl), "publish failure is logged and swallowed", "a broker failure now panics or propagates out of the listener: it would turn an already committed write into an error for the caller")
}
