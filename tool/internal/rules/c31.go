package rules

import (
	"fmt"
	"go/ast"
	"go/token"
	"go/types"
	"strings"

	"ledgerlint/internal/astx"
	"ledgerlint/internal/core"
	"ledgerlint/internal/load"
)

func init() {
	register("C31", checkC31)
	addBreakers("C31",
		Breaker{Name: "lock-child-forgets-transaction", File: "internal/controller/ledger/controller_with_events.go",
			Old: "\t\tparent:     c,\n\t\thasTx:      c.hasTx,\n", New: "\t\tparent:     c,\n", Expect: "sibling-literals"},
		Breaker{Name: "event-published-on-dry-run", File: "internal/controller/ledger/controller_with_events.go",
			Old: "\tif !parameters.DryRun {\n\t\tc.handleEvent(ctx, func() {\n\t\t\tc.listener.InsertedSchema(ctx, c.ledger.Name, ret.Schema)\n\t\t})\n\t}", New: "\tc.handleEvent(ctx, func() {\n\t\tc.listener.InsertedSchema(ctx, c.ledger.Name, ret.Schema)\n\t})", Expect: "EVT/override"},
		Breaker{Name: "listener-called-directly", File: "internal/controller/ledger/controller_with_events.go",
			Old: "\tif !parameters.DryRun {\n\t\tc.handleEvent(ctx, func() {\n\t\t\tc.listener.CommittedTransactions(ctx, c.ledger.Name, ret.Transaction, ret.AccountMetadata)\n\t\t})\n\t}", New: "\tif !parameters.DryRun {\n\t\tc.listener.CommittedTransactions(ctx, c.ledger.Name, ret.Transaction, ret.AccountMetadata)\n\t}", Expect: "EVT/listener-call"},
		Breaker{Name: "events-fired-before-inner-commit", File: "internal/controller/ledger/controller_with_events.go",
			Old: "\terr := c.Controller.Commit(ctx)\n\tif err != nil {\n\t\treturn err\n\t}\n\n\tfor _, f := range c.atCommit {\n\t\tf()\n\t}\n\n\treturn nil", New: "\tfor _, f := range c.atCommit {\n\t\tf()\n\t}\n\n\treturn c.Controller.Commit(ctx)", Expect: "EVT/commit-drains-after-success"},
		Breaker{Name: "rollback-keeps-queue", File: "internal/controller/ledger/controller_with_events.go",
			Old: "\tc.atCommit = nil\n\n\treturn c.Controller.Rollback(ctx)", New: "\treturn c.Controller.Rollback(ctx)", Expect: "EVT/rollback-clears"},
		Breaker{Name: "handle-event-always-immediate", File: "internal/controller/ledger/controller_with_events.go",
			Old: "\tif !c.hasTx {\n\t\tfn()\n\t\treturn\n\t}", New: "\tif !c.hasTx || c.parent == nil {\n\t\tfn()\n\t\treturn\n\t}", Expect: "EVT/handle-event"},
		Breaker{Name: "begin-tx-child-not-transactional", File: "internal/controller/ledger/controller_with_events.go",
			Old: "\t\tparent:     c,\n\t\thasTx:      true,\n", New: "\t\tparent:     c,\n\t\thasTx:      c.hasTx,\n", Expect: "EVT/begin-tx-child"},
		Breaker{Name: "override-removed", File: "internal/controller/ledger/controller_with_events.go",
			Old: "func (c *ControllerWithEvents) DeleteAccountMetadata(", New: "func (c *ControllerWithEvents) deleteAccountMetadataUnused(", Expect: "EVT/override"},
		Breaker{Name: "event-on-error-path", File: "internal/controller/ledger/controller_with_events.go",
			Old: "\tlog, idempotencyHit, err := c.Controller.SaveAccountMetadata(ctx, parameters)\n\tif err != nil {\n\t\treturn nil, false, err\n\t}", New: "\tlog, idempotencyHit, err := c.Controller.SaveAccountMetadata(ctx, parameters)\n\tif err != nil {\n\t\tlog = nil\n\t}", Expect: "EVT/override"},
		Breaker{Name: "first-write-commits-inner-controller", File: "internal/controller/system/state_tracker.go",
			Old: "\t\tif err := ctrl.Commit(ctx); err != nil {", New: "\t\tif err := tx.Commit(); err != nil {", Expect: "EVT/state-tracker-commit"},
		Breaker{Name: "publish-error-propagates-panic", File: "internal/bus/listener.go",
			Old: "\t\tlogging.FromContext(ctx).Errorf(\"publishing message: %s\", err)\n\t\treturn", New: "\t\tpanic(err)", Expect: "EVT/publish-error"},
	)
}

func checkC31(c *core.Ctx) {
	c.Decide("in ControllerWithEvents every listener invocation sits in a closure handed to handleEvent; handleEvent runs a closure immediately only when the controller is not inside a transaction, otherwise queues it on the transaction root; Commit drains the queue only after the inner Commit returned nil, Rollback clears it; each log-producing Controller method is overridden, returns before handleEvent on error and skips it on DryRun; the BeginTX child is marked transactional with its parent, the LockLedger child carries the mark over (sibling literals agree); every Controller decorator re-wraps itself in BeginTX/LockLedger (DECO); the state tracker commits the first write through the wrapped controller so queued events fire after that commit; a publish failure is logged, not propagated")
	c.NotDecided("exactly-once delivery by the broker; ordering between events of concurrent commits")
	c.Trust("closures queued in atCommit run only through Commit")
	// the state tracker sits above the events decorator and adds nothing event-related: its own
	// completeness is a C11/C12 matter
	ruleDecoratorCompleteness(c, "DECO/events", func(d decorator) bool { return d.Rel == pkgCtrl })
	ruleEventsDecorator(c)
	ruleStateTrackerCommit(c)
	rulePublishError(c)
	// "writes whose commit fails publish nothing": the store's Commit must not turn a failed
	// commit into a success
	ruleCommitResultPropagated(c)
}

// logProducingMethods: methods of Controller whose first result is *ledger.Log.
func logProducingMethods(c *core.Ctx) []string {
	it := controllerIface(c)
	var out []string
	if it == nil {
		return out
	}
	for i := 0; i < it.NumMethods(); i++ {
		m := it.Method(i)
		sig := m.Type().(*types.Signature)
		if sig.Results().Len() > 0 && astx.IsNamed(sig.Results().At(0).Type(), load.Module+"/"+pkgCore, "Log") {
			if _, isPtr := sig.Results().At(0).Type().(*types.Pointer); isPtr {
				out = append(out, m.Name())
			}
		}
	}
	return out
}

func ruleEventsDecorator(c *core.Ctx) {
	const T = "ControllerWithEvents"
	pk := c.Prog().Pkg(pkgCtrl)
	info := pk.TypesInfo
	// 1. listener calls only inside closures handed to handleEvent
	n := 0
	for _, f := range pk.Syntax {
		for _, dd := range f.Decls {
			fd, ok := dd.(*ast.FuncDecl)
			if !ok || fd.Body == nil || load.RecvName(fd) != T {
				continue
			}
			ast.Inspect(fd.Body, func(x ast.Node) bool {
				call, ok := x.(*ast.CallExpr)
				if !ok {
					return true
				}
				se, ok := call.Fun.(*ast.SelectorExpr)
				if !ok || !strings.HasSuffix(astx.SelectorPath(se.X), ".listener") {
					return true
				}
				n++
				// enclosing FuncLit must be an argument of a handleEvent call
				inDeferred := false
				ast.Inspect(fd.Body, func(y ast.Node) bool {
					he, ok := y.(*ast.CallExpr)
					if !ok {
						return true
					}
					if cf := astx.Callee(info, he); cf == nil || cf.Name() != "handleEvent" {
						return true
					}
					for _, a := range he.Args {
						if fl, ok := a.(*ast.FuncLit); ok && fl.Body.Pos() <= call.Pos() && call.End() <= fl.Body.End() {
							inDeferred = true
						}
					}
					return true
				})
				c.Check(inDeferred, "EVT/listener-call", fmt.Sprintf("%s.%s:%s", T, fd.Name.Name, se.Sel.Name), pos(c, call), "inside a closure passed to handleEvent",
					"the listener is invoked directly instead of through handleEvent: inside a transaction the event would be published before (or without) the commit")
				return true
			})
		}
	}
	c.Floor("EVT/listener-call", "listener invocations in ControllerWithEvents", n, 7)
	// 2. handleEvent
	if d := fn(c, pkgCtrl, T, "handleEvent"); d != nil {
		key := declKey(d)
		immediate, queued, delegated := 0, 0, 0
		okImmediate := true
		ast.Inspect(d.Decl.Body, func(x ast.Node) bool {
			switch v := x.(type) {
			case *ast.CallExpr:
				if id, ok := v.Fun.(*ast.Ident); ok && id.Name == "fn" {
					immediate++
					facts := astx.FactsAt(info, d.Decl.Body, v.Pos())
					if !(len(facts) == 1 && !facts[0].Positive && strings.HasSuffix(astx.SelectorPath(facts[0].Cond), ".hasTx") && astx.SelectorPath(facts[0].Cond) == "c.hasTx") {
						okImmediate = false
					}
				}
				if cf := astx.Callee(info, v); cf != nil && cf.Name() == "handleEvent" && strings.HasSuffix(astx.SelectorPath(recvExpr(v)), ".parent") {
					delegated++
					// the parent runs the closure at once when it is not transactional: delegate only
					// to a parent that is itself inside the transaction
					okDel := false
					for _, f := range astx.FactsAt(info, d.Decl.Body, v.Pos()) {
						if f.Positive && astx.SelectorPath(f.Cond) == "c.parent.hasTx" {
							okDel = true
						}
					}
					c.Check(okDel, "EVT/handle-event", key+":delegation-guard", pos(c, v), "delegates to the parent only under c.parent.hasTx", "handleEvent hands the closure to its parent without checking that the parent is inside the transaction: a non-transactional parent runs it immediately, so the event of a write inside a transaction is published before the commit and survives a rollback")
				}
			case *ast.AssignStmt:
				if len(v.Lhs) == 1 && strings.HasSuffix(astx.SelectorPath(v.Lhs[0]), ".atCommit") {
					queued++
				}
			}
			return true
		})
		c.Check(immediate == 1 && okImmediate && queued == 1, "EVT/handle-event", key, pos(c, d.Decl), "immediate only when !c.hasTx, otherwise queued (possibly on the parent)",
			fmt.Sprintf("handleEvent must run the closure immediately exactly when !c.hasTx and otherwise append it to atCommit (immediate calls=%d guarded-by-!hasTx-only=%v queue appends=%d parent delegations=%d)", immediate, okImmediate, queued, delegated))
	}
	// 3. Commit / Rollback
	if d := fn(c, pkgCtrl, T, "Commit"); d != nil {
		key := declKey(d)
		var inner *ast.CallExpr
		for _, call := range callsTo(info, d.Decl.Body, named("Commit")) {
			if strings.HasSuffix(astx.SelectorPath(recvExpr(call)), ".Controller") {
				inner = call
			}
		}
		var loop *ast.RangeStmt
		ast.Inspect(d.Decl.Body, func(x ast.Node) bool {
			if rs, ok := x.(*ast.RangeStmt); ok && strings.HasSuffix(astx.SelectorPath(rs.X), ".atCommit") {
				loop = rs
			}
			return true
		})
		ok := false
		if inner != nil && loop != nil && inner.End() < loop.Pos() {
			// between them: if err != nil { return err }
			for _, f := range astx.FactsAt(info, d.Decl.Body, loop.Pos()) {
				if be, isBin := ast.Unparen(f.Cond).(*ast.BinaryExpr); isBin && be.Op == token.NEQ && !f.Positive && astx.IsNilExpr(info, be.Y) {
					ok = true
				}
			}
		}
		c.Check(ok, "EVT/commit-drains-after-success", key, pos(c, d.Decl), "inner Commit, error returns, then the queue runs", "the queued events are not run strictly after a successful inner Commit: an event could be published for a transaction that did not commit")
	}
	if d := fn(c, pkgCtrl, T, "Rollback"); d != nil {
		cleared := false
		ast.Inspect(d.Decl.Body, func(x ast.Node) bool {
			if as, ok := x.(*ast.AssignStmt); ok && len(as.Lhs) == 1 && strings.HasSuffix(astx.SelectorPath(as.Lhs[0]), ".atCommit") && astx.IsNilExpr(info, as.Rhs[0]) {
				cleared = true
			}
			return true
		})
		innerRb := false
		for _, call := range callsTo(info, d.Decl.Body, named("Rollback")) {
			if strings.HasSuffix(astx.SelectorPath(recvExpr(call)), ".Controller") {
				innerRb = true
			}
		}
		c.Check(cleared && innerRb, "EVT/rollback-clears", declKey(d), pos(c, d.Decl), "atCommit = nil; inner Rollback", "Rollback must drop the queued events and roll the inner controller back")
	}
	// 4. overrides
	for _, m := range logProducingMethods(c) {
		key := fmt.Sprintf("%s.%s", T, m)
		d := index(c).LookupFunc(pkgCtrl, T, m)
		if d == nil {
			c.Fail("EVT/override", key+":declared", "", fmt.Sprintf("%s does not override %s: that write would never publish an event", T, m))
			continue
		}
		var inner *ast.CallExpr
		for _, call := range callsTo(info, d.Decl.Body, named(m)) {
			if strings.HasSuffix(astx.SelectorPath(recvExpr(call)), ".Controller") {
				inner = call
			}
		}
		hes := callsTo(info, d.Decl.Body, named("handleEvent"))
		if inner == nil || len(hes) != 1 {
			c.Fail("EVT/override", key+":shape", pos(c, d.Decl), fmt.Sprintf("%s must call the inner %s once and handleEvent exactly once (found inner=%v, handleEvent calls=%d)", m, m, inner != nil, len(hes)))
			continue
		}
		he := hes[0]
		facts := astx.FactsAt(info, d.Decl.Body, he.Pos())
		errChecked, notDry := false, false
		for _, f := range facts {
			if be, ok := ast.Unparen(f.Cond).(*ast.BinaryExpr); ok && be.Op == token.NEQ && !f.Positive && astx.IsNilExpr(info, be.Y) {
				errChecked = true
			}
			if strings.HasSuffix(astx.SelectorPath(f.Cond), ".DryRun") && !f.Positive {
				notDry = true
			}
		}
		c.Check(inner.End() < he.Pos() && errChecked && notDry, "EVT/override", key, pos(c, he), "inner call, error returns, event only when !DryRun",
			fmt.Sprintf("%s publishes its event without (a) the inner call having succeeded (error checked=%v) or (b) the request not being a dry run (guarded=%v)", m, errChecked, notDry))
	}
	c.Floor("EVT/override", "log-producing Controller methods", len(logProducingMethods(c)), 7)
	// 5. BeginTX child
	if d := fn(c, pkgCtrl, T, "BeginTX"); d != nil {
		ok := false
		ast.Inspect(d.Decl.Body, func(x ast.Node) bool {
			if cl, isLit := x.(*ast.CompositeLit); isLit && astx.RecvTypeName(info.TypeOf(cl)) == T {
				h, p := fieldOfCompositeLit(cl, "hasTx"), fieldOfCompositeLit(cl, "parent")
				if h != nil && p != nil {
					if id, isID := h.(*ast.Ident); isID && id.Name == "true" && astx.SelectorPath(p) == d.Decl.Recv.List[0].Names[0].Name {
						ok = true
					}
				}
			}
			return true
		})
		c.Check(ok, "EVT/begin-tx-child", declKey(d), pos(c, d.Decl), "child{hasTx: true, parent: c}", "the controller returned by BeginTX is not marked transactional with its parent: its events would be published immediately")
	}
}

// ruleStateTrackerCommit: handleState opens the transaction, locks and commits through the
// wrapped controller (so decorators see BeginTX/LockLedger/Commit), and runs the write on the
// locked controller.
func ruleStateTrackerCommit(c *core.Ctx) {
	d := fn(c, pkgSysCtrl, "controllerFacade", "handleState")
	if d == nil {
		return
	}
	info := d.Pkg.TypesInfo
	key := declKey(d)
	begins := findBegins(info, d.Decl.Body, "BeginTX")
	if len(begins) != 1 {
		c.Fail("EVT/state-tracker-commit", key+":begin", pos(c, d.Decl), "handleState no longer opens exactly one transaction through BeginTX")
		return
	}
	tx := begins[0].TxVar
	commitOnCtrl := false
	for _, call := range callsTo(info, d.Decl.Body, named("Commit")) {
		if txCallOn(info, call, tx, "Commit") {
			commitOnCtrl = true
		}
	}
	otherCommit := false
	ast.Inspect(d.Decl.Body, func(x ast.Node) bool {
		if call, ok := x.(*ast.CallExpr); ok {
			if se, ok := call.Fun.(*ast.SelectorExpr); ok && se.Sel.Name == "Commit" && !txCallOn(info, call, tx, "Commit") {
				otherCommit = true
			}
		}
		return true
	})
	c.Check(commitOnCtrl && !otherCommit, "EVT/state-tracker-commit", key+":commit-through-controller", pos(c, d.Decl), "ctrl.Commit(ctx) on the BeginTX result", "the first write is not committed through the controller returned by BeginTX (e.g. committed on the raw SQL tx): queued events would never fire, or fire without the commit")
	// withLock(ctx, ctrl, func(ctrl, conn) { ... fn(ctrl) })
	okLock := false
	for _, call := range callsTo(info, d.Decl.Body, named("withLock")) {
		if len(call.Args) == 3 {
			if id, ok := call.Args[1].(*ast.Ident); ok && info.Uses[id] == tx {
				if fl, ok := call.Args[2].(*ast.FuncLit); ok && len(fl.Type.Params.List) >= 1 && len(fl.Type.Params.List[0].Names) == 1 {
					locked := info.Defs[fl.Type.Params.List[0].Names[0]]
					ast.Inspect(fl.Body, func(x ast.Node) bool {
						if cc, ok := x.(*ast.CallExpr); ok {
							if fid, ok := cc.Fun.(*ast.Ident); ok && fid.Name == "fn" && len(cc.Args) == 1 {
								if a, ok := cc.Args[0].(*ast.Ident); ok && info.Uses[a] == locked {
									okLock = true
								}
							}
						}
						return true
					})
				}
			}
		}
	}
	c.Check(okLock, "EVT/state-tracker-commit", key+":write-on-locked-controller", pos(c, d.Decl), "withLock(ctx, <tx controller>, … fn(<locked controller>))", "the first write does not run on the controller locked inside the transaction")
	// in-memory state flips only after a successful, non-dry-run commit
	flip := false
	ast.Inspect(d.Decl.Body, func(x ast.Node) bool {
		as, ok := x.(*ast.AssignStmt)
		if !ok || len(as.Lhs) != 1 || !strings.HasSuffix(astx.SelectorPath(as.Lhs[0]), ".ledger.State") {
			return true
		}
		notDry, afterCommit := false, false
		for _, f := range astx.FactsAt(info, d.Decl.Body, as.Pos()) {
			if id, ok := ast.Unparen(f.Cond).(*ast.Ident); ok && id.Name == "dryRun" && !f.Positive {
				notDry = true
			}
			if be, ok := ast.Unparen(f.Cond).(*ast.BinaryExpr); ok && be.Op == token.NEQ && !f.Positive {
				afterCommit = true
			}
		}
		flip = notDry && afterCommit
		return true
	})
	c.Check(flip, "EVT/state-tracker-commit", key+":state-flips-after-commit", pos(c, d.Decl), "c.ledger.State = in-use only after a successful non-dry-run commit", "the in-memory state is marked in-use before the commit succeeded (or on a dry run): the next write would skip the initializing protocol although nothing was committed")
}

func rulePublishError(c *core.Ctx) {
	d := fn(c, pkgBus, "LedgerListener", "publish")
	if d == nil {
		return
	}
	info := d.Pkg.TypesInfo
	ok := false
	ast.Inspect(d.Decl.Body, func(x ast.Node) bool {
		is, isIf := x.(*ast.IfStmt)
		if !isIf || len(errorCondVars(info, is.Cond)) == 0 {
			return true
		}
		panics := false
		ast.Inspect(is.Body, func(y ast.Node) bool {
			if call, isCall := y.(*ast.CallExpr); isCall && astx.IsNoReturnCall(info, call) {
				panics = true
			}
			return true
		})
		ok = !panics
		return true
	})
	sig := d.Obj.Type().(*types.Signature)
	c.Check(ok && sig.Results().Len() == 0, "EVT/publish-error", declKey(d), pos(c, d.Decl), "publish failure is logged and swallowed", "a broker failure now panics or propagates out of the listener: it would turn an already committed write into an error for the caller")
}
