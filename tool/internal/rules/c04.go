package rules

import (
	"fmt"
	"go/ast"
	"sort"
	"strings"

	"ledgerlint/internal/astx"
	"ledgerlint/internal/core"
	"ledgerlint/internal/sqlfe"
)

func init() {
	register("C04", checkC04)
	addBreakers("C04",
		Breaker{Name: "previous-move-ignores-ties", File: "internal/storage/bucket/migrations/11-make-stateless/up.sql",
			Old: "and (effective_date < new.effective_date or (effective_date = new.effective_date and seq < new.seq))", New: "and (effective_date < new.effective_date)", Expect: "SQLS/set-effective-volumes"},
		Breaker{Name: "previous-move-oldest-first", File: "internal/storage/bucket/migrations/11-make-stateless/up.sql",
			Old: "        order by effective_date desc, seq desc\n        limit 1\n    ), (", New: "        order by effective_date, seq\n        limit 1\n    ), (", Expect: "SQLS/set-effective-volumes"},
		Breaker{Name: "previous-move-across-assets", File: "internal/storage/bucket/migrations/11-make-stateless/up.sql",
			Old: "        where accounts_address = new.accounts_address\n            and asset = new.asset\n            and ledger = new.ledger\n            and (effective_date", New: "        where accounts_address = new.accounts_address\n            and ledger = new.ledger\n            and (effective_date", Expect: "SQLS/set-effective-volumes"},
		Breaker{Name: "later-moves-shift-includes-equal-date", File: "internal/storage/bucket/migrations/11-make-stateless/up.sql",
			Old: "        and effective_date > new.effective_date\n        and ledger = new.ledger;", New: "        and effective_date >= new.effective_date\n        and ledger = new.ledger;", Expect: "SQLS/update-effective-volumes"},
		Breaker{Name: "later-moves-shift-other-accounts", File: "internal/storage/bucket/migrations/11-make-stateless/up.sql",
			Old: "    where accounts_address = new.accounts_address\n        and asset = new.asset\n        and effective_date > new.effective_date", New: "    where asset = new.asset\n        and effective_date > new.effective_date", Expect: "SQLS/update-effective-volumes"},
		Breaker{Name: "source-move-credits-inputs", File: "internal/storage/bucket/migrations/11-make-stateless/up.sql",
			Old: "\t\t(post_commit_effective_volumes).inputs + case when new.is_source then 0 else new.amount end,\n\t\t(post_commit_effective_volumes).outputs + case when new.is_source then new.amount else 0 end\n    )\n    where", New: "\t\t(post_commit_effective_volumes).inputs + case when new.is_source then new.amount else 0 end,\n\t\t(post_commit_effective_volumes).outputs + case when new.is_source then 0 else new.amount end\n    )\n    where", Expect: "SQLS/input-output-label"},
		Breaker{Name: "effective-volumes-not-read-back", File: "internal/storage/ledger/moves.go",
			Old: `Returning("post_commit_volumes, post_commit_effective_volumes").`, New: `Returning("post_commit_volumes").`, Expect: "SQLS/insert-moves-returning"},
		Breaker{Name: "tx-effective-volumes-first-move-wins", File: "internal/moves.go",
			Old: "\tslices.Reverse(m)\n", New: "\tslices.Reverse(append(Moves{}, m...))\n", Expect: "FLOW/compute-pcev"},
		Breaker{Name: "pre-existing-ledgers-miss-after-trigger", File: "internal/storage/bucket/migrations/11-make-stateless/up.sql",
			Old: "\t\t\tvsql = 'create trigger \"update_effective_volumes_' || ledger.id || '\" after insert on moves for each row when (new.ledger = ''' || ledger.name || ''') execute procedure update_effective_volumes()';\n\t\t\texecute vsql;\n", New: "", Expect: "EXH/ledger-objects-siblings"},
	)
}

func checkC04(c *core.Ctx) {
	c.Decide("the wiring and the predicate structure of effective volumes: under MOVES_HISTORY_POST_COMMIT_EFFECTIVE_VOLUMES=SYNC ledgerSetups installs the BEFORE INSERT trigger (set_effective_volumes) and the AFTER INSERT trigger (update_effective_volumes) for the ledger, and the migrations create the same per-ledger objects for pre-existing ledgers; set_effective_volumes starts from the latest move of the same (ledger, account, asset) strictly earlier in (effective_date, seq) order — ties on the date resolved by seq — and adds the amount to inputs for a destination move and to outputs for a source move; update_effective_volumes shifts exactly the moves of the same (ledger, account, asset) with a strictly later effective date by the same amounts; InsertMoves reads the computed value back and the transaction keeps the last move per (account, asset)")
	c.NotDecided("the PL/pgSQL arithmetic itself and trigger firing order inside one multi-row INSERT (this is the heart of the property and is runtime-only; the check covers the necessary structure around it)")
	c.Trust("Postgres fires BEFORE/AFTER ROW triggers per inserted row in statement order")
	ruleSyncObjects(c)
	ruleLedgerObjectSiblings(c)
	ruleEffectiveVolumesFunctions(c)
	ruleInputOutputLabels(c)
	// InsertMoves RETURNING
	if d := fn(c, pkgStore, "Store", "InsertMoves"); d != nil {
		m := bunModel(c, pkgStore)
		ok := false
		for _, s := range stmtsIn(m, d) {
			for _, cl := range s.ClausesNamed("Returning") {
				for _, alt := range cl.SQL {
					if items, err := sqlfe.ParseSelectItems(alt); err == nil {
						for _, it := range items {
							if sqlfe.Canon(it.Expr) == "post_commit_effective_volumes" {
								ok = true
							}
						}
					}
				}
			}
		}
		c.Check(ok, "SQLS/insert-moves-returning", declKey(d), pos(c, d.Decl), "returning … post_commit_effective_volumes", "InsertMoves does not read post_commit_effective_volumes back: the transaction would be answered without (or with stale) effective volumes")
	}
	// ComputePostCommitEffectiveVolumes keeps the most recent move per (account, asset)
	if d := fn(c, pkgCore, "Moves", "ComputePostCommitEffectiveVolumes"); d != nil {
		info := d.Pkg.TypesInfo
		reversed := false
		var loop *ast.RangeStmt
		ast.Inspect(d.Decl.Body, func(n ast.Node) bool {
			switch x := n.(type) {
			case *ast.CallExpr:
				if f := astx.Callee(info, x); f != nil && f.Pkg() != nil && f.Pkg().Path() == "slices" && f.Name() == "Reverse" && loop == nil && len(x.Args) == 1 {
					// the slice reversed is the one iterated afterwards (the receiver)
					if astx.SelectorPath(x.Args[0]) == d.Decl.Recv.List[0].Names[0].Name {
						reversed = true
					}
				}
			case *ast.RangeStmt:
				if loop == nil {
					loop = x
				}
			}
			return true
		})
		skips, marks := false, false
		if loop != nil {
			ast.Inspect(loop.Body, func(n ast.Node) bool {
				if is, ok := n.(*ast.IfStmt); ok {
					if len(callsTo(info, is.Cond, named("Contains"))) == 1 && astx.Terminates(info, is.Body.List) {
						skips = true
					}
				}
				if call, ok := n.(*ast.CallExpr); ok {
					if f := astx.Callee(info, call); f != nil && f.Name() == "Put" {
						marks = true
					}
				}
				return true
			})
		}
		c.Check(reversed && skips && marks, "FLOW/compute-pcev", declKey(d), pos(c, d.Decl), "iterate from the most recent move, keep the first seen per (account, asset)", fmt.Sprintf("the transaction's effective volumes must be those of the last move per (account, asset): iterate the moves in reverse and skip keys already seen (reversed=%v skip=%v mark=%v)", reversed, skips, marks))
	}
}

// ruleLedgerObjectSiblings: the per-ledger objects created by migration DO blocks (for
// ledgers that existed before) equal the set ledgerSetups creates for new ledgers.
func ruleLedgerObjectSiblings(c *core.Ctx) {
	ls := ledgerSetups(c)
	cat := c.Catalog()
	describe := func(cat *sqlfe.Catalog) map[string]string {
		out := map[string]string{}
		for _, k := range sqlfe.SortedKeys(cat.Triggers) {
			t := cat.Triggers[k]
			if !t.PerLedger {
				continue
			}
			ev := append([]string(nil), t.Events...)
			sort.Strings(ev)
			out["trigger:"+t.Name] = fmt.Sprintf("%s %s on %s when(%s) -> %s() if %q", t.Timing, strings.Join(ev, "|"), t.Table, strings.ReplaceAll(t.WhenSrc, " ", ""), t.Func, t.Cond)
		}
		for k, o := range cat.MigrationLedgerObjs {
			if o.Kind == "sequence" {
				out[k] = "sequence if " + fmt.Sprintf("%q", o.Cond)
			}
		}
		return out
	}
	a, b := describe(ls.Cat), describe(cat)
	keys := map[string]bool{}
	for k := range a {
		keys[k] = true
	}
	for k := range b {
		keys[k] = true
	}
	n := 0
	for _, k := range sqlfe.SortedKeys(keys) {
		n++
		c.Check(a[k] == b[k], "EXH/ledger-objects-siblings", k, "", a[k], fmt.Sprintf("per-ledger object %s: new ledgers get %q (ledgerSetups) but ledgers that existed before the migrations have %q: the two populations of ledgers would behave differently", k, a[k], b[k]))
	}
	c.Floor("EXH/ledger-objects-siblings", "per-ledger objects", n, 9)
}

func ruleEffectiveVolumesFunctions(c *core.Ctx) {
	cat := c.Catalog()
	// set_effective_volumes
	if f := cat.Functions["set_effective_volumes"]; f == nil {
		c.Fail("SQLS/set-effective-volumes", "exists", "", "set_effective_volumes() does not exist after all migrations")
	} else {
		var sub *sqlfe.Stmt
		for _, st := range f.AllStmts() {
			if st.Kind == "select" && len(st.From) == 1 && sqlfe.NormName(st.From[0].Table) == "moves" {
				sub = st
			}
		}
		if sub == nil {
			c.Fail("SQLS/set-effective-volumes", "previous-move-query", f.Origin, "set_effective_volumes no longer reads the previous move")
		} else {
			var conj []string
			for _, cj := range sqlfe.Conjuncts(sub.Where) {
				conj = append(conj, sqlfe.Canon(cj))
			}
			sort.Strings(conj)
			want := []string{
				"(((effective_date = new.effective_date) and (seq < new.seq)) or (effective_date < new.effective_date))",
				"(accounts_address = new.accounts_address)", "(asset = new.asset)", "(ledger = new.ledger)",
			}
			sort.Strings(want)
			c.Check(eqStrings(conj, want), "SQLS/set-effective-volumes", "predecessor-filter", f.Origin, "same (ledger, account, asset), strictly earlier in (effective_date, seq)",
				fmt.Sprintf("the previous move is selected with %v; expected %v (equal effective dates are ordered by insertion)", conj, want))
			var ord []string
			for _, o := range sub.OrderBy {
				s := sqlfe.Canon(o.Expr)
				if o.Desc {
					s += " desc"
				}
				ord = append(ord, s)
			}
			c.Check(eqStrings(ord, []string{"effective_date desc", "seq desc"}) && sub.Limit != nil && sqlfe.Canon(sub.Limit) == "1", "SQLS/set-effective-volumes", "predecessor-order", f.Origin, "order by effective_date desc, seq desc limit 1", fmt.Sprintf("the previous move is ordered by %v", ord))
		}
		// assignment target
		tgt := false
		for _, st := range f.Stmts {
			if st.Kind == "assign" && st.Table == "new.post_commit_effective_volumes" {
				e := sqlfe.Unparen(st.Set[0].Expr)
				if e.Op == "call" && e.Text == "coalesce" && len(e.Args) == 2 {
					tgt = true
				}
			}
		}
		c.Check(tgt, "SQLS/set-effective-volumes", "assigns-new-row", f.Origin, "new.post_commit_effective_volumes = coalesce(<previous + amount>, <amount alone>)", "set_effective_volumes does not assign new.post_commit_effective_volumes from coalesce(previous move + amount, amount)")
	}
	if f := cat.Functions["update_effective_volumes"]; f == nil {
		c.Fail("SQLS/update-effective-volumes", "exists", "", "update_effective_volumes() does not exist after all migrations")
	} else {
		var upd *sqlfe.Stmt
		for _, st := range f.Stmts {
			if st.Kind == "update" && sqlfe.NormName(st.Table) == "moves" {
				upd = st
			}
		}
		if upd == nil {
			c.Fail("SQLS/update-effective-volumes", "update", f.Origin, "update_effective_volumes no longer updates later moves")
		} else {
			var conj []string
			for _, cj := range sqlfe.Conjuncts(upd.Where) {
				conj = append(conj, sqlfe.Canon(cj))
			}
			sort.Strings(conj)
			want := []string{"(accounts_address = new.accounts_address)", "(asset = new.asset)", "(effective_date > new.effective_date)", "(ledger = new.ledger)"}
			c.Check(eqStrings(conj, want), "SQLS/update-effective-volumes", "shifted-moves-filter", f.Origin, "same (ledger, account, asset), strictly later effective date", fmt.Sprintf("later moves are selected with %v; expected %v", conj, want))
			cols := []string{}
			for _, a := range upd.Set {
				cols = append(cols, sqlfe.LastPart(a.Col))
			}
			c.Check(eqStrings(cols, []string{"post_commit_effective_volumes"}), "SQLS/update-effective-volumes", "assigned-columns", f.Origin, "only post_commit_effective_volumes", fmt.Sprintf("the shift assigns %v", cols))
		}
	}
}
