package rules

import (
	"fmt"
	"go/ast"
	"go/types"
	"sort"
	"strings"

	"ledgerlint/internal/astx"
	"ledgerlint/internal/bunq"
	"ledgerlint/internal/core"
	"ledgerlint/internal/sqlfe"
)

func init() {
	register("C05", checkC05)
	addBreakers("C05",
		Breaker{Name: "pit-strictly-before", File: "internal/storage/ledger/resource_aggregated_balances.go",
			Old: `Where("insertion_date <= ?", query.PIT)`, New: `Where("insertion_date < ?", query.PIT)`, Expect: "TEMP/bound-operator"},
		Breaker{Name: "oot-uses-less-or-equal", File: "internal/storage/ledger/resource_volumes.go",
			Old: `Where(dateFilterColumn+" >= ?", query.OOT)`, New: `Where(dateFilterColumn+" <= ?", query.OOT)`, Expect: "TEMP/bound-operator"},
		Breaker{Name: "pit-on-wrong-date-column", File: "internal/storage/ledger/resource_accounts.go",
			Old: `Where("accounts.first_usage <= ?", opts.PIT)`, New: `Where("accounts.insertion_date <= ?", opts.PIT)`, Expect: "TEMP/date-column"},
		Breaker{Name: "effective-date-with-insertion-volumes", File: "internal/storage/ledger/resource_aggregated_balances.go",
			Old: `ColumnExpr("first_value(post_commit_effective_volumes) over (partition by (accounts_address, asset) order by effective_date desc, seq desc) as volumes").`, New: `ColumnExpr("first_value(post_commit_volumes) over (partition by (accounts_address, asset) order by effective_date desc, seq desc) as volumes").`, Expect: "TEMP/triple"},
		Breaker{Name: "window-order-ascending", File: "internal/storage/ledger/resource_accounts.go",
			Old: `ColumnExpr("first_value(post_commit_volumes) over (partition by (accounts_address, asset) order by seq desc) as volumes").`, New: `ColumnExpr("first_value(post_commit_volumes) over (partition by (accounts_address, asset) order by seq) as volumes").`, Expect: "TEMP/triple"},
		Breaker{Name: "window-missing-seq-tiebreak", File: "internal/storage/ledger/resource_accounts.go",
			Old: `order by effective_date desc, seq desc) as volumes").`, New: `order by effective_date desc) as volumes").`, Expect: "TEMP/triple"},
		Breaker{Name: "oot-ignores-insertion-date-mode", File: "internal/storage/ledger/resource_volumes.go",
			Old: `Where(dateFilterColumn+" >= ?", query.OOT)`, New: `Where("effective_date >= ?", query.OOT)`, Expect: "TEMP/volumes-date-mode"},
		Breaker{Name: "reverted-flag-not-masked", File: "internal/storage/ledger/resource_transactions.go",
			Old: `ret = ret.ColumnExpr("(case when transactions.reverted_at <= ? then transactions.reverted_at else null end) as reverted_at", opts.PIT)`, New: `ret = ret.ColumnExpr("transactions.reverted_at as reverted_at")`, Expect: "TEMP/required-filter"},
		Breaker{Name: "transactions-not-filtered-by-pit", File: "internal/storage/ledger/resource_transactions.go",
			Old: "\tif opts.PIT != nil && !opts.PIT.IsZero() {\n\t\tret = ret.Where(\"timestamp <= ?\", opts.PIT)\n\t}\n", New: "", Expect: "TEMP/required-filter"},
		Breaker{Name: "partition-without-asset", File: "internal/storage/ledger/resource_aggregated_balances.go",
			Old: `ColumnExpr("first_value(post_commit_volumes) over (partition by (accounts_address, asset) order by seq desc) as volumes").`, New: `ColumnExpr("first_value(post_commit_volumes) over (partition by (accounts_address) order by seq desc) as volumes").`, Expect: "TEMP/triple"},
	)
}

func checkC05(c *core.Ctx) {
	c.Decide("every SQL clause of storage/ledger whose placeholder is bound to the point in time is `<date column> <= ?`, every one bound to the start time is `<date column> >= ?`; the date column belongs to the table being read; in each statement over moves the triple (date column, volumes column, window order) is (insertion_date, post_commit_volumes, seq desc) or (effective_date, post_commit_effective_volumes, effective_date desc, seq desc) partitioned by (account, asset); the volumes listing picks one date column for both bounds following UseInsertionDate; accounts are filtered by first_usage, transactions by timestamp, the reverted flag is masked by the PIT exactly on the PIT side")
	c.NotDecided("that window functions return the fold; results of the queries")
	c.Trust("bun binds ? placeholders to arguments in order")
	ruleTemporalClauses(c)
	// "accounts appear only once their first usage is at or before t": first_usage must follow
	// back-dated transactions (shared with C18)
	// the effective-date point-in-time reads take post_commit_effective_volumes as the fold up to
	// (effective_date, seq): the trigger functions that maintain it are part of this property too
	ruleEffectiveVolumesFunctions(c)
	ruleCurrentTableOnlyWithoutWindow(c)
	ruleAccountsLifecycle(c)
}

type temporalUse struct {
	stmt   *bunq.Statement
	clause *bunq.Clause
	kind   string // PIT | OOT
	col    string
	op     string
}

var dateColumns = map[string]map[string]bool{
	"moves":                 {"insertion_date": true, "effective_date": true},
	"accounts":              {"first_usage": true},
	"transactions":          {"timestamp": true, "reverted_at": true},
	"accounts_metadata":     {"date": true},
	"transactions_metadata": {"date": true},
	"schemas":               {"created_at": true},
	"logs":                  {"date": true},
}

func factsSig(info *types.Info, facts []astx.Fact) string {
	var s []string
	for _, f := range facts {
		p := "+"
		if !f.Positive {
			p = "-"
		}
		s = append(s, p+types.ExprString(ast.Unparen(f.Cond)))
	}
	sort.Strings(s)
	return strings.Join(s, ";")
}

func ruleTemporalClauses(c *core.Ctx) {
	m := bunModel(c, pkgStore)
	var uses []temporalUse
	for _, s := range m.Stmts {
		fkey := enclKey(pkgStore, s.Encl)
		for _, cl := range s.Clauses {
			if !cl.HasSQL || len(cl.Args) == 0 {
				continue
			}
			hasTemporal := false
			for _, a := range cl.Args {
				if k := argKind(a); k == "PIT" || k == "OOT" {
					hasTemporal = true
				}
			}
			if !hasTemporal {
				continue
			}
			for ai, alt := range cl.SQL {
				var root *sqlfe.Node
				var err error
				if cl.Method == "ColumnExpr" {
					var items []sqlfe.SelectItem
					items, err = sqlfe.ParseSelectItems(alt)
					if err == nil {
						root = &sqlfe.Node{Op: "row"}
						for _, it := range items {
							root.Args = append(root.Args, it.Expr)
						}
					}
				} else {
					root, err = sqlfe.ParseExpr(alt)
				}
				if err != nil {
					c.Unknown("TEMP/bound-operator", fmt.Sprintf("%s:%s:unparsed", fkey, cl.Method), pos(c, cl.Call), fmt.Sprintf("cannot parse %q: %v", alt, err))
					continue
				}
				bound := boundArgs(root, cl.Args)
				sqlfe.Walk(root, func(x *sqlfe.Node) bool {
					if x.Op != "bin" || len(x.Args) != 2 {
						return true
					}
					l, r := sqlfe.Unparen(x.Args[0]), sqlfe.Unparen(x.Args[1])
					op := x.Text
					if l.Op == "param" && r.Op != "param" {
						l, r = r, l
						op = flipOp(op)
					}
					if r.Op != "param" {
						return true
					}
					arg, ok := bound[r]
					if !ok {
						return true
					}
					kind := argKind(arg)
					if kind != "PIT" && kind != "OOT" {
						return true
					}
					col := "?"
					if l.Op == "ident" {
						col = sqlfe.LastPart(l.Text)
					}
					uses = append(uses, temporalUse{s, cl, kind, col, op})
					key := fmt.Sprintf("%s:%s:%s:%s#%d", fkey, s.Describe(), kind, col, ai)
					want := "<="
					if kind == "OOT" {
						want = ">="
					}
					c.Check(op == want && l.Op == "ident", "TEMP/bound-operator", key, pos(c, cl.Call), fmt.Sprintf("%s %s ?%s", col, op, kind),
						fmt.Sprintf("the %s placeholder is compared as `%s %s ?`; it must be `<date column> %s ?` (a read at t includes what happened exactly at t)", kind, sqlfe.Canon(l), op, want))
					// column belongs to one of the statement's tables
					okCol := false
					tabs := s.Tables()
					for _, t := range tabs {
						if dateColumns[t][col] {
							okCol = true
						}
					}
					c.Check(okCol, "TEMP/date-column", key, pos(c, cl.Call), fmt.Sprintf("%s is a date column of %v", col, tabs),
						fmt.Sprintf("%s is compared with column %q which is not a date column of %v (allowed: moves{insertion_date,effective_date}, accounts{first_usage}, transactions{timestamp}, *_metadata{date}, schemas{created_at})", kind, col, tabs))
					return true
				})
			}
		}
	}
	c.Floor("TEMP/bound-operator", "clauses bound to PIT/OOT", len(uses), 14)

	// triples on moves
	nTriples := 0
	for _, s := range m.Stmts {
		isMoves := false
		for _, t := range s.Tables() {
			if t == "moves" {
				isMoves = true
			}
		}
		if !isMoves {
			continue
		}
		fkey := enclKey(pkgStore, s.Encl)
		for _, cl := range s.ClausesNamed("ColumnExpr") {
			for _, alt := range cl.SQL {
				items, err := sqlfe.ParseSelectItems(alt)
				if err != nil {
					continue
				}
				for _, it := range items {
					ov := sqlfe.Unparen(it.Expr)
					if ov.Op != "over" || len(ov.Args) == 0 {
						continue
					}
					fnc := ov.Args[0]
					if fnc.Op != "call" || fnc.Text != "first_value" {
						continue
					}
					volCol := ""
					sqlfe.Walk(fnc, func(y *sqlfe.Node) bool {
						if y.Op == "ident" {
							switch sqlfe.LastPart(y.Text) {
							case "post_commit_volumes", "post_commit_effective_volumes":
								volCol = sqlfe.LastPart(y.Text)
							}
						}
						return true
					})
					if volCol == "" {
						continue
					}
					var order, part []string
					for _, a := range ov.Args[1:] {
						if a.Op == "row" && a.Text == "order" {
							for _, o := range a.Args {
								order = append(order, sqlfe.Canon(o))
							}
						}
						if a.Op == "row" && a.Text == "partition" {
							for _, o := range a.Args {
								o = sqlfe.Unparen(o)
								if o.Op == "row" {
									for _, oo := range o.Args {
										part = append(part, sqlfe.LastPart(sqlfe.Canon(oo)))
									}
								} else {
									part = append(part, sqlfe.LastPart(sqlfe.Canon(o)))
								}
							}
						}
					}
					// the date column used by the Where clauses of the same branch (same guarding facts)
					sig := factsSig(s.Pkg.TypesInfo, cl.Facts)
					dateCol := ""
					for _, u := range uses {
						if u.stmt == s && u.kind == "PIT" && factsSig(s.Pkg.TypesInfo, u.clause.Facts) == sig {
							dateCol = u.col
						}
					}
					nTriples++
					key := fmt.Sprintf("%s:%s:%s", fkey, it.Alias, volCol)
					if load := dateCol; load == "" && strings.Contains(fkey, "transactionsResourceHandler") {
						// expand=effectiveVolumes of a transaction: last move of the transaction, no date bound
						wantOrder := []string{"(seq desc)"}
						c.Check(eqStrings(order, wantOrder) && sameSet(part, []string{"transactions_id", "accounts_address", "asset"}), "TEMP/triple", key, pos(c, cl.Call), "per (transaction, account, asset), last move by seq",
							fmt.Sprintf("window is partition %v order %v; expected partition (transactions_id, accounts_address, asset) order seq desc", part, order))
						continue
					}
					var wantVol string
					var wantOrder []string
					switch dateCol {
					case "insertion_date":
						wantVol, wantOrder = "post_commit_volumes", []string{"(seq desc)"}
					case "effective_date":
						wantVol, wantOrder = "post_commit_effective_volumes", []string{"(effective_date desc)", "(seq desc)"}
					default:
						c.Fail("TEMP/triple", key, pos(c, cl.Call), fmt.Sprintf("window over %s has no PIT bound on insertion_date or effective_date in the same branch (found %q)", volCol, dateCol))
						continue
					}
					c.Check(volCol == wantVol && eqStrings(order, wantOrder) && sameSet(part, []string{"accounts_address", "asset"}), "TEMP/triple", key, pos(c, cl.Call),
						fmt.Sprintf("(%s, %s, %v) per (account, asset)", dateCol, volCol, order),
						fmt.Sprintf("branch filters on %s but takes first_value(%s) partition %v order %v; the legal triples are (insertion_date, post_commit_volumes, seq desc) and (effective_date, post_commit_effective_volumes, effective_date desc, seq desc), per (accounts_address, asset)", dateCol, volCol, part, order))
				}
			}
		}
	}
	c.Floor("TEMP/triple", "first_value windows over moves", nTriples, 6)

	// volumes listing: one date column for both bounds, following UseInsertionDate
	if d := fn(c, pkgStore, "volumesResourceHandler", "BuildDataset"); d != nil {
		var pitCols, ootCols []string
		inScopeDecl := map[*ast.FuncDecl]bool{}
		for _, sd := range fnScope(c, d, 1) {
			inScopeDecl[sd.Decl] = true
		}
		for _, u := range uses {
			if inScopeDecl[u.stmt.Encl] && len(u.stmt.Tables()) > 0 && u.stmt.Tables()[0] == "moves" {
				if u.kind == "PIT" {
					pitCols = append(pitCols, u.col)
				} else {
					ootCols = append(ootCols, u.col)
				}
			}
		}
		sort.Strings(pitCols)
		sort.Strings(ootCols)
		c.Check(eqStrings(pitCols, []string{"effective_date", "insertion_date"}) && eqStrings(ootCols, pitCols), "TEMP/volumes-date-mode", declKey(d)+":both-bounds-same-mode", pos(c, d.Decl),
			"PIT and OOT both range over {effective_date, insertion_date}", fmt.Sprintf("PIT is applied to %v but OOT to %v: both bounds must use the date column selected by UseInsertionDate", pitCols, ootCols))
		// the date column is selected by Opts.UseInsertionDate: its positive side yields insertion_date
		switched, inverted, seenIf := false, false, false
		for _, env := range scopeEnvsDepth(c, d, 2) {
			env := env
			ast.Inspect(env.d.Decl.Body, func(n ast.Node) bool {
				is, ok := n.(*ast.IfStmt)
				if !ok || !strings.HasSuffix(env.origin(is.Cond), ".UseInsertionDate") {
					return true
				}
				seenIf = true
				for _, st := range is.Body.List {
					var vals []ast.Expr
					switch x := st.(type) {
					case *ast.AssignStmt:
						vals = x.Rhs
					case *ast.ReturnStmt:
						vals = x.Results
					}
					for _, v := range vals {
						switch cs, _ := constStr(env.info, v); cs {
						case "insertion_date":
							switched = true
						case "effective_date":
							inverted = true
						}
					}
				}
				return true
			})
		}
		switch {
		case inverted:
			c.Fail("TEMP/volumes-date-mode", declKey(d)+":switch", pos(c, d.Decl), "Opts.UseInsertionDate selects effective_date: the two date modes are swapped")
		case switched:
			c.Pass("TEMP/volumes-date-mode", declKey(d)+":switch", pos(c, d.Decl), "UseInsertionDate selects insertion_date")
		case !seenIf && len(pitCols) == 2:
			c.Unrecognised("TEMP/volumes-date-mode", declKey(d)+":switch", pos(c, d.Decl), "the selection of the date column is not an `if …UseInsertionDate` the rule reads")
		default:
			c.Fail("TEMP/volumes-date-mode", declKey(d)+":switch", pos(c, d.Decl), "Opts.UseInsertionDate no longer selects insertion_date as the date column")
		}
	}

	// required filters
	need := []struct {
		recv, kind, col string
		why             string
	}{
		{"accountsResourceHandler", "PIT", "first_usage", "accounts appear only once first used at or before the PIT"},
		{"transactionsResourceHandler", "PIT", "timestamp", "transactions appear only if their timestamp is at or before the PIT"},
		{"transactionsResourceHandler", "PIT", "reverted_at", "the reverted flag is set only if the revert happened at or before the PIT"},
		{"schemasResourceHandler", "PIT", "created_at", "schemas appear only once created"},
	}
	for _, nd := range need {
		found := false
		for _, u := range uses {
			if loadRecvName(u.stmt) == nd.recv && u.kind == nd.kind && u.col == nd.col && u.stmt.Encl.Name.Name == "BuildDataset" {
				found = true
				// must be on the PIT side
				c.Check(pitPolarity(u.stmt.Pkg.TypesInfo, u.clause.Facts) > 0, "TEMP/required-filter", fmt.Sprintf("%s:%s:%s:guard", nd.recv, nd.kind, nd.col), pos(c, u.clause.Call), "applied when a PIT is set", "the filter is not on the branch where a point in time is set")
			}
		}
		c.Check(found, "TEMP/required-filter", fmt.Sprintf("%s:%s:%s", nd.recv, nd.kind, nd.col), "", nd.why, fmt.Sprintf("%s.BuildDataset has no `%s <= ?PIT` clause: %s", nd.recv, nd.col, nd.why))
	}
	// the unmasked reverted_at alternative must be on the non-PIT side
	if d := fn(c, pkgStore, "transactionsResourceHandler", "BuildDataset"); d != nil {
		for _, s := range stmtsIn(m, d) {
			for _, cl := range s.ClausesNamed("ColumnExpr") {
				if len(cl.SQL) == 1 && len(cl.Args) == 0 && strings.Contains(cl.SQL[0], "reverted_at") {
					c.Check(pitPolarity(d.Pkg.TypesInfo, cl.Facts) < 0, "TEMP/required-filter", "transactionsResourceHandler:reverted_at:unmasked-side", pos(c, cl.Call), "plain reverted_at only without PIT", "the unmasked reverted_at column is selected on a branch where a point in time may be set")
				}
			}
		}
	}
}

func loadRecvName(s *bunq.Statement) string {
	if s.Encl.Recv == nil || len(s.Encl.Recv.List) == 0 {
		return ""
	}
	return astx.RecvTypeName(s.Pkg.TypesInfo.TypeOf(s.Encl.Recv.List[0].Type))
}

func flipOp(op string) string {
	switch op {
	case "<=":
		return ">="
	case ">=":
		return "<="
	case "<":
		return ">"
	case ">":
		return "<"
	}
	return op
}

func eqStrings(a, b []string) bool {
	if len(a) != len(b) {
		return false
	}
	for i := range a {
		if a[i] != b[i] {
			return false
		}
	}
	return true
}

// ruleCurrentTableOnlyWithoutWindow (TEMP): accounts_volumes holds the totals "now". A handler that
// can be asked for a point in time (PIT) or a start of window (OOT) may answer from it only when
// neither is set; otherwise the bound is silently ignored and all-time totals are returned.
func ruleCurrentTableOnlyWithoutWindow(c *core.Ctx) {
	m := bunModel(c, pkgStore)
	n := 0
	for _, h := range []string{"volumesResourceHandler"} {
		d := fn(c, pkgStore, h, "BuildDataset")
		if d == nil {
			continue
		}
		info := d.Pkg.TypesInfo
		for _, ss := range stmtsInScope(c, m, d, 1) {
			s := ss.S
			isCurrent := false
			for _, t := range s.Tables() {
				if t == "accounts_volumes" {
					isCurrent = true
				}
			}
			if !isCurrent || s.Kind != "select" {
				continue
			}
			n++
			noPIT, noOOT := false, false
			for _, f := range scopeFactsAtPos(d, ss.D, s.Pos()) {
				call, ok := ast.Unparen(f.Cond).(*ast.CallExpr)
				if !ok || f.Positive {
					continue
				}
				if se, ok := call.Fun.(*ast.SelectorExpr); ok {
					switch se.Sel.Name {
					case "UsePIT":
						noPIT = true
					case "UseOOT":
						noOOT = true
					}
				}
			}
			_ = info
			c.Check(noPIT && noOOT, "TEMP/current-table", fmt.Sprintf("%s:%s", declKey(d), s.Describe()), posOf(c, s.Pos()), "accounts_volumes only when neither PIT nor OOT is set",
				fmt.Sprintf("the volumes listing answers from accounts_volumes (totals as of now) on a path where a bound may be set (no-PIT=%v no-OOT=%v): the point in time or the start of the window is ignored and all-time totals are returned", noPIT, noOOT))
		}
	}
	c.Floor("TEMP/current-table", "selects from accounts_volumes in windowed listings", n, 1)
}
