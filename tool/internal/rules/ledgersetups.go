package rules

import (
	"fmt"
	"go/ast"
	"sort"
	"strings"

	"ledgerlint/internal/astx"
	"ledgerlint/internal/core"
	"ledgerlint/internal/sqlfe"
)

// LedgerSetup is one element of bucket.ledgerSetups: a per-ledger SQL template executed by
// AddLedger when the ledger's features match.
type LedgerSetup struct {
	Cond   string // "" or "FEATURE=VALUE[&FEATURE=VALUE]"
	Script string
	Pos    string
	Index  int
}

type LedgerSetups struct {
	Setups []LedgerSetup
	// Cat holds the objects created by the templates (triggers keyed table/name, per-ledger objects).
	Cat *sqlfe.Catalog
}

func ledgerSetups(c *core.Ctx) *LedgerSetups {
	return c.Cache("ledgerSetups", func() any {
		pk := c.Prog().Pkg(pkgBucket)
		if pk == nil {
			panic(core.Abort{Msg: "package not loaded: " + pkgBucket})
		}
		info := pk.TypesInfo
		out := &LedgerSetups{Cat: sqlfe.NewCatalog()}
		var lit *ast.CompositeLit
		for _, f := range pk.Syntax {
			for _, d := range f.Decls {
				gd, ok := d.(*ast.GenDecl)
				if !ok {
					continue
				}
				for _, sp := range gd.Specs {
					vs, ok := sp.(*ast.ValueSpec)
					if !ok {
						continue
					}
					for i, nm := range vs.Names {
						if nm.Name == "ledgerSetups" && i < len(vs.Values) {
							lit, _ = vs.Values[i].(*ast.CompositeLit)
						}
					}
				}
			}
		}
		if lit == nil {
			c.Unknown("anchor", pkgBucket+".ledgerSetups", "", "variable ledgerSetups (per-ledger SQL templates) not found")
			return out
		}
		c.PassTrivial("anchor", pkgBucket+".ledgerSetups", pos(c, lit), "resolved")
		for i, el := range lit.Elts {
			cl, ok := el.(*ast.CompositeLit)
			if !ok {
				c.Unknown("ledger-setups", fmt.Sprintf("element:%d", i), pos(c, el), "ledgerSetups element is not a composite literal")
				continue
			}
			ls := LedgerSetup{Index: i, Pos: pos(c, cl)}
			if rf := fieldOfCompositeLit(cl, "requireFeatures"); rf != nil {
				fl, ok := rf.(*ast.CompositeLit)
				if !ok {
					c.Unknown("ledger-setups", fmt.Sprintf("element:%d:requireFeatures", i), pos(c, rf), "requireFeatures is not a literal")
					continue
				}
				var conds []string
				for _, e := range fl.Elts {
					kv, ok := e.(*ast.KeyValueExpr)
					if !ok {
						continue
					}
					k, ok1 := astx.ConstString(info, kv.Key)
					v, ok2 := astx.ConstString(info, kv.Value)
					if !ok1 || !ok2 {
						c.Unknown("ledger-setups", fmt.Sprintf("element:%d:requireFeatures", i), pos(c, kv), "feature key/value is not a constant")
						continue
					}
					conds = append(conds, k+"="+v)
				}
				sort.Strings(conds)
				ls.Cond = strings.Join(conds, "&")
			}
			sc := fieldOfCompositeLit(cl, "script")
			if sc == nil {
				c.Unknown("ledger-setups", fmt.Sprintf("element:%d:script", i), pos(c, cl), "no script field")
				continue
			}
			s, ok := astx.ConstString(info, sc)
			if !ok {
				c.Unknown("ledger-setups", fmt.Sprintf("element:%d:script", i), pos(c, sc), "script is not a constant string")
				continue
			}
			ls.Script = s
			out.Setups = append(out.Setups, ls)
			out.Cat.ApplyScript(s, fmt.Sprintf("ledgerSetups[%d]@%s", i, ls.Pos), true, ls.Cond)
		}
		for _, e := range out.Cat.Errors {
			c.Unknown("ledger-setups", "lex", "", e)
		}
		for _, o := range out.Cat.Opaque {
			c.Unknown("ledger-setups", "opaque:"+o.Head, o.Origin, "statement of a ledgerSetups template not understood: "+o.Reason)
		}
		c.Stats["ledger_setups_templates"] = len(out.Setups)
		c.Stats["ledger_setups_objects"] = len(out.Cat.MigrationLedgerObjs)
		return out
	}).(*LedgerSetups)
}
