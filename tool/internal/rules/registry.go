// Package rules holds the repository-specific rule instances, one file per property.
package rules

import (
	"fmt"
	"go/ast"
	"go/types"
	"sort"
	"strings"

	"golang.org/x/tools/go/packages"

	"ledgerlint/internal/astx"
	"ledgerlint/internal/bunq"
	"ledgerlint/internal/core"
	"ledgerlint/internal/load"
	"ledgerlint/internal/sqlfe"
)

type CheckFunc func(c *core.Ctx)

var registry = map[string]CheckFunc{}

func register(id string, f CheckFunc) { registry[id] = f }

func Lookup(id string) CheckFunc {
	f := registry[id]
	if f == nil {
		return nil
	}
	// the call index (and with it the feature-helper summaries astx reads facts with) first
	return func(c *core.Ctx) { index(c); f(c) }
}

func Properties() []string {
	var out []string
	for k := range registry {
		out = append(out, k)
	}
	sort.Strings(out)
	return out
}

// Package-relative paths used everywhere.
const (
	pkgCore       = "internal"
	pkgStore      = "internal/storage/ledger"
	pkgCommon     = "internal/storage/common"
	pkgBucket     = "internal/storage/bucket"
	pkgDriver     = "internal/storage/driver"
	pkgSysStore   = "internal/storage/system"
	pkgCtrl       = "internal/controller/ledger"
	pkgSysCtrl    = "internal/controller/system"
	pkgBulk       = "internal/api/bulking"
	pkgAPIv1      = "internal/api/v1"
	pkgAPIv2      = "internal/api/v2"
	pkgAPICommon  = "internal/api/common"
	pkgQueries    = "internal/queries"
	pkgFeatures   = "pkg/features"
	pkgMachine    = "internal/machine"
	pkgVM         = "internal/machine/vm"
	pkgProgram    = "internal/machine/vm/program"
	pkgCompiler   = "internal/machine/script/compiler"
	pkgReplic     = "internal/replication"
	pkgBus        = "internal/bus"
	pkgStorageTop = "internal/storage"
)

// index returns the (cached) call index.
func index(c *core.Ctx) *astx.Index {
	return c.Cache("index", func() any {
		ix := astx.BuildIndex(c.Prog())
		astx.RegisterFeatureHelpers(ix)
		c.Stats["call_sites_indexed"] = len(ix.Sites)
		c.Stats["functions_indexed"] = len(ix.Decls)
		return ix
	}).(*astx.Index)
}

// bunModel returns the (cached) bun statement model of the given package.
func bunModel(c *core.Ctx, rel string) *bunq.Model {
	return c.Cache("bun:"+rel, func() any {
		pk := c.Prog().Pkg(rel)
		if pk == nil {
			panic(core.Abort{Msg: "package not loaded: " + rel})
		}
		setBunqResolver(c)
		m := bunq.Build([]*packages.Package{pk})
		c.Stats["bun_statements:"+rel] = len(m.Stmts)
		return m
	}).(*bunq.Model)
}

// fn resolves a function anchor or records an unresolved-anchor obligation.
func fn(c *core.Ctx, rel, recv, name string) *astx.DeclInfo {
	d := index(c).LookupFunc(rel, recv, name)
	key := rel + "." + name
	if recv != "" {
		key = rel + ".(" + recv + ")." + name
	}
	if d == nil || d.Decl.Body == nil {
		if !ast.IsExported(name) {
			// an unexported helper may be renamed, inlined or split at will: the rules keyed on it
			// are not evaluated (visible as an unrecognised shape), nothing is alarmed
			c.Unrecognised("anchor", key, "", "unexported anchor function not found (renamed, inlined or removed): the rules keyed on it are not evaluated")
			return nil
		}
		c.Unknown("anchor", key, "", "anchor function not found: the rule is keyed on it (renamed or removed?)")
		return nil
	}
	c.PassTrivial("anchor", key, c.Prog().Rel(d.Decl.Pos()), "resolved")
	return d
}

func pos(c *core.Ctx, n ast.Node) string { return c.Prog().Rel(n.Pos()) }

// namedType looks up a named type of a repository package.
func namedType(c *core.Ctx, rel, name string) *types.Named {
	pk := c.Prog().Pkg(rel)
	if pk == nil {
		return nil
	}
	o := pk.Types.Scope().Lookup(name)
	if o == nil {
		return nil
	}
	n, _ := o.Type().(*types.Named)
	return n
}

// stmtsIn returns the bun statements whose enclosing declaration is d.
func stmtsIn(m *bunq.Model, d *astx.DeclInfo) []*bunq.Statement {
	var out []*bunq.Statement
	for _, s := range m.Stmts {
		if s.Encl == d.Decl {
			out = append(out, s)
		}
	}
	return out
}

// ---- debug dumps ----

func DumpSQL(c *core.Ctx) {
	cat := c.Catalog()
	fmt.Println("files", cat.Files, "statements", cat.Statements, "data", cat.DataStmts)
	for _, n := range sqlfe.SortedKeys(cat.Tables) {
		t := cat.Tables[n]
		var cols []string
		for _, cc := range t.Cols {
			cols = append(cols, cc.Name+":"+cc.Type)
		}
		fmt.Printf("TABLE %s pk=%v cols=%s\n", n, t.PK, strings.Join(cols, ", "))
	}
	for _, n := range sqlfe.SortedKeys(cat.Indexes) {
		ix := cat.Indexes[n]
		fmt.Printf("INDEX %s on %s %v unique=%v primary=%v where=%s (%s)\n", n, ix.Table, ix.Cols, ix.Unique, ix.Primary, sqlfe.Canon(ix.Where), ix.Origin)
	}
	for _, n := range sqlfe.SortedKeys(cat.Functions) {
		f := cat.Functions[n]
		fmt.Printf("FUNC %s lang=%s stmts=%d opaque=%v hist=%v\n", n, f.Lang, len(f.Stmts), f.Opaque, cat.FuncHistory[n])
	}
	for _, n := range sqlfe.SortedKeys(cat.Triggers) {
		t := cat.Triggers[n]
		fmt.Printf("TRIGGER %s %s %v on %s when=%q func=%s perLedger=%v cond=%q (%s)\n", n, t.Timing, t.Events, t.Table, t.WhenSrc, t.Func, t.PerLedger, t.Cond, t.Origin)
	}
	for _, n := range sqlfe.SortedKeys(cat.MigrationLedgerObjs) {
		o := cat.MigrationLedgerObjs[n]
		fmt.Printf("LEDGEROBJ %s cond=%q (%s)\n", n, o.Cond, o.Origin)
	}
	for _, n := range sqlfe.SortedKeys(cat.Enums) {
		fmt.Printf("ENUM %s %v\n", n, cat.Enums[n].Values)
	}
	for _, o := range cat.Opaque {
		fmt.Printf("OPAQUE %s [%s] %s\n", o.Origin, o.Reason, o.Head)
	}
}

func DumpBun(c *core.Ctx, args []string) {
	rel := pkgStore
	if len(args) > 0 {
		rel = args[0]
	}
	m := bunModel(c, rel)
	p := c.Prog()
	for _, s := range m.Stmts {
		h := ""
		if s.Handle != nil {
			h = astx.ExprString(s.Handle)
		}
		fmt.Printf("%s %s %s root=%s handle=%s func=%s terminal=%s returned=%v parent=%v\n", p.Rel(s.Pos()), s.Kind, s.Describe(), s.RootKind, h, load.RecvName(s.Encl)+"."+s.Encl.Name.Name, s.Terminal, s.Returned, s.Parent != nil)
		if s.Kind == "raw" {
			fmt.Printf("    RAW parsed=%v err=%v\n", s.Raw != nil, s.RawErr)
		}
		for _, cl := range s.Clauses {
			ff := astx.FeatureFacts(s.Pkg.TypesInfo, cl.Facts)
			fmt.Printf("    .%s %q opaque=%v args=%d subs=%d feat=%v\n", cl.Method, cl.SQL, cl.Opaque, len(cl.Args), len(cl.Subs), ff)
		}
	}
	for _, e := range m.ExecCalls {
		fmt.Printf("%s EXEC %s handle=%s sql=%q\n", p.Rel(e.Call.Pos()), e.Method, astx.ExprString(e.Handle), e.SQL)
	}
}

// newEval builds a symbolic string evaluator for a declaration.
// setBunqResolver lets the SQL text evaluator read through single-return helpers.
func setBunqResolver(c *core.Ctx) {
	ix := index(c)
	bunq.FuncDeclOf = func(f *types.Func) *ast.FuncDecl {
		if d := ix.Decls[f]; d != nil {
			return d.Decl
		}
		if d := ix.Decls[f.Origin()]; d != nil {
			return d.Decl
		}
		return nil
	}
}

func newEval(d *astx.DeclInfo) *bunq.Evaluator { return bunq.NewEvaluator(d.Pkg.TypesInfo, d.Decl) }
