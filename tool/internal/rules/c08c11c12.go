package rules

import (
	"fmt"
	"go/ast"
	"go/token"
	"go/types"
	"sort"
	"strings"

	"ledgerlint/internal/astx"
	"ledgerlint/internal/core"
	"ledgerlint/internal/load"
	"ledgerlint/internal/sqlfe"
)

func init() {
	register("C08", checkC08)
	register("C11", checkC11)
	register("C12", checkC12)
	addBreakers("C08",
		Breaker{Name: "log-kind-missing-from-hydrate", File: "internal/log.go",
			Old: "\tcase InsertedSchemaLogType:\n\t\tpayload = &InsertedSchema{}\n", New: "", Expect: "EXH/log-kinds"},
		Breaker{Name: "log-kind-string-duplicated", File: "internal/log.go",
			Old: "\tcase DeleteMetadataLogType:\n\t\treturn \"DELETE_METADATA\"", New: "\tcase DeleteMetadataLogType:\n\t\treturn \"SET_METADATA\"", Expect: "EXH/log-kinds"},
		Breaker{Name: "sql-enum-missing-kind", File: "internal/storage/bucket/migrations/47-add-schema/up.sql",
			Old: "alter type log_type add value 'INSERTED_SCHEMA';", New: "", Expect: "EXH/log-kinds"},
		Breaker{Name: "import-arm-missing", File: "internal/controller/ledger/controller_default.go",
			Old: "\t\t\tcase ledger.InsertedSchema:\n\t\t\t\tif err := store.InsertSchema(ctx, &payload.Schema); err != nil {\n\t\t\t\t\treturn nil, fmt.Errorf(\"failed to insert schema: %w\", err)\n\t\t\t\t}\n", New: "", Expect: "EXH/import-arms"},
		Breaker{Name: "import-revert-skips-commit", File: "internal/controller/ledger/controller_default.go",
			Old: "\t\t\t\tif err := store.CommitTransaction(ctx, &payload.RevertTransaction); err != nil {\n\t\t\t\t\treturn nil, fmt.Errorf(\"failed to commit transaction: %w\", err)\n\t\t\t\t}\n", New: "", Expect: "EXH/import-arms"},
		Breaker{Name: "second-log-writer", File: "internal/controller/ledger/controller_default.go",
			Old: "\treturn &ledger.SavedMetadata{\n\t\tTargetType: ledger.MetaTargetTypeTransaction,", New: "\t_ = store.InsertLog(ctx, &ledger.Log{})\n\treturn &ledger.SavedMetadata{\n\t\tTargetType: ledger.MetaTargetTypeTransaction,", Expect: "WMC/insert-log"},
		Breaker{Name: "write-without-forgelog", File: "internal/controller/ledger/controller_default.go",
			Old: "\tlog, _, idempotencyHit, err := ctrl.deleteAccountMetadataLp.forgeLog(ctx, ctrl.store, parameters, ctrl.deleteAccountMetadata)\n\treturn log, idempotencyHit, err", New: "\t_, err := ctrl.deleteAccountMetadata(ctx, ctrl.store, nil, parameters)\n\treturn nil, false, err", Expect: "EXH/writers-forge-log"},
		Breaker{Name: "audit-mode-skips-log", File: "internal/controller/ledger/log_process.go",
			Old: "\t\t\t\ttrace.SpanFromContext(ctx).SetAttributes(attribute.String(\"schema_validation_failed\", err.Error()))\n\t\t\t\tlogging.FromContext(ctx).Errorf(\"schema validation failed: %s\", err)\n", New: "\t\t\t\ttrace.SpanFromContext(ctx).SetAttributes(attribute.String(\"schema_validation_failed\", err.Error()))\n\t\t\t\tlogging.FromContext(ctx).Errorf(\"schema validation failed: %s\", err)\n\t\t\t\treturn &log, output, nil\n", Expect: "DOM/run-log"},
		Breaker{Name: "wrong-log-processor-payload", File: "internal/log.go",
			Old: "func (s DeletedMetadata) Type() LogType {\n\treturn DeleteMetadataLogType", New: "func (s DeletedMetadata) Type() LogType {\n\treturn SetMetadataLogType", Expect: "EXH/log-kinds"},
	)
	addBreakers("C12",
		Breaker{Name: "import-without-state-check", File: "internal/controller/system/state_tracker.go",
			Old: "\t\tif c.ledger.State != ledger.StateInitializing {\n\t\t\treturn ledgercontroller.NewErrImport(errors.New(\"ledger is not in initializing state\"))\n\t\t}\n", New: "\t\t_ = errors.New\n", Expect: "DOM/import-guard"},
		Breaker{Name: "import-state-read-outside-lock", File: "internal/controller/system/state_tracker.go",
			Old: "\t\tif err := conn.NewSelect().Model(&c.ledger).", New: "\t\tif err := conn.NewSelect().Model(&ledger.Ledger{}).", Expect: "DOM/import-guard"},
		Breaker{Name: "import-accepts-older-log-ids", File: "internal/controller/ledger/controller_default.go",
			Old: "if lastLogID != nil && *log.ID <= *lastLogID {", New: "if lastLogID != nil && *log.ID < *lastLogID {", Expect: "DOM/import-id-order"},
		Breaker{Name: "state-update-not-conditional", File: "internal/controller/system/state_tracker.go",
			Old: "Where(\"id = ? and state = ?\", l.ID, ledger.StateInitializing).", New: "Where(\"id = ?\", l.ID).", Expect: "SQLS/state-transition"},
		Breaker{Name: "lock-key-differs-between-arms", File: "internal/storage/ledger/store.go",
			Old: "_, err := db.ExecContext(ctx, `SELECT pg_advisory_xact_lock(hashtext(?))`, fmt.Sprintf(\"ledger:%d\", store.ledger.ID))", New: "_, err := db.ExecContext(ctx, `SELECT pg_advisory_xact_lock(hashtext(?))`, fmt.Sprintf(\"ledger-tx:%d\", store.ledger.ID))", Expect: "SQLS/ledger-lock"},
		Breaker{Name: "unlock-other-key", File: "internal/storage/ledger/store.go",
			Old: "`SELECT pg_advisory_unlock(hashtext(?))`, fmt.Sprintf(\"ledger:%d\", store.ledger.ID)", New: "`SELECT pg_advisory_unlock(hashtext(?))`, fmt.Sprintf(\"ledger:%d\", store.ledger.ID+1)", Expect: "SQLS/ledger-lock"},
		Breaker{Name: "state-tracker-not-outermost", File: "internal/controller/system/controller.go",
			Old: "\t\treturn newLedgerStateTracker(ledgerController, *l), nil", New: "\t\treturn ledgercontroller.NewControllerWithCache(*l, newLedgerStateTracker(ledgerController, *l), ctrl.registry), nil", Expect: "DOM/state-tracker-outermost"},
		Breaker{Name: "write-skips-state-protocol", File: "internal/controller/system/state_tracker.go",
			Old: "\terr = c.handleState(ctx, parameters.DryRun, func(ctrl ledgercontroller.Controller) error {\n\t\tlog, ret, idempotencyHit, err = ctrl.InsertSchema(ctx, parameters)\n\t\treturn err\n\t})", New: "\tlog, ret, idempotencyHit, err = c.Controller.InsertSchema(ctx, parameters)", Expect: "EXH/state-tracker-overrides"},
		Breaker{Name: "import-concurrent-write-not-mapped", File: "internal/controller/ledger/controller_default.go",
			Old: "errors.Is(err, ledgerstore.ErrConcurrentTransaction{}):", New: "errors.Is(err, ledgerstore.ErrTransactionReferenceConflict{}):", Expect: "DOM/import-conflict-mapped"},
	)
	addBreakers("C11",
		Breaker{Name: "import-replays-metadata-without-date", File: "internal/controller/ledger/controller_default.go",
			Old: "store.UpdateTransactionMetadata(ctx, payload.TargetID.(uint64), payload.Metadata, log.Date)", New: "store.UpdateTransactionMetadata(ctx, payload.TargetID.(uint64), payload.Metadata, time.Time{})", Expect: "EXH/import-arms"},
		Breaker{Name: "import-revert-uses-now", File: "internal/controller/ledger/controller_default.go",
			Old: "\t\t\t\t\t*payload.RevertedTransaction.RevertedAt,\n", New: "\t\t\t\t\ttime.Time{},\n", Expect: "EXH/import-arms"},
		Breaker{Name: "import-hash-not-verified", File: "internal/controller/ledger/controller_default.go",
			Old: "\t\t\t\tif !reflect.DeepEqual(log.Hash, logCopy.Hash) {\n\t\t\t\t\treturn nil, newErrInvalidHash(*log.ID, logCopy.Hash, log.Hash)\n\t\t\t\t}", New: "\t\t\t\t_ = reflect.DeepEqual(log.Hash, logCopy.Hash)", Expect: "DOM/import-hash-verified"},
	)
}

// ================= C08 =================

func checkC08(c *core.Ctx) {
	c.Decide("every Controller method that returns a log is implemented in DefaultController by forgeLog on the processor of its own payload type; InsertLog is called only from runLog and importLog; in runLog every success exit passes InsertLog exactly once, after the operation callback, outside any loop; the set of log kinds agrees across the LogType constants, LogType.String, LogTypeFromString, HydrateLog, the payload types' Type(), the importLog type switch and the SQL enum log_type after all migrations; importLog replays every payload kind with the store calls its writer used; the log id comes from the per-ledger sequence (C16)")
	c.NotDecided("that replaying payloads reproduces equal values; commit order versus id order under concurrency")
	c.Trust("reflection in HydrateLog is driven by the explicit type switch next to it")
	ruleWritersForgeLog(c)
	ruleInsertLogCallers(c)
	ruleRunLogInsertsOnce(c)
	ruleLogKinds(c)
	ruleImportArms(c)
	ruleLoggedAccountMetadataIsApplied(c)
	// "every successful non-dry-run write appends exactly one log": a dry run must not commit
	// (begin/commit/rollback pairing, shared with C07); ids in commit order need plain per-ledger
	// sequences (shared with C16)
	rulePairAll(c)
	ruleIDsAndSequences(c)
}

func ruleWritersForgeLog(c *core.Ctx) {
	methods := logProducingMethods(c)
	c.Floor("EXH/writers-forge-log", "log-producing Controller methods", len(methods), 7)
	for _, m := range methods {
		d := fn(c, pkgCtrl, "DefaultController", m)
		if d == nil {
			continue
		}
		info := d.Pkg.TypesInfo
		calls := callsTo(info, d.Decl.Body, named("forgeLog"))
		ok := len(calls) == 1
		detail := fmt.Sprintf("%d forgeLog calls", len(calls))
		if ok {
			// callback is the lower-case sibling method; processor field matches
			call := calls[0]
			cb := ""
			if len(call.Args) == 4 {
				cb = lastSeg(astx.SelectorPath(call.Args[3]))
			}
			lp := lastSeg(astx.SelectorPath(recvExpr(call)))
			wantCb := strings.ToLower(m[:1]) + m[1:]
			ok = cb == wantCb && lp == wantCb+"Lp" && astx.SelectorPath(call.Args[1]) == d.Decl.Recv.List[0].Names[0].Name+".store"
			detail = fmt.Sprintf("forgeLog on %s with callback %s", lp, cb)
		}
		c.Check(ok, "EXH/writers-forge-log", declKey(d), pos(c, d.Decl), detail, fmt.Sprintf("%s must be implemented as <own>Lp.forgeLog(ctx, ctrl.store, parameters, ctrl.<own callback>) (%s): otherwise the write is not journaled, not idempotent, or journaled under another kind", m, detail))
	}
}

func ruleInsertLogCallers(c *core.Ctx) {
	d := fn(c, pkgStore, "Store", "InsertLog")
	if d == nil {
		return
	}
	allowed := map[string]bool{pkgCtrl + ".(logProcessor).runLog": true, pkgCtrl + ".(DefaultController).importLog": true}
	sites := index(c).SitesOf(d.Obj)
	c.Floor("WMC/insert-log", "call sites of InsertLog", len(sites), 2)
	for _, s := range sites {
		caller := astx.FuncKey(s.EnclObj)
		c.Check(allowed[caller], "WMC/insert-log", "InsertLog<-"+caller, pos(c, s.Call), "allowed caller", "InsertLog is called from "+caller+"; only runLog (one log per write) and importLog may append to the journal")
	}
	// no other statement inserts into logs
	for _, w := range writersOf(tableWriters(c), "logs") {
		ok := w.Origin == "go:"+pkgStore+".(Store).InsertLog" && w.Kind == "insert"
		c.Check(ok, "WMC/insert-log", "logs-writer:"+w.Origin+":"+w.Kind, w.Pos, "InsertLog", fmt.Sprintf("%s %ss the logs table: the journal must be append-only through InsertLog", w.Origin, w.Kind))
	}
}

func ruleRunLogInsertsOnce(c *core.Ctx) {
	d := fn(c, pkgCtrl, "logProcessor", "runLog")
	if d == nil {
		return
	}
	info := d.Pkg.TypesInfo
	key := declKey(d)
	ins := callsTo(info, d.Decl.Body, named("InsertLog"))
	var fnCall *ast.CallExpr
	ast.Inspect(d.Decl.Body, func(n ast.Node) bool {
		if call, ok := n.(*ast.CallExpr); ok {
			if isParamFuncCall(d, call) {
				fnCall = call
			}
		}
		return true
	})
	if fnCall == nil {
		c.Unrecognised("DOM/run-log", key+":calls", pos(c, d.Decl), "the call of the operation callback was not found in runLog itself")
		return
	}
	if !onceEach(c, d, "DOM/run-log", key+":calls", "runLog must record the operation's result with InsertLog exactly once", "InsertLog") {
		return
	}
	flow := astx.NewFlow(info, d.Decl.Body)
	inLoop := false
	ast.Inspect(d.Decl.Body, func(n ast.Node) bool {
		switch l := n.(type) {
		case *ast.ForStmt, *ast.RangeStmt:
			if l.Pos() <= ins[0].Pos() && ins[0].End() <= l.End() {
				inLoop = true
			}
		}
		return true
	})
	c.Check(!inLoop && flow.Dominates(fnCall, ins[0]), "DOM/run-log", key+":after-operation-once", pos(c, ins[0]), "fn dominates the single InsertLog, no loop", "InsertLog must run once, after the operation callback succeeded")
	stop := astx.ContainsCallTo(info, func(f *types.Func, _ *ast.CallExpr) bool { return f.Name() == "InsertLog" })
	bad := 0
	for _, e := range flow.Exits() {
		if e.Return != nil && isErrorReturn(info, d.Decl.Body, e.Return) > 0 {
			continue
		}
		// `return &log, output, err` after `if err != nil {return}`: success exit
		if flow.PathAvoiding(nil, e, stop) {
			bad++
			p := d.Decl.Pos()
			if e.Return != nil {
				p = e.Return.Pos()
			}
			c.Fail("DOM/run-log", fmt.Sprintf("%s:success-exit-without-log#%d", key, bad), posOf(c, p), "a success exit of runLog is reachable without InsertLog: a write would be applied without its journal entry")
		}
	}
	if bad == 0 {
		c.Pass("DOM/run-log", key+":every-success-exit-logs", pos(c, d.Decl), "all success exits pass InsertLog")
	}
	// the inserted log is built from the operation's output
	built := false
	for _, call := range callsTo(info, d.Decl.Body, named("NewLog")) {
		if len(call.Args) == 1 && strings.TrimPrefix(astx.ExprString(call.Args[0]), "*") == "output" {
			built = true
		}
	}
	c.Check(built, "DOM/run-log", key+":log-from-output", pos(c, d.Decl), "log = NewLog(*output)", "the journal entry is not built from the operation's output payload")
}

// ruleLogKinds: EXH agreement of the log kind tables.
func ruleLogKinds(c *core.Ctx) {
	pk := c.Prog().Pkg(pkgCore)
	info := pk.TypesInfo
	lt := namedType(c, pkgCore, "LogType")
	if lt == nil {
		c.Unknown("anchor", pkgCore+".LogType", "", "type LogType not found")
		return
	}
	// constants
	consts := map[string]bool{}
	sc := pk.Types.Scope()
	for _, n := range sc.Names() {
		if k, ok := sc.Lookup(n).(*types.Const); ok && types.Identical(k.Type(), lt) {
			consts[n] = true
		}
	}
	constNames := sqlfe.SortedKeys(consts)
	// String(): const -> string
	strOf := map[string]string{}
	if d := fn(c, pkgCore, "LogType", "String"); d != nil {
		ast.Inspect(d.Decl.Body, func(n ast.Node) bool {
			cc, ok := n.(*ast.CaseClause)
			if !ok {
				return true
			}
			for _, e := range cc.List {
				if id, ok := e.(*ast.Ident); ok && len(cc.Body) == 1 {
					if r, ok := cc.Body[0].(*ast.ReturnStmt); ok && len(r.Results) == 1 {
						if s, ok := astx.ConstString(info, r.Results[0]); ok {
							strOf[id.Name] = s
						}
					}
				}
			}
			return true
		})
	}
	// FromString: string -> const
	fromStr := map[string]string{}
	if d := fn(c, pkgCore, "", "LogTypeFromString"); d != nil {
		// the table may live in a helper the exported function delegates to (depth 1)
		bodies := []*ast.BlockStmt{d.Decl.Body}
		for _, call := range callsTo(info, d.Decl.Body, func(f *types.Func) bool { return f.Pkg() != nil && f.Pkg().Path() == load.Module+"/"+pkgCore }) {
			if hd := index(c).Decls[astx.Callee(info, call)]; hd != nil && hd.Decl.Body != nil {
				bodies = append(bodies, hd.Decl.Body)
			}
		}
		for _, body := range bodies {
			ast.Inspect(body, func(n ast.Node) bool {
				cc, ok := n.(*ast.CaseClause)
				if !ok {
					return true
				}
				for _, e := range cc.List {
					if s, ok := astx.ConstString(info, e); ok && len(cc.Body) == 1 {
						if r, ok := cc.Body[0].(*ast.ReturnStmt); ok && len(r.Results) >= 1 {
							if id, ok := r.Results[0].(*ast.Ident); ok {
								fromStr[s] = id.Name
							}
						}
					}
				}
				return true
			})
		}
	}
	// HydrateLog: const -> payload type
	hyd := map[string]string{}
	if d := fn(c, pkgCore, "", "HydrateLog"); d != nil {
		ast.Inspect(d.Decl.Body, func(n ast.Node) bool {
			cc, ok := n.(*ast.CaseClause)
			if !ok {
				return true
			}
			for _, e := range cc.List {
				id, ok := e.(*ast.Ident)
				if !ok {
					continue
				}
				ast.Inspect(cc, func(y ast.Node) bool {
					if cl, ok := y.(*ast.CompositeLit); ok {
						hyd[id.Name] = astx.RecvTypeName(info.TypeOf(cl))
					}
					return true
				})
			}
			return true
		})
	}
	// payload implementers: type -> const returned by Type()
	payloadIface := namedType(c, pkgCore, "LogPayload")
	typeOf := map[string]string{}
	if payloadIface != nil {
		it := payloadIface.Underlying().(*types.Interface)
		for _, n := range sc.Names() {
			tn, ok := sc.Lookup(n).(*types.TypeName)
			if !ok {
				continue
			}
			nt, ok := tn.Type().(*types.Named)
			if !ok || nt == payloadIface {
				continue
			}
			if _, isIface := nt.Underlying().(*types.Interface); isIface {
				continue
			}
			if !types.Implements(nt, it) && !types.Implements(types.NewPointer(nt), it) {
				continue
			}
			if d := index(c).LookupFunc(pkgCore, n, "Type"); d != nil {
				ast.Inspect(d.Decl.Body, func(y ast.Node) bool {
					if r, ok := y.(*ast.ReturnStmt); ok && len(r.Results) == 1 {
						if id, ok := r.Results[0].(*ast.Ident); ok {
							typeOf[n] = id.Name
						}
					}
					return true
				})
			}
		}
	}
	// SQL enum
	var enumVals []string
	if e := c.Catalog().Enums["log_type"]; e != nil {
		enumVals = append(enumVals, e.Values...)
	}
	sort.Strings(enumVals)
	// importLog arms
	arms := map[string]bool{}
	if d := fn(c, pkgCtrl, "DefaultController", "importLog"); d != nil {
		ast.Inspect(d.Decl.Body, func(n ast.Node) bool {
			ts, ok := n.(*ast.TypeSwitchStmt)
			if !ok {
				return true
			}
			for _, cl := range ts.Body.List {
				for _, e := range cl.(*ast.CaseClause).List {
					arms[astx.RecvTypeName(d.Pkg.TypesInfo.TypeOf(e))] = true
				}
			}
			return false
		})
	}
	c.Floor("EXH/log-kinds", "LogType constants", len(constNames), 5)
	var strVals []string
	for _, k := range constNames {
		s, ok := strOf[k]
		c.Check(ok, "EXH/log-kinds", "String:"+k, "", "has a name", "LogType.String has no case for "+k+" (it panics for that kind)")
		if ok {
			strVals = append(strVals, s)
			c.Check(fromStr[s] == k, "EXH/log-kinds", "FromString:"+s, "", "round-trips to "+k, fmt.Sprintf("LogTypeFromString(%q) gives %q, expected %s: stored logs of that kind could not be read back", s, fromStr[s], k))
		}
		pt, ok := hyd[k]
		c.Check(ok, "EXH/log-kinds", "HydrateLog:"+k, "", "has a payload type", "HydrateLog has no case for "+k)
		if ok {
			c.Check(typeOf[pt] == k, "EXH/log-kinds", "PayloadType:"+pt, "", pt+".Type() = "+k, fmt.Sprintf("HydrateLog decodes %s into %s whose Type() is %s", k, pt, typeOf[pt]))
			c.Check(arms[pt], "EXH/import-arms", "arm:"+pt, "", "importLog handles "+pt, "importLog has no arm for payload "+pt+": an exported log of that kind would be inserted without replaying its effect")
		}
	}
	sort.Strings(strVals)
	dup := len(dedupStrings(strVals)) != len(strVals)
	c.Check(!dup && eqStrings(strVals, enumVals), "EXH/log-kinds", "sql-enum", "", "Go names = SQL enum log_type "+strings.Join(enumVals, ","), fmt.Sprintf("Go log kind names %v differ from the values of the SQL enum log_type after all migrations %v: an insert of the missing kind fails in Postgres", strVals, enumVals))
	c.Check(len(typeOf) == len(constNames), "EXH/log-kinds", "payload-types", "", fmt.Sprintf("%d payload types for %d kinds", len(typeOf), len(constNames)), fmt.Sprintf("%d LogPayload implementers for %d log kinds", len(typeOf), len(constNames)))
}

// ruleImportArms: importLog replays each payload with the store call(s) its writer used.
func ruleImportArms(c *core.Ctx) {
	d := fn(c, pkgCtrl, "DefaultController", "importLog")
	if d == nil {
		return
	}
	info := d.Pkg.TypesInfo
	// writer callbacks -> effectful store calls
	eff := effectfulStoreMethods(c)
	storeCalls := func(n ast.Node) []string {
		var out []string
		for _, call := range callsTo(info, n, func(f *types.Func) bool {
			sig, _ := f.Type().(*types.Signature)
			return sig != nil && sig.Recv() != nil && isCtrlStoreIface(sig.Recv().Type()) && (eff[f.Name()] && f.Name() != "GetBalances" && f.Name() != "InsertLog")
		}) {
			out = append(out, astx.Callee(info, call).Name())
		}
		out = dedupStrings(out)
		sort.Strings(out)
		return out
	}
	// writers per payload type
	writer := map[string][]string{}
	for _, w := range []struct{ payload, cb string }{
		{"CreatedTransaction", "createTransaction"}, {"RevertedTransaction", "revertTransaction"},
		{"InsertedSchema", "insertSchema"},
	} {
		if wd := index(c).LookupFunc(pkgCtrl, "DefaultController", w.cb); wd != nil {
			calls := storeCalls(wd.Decl.Body)
			// helpers on the controller that take the store (upsertTransactionAccounts)
			for _, call := range callsTo(info, wd.Decl.Body, named("upsertTransactionAccounts")) {
				_ = call
				calls = append(calls, "UpsertAccounts")
			}
			writer[w.payload] = dedupStrings(calls)
			sort.Strings(writer[w.payload])
		}
	}
	var ts *ast.TypeSwitchStmt
	ast.Inspect(d.Decl.Body, func(n ast.Node) bool {
		if t, ok := n.(*ast.TypeSwitchStmt); ok && ts == nil {
			ts = t
		}
		return true
	})
	if ts == nil {
		c.Fail("EXH/import-arms", declKey(d)+":switch", pos(c, d.Decl), "importLog has no type switch over the payload")
		return
	}
	for _, cl := range ts.Body.List {
		cc := cl.(*ast.CaseClause)
		for _, e := range cc.List {
			pt := astx.RecvTypeName(info.TypeOf(e))
			got := storeCalls(cc)
			for range callsTo(info, cc, named("upsertTransactionAccounts")) {
				got = append(got, "UpsertAccounts")
			}
			got = dedupStrings(got)
			sort.Strings(got)
			key := "replay:" + pt
			switch pt {
			case "CreatedTransaction", "RevertedTransaction", "InsertedSchema":
				c.Check(eqStrings(got, writer[pt]), "EXH/import-arms", key, pos(c, cc), strings.Join(got, "+"), fmt.Sprintf("importing a %s replays %v but writing one performs %v: the copy would differ from the source ledger", pt, got, writer[pt]))
			case "SavedMetadata":
				c.Check(eqStrings(got, []string{"UpdateAccountsMetadata", "UpdateTransactionMetadata"}), "EXH/import-arms", key, pos(c, cc), strings.Join(got, "+"), fmt.Sprintf("importing SavedMetadata performs %v", got))
			case "DeletedMetadata":
				c.Check(eqStrings(got, []string{"DeleteAccountMetadata", "DeleteTransactionMetadata"}), "EXH/import-arms", key, pos(c, cc), strings.Join(got, "+"), fmt.Sprintf("importing DeletedMetadata performs %v", got))
			}
			// dates: every store call in an arm that accepts a date gets one from the log / payload
			for _, call := range callsTo(info, cc, func(f *types.Func) bool { return eff[f.Name()] }) {
				f := astx.Callee(info, call)
				sig := f.Type().(*types.Signature)
				for i := 0; i < sig.Params().Len() && i < len(call.Args); i++ {
					if astx.RecvTypeName(sig.Params().At(i).Type()) == "Time" {
						arg := astx.ExprString(call.Args[i])
						okDate := strings.Contains(arg, "log.Date") || strings.Contains(arg, "RevertedAt")
						c.Check(okDate, "EXH/import-arms", fmt.Sprintf("date:%s:%s", pt, f.Name()), pos(c, call), "date taken from the log", fmt.Sprintf("%s is replayed with date %s instead of the original date carried by the log: timestamps (and metadata history) of the copy would be those of the import", f.Name(), arg))
					}
				}
			}
		}
	}
}

// ================= C12 =================

func checkC12(c *core.Ctx) {
	c.Decide("the state tracker is the outermost controller handed to the API; every log-producing method of it goes through handleState and Import through the ledger lock; inside the lock the ledger row is re-read on the locked connection and anything but `initializing` is refused before the inner Import runs; Import rejects a log whose id is not greater than the last one before importing it, imports each log in its own transaction, and maps a concurrent write (serialization failure / duplicate transaction id) to ErrImport; the initializing→in-use transition is one conditional UPDATE (`state = initializing`) executed on the write's transaction under the ledger lock; both arms of LockLedger lock the same key and the session arm unlocks that key on the same connection. The state tracker does not re-wrap itself in BeginTX/LockLedger (known finding: an atomic bulk bypasses the transition)")
	c.NotDecided("advisory-lock behaviour of Postgres; the interleavings themselves")
	c.Trust("pg_advisory_lock / pg_advisory_xact_lock semantics")
	ruleStateTrackerOutermost(c)
	ruleStateTrackerOverrides(c)
	ruleImportGuard(c)
	ruleImportIDOrder(c)
	ruleStateTransition(c)
	ruleLedgerLock(c)
	ruleDecoratorCompleteness(c, "DECO/state-tracker", func(d decorator) bool { return d.Rel == pkgSysCtrl })
	rulePairAll(c)
}

func ruleStateTrackerOutermost(c *core.Ctx) {
	d := fn(c, pkgSysCtrl, "DefaultController", "GetLedgerController")
	if d == nil {
		return
	}
	info := d.Pkg.TypesInfo
	ok := false
	n := 0
	ast.Inspect(d.Decl.Body, func(x ast.Node) bool {
		r, isRet := x.(*ast.ReturnStmt)
		if !isRet || len(r.Results) != 2 || !astx.IsNilExpr(info, r.Results[1]) {
			return true
		}
		n++
		if call, isCall := ast.Unparen(r.Results[0]).(*ast.CallExpr); isCall {
			if f := astx.Callee(info, call); f != nil && f.Name() == "newLedgerStateTracker" {
				ok = true
			}
		}
		return true
	})
	c.Check(ok && n == 1, "DOM/state-tracker-outermost", declKey(d), pos(c, d.Decl), "returns newLedgerStateTracker(<all other decorators>)", "the controller handed to the API is not the state tracker wrapped around all other decorators: writes could reach the ledger without the initializing→in-use protocol, or imports without the state check")
}

func ruleStateTrackerOverrides(c *core.Ctx) {
	for _, m := range logProducingMethods(c) {
		d := index(c).LookupFunc(pkgSysCtrl, "controllerFacade", m)
		key := "controllerFacade." + m
		if d == nil {
			c.Fail("EXH/state-tracker-overrides", key, "", "the state tracker does not override "+m+": that write would not mark the ledger in-use")
			continue
		}
		info := d.Pkg.TypesInfo
		hs := callsTo(info, d.Decl.Body, named("handleState"))
		inner := 0
		viaCallback := false
		for _, call := range callsTo(info, d.Decl.Body, named(m)) {
			inner++
			for _, h := range hs {
				for _, a := range h.Args {
					if fl, ok := a.(*ast.FuncLit); ok && fl.Body.Pos() <= call.Pos() && call.End() <= fl.Body.End() {
						// on the callback's controller parameter
						if id, ok := ast.Unparen(recvExpr(call)).(*ast.Ident); ok && len(fl.Type.Params.List) == 1 && info.Uses[id] == info.Defs[fl.Type.Params.List[0].Names[0]] {
							viaCallback = true
						}
					}
				}
			}
		}
		c.Check(len(hs) == 1 && inner == 1 && viaCallback, "EXH/state-tracker-overrides", key, pos(c, d.Decl), "handleState(func(ctrl){ ctrl."+m+" })", m+" must perform its write on the controller handleState passes to its callback")
	}
	if d := fn(c, pkgSysCtrl, "controllerFacade", "Import"); d != nil {
		c.PassTrivial("EXH/state-tracker-overrides", "controllerFacade.Import", pos(c, d.Decl), "declared")
	}
}

func ruleImportGuard(c *core.Ctx) {
	d := fn(c, pkgSysCtrl, "controllerFacade", "Import")
	if d == nil {
		return
	}
	info := d.Pkg.TypesInfo
	key := declKey(d)
	wl := callsTo(info, d.Decl.Body, named("withLock"))
	if !onceEach(c, d, "DOM/import-guard", key+":lock", "Import does not run under withLock", "withLock") {
		return
	}
	if len(wl[0].Args) != 3 {
		c.Unrecognised("DOM/import-guard", key+":lock", pos(c, d.Decl), "withLock is not called with (ctx, controller, callback)")
		return
	}
	fl, ok := wl[0].Args[2].(*ast.FuncLit)
	if !ok || len(fl.Type.Params.List) != 2 {
		c.Fail("DOM/import-guard", key+":callback", pos(c, d.Decl), "withLock callback has an unexpected shape")
		return
	}
	ctrlP := info.Defs[fl.Type.Params.List[0].Names[0]]
	connP := info.Defs[fl.Type.Params.List[1].Names[0]]
	var reload, guard, imp ast.Node
	ast.Inspect(fl.Body, func(x ast.Node) bool {
		switch v := x.(type) {
		case *ast.CallExpr:
			if f := astx.Callee(info, v); f != nil && f.Name() == "Scan" {
				// chain rooted at conn.NewSelect().Model(&c.ledger)
				root := astx.RootIdent(v)
				model := false
				ast.Inspect(v, func(y ast.Node) bool {
					if mc, ok := y.(*ast.CallExpr); ok {
						if mf := astx.Callee(info, mc); mf != nil && mf.Name() == "Model" && len(mc.Args) == 1 && strings.HasSuffix(strings.TrimPrefix(astx.ExprString(mc.Args[0]), "&"), ".ledger") {
							model = true
						}
					}
					return true
				})
				if root != nil && info.Uses[root] == connP && model {
					reload = v
				}
			}
			if f := astx.Callee(info, v); f != nil && f.Name() == "Import" {
				if id, ok := ast.Unparen(recvExpr(v)).(*ast.Ident); ok && info.Uses[id] == ctrlP {
					imp = v
				}
			}
		case *ast.IfStmt:
			if be, ok := ast.Unparen(v.Cond).(*ast.BinaryExpr); ok && be.Op == token.NEQ && strings.HasSuffix(astx.SelectorPath(be.X), ".ledger.State") && strings.HasSuffix(astx.SelectorPath(be.Y), "StateInitializing") {
				if len(callsTo(info, v.Body, named("NewErrImport"))) == 1 && astx.Terminates(info, v.Body.List) {
					guard = v
				}
			}
		}
		return true
	})
	ok = reload != nil && guard != nil && imp != nil && reload.Pos() < guard.Pos() && guard.Pos() < imp.Pos()
	c.Check(ok, "DOM/import-guard", key+":reload-check-import", pos(c, d.Decl), "under the lock: reload ledger row on the locked connection → refuse unless initializing → inner Import on the locked controller",
		fmt.Sprintf("Import must, inside the ledger lock, re-read the ledger row on the locked connection, return ErrImport unless the state is initializing, and only then run the inner Import on the locked controller (reload=%v check=%v import=%v)", reload != nil, guard != nil, imp != nil))
	if a, ok := wl[0].Args[1].(*ast.SelectorExpr); ok {
		c.Check(a.Sel.Name == "Controller", "DOM/import-guard", key+":locks-wrapped-controller", pos(c, wl[0]), "withLock(ctx, c.Controller, …)", "Import does not lock through the wrapped controller")
	}
}

func ruleImportIDOrder(c *core.Ctx) {
	d := fn(c, pkgCtrl, "DefaultController", "Import")
	if d == nil {
		return
	}
	info := d.Pkg.TypesInfo
	key := declKey(d)
	scope := fnScope(c, d, 1)
	// position, in Import itself, of something found in the scope
	rootPos := func(sc scopedCall) token.Pos {
		if sc.D == d {
			return sc.Call.Pos()
		}
		for _, site := range callsTo(info, d.Decl.Body, func(f *types.Func) bool { return f == sc.D.Obj || f.Origin() == sc.D.Obj }) {
			return site.Pos()
		}
		return token.NoPos
	}
	rejects := scopeCalls(scope, named("NewErrImport"))
	imports := scopeCalls(scope, named("importLog"))
	// ---- an id not greater than the last one is refused before the log is imported ----------------
	lastVar := ""
	var orderReject *scopedCall
	wrongOp, opaque := "", false
	for i, sc := range rejects {
		fs, complete := scopeFacts(d, sc)
		opaque = opaque || !complete || factsOpaque(c, info, fs)
		for _, ft := range fs {
			be, ok := ft.Cond.(*ast.BinaryExpr)
			if !ok {
				continue
			}
			op := be.Op
			if !ft.Positive {
				switch op {
				case token.LEQ:
					op = token.GTR
				case token.LSS:
					op = token.GEQ
				case token.GEQ:
					op = token.LSS
				case token.GTR:
					op = token.LEQ
				default:
					continue
				}
			}
			x, y := nospace(types.ExprString(be.X)), nospace(types.ExprString(be.Y))
			// normalise to "<id of the incoming log> op <last id>"
			if !strings.HasSuffix(x, ".ID") && strings.HasSuffix(y, ".ID") {
				x, y = y, x
				switch op {
				case token.LEQ:
					op = token.GEQ
				case token.GEQ:
					op = token.LEQ
				case token.LSS:
					op = token.GTR
				case token.GTR:
					op = token.LSS
				}
			}
			if !strings.HasPrefix(x, "*") || !strings.HasSuffix(x, ".ID") || !strings.HasPrefix(y, "*") {
				continue
			}
			switch op {
			case token.LEQ:
				lastVar = strings.TrimPrefix(y, "*")
				orderReject = &rejects[i]
			case token.LSS, token.GTR, token.GEQ, token.EQL, token.NEQ:
				if ft.Positive || be.Op != token.EQL { // the `==` twin of a `!=` fact is not a comparison of its own
					wrongOp = types.ExprString(be)
				}
			}
		}
	}
	failMsg := "Import must refuse (ErrImport) any log whose id is not strictly greater than the last log of the ledger / of the stream, before importing it"
	switch {
	case orderReject != nil:
		before := len(imports) > 0
		for _, im := range imports {
			before = before && rootPos(*orderReject) < rootPos(im)
		}
		c.Check(before, "DOM/import-id-order", key+":reject-non-increasing", pos(c, orderReject.Call), "log.ID <= last ⇒ ErrImport, before importLog", failMsg)
	case wrongOp != "":
		c.Fail("DOM/import-id-order", key+":reject-non-increasing", pos(c, d.Decl), failMsg+" (the refusal tests `"+wrongOp+"`)")
	case opaque:
		c.Unrecognised("DOM/import-id-order", key+":reject-non-increasing", pos(c, d.Decl), "the refusals of Import are guarded by conditions the rule does not read")
	default:
		c.Fail("DOM/import-id-order", key+":reject-non-increasing", pos(c, d.Decl), failMsg)
	}
	// ---- the last id is seeded from the newest stored log and advanced per imported log -----------
	// the variable compared in the refusal, as an object: an assignment to a shadowing variable of
	// the same name does not count
	var lastObj types.Object
	var lastD *astx.DeclInfo
	if orderReject != nil {
		lastD = orderReject.D
		fs, _ := scopeFacts(d, *orderReject)
		for _, ft := range fs {
			ast.Inspect(ft.Cond, func(n ast.Node) bool {
				if id, ok := n.(*ast.Ident); ok && id.Name == lastVar && lastObj == nil {
					lastObj = lastD.Pkg.TypesInfo.ObjectOf(id)
				}
				return true
			})
		}
	}
	if lastVar == "" || lastObj == nil {
		c.Unrecognised("DOM/import-id-order", key+":last-id-tracking", pos(c, d.Decl), "the variable holding the last log id was not identified")
	} else {
		seeded, advanced := false, false
		isLast := func(sd *astx.DeclInfo, e ast.Expr) bool {
			id, ok := ast.Unparen(e).(*ast.Ident)
			return ok && sd.Pkg.TypesInfo.ObjectOf(id) == lastObj
		}
		inScope(scope, func(sd *astx.DeclInfo) {
			ast.Inspect(sd.Decl.Body, func(x ast.Node) bool {
				switch l := x.(type) {
				case *ast.AssignStmt:
					if len(l.Lhs) == 1 && len(l.Rhs) == 1 && isLast(sd, l.Lhs[0]) && strings.Contains(nospace(types.ExprString(l.Rhs[0])), ".Data[0].ID") {
						seeded = true
					}
				case *ast.ForStmt, *ast.RangeStmt:
					ast.Inspect(l, func(y ast.Node) bool {
						if as, ok := y.(*ast.AssignStmt); ok && len(as.Lhs) == 1 && len(as.Rhs) == 1 && isLast(sd, as.Lhs[0]) && strings.HasSuffix(nospace(types.ExprString(as.Rhs[0])), ".ID") {
							advanced = true
						}
						return true
					})
				}
				return true
			})
		})
		c.Check(seeded && advanced, "DOM/import-id-order", key+":last-id-tracking", pos(c, d.Decl), "seeded from the newest stored log, advanced per imported log", "the last log id is not seeded from the ledger's newest log and advanced with each imported log")
	}
	// ---- conflict mapping --------------------------------------------------------------------------
	var names []string
	opaque = false
	for _, sc := range rejects {
		fs, complete := scopeFacts(d, sc)
		opaque = opaque || !complete || factsOpaque(c, info, fs)
		names = append(names, errNamesOfFacts(info, fs, true)...)
	}
	joined := strings.Join(names, " ")
	mapped := strings.Contains(joined, "ErrSerialization") && strings.Contains(joined, pkgStore+".ErrConcurrentTransaction")
	if !mapped && opaque {
		c.Unrecognised("DOM/import-conflict-mapped", key, pos(c, d.Decl), "the refusals of Import are guarded by conditions the rule does not read")
	} else {
		c.Check(mapped, "DOM/import-conflict-mapped", key, pos(c, d.Decl), "serialization failure / duplicate transaction id ⇒ ErrImport", "a concurrent write detected during import (serialization failure or ErrConcurrentTransaction) is no longer reported as ErrImport")
	}
}

func ruleStateTransition(c *core.Ctx) {
	d := fn(c, pkgSysCtrl, "controllerFacade", "handleState")
	if d == nil {
		return
	}
	key := declKey(d)
	m := bunModel(c, pkgSysCtrl)
	found := false
	for _, s := range stmtsIn(m, d) {
		if s.Kind != "update" {
			continue
		}
		found = true
		var conj []string
		for _, cj := range whereConjuncts(c, s, key) {
			conj = append(conj, sqlfe.Canon(cj.Node))
		}
		sort.Strings(conj)
		sets := []string{}
		for _, cl := range s.ClausesNamed("Set") {
			sets = append(sets, cl.SQL...)
		}
		// bound args: state = StateInUse ; where state = StateInitializing
		args := ""
		for _, cl := range append(s.ClausesNamed("Set"), s.ClausesNamed("Where")...) {
			for _, a := range cl.Args {
				args += " " + lastSeg(astx.SelectorPath(a))
			}
		}
		ok := eqStrings(conj, []string{"(? = id)", "(? = state)"}) && eqStrings(sets, []string{"state = ?"}) && strings.Contains(args, "StateInUse") && strings.Contains(args, "StateInitializing") && modelTable(s) == "_system.ledgers"
		onTx := s.Handle != nil && astx.SelectorPath(s.Handle) == "tx"
		inLock := false
		for _, call := range callsTo(d.Pkg.TypesInfo, d.Decl.Body, named("withLock")) {
			if call.Pos() <= s.Pos() && s.Pos() <= call.End() {
				inLock = true
			}
		}
		c.Check(ok && onTx && inLock, "SQLS/state-transition", key, posOf(c, s.Pos()), "update _system.ledgers set state = in-use where id = ? and state = initializing, on tx, under the lock",
			fmt.Sprintf("the initializing→in-use transition must be `update … set state = ? where id = ? and state = ?` (in-use / initializing) on the write's transaction under the ledger lock (where=%v set=%v on-tx=%v in-lock=%v)", conj, sets, onTx, inLock))
	}
	c.Check(found, "SQLS/state-transition", key+":exists", pos(c, d.Decl), "conditional state UPDATE present", "handleState no longer performs the conditional state transition")
}

func ruleLedgerLock(c *core.Ctx) {
	d := fn(c, pkgStore, "Store", "LockLedger")
	if d == nil {
		return
	}
	m := bunModel(c, pkgStore)
	info := d.Pkg.TypesInfo
	type lk struct{ fn, key, handle string }
	var got []lk
	for _, e := range m.ExecCalls {
		if e.Encl != d.Decl || !e.HasSQL || len(e.SQL) != 1 {
			continue
		}
		st, err := sqlfe.ParseStmtString(e.SQL[0])
		if err != nil || len(st.Cols) != 1 {
			c.Unknown("SQLS/ledger-lock", declKey(d)+":unparsed", pos(c, e.Call), "cannot parse "+e.SQL[0])
			continue
		}
		call := sqlfe.Unparen(st.Cols[0].Expr)
		inner := ""
		if len(call.Args) == 1 {
			inner = sqlfe.Canon(call.Args[0])
		}
		keyArg := ""
		if len(e.Call.Args) >= 3 {
			ev := newEval(d)
			alts, _ := ev.Eval(e.Call.Args[2])
			keyArg = strings.Join(alts, "|")
		}
		got = append(got, lk{call.Text, inner + "<-" + keyArg, astx.ExprString(e.Handle)})
	}
	byFn := map[string]lk{}
	for _, g := range got {
		byFn[g.fn] = g
	}
	want := "hashtext(?)<-ledger:<id>"
	for _, f := range []string{"pg_advisory_lock", "pg_advisory_unlock", "pg_advisory_xact_lock"} {
		g, ok := byFn[f]
		c.Check(ok && g.key == want, "SQLS/ledger-lock", declKey(d)+":"+f, pos(c, d.Decl), f+"("+want+")", fmt.Sprintf("%s uses key %q, expected %q: the session arm (imports) and the transaction arm (first writes) must exclude each other on one key per ledger", f, g.key, want))
	}
	if l, u := byFn["pg_advisory_lock"], byFn["pg_advisory_unlock"]; l.fn != "" && u.fn != "" {
		c.Check(l.handle == u.handle, "SQLS/ledger-lock", declKey(d)+":unlock-same-connection", pos(c, d.Decl), "lock and unlock on "+l.handle, fmt.Sprintf("the session lock is taken on %s but released on %s", l.handle, u.handle))
	}
	_ = info
}

// ================= C11 =================

func checkC11(c *core.Ctx) {
	c.Decide("every exported log kind has an import arm that replays it with the store calls and the dates of its writer; imported ids pass through (nextval only when no id is supplied) and the hash Postgres computes is compared with the exported one under HASH_LOGS=SYNC; the first write after an import resyncs both sequences from max(id) of their table and ledger, on the transaction, under the lock; the sequence name templates agree between creator, users and resync; every Controller decorator re-wraps itself in BeginTX/LockLedger — the state tracker does not (known finding: the first write through an atomic bulk skips the resync and collides with imported ids)")
	c.NotDecided("snapshot equality of the copy with the source")
	c.Trust("same as C08, C12, C16")
	ruleLogKinds(c)
	ruleImportArms(c)
	ruleLoggedAccountMetadataIsApplied(c)
	// the copy gets the chart's default metadata only if the import replays each log under the
	// schema version it was written with (C29's rule, an obligation here too)
	ruleDefaultMetadata(c)
	// … and the moves of an imported transaction carry the dates of the original, not "now"
	ruleUnwindingLoop(c)
	ruleImportHashVerified(c)
	ruleSequenceResync(c)
	ruleDecoratorCompleteness(c, "DECO/all", nil)
	// identical metadata on the copy: the import's metadata writers merge like the originals (C17)
	ruleMetadataMerge(c)
	// identical schemas on the copy (shared with C30)
	ruleImportSchemaVerbatim(c)
	// nextval only when ID == nil: shared with C16
	for _, u := range []string{"InsertTransaction", "InsertLog"} {
		if d := fn(c, pkgStore, "Store", u); d != nil {
			m := bunModel(c, pkgStore)
			for _, s := range stmtsIn(m, d) {
				for _, cl := range s.ClausesNamed("Value") {
					if len(cl.SQL) == 1 && cl.SQL[0] == "id = nextval(?)" {
						nilGuard := false
						for _, f := range cl.Facts {
							if be, ok := ast.Unparen(f.Cond).(*ast.BinaryExpr); ok && be.Op == token.EQL && f.Positive && astx.IsNilExpr(d.Pkg.TypesInfo, be.Y) && strings.HasSuffix(astx.SelectorPath(be.X), ".ID") {
								nilGuard = true
							}
						}
						c.Check(nilGuard, "SEQ/users", declKey(d)+":only-without-id", pos(c, cl.Call), "imported ids pass through", "nextval replaces a supplied id: imported logs/transactions would be renumbered")
					}
				}
			}
		}
	}
}

func ruleImportHashVerified(c *core.Ctx) {
	d := fn(c, pkgCtrl, "DefaultController", "importLog")
	if d == nil {
		return
	}
	info := d.Pkg.TypesInfo
	key := declKey(d)
	scope := fnScope(c, d, 1)
	envs := map[*astx.DeclInfo]*originEnv{}
	for _, e := range scopeEnvs(c, d) {
		envs[e.d] = e
	}
	ins := callsTo(info, d.Decl.Body, named("InsertLog"))
	rejects := scopeCalls(scope, named("newErrInvalidHash"))
	failMsg := "importLog no longer compares the hash computed on insert with the hash carried by the imported log under HASH_LOGS=SYNC"
	if len(rejects) == 0 || len(ins) == 0 {
		failOrGone(c, pkgCtrl, "newErrInvalidHash", "DOM/import-hash-verified", key, pos(c, d.Decl), failMsg)
		return
	}
	ok, opaque, wrongFeature := false, false, false
	for _, sc := range rejects {
		fs, complete := scopeFacts(d, sc)
		opaque = opaque || !complete
		sync, compared := false, false
		env := envs[sc.D]
		for _, ft := range fs {
			if t := astx.AsFeatureTest(info, ft.Cond); t != nil && t.Feature == "HASH_LOGS" {
				if t.Value == "SYNC" && ft.Positive != t.Flip {
					sync = true
				} else {
					wrongFeature = true
				}
				continue
			}
			// !DeepEqual(a, b) / !bytes.Equal(a, b) on two hashes
			call, isCall := ft.Cond.(*ast.CallExpr)
			if !isCall || ft.Positive || len(call.Args) != 2 || env == nil {
				continue
			}
			f := astx.Callee(info, call)
			if f == nil || (f.Name() != "DeepEqual" && f.Name() != "Equal") {
				continue
			}
			a0, a1 := env.origin(call.Args[0]), env.origin(call.Args[1])
			if strings.HasSuffix(a0, ".Hash") && strings.HasSuffix(a1, ".Hash") && nospace(types.ExprString(call.Args[0])) != nospace(types.ExprString(call.Args[1])) {
				compared = true
			}
		}
		if sync && compared && rootPosOf(d, sc.D, sc.Call.Pos()) > ins[0].Pos() {
			ok = true
		}
		opaque = opaque || factsOpaque(c, info, fs)
	}
	switch {
	case ok:
		c.Pass("DOM/import-hash-verified", key, pos(c, d.Decl), "HASH_LOGS=SYNC ⇒ stored hash compared with the exported hash")
	case wrongFeature:
		c.Fail("DOM/import-hash-verified", key, pos(c, d.Decl), failMsg+" (the comparison is under another HASH_LOGS test)")
	case opaque:
		c.Unrecognised("DOM/import-hash-verified", key, pos(c, d.Decl), "the hash rejection is guarded by conditions the rule does not read")
	default:
		c.Fail("DOM/import-hash-verified", key, pos(c, d.Decl), failMsg)
	}
	_ = load.Module
}

// ruleLoggedAccountMetadataIsApplied: createTransaction applies account metadata (script-produced
// merged with the request's) through upsertTransactionAccounts and records it in the payload of
// the NEW_TRANSACTION log. Replaying the log (import) applies payload.AccountMetadata: the two
// must be the same value, or the journal is not complete.
func ruleLoggedAccountMetadataIsApplied(c *core.Ctx) {
	d := fn(c, pkgCtrl, "DefaultController", "createTransaction")
	if d == nil {
		return
	}
	info := d.Pkg.TypesInfo
	key := declKey(d)
	env := newOriginEnv(c, d)
	var applied ast.Expr
	for _, call := range callsTo(info, d.Decl.Body, named("upsertTransactionAccounts")) {
		if len(call.Args) >= 5 {
			applied = call.Args[4]
		}
	}
	var logged ast.Expr
	ast.Inspect(d.Decl.Body, func(n ast.Node) bool {
		if cl, ok := n.(*ast.CompositeLit); ok && astx.RecvTypeName(info.TypeOf(cl)) == "CreatedTransaction" {
			if v := fieldOfCompositeLit(cl, "AccountMetadata"); v != nil {
				logged = v
			}
		}
		return true
	})
	if applied == nil || logged == nil {
		c.Unrecognised("DOM/logged-account-metadata", key, pos(c, d.Decl), "the account metadata applied (upsertTransactionAccounts) or logged (CreatedTransaction.AccountMetadata) was not found in createTransaction itself")
		return
	}
	a, l := env.rootObj(applied), env.rootObj(logged)
	switch {
	case a != nil && a == l:
		c.Pass("DOM/logged-account-metadata", key, pos(c, logged), "the payload records the account metadata that was applied")
	case a == nil || l == nil:
		if env.origin(applied) == env.origin(logged) {
			c.Pass("DOM/logged-account-metadata", key, pos(c, logged), "the payload records the account metadata that was applied")
		} else {
			c.Fail("DOM/logged-account-metadata", key, pos(c, logged), "the NEW_TRANSACTION payload records "+env.origin(logged)+" as account metadata while "+env.origin(applied)+" is what was written: replaying the log does not reproduce the accounts' metadata")
		}
	default:
		c.Fail("DOM/logged-account-metadata", key, pos(c, logged), "the NEW_TRANSACTION payload records "+types.ExprString(logged)+" as account metadata while "+types.ExprString(applied)+" is what was written (request-level account metadata is applied but not journaled): replaying the log does not reproduce the accounts' metadata")
	}
}
