package rules

import (
	"fmt"
	"strings"

	"ledgerlint/internal/astx"
	"ledgerlint/internal/core"
	"ledgerlint/internal/load"
	"ledgerlint/internal/sqlfe"
)

func init() {
	register("C35", checkC35)
	addBreakers("C35",
		Breaker{Name: "hash-trigger-for-every-pre-existing-ledger", File: "internal/storage/bucket/migrations/11-make-stateless/up.sql",
			Old: "where bucket = current_schema and features->>'HASH_LOGS' = 'SYNC' loop", New: "where bucket = current_schema loop", Expect: "EXH/ledger-objects-siblings"},
		Breaker{Name: "aggregated-insertion-mode-unguarded", File: "internal/storage/ledger/resource_aggregated_balances.go",
			Old: "\t\t\tif !h.store.ledger.HasFeature(features.FeatureMovesHistory, \"ON\") {\n\t\t\t\treturn nil, NewErrMissingFeature(features.FeatureMovesHistory)\n\t\t\t}\n", New: "", Expect: "FEAT/consumers"},
		Breaker{Name: "volumes-pit-unguarded", File: "internal/storage/ledger/resource_volumes.go",
			Old: "\t\tif !h.store.ledger.HasFeature(features.FeatureMovesHistory, \"ON\") {\n\t\t\treturn nil, NewErrMissingFeature(features.FeatureMovesHistory)\n\t\t}\n", New: "", Expect: "FEAT/consumers"},
		Breaker{Name: "insert-transaction-only-with-feature", File: "internal/storage/ledger/transactions.go",
			Old: "\t\t\t_, err := query.Exec(ctx)\n\t\t\tif err != nil {\n\t\t\t\terr = postgres.ResolveError(err)", New: "\t\t\tif !store.ledger.HasFeature(features.FeatureHashLogs, \"DISABLED\") {\n\t\t\t\tquery = query.Value(\"template\", \"?\", \"\")\n\t\t\t}\n\t\t\t_, err := query.Exec(ctx)\n\t\t\tif err != nil {\n\t\t\t\terr = postgres.ResolveError(err)", Expect: "FEAT/feature-independent-writers"},
		Breaker{Name: "hasfeature-with-invalid-value", File: "internal/storage/ledger/transactions.go",
			Old: "store.ledger.HasFeature(features.FeatureMovesHistoryPostCommitEffectiveVolumes, \"SYNC\")", New: "store.ledger.HasFeature(features.FeatureMovesHistoryPostCommitEffectiveVolumes, \"ON\")", Expect: "EXH/features"},
		Breaker{Name: "feature-missing-from-minimal-set", File: "pkg/features/features.go",
			Old: "\t\tFeatureAccountMetadataHistory:                 \"DISABLED\",\n\t\tFeatureTransactionMetadataHistory:             \"DISABLED\",\n\t}", New: "\t\tFeatureAccountMetadataHistory:                 \"DISABLED\",\n\t}", Expect: "EXH/features"},
		Breaker{Name: "hash-trigger-installed-for-async", File: "internal/storage/bucket/default_bucket.go",
			Old: "\t\t\tfeatures.FeatureHashLogs: \"SYNC\",\n\t\t},\n\t\tscript: `\n\t\tcreate trigger \"set_log_hash_{{.ID}}\"", New: "\t\t\tfeatures.FeatureHashLogs: \"ASYNC\",\n\t\t},\n\t\tscript: `\n\t\tcreate trigger \"set_log_hash_{{.ID}}\"", Expect: "FEAT/"},
		Breaker{Name: "effective-volumes-trigger-missing", File: "internal/storage/bucket/default_bucket.go",
			Old: "\t\tcreate trigger \"update_effective_volumes_{{.ID}}\"\n\t\tafter insert", New: "\t\tcreate trigger \"update_effective_volumes_{{.ID}}\"\n\t\tafter delete", Expect: "FEAT/sync-objects"},
	)
}

func checkC35(c *core.Ctx) {
	c.Decide("which tables/columns exist only under a feature is derived from ledgerSetups (condition -> trigger -> final function body) and from the guard around InsertMoves; every Go reader of such a table/column is guarded by the same feature (an early `return ErrMissingFeature` counts); the three feature tables have one key set and valid values, every HasFeature call and every ledgerSetups condition is a valid constant pair; every SYNC feature has its per-ledger objects (insert and update history triggers, both effective-volume triggers, the hash trigger) and the sequences are unconditional; the statements that write transactions, logs, volumes and accounts are under no feature guard")
	c.NotDecided("equality of the data produced under different feature sets; the MOVES_HISTORY / EFFECTIVE_VOLUMES dependency is not validated by the repository (reported as a known finding where a reader relies on it)")
	c.Trust("AddLedger executes exactly the ledgerSetups whose requireFeatures match")
	ruleFeatureConsumers(c, "FEAT/consumers", func(string) bool { return true })
	ruleFeatureTables(c)
	ruleSyncObjects(c)
	ruleFeatureIndependentWriters(c)
	ruleSetupAppliesOnExactMatch(c)
	// a per-ledger object a migration creates for the ledgers that already exist carries the
	// feature condition ledgerSetups installs it under (shared with C04): otherwise a ledger
	// without the feature gets the feature's trigger when its bucket is upgraded
	ruleLedgerObjectSiblings(c)
	// what a write returns (and logs) must not depend on MOVES_HISTORY: the post-commit volumes
	// are copied before the MOVES_HISTORY-only unwinding loop (shared with C03); a per-ledger
	// feature trigger fires for its own ledger only, so a ledger without the feature is not
	// affected by a neighbour that has it (shared with C19)
	ruleUnwindingLoop(c)
	ruleTriggerWhen(c)
}

// ruleSyncObjects: every feature value that needs database objects has them in ledgerSetups.
func ruleSyncObjects(c *core.Ctx) {
	ls := ledgerSetups(c)
	type want struct{ cond, table, timing, event, fn string }
	wants := []want{
		{"TRANSACTION_METADATA_HISTORY=SYNC", "transactions", "after", "insert", "insert_transaction_metadata_history"},
		{"TRANSACTION_METADATA_HISTORY=SYNC", "transactions", "after", "update", "update_transaction_metadata_history"},
		{"ACCOUNT_METADATA_HISTORY=SYNC", "accounts", "after", "insert", "insert_account_metadata_history"},
		{"ACCOUNT_METADATA_HISTORY=SYNC", "accounts", "after", "update", "update_account_metadata_history"},
		{"MOVES_HISTORY_POST_COMMIT_EFFECTIVE_VOLUMES=SYNC", "moves", "before", "insert", "set_effective_volumes"},
		{"MOVES_HISTORY_POST_COMMIT_EFFECTIVE_VOLUMES=SYNC", "moves", "after", "insert", "update_effective_volumes"},
		{"HASH_LOGS=SYNC", "logs", "before", "insert", "set_log_hash"},
	}
	for _, w := range wants {
		found := false
		for _, t := range ls.Cat.Triggers {
			if t.Func == w.fn && t.Table == w.table && t.Timing == w.timing && len(t.Events) == 1 && t.Events[0] == w.event && t.Cond == w.cond {
				found = true
			}
		}
		key := fmt.Sprintf("%s:%s %s on %s -> %s()", w.cond, w.timing, w.event, w.table, w.fn)
		c.Check(found, "FEAT/sync-objects", key, "", "installed by ledgerSetups under "+w.cond, fmt.Sprintf("ledgerSetups has no `%s %s on %s execute %s()` trigger required when %s", w.timing, w.event, w.table, w.fn, w.cond))
		if f := c.Catalog().Functions[w.fn]; f == nil {
			c.Fail("FEAT/sync-objects", key+":function-exists", "", w.fn+"() does not exist after all migrations")
		}
	}
	// no trigger for a value other than the wanted ones (e.g. hash trigger under ASYNC)
	for _, k := range sqlfe.SortedKeys(ls.Cat.Triggers) {
		t := ls.Cat.Triggers[k]
		ok := false
		for _, w := range wants {
			if t.Func == w.fn && t.Cond == w.cond {
				ok = true
			}
		}
		c.Check(ok, "FEAT/sync-objects", "unexpected:"+t.Name+":"+t.Cond, t.Origin, "expected trigger", fmt.Sprintf("ledgerSetups installs %s -> %s() under %q, which is not one of the documented feature objects", t.Name, t.Func, t.Cond))
	}
	// sequences are unconditional
	for _, name := range []string{"transaction_id_<id>", "log_id_<id>"} {
		o := ls.Cat.MigrationLedgerObjs["sequence:"+name]
		c.Check(o != nil && o.Cond == "", "FEAT/sync-objects", "sequence:"+name, "", "created for every ledger", "per-ledger sequence "+name+" is missing from ledgerSetups or depends on a feature")
	}
}

// ruleFeatureIndependentWriters: the statements writing transactions, logs, volumes and
// accounts are not under any feature guard (moves is the one feature-dependent table).
func ruleFeatureIndependentWriters(c *core.Ctx) {
	m := bunModel(c, pkgStore)
	n := 0
	for _, s := range m.Stmts {
		if load.RecvName(s.Encl) != "Store" || s.RootKind != "new" {
			continue
		}
		switch s.Kind {
		case "insert", "update", "delete":
		case "raw":
			if s.Raw == nil || len(sqlWriters(s.Raw, "", "")) == 0 {
				continue
			}
		default:
			continue
		}
		n++
		key := fmt.Sprintf("%s:%s", enclKey(pkgStore, s.Encl), s.Describe())
		guarded := map[string]bool{}
		facts := astx.FactsAt(s.Pkg.TypesInfo, s.Encl.Body, s.Pos())
		for k := range astx.FeatureFacts(s.Pkg.TypesInfo, facts) {
			guarded[k] = true
		}
		for _, cl := range s.Clauses {
			for k := range astx.FeatureFacts(s.Pkg.TypesInfo, cl.Facts) {
				guarded[k] = true
			}
		}
		var gs []string
		for k := range guarded {
			gs = append(gs, k)
		}
		c.Check(len(gs) == 0, "FEAT/feature-independent-writers", key, posOf(c, s.Pos()), "no feature guard",
			fmt.Sprintf("the %s is built under feature test(s) %s: transactions, logs, current volumes and metadata must be identical for every feature set", s.Describe(), strings.Join(gs, ",")))
	}
	c.Floor("FEAT/feature-independent-writers", "write statements of the ledger store", n, 10)
}
