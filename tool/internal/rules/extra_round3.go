package rules

import (
	"fmt"
	"go/ast"
	"go/token"
	"go/types"
	"strings"

	"ledgerlint/internal/astx"
	"ledgerlint/internal/core"
	"ledgerlint/internal/load"
)

func init() {
	addBreakers("C15",
		Breaker{Name: "revert-mark-overridable-by-caller", File: "internal/metadata.go",
			Old: "return m.Merge(RevertMetadata(txID))", New: "return RevertMetadata(txID).Merge(m)", Expect: "DOM/revert"},
	)
	addBreakers("C21",
		Breaker{Name: "history-join-not-single-row", File: "internal/storage/ledger/resource_accounts.go",
			Old: "\t\t\tDistinctOn(\"accounts_address\").\n", New: "", Expect: "SQLS/history-latest-revision"},
	)
	addBreakers("C17",
		Breaker{Name: "history-picks-oldest-revision", File: "internal/storage/ledger/resource_transactions.go",
			Old: "Order(\"transactions_id\", \"revision desc\").", New: "Order(\"transactions_id\", \"revision\").", Expect: "SQLS/history-latest-revision"},
	)
	addBreakers("C27",
		Breaker{Name: "resource-table-overflows-address-space", File: "internal/machine/script/compiler/compiler.go",
			Old: "if len(p.resources) >= 65536 {", New: "if len(p.resources) > 65536 {", Expect: "BOUND/resource-table"},
		Breaker{Name: "portion-built-with-panicking-setfrac", File: "internal/machine/portion.go",
			Old: "\t\t\tres, ok = new(big.Rat).SetString(numerator + \"/\" + denominator)\n\t\t\tif !ok {\n\t\t\t\treturn nil, errors.New(\"invalid fractional format\")\n\t\t\t}", New: "\t\t\tn, _ := new(big.Int).SetString(numerator, 10)\n\t\t\td, _ := new(big.Int).SetString(denominator, 10)\n\t\t\tres, ok = new(big.Rat).SetFrac(n, d), true\n\t\t\tif !ok {\n\t\t\t\treturn nil, errors.New(\"invalid fractional format\")\n\t\t\t}", Expect: "PANIC/machine"},
		Breaker{Name: "printer-does-not-drain", File: "internal/controller/ledger/numscript_runtime.go",
			Old: "\tmachineInstance := vm.NewMachine(d.program)\n", New: "\tmachineInstance := vm.NewMachine(d.program)\n\tmachineInstance.Printer = func(chan machine.Value) {}\n", Expect: "TERM/printer-drains"},
	)
	addBreakers("C25",
		Breaker{Name: "self-credit-skipped", File: "internal/machine/vm/machine.go",
			Old: "\t\t\tfor _, part := range funding.Parts {\n\t\t\t\tbalance := accBalance[funding.Asset]", New: "\t\t\tfor _, part := range funding.Parts {\n\t\t\t\tif part.Account == account {\n\t\t\t\t\tcontinue\n\t\t\t\t}\n\t\t\t\tbalance := accBalance[funding.Asset]", Expect: "FLOW/vm-balances"},
	)
}

// ruleMarkReverts: the revert mark is merged over the caller's metadata (the mark wins).
func ruleMarkReverts(c *core.Ctx) {
	d := fn(c, pkgCore, "", "MarkReverts")
	if d == nil {
		c.Fail("DOM/revert", "internal.MarkReverts:declared", "", "MarkReverts not found")
		return
	}
	info := d.Pkg.TypesInfo
	ok := false
	if len(d.Decl.Type.Params.List) == 2 && len(d.Decl.Body.List) == 1 {
		m := d.Decl.Type.Params.List[0].Names[0].Name
		id := d.Decl.Type.Params.List[1].Names[0].Name
		if r, isR := d.Decl.Body.List[0].(*ast.ReturnStmt); isR && len(r.Results) == 1 {
			if call, isC := r.Results[0].(*ast.CallExpr); isC && len(call.Args) == 1 {
				if f := astx.Callee(info, call); f != nil && f.Name() == "Merge" && types.ExprString(recvExpr(call)) == m {
					if inner, isI := call.Args[0].(*ast.CallExpr); isI && len(inner.Args) == 1 && types.ExprString(inner.Args[0]) == id {
						if g := astx.Callee(info, inner); g != nil && g.Name() == "RevertMetadata" {
							ok = true
						}
					}
				}
			}
		}
	}
	c.Check(ok, "DOM/revert", declKey(d)+":mark-wins", pos(c, d.Decl), "callerMetadata.Merge(RevertMetadata(id)) — the mark overrides", "MarkReverts does not merge the revert mark over the caller's metadata: a caller-supplied key can replace the mark, and the revert transaction points at the wrong transaction")
}

// ruleHistoryLatestRevision: every read of a metadata history table returns one row per entity —
// the latest revision not after the bound: DISTINCT ON (id) together with either
// `first_value(metadata) over (partition by id order by revision desc)` or `ORDER BY id, revision desc`.
func ruleHistoryLatestRevision(c *core.Ctx) {
	m := bunModel(c, pkgStore)
	n := 0
	idCol := map[string]string{"accounts_metadata": "accounts_address", "transactions_metadata": "transactions_id"}
	for _, s := range m.Stmts {
		if s.Kind != "select" || s.Encl == nil {
			continue
		}
		for _, t := range s.Tables() {
			id, isHist := idCol[t]
			if !isHist {
				continue
			}
			n++
			key := enclKey(pkgStore, s.Encl) + ":" + t
			distinct, latest := false, false
			for _, cl := range s.Clauses {
				for _, alt := range cl.SQL {
					low := strings.Join(strings.Fields(strings.ToLower(alt)), " ")
					switch cl.Method {
					case "DistinctOn":
						if low == id {
							distinct = true
						}
					case "ColumnExpr":
						if strings.Contains(low, "first_value(metadata) over (partition by "+id+" order by revision desc)") {
							latest = true
						}
					case "Order":
						if low == id+", revision desc" {
							latest = true
						}
					}
				}
			}
			c.Check(distinct && latest, "SQLS/history-latest-revision", key, posOf(c, s.Pos()), "distinct on ("+id+") + latest revision first", fmt.Sprintf("the read of %s does not return exactly one row per entity holding its latest revision (DISTINCT ON (%s) with revision descending): joined to the listing it duplicates entities (one per revision) or shows an old revision", t, id))
		}
	}
	c.Floor("SQLS/history-latest-revision", "reads of metadata history tables", n, 4)
}

// ruleResourceTableBound: resource addresses are 16 bits; the table must refuse the 65537th entry
// before the index is narrowed.
func ruleResourceTableBound(c *core.Ctx) {
	d := fn(c, pkgCompiler, "parseVisitor", "AllocateResource")
	if d == nil {
		return
	}
	info := d.Pkg.TypesInfo
	key := declKey(d)
	var conv *ast.CallExpr
	ast.Inspect(d.Decl.Body, func(n ast.Node) bool {
		if call, ok := n.(*ast.CallExpr); ok && len(call.Args) == 1 {
			if tv, ok := info.Types[call.Fun]; ok && tv.IsType() && types.ExprString(call.Fun) == "uint16" {
				conv = call
			}
		}
		return true
	})
	if conv == nil {
		c.Pass("BOUND/resource-table", key+":no-narrowing", pos(c, d.Decl), "no uint16 narrowing in AllocateResource")
		return
	}
	ok := false
	for _, f := range astx.FactsAt(info, d.Decl.Body, conv.Pos()) {
		if f.Positive {
			continue
		}
		be, isB := ast.Unparen(f.Cond).(*ast.BinaryExpr)
		if !isB || !strings.HasPrefix(nospace(types.ExprString(be.X)), "len(") {
			continue
		}
		tv, has := info.Types[be.Y]
		if !has || tv.Value == nil {
			continue
		}
		v := tv.Value.String()
		if (be.Op == token.GEQ && v == "65536") || (be.Op == token.GTR && v == "65535") {
			ok = true
		}
	}
	c.Check(ok, "BOUND/resource-table", key+":bound", pos(c, conv), "len(resources) >= 65536 → error before uint16(len-1)", "the resource table accepts more entries than a 16-bit address can name: the next address wraps to 0, aliases another resource, and the VM panics on the wrong operand type")
}

// rulePrinterDrains: OP_PRINT sends on an unbuffered channel; whatever is installed as
// Machine.Printer must receive until the channel is closed, or execution blocks forever.
func rulePrinterDrains(c *core.Ctx) {
	n := 0
	for _, pk := range c.Prog().RepoPackages() {
		info := pk.TypesInfo
		for _, f := range pk.Syntax {
			if load.IsGenerated(f) || strings.HasSuffix(c.Prog().Rel(f.Pos()), "_test.go:1") || strings.Contains(c.Prog().Rel(f.Pos()), "_test.go") {
				continue
			}
			ast.Inspect(f, func(x ast.Node) bool {
				var rhs ast.Expr
				var at ast.Node
				switch y := x.(type) {
				case *ast.AssignStmt:
					for i, l := range y.Lhs {
						if se, ok := l.(*ast.SelectorExpr); ok && se.Sel.Name == "Printer" && i < len(y.Rhs) {
							if sel, ok := info.Selections[se]; ok && astx.RecvTypeName(sel.Recv()) == "Machine" {
								rhs, at = y.Rhs[i], y
							}
						}
					}
				case *ast.KeyValueExpr:
					if id, ok := y.Key.(*ast.Ident); ok && id.Name == "Printer" {
						if v, ok := info.ObjectOf(id).(*types.Var); ok && v.IsField() {
							rhs, at = y.Value, y
						}
					}
				}
				if rhs == nil {
					return true
				}
				n++
				var body *ast.BlockStmt
				switch r := ast.Unparen(rhs).(type) {
				case *ast.FuncLit:
					body = r.Body
				case *ast.Ident:
					if fo, ok := info.ObjectOf(r).(*types.Func); ok {
						if d := index(c).Decls[fo]; d != nil {
							body = d.Decl.Body
						}
					}
				case *ast.SelectorExpr:
					if fo, ok := info.ObjectOf(r.Sel).(*types.Func); ok {
						if d := index(c).Decls[fo]; d != nil {
							body = d.Decl.Body
						}
					}
				}
				drains := false
				if body != nil {
					ast.Inspect(body, func(z ast.Node) bool {
						if r, ok := z.(*ast.RangeStmt); ok {
							if t := info.TypeOf(r.X); t != nil {
								if _, isChan := t.Underlying().(*types.Chan); isChan {
									drains = true
								}
							}
						}
						return true
					})
				}
				c.Check(drains, "TERM/printer-drains", fmt.Sprintf("%s#%d", c.Prog().Rel(at.Pos())[:strings.Index(c.Prog().Rel(at.Pos()), ":")], n), pos(c, at), "printer ranges over its channel until it is closed", "a Machine.Printer is installed that does not receive from the print channel until it is closed: the first `print` statement of a script blocks the VM forever")
				return true
			})
		}
	}
	c.Floor("TERM/printer-drains", "assignments of Machine.Printer", n, 1)
}

// panickingBigCalls: math/big entry points that panic on a zero divisor.
func isPanickingBigCall(f *types.Func, call *ast.CallExpr, info *types.Info) bool {
	if f == nil || f.Pkg() == nil || f.Pkg().Path() != "math/big" {
		return false
	}
	switch f.Name() {
	case "SetFrac", "SetFrac64", "Inv":
		return true
	case "NewRat":
		if len(call.Args) == 2 {
			if tv, ok := info.Types[call.Args[1]]; ok && tv.Value != nil && tv.Value.String() != "0" {
				return false
			}
		}
		return true
	case "Quo", "Div", "Mod", "Rem", "QuoRem", "DivMod":
		// the divisor of the only such call on the path today is a Rat's denominator (never zero)
		if len(call.Args) >= 2 && strings.HasSuffix(types.ExprString(call.Args[len(call.Args)-1]), ".Denom()") {
			return false
		}
		return true
	}
	return false
}
