package rules

import (
	"fmt"
	"go/ast"
	"go/token"
	"go/types"
	"strings"

	"ledgerlint/internal/astx"
	"ledgerlint/internal/core"
)

// ruleRuntimeResultUnfiltered (C25): what the machine produced is what is recorded. The adapter
// maps machineInstance.Postings one to one into the execution result; nothing filters, merges or
// reorders them on the way (a zero-amount posting of the request is a posting of the result).
func ruleRuntimeResultUnfiltered(c *core.Ctx) {
	d := fn(c, pkgCtrl, "MachineNumscriptRuntimeAdapter", "Execute")
	if d == nil {
		return
	}
	info := d.Pkg.TypesInfo
	key := declKey(d)
	env := newOriginEnv(c, d)
	var val ast.Expr
	ast.Inspect(d.Decl.Body, func(n ast.Node) bool {
		if cl, ok := n.(*ast.CompositeLit); ok && astx.RecvTypeName(info.TypeOf(cl)) == "NumscriptExecutionResult" {
			if v := fieldOfCompositeLit(cl, "Postings"); v != nil {
				val = v
			}
		}
		return true
	})
	if val == nil {
		c.Unrecognised("DOM/runtime-result", key+":postings", pos(c, d.Decl), "the Postings field of the execution result was not found")
		return
	}
	o := env.origin(val)
	// Map(<machine>.Postings, <func>) or <machine>.Postings through a conversion
	src := o
	if strings.HasPrefix(o, "Map(") {
		src = strings.TrimPrefix(o, "Map(")
		if i := strings.Index(src, ",?"); i >= 0 {
			src = src[:i]
		} else if i := strings.LastIndex(src, ","); i >= 0 {
			src = src[:i]
		}
	}
	switch {
	case strings.HasPrefix(o, "?"):
		c.Unrecognised("DOM/runtime-result", key+":postings", pos(c, val), "result postings built in a way the rule does not read: "+o)
	case strings.HasSuffix(src, ".Postings") && !strings.Contains(src, "("+""):
		c.Pass("DOM/runtime-result", key+":postings", pos(c, val), "result postings = machine postings, one to one")
	case strings.HasSuffix(src, ".Postings") && strings.Count(src, "(") == strings.Count(strings.TrimSuffix(src, ".Postings"), "(") && !strings.Contains(src, "Filter(") && !strings.Contains(src, "Compact") && !strings.Contains(src, "Sort"):
		c.Pass("DOM/runtime-result", key+":postings", pos(c, val), "result postings = machine postings, one to one")
	default:
		c.Fail("DOM/runtime-result", key+":postings", pos(c, val), "the postings of the execution result are not the machine's postings mapped one to one ("+o+"): postings the request asked for (a zero amount, a repeated posting) are dropped, merged or reordered before they are recorded")
	}
}

// ruleSetupAppliesOnExactMatch (C35): the whole feature model (which trigger exists under which
// feature value) is read off ledgerSetups as "element runs iff the ledger's features equal its
// requireFeatures". AddLedger must decide exactly that: FeatureSet.Match on requireFeatures, and
// Match compares values for equality.
func ruleSetupAppliesOnExactMatch(c *core.Ctx) {
	d := fn(c, pkgBucket, "DefaultBucket", "AddLedger")
	if d == nil {
		return
	}
	key := declKey(d)
	scope := fnScope(c, d, 1)
	isMatch := func(f *types.Func) bool {
		if f.Name() != "Match" {
			return false
		}
		sig, _ := f.Type().(*types.Signature)
		return sig != nil && sig.Recv() != nil && astx.RecvTypeName(sig.Recv().Type()) == "FeatureSet"
	}
	var matches []scopedCall
	for _, sc := range scopeCalls(scope, isMatch) {
		if len(sc.Call.Args) == 1 && strings.HasSuffix(astx.SelectorPath(sc.Call.Args[0]), "requireFeatures") {
			matches = append(matches, sc)
		}
	}
	execs := scopeCalls(scope, named("ExecContext"))
	switch {
	case len(execs) == 0:
		c.Unrecognised("FEAT/setup-applies", key, pos(c, d.Decl), "no ExecContext of a setup script found in AddLedger or its helpers")
	case len(matches) == 0:
		c.Fail("FEAT/setup-applies", key, pos(c, d.Decl), "AddLedger does not decide whether a per-ledger setup applies with Features.Match(setup.requireFeatures): a setup written for one value of a feature (HASH_LOGS=SYNC) runs for other values as well (ASYNC ledgers get the synchronous hash trigger, without the lock that goes with it)")
	default:
		// the execution sits on the positive side of the match (directly, or of the helper that returns it)
		ok := false
		for _, ex := range execs {
			fs, _ := scopeFacts(d, ex)
			for _, ft := range fs {
				call, isCall := ft.Cond.(*ast.CallExpr)
				if !isCall || !ft.Positive {
					continue
				}
				f := astx.Callee(d.Pkg.TypesInfo, call)
				if f == nil {
					continue
				}
				if isMatch(f) {
					ok = true
				}
				for _, m := range matches {
					if m.D.Obj == f {
						ok = true
					}
				}
			}
		}
		c.Check(ok, "FEAT/setup-applies", key, pos(c, d.Decl), "setup script executed only when Features.Match(requireFeatures)", "the per-ledger setup scripts are not executed under the positive side of Features.Match(setup.requireFeatures)")
	}
	// Match compares each required value for equality
	var m *astx.DeclInfo
	for obj, dd := range index(c).Decls {
		if isMatch(obj) {
			m = dd
		}
	}
	if m == nil {
		c.Unrecognised("FEAT/setup-applies", "FeatureSet.Match:exact", "", "FeatureSet.Match not found in the loaded packages")
		return
	}
	exact := false
	ast.Inspect(m.Decl.Body, func(n ast.Node) bool {
		if be, ok := n.(*ast.BinaryExpr); ok && (be.Op == token.NEQ || be.Op == token.EQL) {
			_, lx := ast.Unparen(be.X).(*ast.IndexExpr)
			_, rx := ast.Unparen(be.Y).(*ast.IndexExpr)
			if lx || rx {
				exact = true
			}
		}
		return true
	})
	c.Check(exact, "FEAT/setup-applies", "FeatureSet.Match:exact", pos(c, m.Decl), "value of every required feature compared for equality", "FeatureSet.Match no longer compares the ledger's value of each required feature with the required value")
}

// ruleContextPerAttempt (C33): a context that is cancelled inside a loop and then used again in a
// later iteration makes every later attempt fail at once (`context canceled`): the retry loop
// spins without ever delivering. For every `ctx, cancel := context.With…` of the replication
// package: from a `cancel()` call no path may reach a statement that hands ctx to a call without
// passing the statement that creates a fresh one.
func ruleContextPerAttempt(c *core.Ctx) {
	n := 0
	for _, rel := range []string{pkgReplic, "internal/replication/drivers"} {
		pk := c.Prog().Pkg(rel)
		if pk == nil {
			continue
		}
		info := pk.TypesInfo
		for _, d := range index(c).Decls {
			if d.Pkg != pk || d.Decl.Body == nil || strings.HasSuffix(c.Prog().Rel(d.Decl.Pos()), "_test.go") {
				continue
			}
			ast.Inspect(d.Decl.Body, func(x ast.Node) bool {
				as, ok := x.(*ast.AssignStmt)
				if !ok || len(as.Lhs) != 2 || len(as.Rhs) != 1 {
					return true
				}
				call, ok := as.Rhs[0].(*ast.CallExpr)
				if !ok {
					return true
				}
				f := astx.Callee(info, call)
				if f == nil || f.Pkg() == nil || f.Pkg().Path() != "context" || !strings.HasPrefix(f.Name(), "With") {
					return true
				}
				ctxID, ok1 := as.Lhs[0].(*ast.Ident)
				canID, ok2 := as.Lhs[1].(*ast.Ident)
				if !ok1 || !ok2 || ctxID.Name == "_" || canID.Name == "_" {
					return true
				}
				ctxObj, canObj := info.ObjectOf(ctxID), info.ObjectOf(canID)
				n++
				body := astx.InnermostFuncBody(d.Decl, as)
				flow := astx.NewFlow(info, body)
				isDef := func(nd ast.Node) bool { return nd == ast.Node(as) }
				// statements handing ctx to a call (also inside a `go func(){…}()`), other than the definition
				passesCtx := func(nd ast.Node) bool {
					if nd == ast.Node(as) {
						return false
					}
					found := false
					ast.Inspect(nd, func(y ast.Node) bool {
						if cc, ok := y.(*ast.CallExpr); ok {
							for _, a := range cc.Args {
								if id, ok := ast.Unparen(a).(*ast.Ident); ok && info.Uses[id] == ctxObj {
									found = true
								}
							}
						}
						return !found
					})
					return found
				}
				bad := false
				var at ast.Node
				for _, blk := range flow.G.Blocks {
					for i, nd := range blk.Nodes {
						if !passesCtx(nd) {
							continue
						}
						use := astx.Exit{Block: blk, Idx: i}
						// from each non-deferred cancel() call
						ast.Inspect(body, func(y ast.Node) bool {
							if _, isDefer := y.(*ast.DeferStmt); isDefer {
								return false
							}
							if _, isLit := y.(*ast.FuncLit); isLit {
								return false
							}
							es, ok := y.(*ast.ExprStmt)
							if !ok {
								return true
							}
							cc, ok := es.X.(*ast.CallExpr)
							if !ok {
								return true
							}
							if id, ok := cc.Fun.(*ast.Ident); ok && info.Uses[id] == canObj {
								if flow.PathAvoiding(es, use, isDef) {
									bad = true
									at = es
								}
							}
							return true
						})
					}
				}
				key := fmt.Sprintf("%s:%s", declKey(d), ctxID.Name)
				if bad {
					c.Fail("LIFE/context-per-attempt", key, pos(c, at), "after this cancel() the same context is handed to a call again without being re-created (it was created outside the loop that retries): every later attempt fails with `context canceled`, the pipeline never delivers the batch it is stuck on nor any later log")
				} else {
					c.Pass("LIFE/context-per-attempt", key, pos(c, as), "no use of the context after its cancel() without re-creation")
				}
				return true
			})
		}
	}
	c.Floor("LIFE/context-per-attempt", "cancellable contexts in the replication packages", n, 1)
}

// rulePartiallyFilledSlots (NIL): a slice of pointers created with make(T, n) and filled slot by
// slot in a loop that `continue`s on error leaves nil slots behind. A later loop that calls a
// method on every slot without a nil test panics on them — in the replication packages that is a
// panic in a goroutine nobody recovers (the whole server goes down when a pipeline is stopped in
// the middle of a push).
func rulePartiallyFilledSlots(c *core.Ctx) {
	n := 0
	for _, rel := range []string{pkgReplic, "internal/replication/drivers"} {
		pk := c.Prog().Pkg(rel)
		if pk == nil {
			continue
		}
		info := pk.TypesInfo
		for _, d := range index(c).Decls {
			if d.Pkg != pk || d.Decl.Body == nil || strings.HasSuffix(c.Prog().Rel(d.Decl.Pos()), "_test.go") {
				continue
			}
			// slices of pointers made with a length
			made := map[types.Object]bool{}
			ast.Inspect(d.Decl.Body, func(x ast.Node) bool {
				as, ok := x.(*ast.AssignStmt)
				if !ok || len(as.Lhs) != 1 || len(as.Rhs) != 1 {
					return true
				}
				call, ok := as.Rhs[0].(*ast.CallExpr)
				if !ok || len(call.Args) < 2 {
					return true
				}
				if id, ok := call.Fun.(*ast.Ident); !ok || id.Name != "make" {
					return true
				}
				t := info.TypeOf(call)
				if t == nil {
					return true
				}
				sl, ok := t.Underlying().(*types.Slice)
				if !ok {
					return true
				}
				if _, isPtr := sl.Elem().Underlying().(*types.Pointer); !isPtr {
					return true
				}
				if l, ok := as.Lhs[0].(*ast.Ident); ok {
					made[info.ObjectOf(l)] = true
				}
				return true
			})
			for obj := range made {
				// filled in a loop that can skip the assignment
				skips := false
				ast.Inspect(d.Decl.Body, func(x ast.Node) bool {
					var body *ast.BlockStmt
					switch l := x.(type) {
					case *ast.RangeStmt:
						body = l.Body
					case *ast.ForStmt:
						body = l.Body
					default:
						return true
					}
					var assign ast.Node
					ast.Inspect(body, func(y ast.Node) bool {
						if as, ok := y.(*ast.AssignStmt); ok && len(as.Lhs) == 1 {
							if ix, ok := as.Lhs[0].(*ast.IndexExpr); ok && usesObj(info, ix.X, obj) {
								assign = as
							}
						}
						return true
					})
					if assign == nil {
						return true
					}
					ast.Inspect(body, func(y ast.Node) bool {
						if br, ok := y.(*ast.BranchStmt); ok && br.Tok == token.CONTINUE && br.Pos() < assign.Pos() {
							skips = true
						}
						return true
					})
					return true
				})
				if !skips {
					continue
				}
				n++
				// later: range over the slice, method call on the element without a nil test
				ast.Inspect(d.Decl.Body, func(x ast.Node) bool {
					rs, ok := x.(*ast.RangeStmt)
					if !ok || !usesObj(info, rs.X, obj) || rs.Value == nil {
						return true
					}
					el, ok := rs.Value.(*ast.Ident)
					if !ok {
						return true
					}
					elObj := info.ObjectOf(el)
					key := fmt.Sprintf("%s:%s", declKey(d), obj.Name())
					bad := ast.Node(nil)
					ast.Inspect(rs.Body, func(y ast.Node) bool {
						call, ok := y.(*ast.CallExpr)
						if !ok {
							return true
						}
						se, ok := call.Fun.(*ast.SelectorExpr)
						if !ok {
							return true
						}
						id, ok := ast.Unparen(se.X).(*ast.Ident)
						if !ok || info.Uses[id] != elObj {
							return true
						}
						guarded := false
						for _, ft := range astx.FactsAt(info, d.Decl.Body, call.Pos()) {
							be, ok := ast.Unparen(ft.Cond).(*ast.BinaryExpr)
							if !ok || !astx.IsNilExpr(info, be.Y) || !usesObj(info, be.X, elObj) {
								continue
							}
							if (be.Op == token.NEQ && ft.Positive) || (be.Op == token.EQL && !ft.Positive) {
								guarded = true
							}
						}
						if !guarded {
							bad = call
						}
						return true
					})
					if bad != nil {
						c.Fail("NIL/partial-fill", key, pos(c, bad), "the slots of "+obj.Name()+" are filled in a loop that skips a slot on error (continue), and this loop calls a method on every slot without testing it for nil: a skipped slot panics (nil pointer dereference) in a goroutine that is not recovered")
					} else {
						c.Pass("NIL/partial-fill", key, pos(c, rs), "slots that may be nil are tested before use")
					}
					return true
				})
			}
		}
	}
	c.Stats["partially_filled_pointer_slices"] = n
}

// ruleCallerBindingWins (C37): running a template with variables means the caller's value for a
// variable replaces the declared default. In ResolveFilterTemplate both are written into one map:
// every write of a default comes before every write of a caller value (a default written after —
// in a merged loop for instance — wins over the binding).
func ruleCallerBindingWins(c *core.Ctx) {
	d := fn(c, pkgQueries, "", "ResolveFilterTemplate")
	if d == nil {
		return
	}
	info := d.Pkg.TypesInfo
	key := declKey(d)
	var defaults, bindings []token.Pos
	ast.Inspect(d.Decl.Body, func(x ast.Node) bool {
		as, ok := x.(*ast.AssignStmt)
		if !ok || len(as.Lhs) != 1 || len(as.Rhs) != 1 {
			return true
		}
		ix, ok := ast.Unparen(as.Lhs[0]).(*ast.IndexExpr)
		if !ok {
			return true
		}
		if _, isMap := info.TypeOf(ix.X).Underlying().(*types.Map); !isMap {
			return true
		}
		rhs := nospace(types.ExprString(as.Rhs[0]))
		if strings.HasSuffix(rhs, ".Default") {
			defaults = append(defaults, as.Pos())
		} else {
			bindings = append(bindings, as.Pos())
		}
		return true
	})
	if len(defaults) == 0 || len(bindings) == 0 {
		c.Unrecognised("DOM/template-vars", key+":binding-over-default", pos(c, d.Decl), "the writes of defaults and of caller values into the variable map were not both found")
		return
	}
	ok := true
	for _, dp := range defaults {
		for _, bp := range bindings {
			if dp > bp {
				ok = false
			}
		}
	}
	c.Check(ok, "DOM/template-vars", key+":binding-over-default", pos(c, d.Decl), "defaults first, caller values over them", "ResolveFilterTemplate writes a declared default after the caller's value for the same variable: a variable that has a default always resolves to the default, whatever the run request binds")
}

// ruleValidatorsRejectStrings (C38): the value of a filter on a numeric or boolean field must be
// of that kind when it reaches SQL. A ValidateValue that accepts a plain string without parsing
// it lets `id < 'abc'` through to Postgres, which answers with an error the handlers report as 500.
func ruleValidatorsRejectStrings(c *core.Ctx) {
	n := 0
	for _, tn := range []string{"TypeNumeric", "TypeBoolean"} {
		d := index(c).LookupFunc(pkgQueries, tn, "ValidateValue")
		if d == nil || d.Decl.Body == nil {
			continue
		}
		n++
		info := d.Pkg.TypesInfo
		key := declKey(d)
		bad := ast.Node(nil)
		ast.Inspect(d.Decl.Body, func(x ast.Node) bool {
			cc, ok := x.(*ast.CaseClause)
			if !ok {
				return true
			}
			hasString := false
			for _, e := range cc.List {
				if t := info.TypeOf(e); t != nil {
					if b, isB := t.Underlying().(*types.Basic); isB && b.Info()&types.IsString != 0 {
						hasString = true
					}
				}
			}
			if !hasString {
				return true
			}
			// accepted without being parsed: a `return nil` with no call in the clause
			calls := 0
			ast.Inspect(cc, func(y ast.Node) bool {
				if _, isCall := y.(*ast.CallExpr); isCall {
					calls++
				}
				return true
			})
			for _, st := range cc.Body {
				if r, isR := st.(*ast.ReturnStmt); isR && len(r.Results) == 1 && astx.IsNilExpr(info, r.Results[0]) && calls == 0 {
					bad = cc
				}
			}
			return true
		})
		c.Check(bad == nil, "HTTP/filter-validation", key+":strings-not-accepted-as-is", pos(c, d.Decl), "a string is not a "+tn+" value unless it is parsed", tn+".ValidateValue accepts any string: a filter such as `{\"$lt\":{\"id\":\"abc\"}}` passes validation, is rendered as `id < 'abc'`, and the database error comes back as 500 instead of 400")
	}
	c.Floor("HTTP/filter-validation", "typed filter validators examined for string acceptance", n, 1)
}

// ruleLoopCarriedError (ERRP): in the replication packages, an error variable declared outside a
// loop, assigned in the loop body, not leaving the loop when it is non-nil, and read after the
// loop holds the outcome of the LAST iteration only: an earlier failure is overwritten by a later
// success. In Batcher.Accept that is a page whose first batch failed reported as acknowledged —
// the pipeline advances and persists last_log_id past logs the exporter never stored.
func ruleLoopCarriedError(c *core.Ctx) {
	n := 0
	for _, rel := range []string{pkgReplic, "internal/replication/drivers"} {
		pk := c.Prog().Pkg(rel)
		if pk == nil {
			continue
		}
		info := pk.TypesInfo
		for _, d := range index(c).Decls {
			if d.Pkg != pk || d.Decl.Body == nil || strings.HasSuffix(c.Prog().Rel(d.Decl.Pos()), "_test.go") {
				continue
			}
			ast.Inspect(d.Decl.Body, func(x ast.Node) bool {
				var body *ast.BlockStmt
				switch l := x.(type) {
				case *ast.RangeStmt:
					body = l.Body
				case *ast.ForStmt:
					if l.Cond == nil && l.Init == nil && l.Post == nil {
						return true // `for { … }` retry loops: the last outcome is the outcome
					}
					body = l.Body
				}
				if body == nil {
					return true
				}
				n++
				loop := x
				ast.Inspect(body, func(y ast.Node) bool {
					if _, isLit := y.(*ast.FuncLit); isLit {
						return false
					}
					as, ok := y.(*ast.AssignStmt)
					if !ok || as.Tok != token.ASSIGN {
						return true
					}
					for _, l := range as.Lhs {
						id, ok := l.(*ast.Ident)
						if !ok {
							continue
						}
						obj, _ := info.ObjectOf(id).(*types.Var)
						if obj == nil || obj.Type().String() != "error" || !(d.Decl.Body.Pos() <= obj.Pos() && obj.Pos() < loop.Pos()) {
							continue
						}
						// the loop is left when the variable is non-nil
						leaves := false
						ast.Inspect(body, func(z ast.Node) bool {
							is, ok := z.(*ast.IfStmt)
							if !ok || len(is.Body.List) == 0 {
								return true
							}
							mentions := false
							ast.Inspect(is.Cond, func(w ast.Node) bool {
								if wi, ok := w.(*ast.Ident); ok && info.ObjectOf(wi) == obj {
									mentions = true
								}
								return true
							})
							if !mentions {
								return true
							}
							switch last := is.Body.List[len(is.Body.List)-1].(type) {
							case *ast.ReturnStmt:
								leaves = true
							case *ast.BranchStmt:
								if last.Tok == token.BREAK || last.Tok == token.GOTO {
									leaves = true
								}
							}
							return true
						})
						if leaves {
							continue
						}
						// read after the loop
						// read after the loop: the first mention after it is not a fresh assignment
						var first *ast.Ident
						assigned := map[*ast.Ident]bool{}
						ast.Inspect(d.Decl.Body, func(z ast.Node) bool {
							if za, ok := z.(*ast.AssignStmt); ok {
								for _, zl := range za.Lhs {
									if zli, ok := zl.(*ast.Ident); ok {
										assigned[zli] = true
									}
								}
							}
							if zi, ok := z.(*ast.Ident); ok && zi.Pos() > loop.End() && info.ObjectOf(zi) == obj {
								if first == nil || zi.Pos() < first.Pos() {
									first = zi
								}
							}
							return true
						})
						readAfter := first != nil && !assigned[first]
						if readAfter {
							c.Fail("ERRP/loop-carried-error", fmt.Sprintf("%s:%s", declKey(d), id.Name), pos(c, as), fmt.Sprintf("%s is assigned on every iteration of the loop, the loop goes on after a failure, and %s is what is looked at after the loop: a failure of an earlier iteration is overwritten by a later success (a page whose first batch failed is reported as acknowledged)", id.Name, id.Name))
						}
					}
					return true
				})
				return true
			})
		}
	}
	c.Floor("ERRP/loop-carried-error", "loops scanned in the replication packages", n, 3)
	if n > 0 {
		c.Pass("ERRP/loop-carried-error", "scanned", "", fmt.Sprintf("%d loops: no error variable carries only the last iteration's outcome out of a loop", n))
	}
}
