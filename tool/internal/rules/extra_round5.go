package rules

import (
	"fmt"
	"go/ast"
	"go/token"
	"go/types"
	"regexp"
	"sort"
	"strings"

	"ledgerlint/internal/astx"
	"ledgerlint/internal/core"
	"ledgerlint/internal/load"
	"ledgerlint/internal/sqlfe"
)

func init() {
	addBreakers("C36",
		Breaker{Name: "trigger-volumes-cast-to-bigint", File: "internal/storage/bucket/migrations/11-make-stateless/up.sql",
			Old: "            (post_commit_effective_volumes).inputs + case when new.is_source then 0 else new.amount end,\n            (post_commit_effective_volumes).outputs + case when new.is_source then new.amount else 0 end\n", New: "            (post_commit_effective_volumes).inputs::bigint + case when new.is_source then 0 else new.amount end,\n            (post_commit_effective_volumes).outputs + case when new.is_source then new.amount else 0 end\n", Expect: "NUM/sql-function-types"},
	)
	addBreakers("C37",
		Breaker{Name: "sort-without-direction-forces-ascending", File: "internal/query_template.go",
			Old: "\t\t\tdefault:\n\t\t\t\treturn fmt.Errorf(\"invalid order: %s\", parts[1])\n\t\t\t}\n\t\t}\n", New: "\t\t\tdefault:\n\t\t\t\treturn fmt.Errorf(\"invalid order: %s\", parts[1])\n\t\t\t}\n\t\t} else {\n\t\t\tp.SortOrder = pointer.For(paginate.Order(paginate.OrderAsc))\n\t\t}\n", Expect: "KEYS/query-params"},
		Breaker{Name: "parsed-template-body-cached-and-mutated", File: "internal/queries/filter_template.go",
			Old: "\tbuilder, err := query.ParseJSON(string(body))\n\tif err != nil {\n\t\treturn nil, err\n\t}\n\tif builder == nil {", New: "\tbuilder, err := cachedParse(string(body))\n\tif err != nil {\n\t\treturn nil, err\n\t}\n\tif builder == nil {", Old2: "// Resolve filter template using the provided vars", New2: "var parsedBodies = map[string]query.Builder{}\n\nfunc cachedParse(s string) (query.Builder, error) {\n\tif b, ok := parsedBodies[s]; ok {\n\t\treturn b, nil\n\t}\n\tb, err := query.ParseJSON(s)\n\tif err == nil {\n\t\tparsedBodies[s] = b\n\t}\n\treturn b, err\n}\n\n// Resolve filter template using the provided vars", Expect: "STATE/template-resolution"},
	)
	addBreakers("C38",
		Breaker{Name: "unchecked-assertion-on-script-variable", File: "internal/machine/vm/run.go",
			Old: "\t\tcase map[string]any:\n\t\t\tswitch amount := v[\"amount\"].(type) {", New: "\t\tcase map[string]any:\n\t\t\t_ = v[\"asset\"].(string)\n\t\t\tswitch amount := v[\"amount\"].(type) {", Expect: "PANIC/decoders"},
		Breaker{Name: "date-filter-value-not-validated", File: "internal/queries/field.go",
			Old: "\t\t_, err := time.ParseTime(value)\n\t\tif err != nil {\n\t\t\treturn fmt.Errorf(\"invalid date value: %w\", err)\n\t\t}\n", New: "", Expect: "HTTP/filter-validation"},
		Breaker{Name: "truncated-body-accepted", File: "internal/api/v2/controllers_transactions_revert.go",
			Old: "\tif r.ContentLength > 0 {\n\t\tif err := json.NewDecoder(r.Body).Decode(&x); err != nil {", New: "\tif r.ContentLength > 0 {\n\t\tif err := json.NewDecoder(r.Body).Decode(&x); err != nil && !errors.Is(err, errTruncated) {", Old2: "func revertTransaction(w http.ResponseWriter, r *http.Request) {", New2: "var errTruncated = errors.New(\"unexpected EOF\")\n\nfunc revertTransaction(w http.ResponseWriter, r *http.Request) {", Expect: "HTTP/decode-error"},
	)
}

var lossySQLType = regexp.MustCompile(`(?i)^(bigint|integer|int|int2|int4|int8|smallint|real|float|float4|float8|double)$`)

// ruleSQLFunctionNumericTypes: inside the final body of every SQL function that handles amounts or
// volumes, no local variable and no cast uses a fixed-width or floating type.
func ruleSQLFunctionNumericTypes(c *core.Ctx) {
	cat := c.Catalog()
	n := 0
	for _, name := range sqlfe.SortedKeys(cat.Functions) {
		f := cat.Functions[name]
		low := strings.ToLower(f.Body)
		if !(strings.Contains(low, "volumes") || strings.Contains(low, "amount")) {
			continue
		}
		n++
		var bad []string
		toks := f.BodyToks
		// declare section: <name> <type> ;  between `declare` and `begin`
		inDecl := false
		for i := 0; i < len(toks); i++ {
			t := strings.ToLower(toks[i].Text)
			if toks[i].Kind == sqlfe.Ident && t == "declare" {
				inDecl = true
				continue
			}
			if toks[i].Kind == sqlfe.Ident && t == "begin" {
				inDecl = false
			}
			if inDecl && toks[i].Kind == sqlfe.Ident && i+1 < len(toks) && toks[i+1].Kind == sqlfe.Ident && lossySQLType.MatchString(toks[i+1].Text) {
				bad = append(bad, "local "+toks[i].Text+" "+toks[i+1].Text)
			}
			// casts ::type
			if toks[i].Text == "::" && i+1 < len(toks) && lossySQLType.MatchString(toks[i+1].Text) {
				// a cast applied to an amount/volume expression: look at the few tokens before
				ctx := ""
				for j := i - 1; j >= 0 && j >= i-8; j-- {
					ctx = strings.ToLower(toks[j].Text) + " " + ctx
				}
				if strings.Contains(ctx, "amount") || strings.Contains(ctx, "input") || strings.Contains(ctx, "output") || strings.Contains(ctx, "volumes") || strings.Contains(ctx, "balance") {
					bad = append(bad, "cast "+strings.TrimSpace(ctx)+"::"+toks[i+1].Text)
				}
			}
		}
		// locals of a lossy type only matter when they meet an amount/volume: keep those mentioned
		// in a statement that also mentions one
		var relevant []string
		for _, b := range bad {
			if strings.HasPrefix(b, "cast ") {
				relevant = append(relevant, b)
				continue
			}
			v := strings.ToLower(strings.Fields(b)[1])
			for _, st := range strings.Split(low, ";") {
				if regexp.MustCompile(`\b`+regexp.QuoteMeta(v)+`\b`).MatchString(st) && (strings.Contains(st, "volumes") || strings.Contains(st, "amount") || strings.Contains(st, "inputs") || strings.Contains(st, "outputs")) && !strings.Contains(st, "declare") {
					relevant = append(relevant, b)
					break
				}
			}
		}
		sort.Strings(relevant)
		c.Check(len(relevant) == 0, "NUM/sql-function-types", "sql:"+name, f.Origin, "numeric only", fmt.Sprintf("SQL function %s handles amounts/volumes through a fixed-width or floating type (%s): values above 2^63 overflow (`bigint out of range`) or lose digits", name, strings.Join(relevant, "; ")))
	}
	c.Floor("NUM/sql-function-types", "SQL functions handling amounts or volumes", n, 2)
}

// ruleTemplateResolutionStateless: resolving a template builds a new filter from the stored body on
// every call; nothing on that path keeps a parsed filter (which substitution then mutates) in a
// package-level container.
func ruleTemplateResolutionStateless(c *core.Ctx) {
	d := fn(c, pkgQueries, "", "ResolveFilterTemplate")
	if d == nil {
		return
	}
	ix := index(c)
	seen := map[*types.Func]bool{}
	work := []*astx.DeclInfo{d}
	n := 0
	for len(work) > 0 {
		cur := work[0]
		work = work[1:]
		if seen[cur.Obj] {
			continue
		}
		seen[cur.Obj] = true
		n++
		info := cur.Pkg.TypesInfo
		ast.Inspect(cur.Decl.Body, func(x ast.Node) bool {
			switch y := x.(type) {
			case *ast.CallExpr:
				if f := astx.Callee(info, y); f != nil && f.Pkg() != nil && relPkg(f.Pkg().Path()) == pkgQueries {
					if dd := ix.Decls[f]; dd != nil && !seen[f] {
						work = append(work, dd)
					}
				}
			case *ast.Ident:
				v, ok := info.Uses[y].(*types.Var)
				if !ok || v.Pkg() == nil || v.Parent() != v.Pkg().Scope() || relPkg(v.Pkg().Path()) != pkgQueries {
					return true
				}
				// package-level variable of a container type that can hold builders
				ts := v.Type().String()
				holder := strings.Contains(ts, "sync.Map") || strings.Contains(ts, "query.Builder") || strings.Contains(ts, "map[string]interface") || strings.Contains(ts, "map[string]any")
				if holder {
					c.Fail("STATE/template-resolution", declKey(cur)+":uses:"+v.Name(), pos(c, y), "the template resolution path uses the package-level container "+v.Name()+" ("+ts+"): a parsed filter kept across calls is mutated by variable substitution, so a later run of the same template answers with an earlier caller's values")
				}
			}
			return true
		})
	}
	// the body is parsed in this call
	parsed := false
	for f := range seen {
		dd := ix.Decls[f]
		if dd == nil {
			continue
		}
		for _, call := range callsTo(dd.Pkg.TypesInfo, dd.Decl.Body, named("ParseJSON")) {
			if cf := astx.Callee(dd.Pkg.TypesInfo, call); cf != nil && cf.Pkg() != nil && strings.HasSuffix(cf.Pkg().Path(), "/query") {
				parsed = true
			}
		}
	}
	c.Check(parsed, "STATE/template-resolution", declKey(d)+":parses-per-call", pos(c, d.Decl), "query.ParseJSON on the stored body in every resolution", "ResolveFilterTemplate does not parse the stored body itself")
	c.Floor("STATE/template-resolution", "functions on the resolution path", n, 3)
}

// ruleSortOrderOnlyWhenGiven: a template's `sort` sets the order only when it names a direction;
// otherwise the resource default (the one the direct listing uses) stays.
func ruleSortOrderOnlyWhenGiven(c *core.Ctx) {
	d := fn(c, pkgCore, "QueryTemplateParams", "UnmarshalJSON")
	if d == nil {
		return
	}
	info := d.Pkg.TypesInfo
	n := 0
	ast.Inspect(d.Decl.Body, func(x ast.Node) bool {
		as, ok := x.(*ast.AssignStmt)
		if !ok || len(as.Lhs) != 1 || !strings.HasSuffix(types.ExprString(as.Lhs[0]), ".SortOrder") {
			return true
		}
		n++
		fs := factStrings(info, d.Decl.Body, as.Pos())
		okDir := hasFact(fs, "len(parts) > 1", true)
		c.Check(okDir, "KEYS/query-params", fmt.Sprintf("%s:sort-order#%d", declKey(d), n), pos(c, as), "order set only when the sort names a direction", "the params codec sets a sort order although the `sort` value names no direction: the template then sorts differently from the direct listing, whose default for transactions and logs is descending")
		return true
	})
	c.Floor("KEYS/query-params", "assignments of SortOrder", n, 2)
}

// ruleDateFilterValidated: a date filter value given as a string is parsed when the filter is
// validated (a validation error is a 400); left to the resolver it surfaces as a 500.
func ruleDateFilterValidated(c *core.Ctx) {
	d := fn(c, pkgQueries, "TypeDate", "ValidateValue")
	if d == nil {
		c.Unknown("HTTP/filter-validation", pkgQueries+".(TypeDate).ValidateValue", "", "not found")
		return
	}
	info := d.Pkg.TypesInfo
	ok := false
	ast.Inspect(d.Decl.Body, func(x ast.Node) bool {
		cc, isC := x.(*ast.CaseClause)
		if !isC || len(cc.List) != 1 || types.ExprString(cc.List[0]) != "string" {
			return true
		}
		calls := callsTo(info, cc, named("ParseTime"))
		if len(calls) == 1 {
			blk := &ast.BlockStmt{List: cc.Body}
			ok = assignedErrChecked(info, blk, calls[0]) || errLeaves(info, blk, calls[0])
		}
		return true
	})
	c.Check(ok, "HTTP/filter-validation", declKey(d)+":string-parsed", pos(c, d.Decl), "a string date is parsed at validation time, failure returned", "TypeDate.ValidateValue accepts any string: an unparsable date in a filter is no longer refused with a validation error (400) and fails later, in the storage layer, as a 500")
}

// ruleUncheckedAssertionsOnDecodedJSON: in functions reachable from the request decoders, a type
// assertion without the comma-ok form on a value taken out of decoded JSON (`map[string]any`,
// `[]any`) panics on type confusion.
func ruleUncheckedAssertionsOnDecodedJSON(c *core.Ctx) {
	ix := index(c)
	rootPkgs := map[string]bool{pkgCore: true, pkgAPIv1: true, pkgAPIv2: true, pkgBulk: true, pkgCtrl: true, pkgVM: true, pkgQueries: true, pkgCommon: true, pkgAPICommon: true, pkgMachine: true}
	var work []*astx.DeclInfo
	for obj, d := range ix.Decls {
		if !rootPkgs[relPkg(d.Pkg.PkgPath)] || d.Decl.Body == nil {
			continue
		}
		switch obj.Name() {
		case "UnmarshalJSON", "ToCore", "UnmarshalBulkElementPayload":
			work = append(work, d)
		}
	}
	sort.Slice(work, func(i, j int) bool { return astx.FuncKey(work[i].Obj) < astx.FuncKey(work[j].Obj) })
	n := 0
	for _, d := range work {
		for _, f := range d.Pkg.Syntax {
			if f.Pos() <= d.Decl.Pos() && d.Decl.End() <= f.End() && load.IsGenerated(f) {
				continue
			}
		}
		info := d.Pkg.TypesInfo
		fk := astx.FuncKey(d.Obj)
		// assertions that are the tag of a type switch or have a comma-ok are safe
		safe := map[*ast.TypeAssertExpr]bool{}
		ast.Inspect(d.Decl.Body, func(x ast.Node) bool {
			switch y := x.(type) {
			case *ast.TypeSwitchStmt:
				ast.Inspect(y.Assign, func(z ast.Node) bool {
					if ta, ok := z.(*ast.TypeAssertExpr); ok {
						safe[ta] = true
					}
					return true
				})
			case *ast.AssignStmt:
				if len(y.Lhs) == 2 && len(y.Rhs) == 1 {
					if ta, ok := ast.Unparen(y.Rhs[0]).(*ast.TypeAssertExpr); ok {
						safe[ta] = true
					}
				}
			case *ast.ValueSpec:
				if len(y.Names) == 2 && len(y.Values) == 1 {
					if ta, ok := ast.Unparen(y.Values[0]).(*ast.TypeAssertExpr); ok {
						safe[ta] = true
					}
				}
			}
			return true
		})
		occ := 0
		ast.Inspect(d.Decl.Body, func(x ast.Node) bool {
			ta, ok := x.(*ast.TypeAssertExpr)
			if !ok || ta.Type == nil || safe[ta] {
				return true
			}
			// operand: an element of a map[string]any / []any
			ixe, ok := ast.Unparen(ta.X).(*ast.IndexExpr)
			if !ok {
				return true
			}
			ct := info.TypeOf(ixe.X)
			if ct == nil {
				return true
			}
			dynamic := false
			switch u := ct.Underlying().(type) {
			case *types.Map:
				if it, isI := u.Elem().Underlying().(*types.Interface); isI && it.NumMethods() == 0 {
					dynamic = true
				}
			case *types.Slice:
				if it, isI := u.Elem().Underlying().(*types.Interface); isI && it.NumMethods() == 0 {
					dynamic = true
				}
			}
			if !dynamic {
				return true
			}
			occ++
			n++
			c.Fail("PANIC/decoders", fmt.Sprintf("%s:assert#%d", fk, occ), pos(c, ta), "unchecked type assertion "+types.ExprString(ta)+" on a value taken out of decoded JSON: a client sending another JSON type (or omitting the key) makes the handler panic — answered 500 by the recover middleware instead of a 4xx")
			return true
		})
	}
	c.Stats["unchecked_json_assertions"] = n
	ruleDecodedInterfaceAsserted(c, rootPkgs)
}

// ruleDecodedInterfaceAsserted: JSON `null` decoded into a pointer to an interface variable sets
// the variable to nil, whatever it held before; an unchecked type assertion on it afterwards
// panics on input the client controls (a cursor that is the base64 of `null`).
func ruleDecodedInterfaceAsserted(c *core.Ctx, rootPkgs map[string]bool) {
	ix := index(c)
	var work []*astx.DeclInfo
	for _, d := range ix.Decls {
		if rootPkgs[relPkg(d.Pkg.PkgPath)] && d.Decl.Body != nil && !strings.HasSuffix(c.Prog().Rel(d.Decl.Pos()), "_test.go") {
			work = append(work, d)
		}
	}
	sort.Slice(work, func(i, j int) bool { return astx.FuncKey(work[i].Obj) < astx.FuncKey(work[j].Obj) })
	sites := 0
	for _, d := range work {
		info := d.Pkg.TypesInfo
		fk := astx.FuncKey(d.Obj)
		// interface-typed locals that are decode targets
		decoded := map[types.Object]token.Pos{}
		ast.Inspect(d.Decl.Body, func(x ast.Node) bool {
			call, ok := x.(*ast.CallExpr)
			if !ok {
				return true
			}
			f := astx.Callee(info, call)
			if f == nil || f.Pkg() == nil || f.Pkg().Path() != "encoding/json" {
				return true
			}
			var target ast.Expr
			switch {
			case f.Name() == "Unmarshal" && len(call.Args) == 2:
				target = call.Args[1]
			case f.Name() == "Decode" && len(call.Args) == 1:
				target = call.Args[0]
			default:
				return true
			}
			u, ok := ast.Unparen(target).(*ast.UnaryExpr)
			if !ok || u.Op != token.AND {
				return true
			}
			id, ok := ast.Unparen(u.X).(*ast.Ident)
			if !ok {
				return true
			}
			if t := info.TypeOf(id); t != nil && types.IsInterface(t) {
				decoded[info.ObjectOf(id)] = call.End()
				sites++
			}
			return true
		})
		if len(decoded) == 0 {
			continue
		}
		occ := 0
		ast.Inspect(d.Decl.Body, func(x ast.Node) bool {
			// comma-ok assertions and type switches do not panic
			switch y := x.(type) {
			case *ast.TypeSwitchStmt:
				return false
			case *ast.AssignStmt:
				if len(y.Lhs) == 2 && len(y.Rhs) == 1 {
					if _, isTA := ast.Unparen(y.Rhs[0]).(*ast.TypeAssertExpr); isTA {
						return false
					}
				}
			}
			ta, ok := x.(*ast.TypeAssertExpr)
			if !ok || ta.Type == nil {
				return true
			}
			id, ok := ast.Unparen(ta.X).(*ast.Ident)
			if !ok {
				return true
			}
			obj := info.ObjectOf(id)
			after, isDecoded := decoded[obj]
			if !isDecoded || ta.Pos() < after {
				return true
			}
			// a dominating `v != nil` makes the assertion safe against null
			for _, ft := range astx.FactsAt(info, d.Decl.Body, ta.Pos()) {
				be, isBin := ast.Unparen(ft.Cond).(*ast.BinaryExpr)
				if !isBin || !astx.IsNilExpr(info, be.Y) || !usesObj(info, be.X, obj) {
					continue
				}
				if (be.Op == token.NEQ && ft.Positive) || (be.Op == token.EQL && !ft.Positive) {
					return true
				}
			}
			occ++
			c.Fail("PANIC/decoders", fmt.Sprintf("%s:null-into-interface#%d", fk, occ), pos(c, ta), "unchecked type assertion "+types.ExprString(ta)+" on an interface variable that JSON was decoded into: the input `null` sets the variable to nil and the assertion panics — a malformed request is answered 500 instead of 4xx")
			return true
		})
		if occ == 0 {
			c.Pass("PANIC/decoders", fk+":null-into-interface", pos(c, d.Decl), "interface decode targets are nil-checked before being asserted")
		}
	}
	c.Stats["interface_decode_targets"] = sites
}
